package g3env

import (
	"fmt"
	"math/big"
	"math/rand/v2"

	"github.com/aperturerobotics/bifrost/crypto"
	"github.com/aperturerobotics/bifrost/envelope"
	"github.com/aperturerobotics/bifrost/peer"
)

// GrantEncContext is the attacker's replica of the (public, deterministic)
// encryption context of grant gi: anybody who knows a recipient's public key,
// the envelope id (plaintext in the envelope) and the application context can
// encrypt a grant of his own making to that recipient. The check verifies at
// start that this replica still decrypts a genuine grant.
func GrantEncContext(envelopeID, context string, gi int) string {
	return fmt.Sprintf("envelope 2026-02-08T00:00:00Z envelope crypto ctx v1.grant_enc %d:%s %d:%s %d",
		len(envelopeID), envelopeID, len(context), context, gi)
}

// EncryptInner encrypts an attacker-made grant body to a recipient.
func EncryptInner(pub crypto.PubKey, envelopeID, context string, gi int, inner []byte) ([]byte, error) {
	return peer.EncryptToPubKey(pub, GrantEncContext(envelopeID, context, gi), inner)
}

// ristretto255 group order L = 2^252 + 27742317777372353535851937790883648493.
var groupOrder, _ = new(big.Int).SetString("7237005577332262213973186563042994240857116359379907606001950938285454250989", 10)

// ScalarLE encodes a non-negative integer < 2^256 as 32 little-endian bytes.
func ScalarLE(v *big.Int) []byte {
	be := v.Bytes()
	out := make([]byte, 32)
	for i := 0; i < len(be) && i < 32; i++ {
		out[i] = be[len(be)-1-i]
	}
	return out
}

// SmallID is the canonical encoding of the share id n.
func SmallID(n uint64) []byte { return ScalarLE(new(big.Int).SetUint64(n)) }

// NonCanonicalID returns an encoding of the scalar n that differs from the
// canonical one: n+L (variant 0) or n with one of the three unused top bits
// set (variant 1..3).
func NonCanonicalID(n uint64, variant int) []byte {
	if variant%4 == 0 {
		return ScalarLE(new(big.Int).Add(new(big.Int).SetUint64(n), groupOrder))
	}
	b := SmallID(n)
	b[31] |= byte(0x10 << uint(variant%4))
	return b
}

// AttackInner builds one attacker-made grant body. nLegit is the number of
// genuine share ids (1..nLegit) in the envelope.
func AttackInner(rng *rand.Rand, kind string, nLegit int) ([]byte, error) {
	sh := func(id, val []byte) *envelope.EnvelopeShare { return &envelope.EnvelopeShare{Id: id, Value: val} }
	rv := func() []byte { b := RandBytes(rng, 32); b[31] &= 0x0f; return b }
	in := &envelope.EnvelopeGrantInner{}
	if nLegit < 1 {
		nLegit = 1
	}
	switch kind {
	case "zero-id":
		in.Shares = append(in.Shares, sh(make([]byte, 32), rv()), sh(SmallID(uint64(50+rng.IntN(50))), rv()))
	case "dup-exact":
		id := SmallID(uint64(20 + rng.IntN(20)))
		in.Shares = append(in.Shares, sh(id, rv()), sh(append([]byte(nil), id...), rv()), sh(SmallID(77), rv()))
	case "dup-noncanonical":
		n := uint64(20 + rng.IntN(20))
		in.Shares = append(in.Shares, sh(SmallID(n), rv()), sh(NonCanonicalID(n, rng.IntN(4)), rv()), sh(SmallID(78), rv()), sh(SmallID(79), rv()))
	case "dup-noncanonical-pair":
		n := uint64(20 + rng.IntN(20))
		v := rng.IntN(4)
		in.Shares = append(in.Shares, sh(NonCanonicalID(n, v), rv()), sh(NonCanonicalID(n, v+1), rv()), sh(SmallID(80), rv()), sh(SmallID(81), rv()))
	case "collide-legit-noncanonical":
		for n := 1; n <= nLegit; n++ {
			in.Shares = append(in.Shares, sh(NonCanonicalID(uint64(n), rng.IntN(4)), rv()))
		}
	case "poison-legit-ids":
		for n := 1; n <= nLegit; n++ {
			in.Shares = append(in.Shares, sh(SmallID(uint64(n)), rv()))
		}
	case "bad-lengths":
		in.Shares = append(in.Shares, sh(RandBytes(rng, 31), rv()), sh(RandBytes(rng, 33), rv()), sh(nil, rv()), sh(SmallID(5), RandBytes(rng, 7)), sh(SmallID(6), nil), nil, sh(SmallID(90), rv()))
	case "many-shares":
		// 10 000 shares once in a while (each costs a ~700 KB grant), a few
		// hundred otherwise
		total := 100 + rng.IntN(400)
		if rng.IntN(10) == 0 {
			total = 10000
		}
		for n := 0; n < total; n++ {
			in.Shares = append(in.Shares, sh(SmallID(uint64(100+n)), rv()))
		}
	case "all-ones":
		ff := make([]byte, 32)
		for i := range ff {
			ff[i] = 0xff
		}
		in.Shares = append(in.Shares, sh(ff, ff), sh(SmallID(91), ff))
	case "garbage":
		return RandBytes(rng, rng.IntN(80)), nil
	case "empty":
		return nil, nil
	default:
		panic("unknown attack kind " + kind)
	}
	// a nil entry cannot be marshalled by every generator: drop it on error
	b, err := in.MarshalVT()
	return b, err
}

// AttackKinds lists the attacker-made grant bodies.
var AttackKinds = []string{"zero-id", "dup-exact", "dup-noncanonical", "dup-noncanonical-pair", "collide-legit-noncanonical", "poison-legit-ids", "bad-lengths", "many-shares", "all-ones", "garbage", "empty"}
