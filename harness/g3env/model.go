// Package g3env holds what the envelope monitors (C16, C17, C18) share: the
// configuration type and generators, the reference model refEnvelope and the
// helpers that drive the real BuildEnvelope / UnlockEnvelope.
//
// The reference model in this file is written from doc/ENVELOPE.md and the
// comments of envelope/envelope.proto only. It never calls into the envelope
// package and does not look at build.go / unlock.go:
//
//	ENVELOPE.md   "Grant -- An encrypted bundle of one or more Shamir shares.
//	               Each grant is encrypted to one or more keypairs [...].
//	               Decrypting any one of the grant's keypairs yields the shares
//	               inside."
//	              "Threshold -- [...] Recovery requires t + 1 shares."
//	proto         EnvelopeConfig.total_shares "the total number of shares to
//	               create. If zero, defaults to sum of shares across all grant
//	               configs."
//	              EnvelopeGrantConfig.share_count "the number of shares to
//	               include in this grant. If zero, defaults to 1."
//	              EnvelopeGrantConfig.keypair_indexes "Indexes into the keypairs
//	               list provided to BuildEnvelope."
//	              EnvelopeUnlockResult: shares_available "number of shares
//	               recovered from grants", shares_needed "threshold+1",
//	               unlocked_grant_indexes "which grants were successfully
//	               decrypted".
//
// Shares are a finite pool of `total` distinct shares that "grant_configs
// defines how [...] are distributed across grants": they are dealt to the grants
// in order, each grant taking its share_count while shares remain (DESIGN.md
// C16).
package g3env

import (
	"fmt"
	"strings"

	"github.com/aperturerobotics/bifrost/envelope"
)

// Grant is one grant configuration.
type Grant struct {
	Count uint32   // share_count as given (0 means "default 1")
	Idx   []uint32 // keypair_indexes as given (may repeat, may be out of range)
}

// Config is one sealing configuration in harness terms.
type Config struct {
	// Recips[i] is the id (in the harness key pool) of the key listed as
	// recipient keypair i. The same id twice = the same key listed twice.
	Recips   []int
	Thr      uint32
	Override uint32 // total_shares (0 = not set)
	Grants   []Grant
}

// Sig is a canonical, human-readable signature of the configuration.
func (c Config) Sig() string {
	var b strings.Builder
	fmt.Fprintf(&b, "recips=%v thr=%d total=%d grants=", c.Recips, c.Thr, c.Override)
	for i, g := range c.Grants {
		if i > 0 {
			b.WriteByte(';')
		}
		fmt.Fprintf(&b, "%dx%v", g.Count, g.Idx)
	}
	return b.String()
}

// Proto converts to the real configuration message.
func (c Config) Proto() *envelope.EnvelopeConfig {
	ec := &envelope.EnvelopeConfig{Threshold: c.Thr, TotalShares: c.Override}
	for _, g := range c.Grants {
		ec.GrantConfigs = append(ec.GrantConfigs, &envelope.EnvelopeGrantConfig{
			ShareCount:     g.Count,
			KeypairIndexes: append([]uint32(nil), g.Idx...),
		})
	}
	return ec
}

// Ref is refEnvelope: what a sealed envelope of a configuration consists of
// according to the documentation.
type Ref struct {
	// WellFormed: every keypair index names one of the recipients.
	WellFormed bool
	// Needed is threshold+1.
	Needed uint64
	// Total is the number of shares created.
	Total uint64
	// Natural[i] is the number of shares grant i asks for (share_count, 0 => 1).
	Natural []uint64
	// Shares[i] lists the share numbers (0..Total-1) grant i holds.
	Shares [][]uint64
	cfg    Config
}

// NewRef builds the reference envelope for a configuration.
func NewRef(c Config) Ref {
	r := Ref{WellFormed: true, Needed: uint64(c.Thr) + 1, cfg: c}
	var sum uint64
	for _, g := range c.Grants {
		n := uint64(g.Count)
		if n == 0 {
			n = 1
		}
		r.Natural = append(r.Natural, n)
		sum += n
		for _, ix := range g.Idx {
			if uint64(ix) >= uint64(len(c.Recips)) {
				r.WellFormed = false
			}
		}
	}
	r.Total = sum
	if c.Override > 0 {
		r.Total = uint64(c.Override)
	}
	next := uint64(0)
	for i := range c.Grants {
		var held []uint64
		for k := uint64(0); k < r.Natural[i] && next < r.Total; k++ {
			held = append(held, next)
			next++
		}
		r.Shares = append(r.Shares, held)
	}
	return r
}

// Reach says what a set of offered private keys (pool ids) can reach: the
// grants they can decrypt (ascending) and the number of distinct shares inside
// those grants. A grant is reached iff one of its indexes names a recipient
// slot whose key is among the offered ones; an index that names no recipient
// reaches nothing.
func (r Ref) Reach(offered map[int]bool) (grants []uint32, available uint64) {
	seen := map[uint64]bool{}
	for gi, g := range r.cfg.Grants {
		hit := false
		for _, ix := range g.Idx {
			if uint64(ix) < uint64(len(r.cfg.Recips)) && offered[r.cfg.Recips[ix]] {
				hit = true
				break
			}
		}
		if !hit {
			continue
		}
		grants = append(grants, uint32(gi))
		for _, s := range r.Shares[gi] {
			seen[s] = true
		}
	}
	return grants, uint64(len(seen))
}

// AllRecipients is the key set "every recipient presents its private key".
func (r Ref) AllRecipients() map[int]bool {
	m := map[int]bool{}
	for _, id := range r.cfg.Recips {
		m[id] = true
	}
	return m
}

// Openable reports whether the recipients together reach threshold+1 shares.
// As reach is monotone in the key set, !Openable means no set of recipient
// keys can ever open the envelope.
func (r Ref) Openable() bool {
	_, av := r.Reach(r.AllRecipients())
	return av >= r.Needed
}

// UnopenableClass names why a configuration cannot be opened (for stable
// violation keys). Only meaningful when !Openable().
func (r Ref) UnopenableClass() string {
	var placed, wantDecryptable uint64
	for gi, g := range r.cfg.Grants {
		placed += uint64(len(r.Shares[gi]))
		dec := false
		for _, ix := range g.Idx {
			if uint64(ix) < uint64(len(r.cfg.Recips)) {
				dec = true
			}
		}
		if dec {
			wantDecryptable += r.Natural[gi]
		}
	}
	switch {
	case placed < r.Needed:
		// total_shares / threshold promise more shares than the grants hold
		return "fewer-shares-placed-than-needed"
	case wantDecryptable >= r.Needed:
		// total_shares smaller than the sum: decryptable grants are starved
		return "total-shares-starves-decryptable-grants"
	default:
		return "shares-in-grants-nobody-can-decrypt"
	}
}
