package g3env

import (
	"bytes"
	"fmt"
	"math/rand/v2"
	"sort"
	"sync"

	"github.com/aperturerobotics/bifrost/crypto"
	"github.com/aperturerobotics/bifrost/envelope"
	"verifharness/keys"
	"verifharness/vf"
)

// Workers is the parallelism used for seal / unseal sets.
const Workers = 16

// NewPool makes the deterministic identity pool.
func NewPool(r *vf.Run) []*keys.Identity { return keys.Pool(r.Rand("g3env/pool"), PoolSize) }

// Batches runs f(i) for i in [0,n) on Workers goroutines, batch by batch; the
// batch is journalled with r.Begin before it starts.
func Batches(r *vf.Run, n, batch int, desc func(i int) string, f func(i int)) {
	for lo := 0; lo < n; lo += batch {
		hi := lo + batch
		if hi > n {
			hi = n
		}
		r.Begin(fmt.Sprintf("batch [%d,%d) first case: %s", lo, hi, desc(lo)))
		var wg sync.WaitGroup
		next := lo
		var mu sync.Mutex
		for w := 0; w < Workers; w++ {
			wg.Add(1)
			go func() {
				defer wg.Done()
				for {
					mu.Lock()
					i := next
					next++
					mu.Unlock()
					if i >= hi {
						return
					}
					f(i)
				}
			}()
		}
		wg.Wait()
	}
}

// RandBytes draws n PRNG bytes.
func RandBytes(rng *rand.Rand, n int) []byte {
	b := make([]byte, n)
	for i := range b {
		b[i] = byte(rng.UintN(256))
	}
	return b
}

var ctxAlphabet = []string{"a", "b", "/", " ", "v1", "myapp", "session", "\x00", "ü", "日本", ":", "0", "1"}

// RandContext draws a context string (may be empty, contain NUL / unicode).
func RandContext(rng *rand.Rand) string {
	switch rng.IntN(8) {
	case 0:
		return ""
	case 1:
		return string(RandBytes(rng, 1+rng.IntN(40)))
	}
	s := ""
	for k := 1 + rng.IntN(6); k > 0; k-- {
		s += ctxAlphabet[rng.IntN(len(ctxAlphabet))]
	}
	return s
}

// Sealed is the outcome of one BuildEnvelope call.
type Sealed struct {
	Cfg     Config
	Ctx     string
	Payload []byte
	Env     *envelope.Envelope
	Err     error
	Panic   string // non-empty if BuildEnvelope panicked
}

// Seal runs the real BuildEnvelope on the configuration.
func Seal(pool []*keys.Identity, c Config, ctx string, payload []byte, rng *rand.Rand) *Sealed {
	s := &Sealed{Cfg: c, Ctx: ctx, Payload: payload}
	pubs := make([]crypto.PubKey, len(c.Recips))
	for i, id := range c.Recips {
		pubs[i] = pool[id].Pub
	}
	p, d := vf.Try(func() {
		s.Env, s.Err = envelope.BuildEnvelope(vf.Reader{R: rng}, ctx, append([]byte(nil), payload...), pubs, c.Proto())
	})
	if p {
		s.Panic = d
	}
	return s
}

// Obs is the outcome of one UnlockEnvelope call.
type Obs struct {
	Payload []byte
	Res     *envelope.EnvelopeUnlockResult
	Err     error
	Panic   string
}

// Unlock runs the real UnlockEnvelope with the private keys of the given pool
// ids (in that order).
func Unlock(pool []*keys.Identity, ctx string, env *envelope.Envelope, ids []int) Obs {
	privs := make([]crypto.PrivKey, len(ids))
	for i, id := range ids {
		privs[i] = pool[id].Priv
	}
	var o Obs
	p, d := vf.Try(func() { o.Payload, o.Res, o.Err = envelope.UnlockEnvelope(ctx, env, privs) })
	if p {
		o.Panic = d
	}
	return o
}

func (o Obs) String() string {
	e := "<nil>"
	if o.Err != nil {
		e = o.Err.Error()
	}
	res := "<nil>"
	if o.Res != nil {
		res = fmt.Sprintf("{success:%v available:%d needed:%d grants:%v}", o.Res.GetSuccess(), o.Res.GetSharesAvailable(), o.Res.GetSharesNeeded(), o.Res.GetUnlockedGrantIndexes())
	}
	return fmt.Sprintf("payload=%s result=%s err=%s panic=%q", vf.Hex(o.Payload), res, e, o.Panic)
}

// Expect is what refEnvelope predicts for one unseal.
type Expect struct {
	Grants    []uint32
	Available uint64
	Needed    uint64
	Open      bool
}

// Predict evaluates refEnvelope for the offered pool ids.
func Predict(ref Ref, offered []int) Expect {
	m := map[int]bool{}
	for _, id := range offered {
		m[id] = true
	}
	g, av := ref.Reach(m)
	return Expect{Grants: g, Available: av, Needed: ref.Needed, Open: av >= ref.Needed}
}

// Mismatch describes a disagreement between an observation and the model.
type Mismatch struct {
	Key  string
	What string
}

// Compare decides one unseal of an intact, accepted envelope against the model
// (the C16 oracle). It returns nil when they agree.
func Compare(s *Sealed, ex Expect, o Obs) []Mismatch {
	var out []Mismatch
	add := func(k, w string) { out = append(out, Mismatch{k, w}) }
	if o.Panic != "" {
		add("unlock/panic", "UnlockEnvelope panicked: "+o.Panic)
		return out
	}
	if o.Err != nil {
		if ex.Open {
			add("unlock/error/enough-shares-reachable", "UnlockEnvelope returned an error although the offered keys reach threshold+1 shares: "+o.Err.Error())
		} else {
			add("unlock/error/intact-envelope", "UnlockEnvelope returned an error (not a progress result) on an intact envelope: "+o.Err.Error())
		}
		if len(o.Payload) != 0 {
			add("unlock/payload-with-error", "payload returned together with an error")
		}
		return out
	}
	if o.Res == nil {
		add("unlock/nil-result", "UnlockEnvelope returned neither a result nor an error")
		return out
	}
	switch {
	case ex.Open && !o.Res.GetSuccess():
		add("unlock/refused/enough-shares-reachable", fmt.Sprintf("offered keys reach %d >= %d distinct shares but unsealing did not succeed", ex.Available, ex.Needed))
	case !ex.Open && o.Res.GetSuccess():
		add("unlock/opened/too-few-shares-reachable", fmt.Sprintf("offered keys reach only %d < %d distinct shares but unsealing succeeded", ex.Available, ex.Needed))
	}
	if o.Res.GetSuccess() {
		if !bytes.Equal(o.Payload, s.Payload) {
			add("unlock/payload-differs", "unsealing succeeded with a payload that is not the sealed one")
		}
	} else if len(o.Payload) != 0 {
		add("unlock/payload-without-success", "payload returned although the result does not report success")
	}
	if uint64(o.Res.GetSharesAvailable()) != ex.Available {
		add("unlock/report/shares-available", fmt.Sprintf("shares_available=%d, offered keys reach %d distinct shares", o.Res.GetSharesAvailable(), ex.Available))
	}
	if uint64(o.Res.GetSharesNeeded()) != ex.Needed {
		add("unlock/report/shares-needed", fmt.Sprintf("shares_needed=%d, threshold+1=%d", o.Res.GetSharesNeeded(), ex.Needed))
	}
	got := append([]uint32(nil), o.Res.GetUnlockedGrantIndexes()...)
	sort.Slice(got, func(i, j int) bool { return got[i] < got[j] })
	if fmt.Sprint(got) != fmt.Sprint(ex.Grants) && !(len(got) == 0 && len(ex.Grants) == 0) {
		add("unlock/report/unlocked-grants", fmt.Sprintf("unlocked_grant_indexes=%v, offered keys can decrypt grants %v", o.Res.GetUnlockedGrantIndexes(), ex.Grants))
	}
	return out
}

// DistinctKeys returns the distinct pool ids among the recipients (ascending).
func DistinctKeys(c Config) []int {
	m := map[int]bool{}
	for _, id := range c.Recips {
		m[id] = true
	}
	out := make([]int, 0, len(m))
	for id := range m {
		out = append(out, id)
	}
	sort.Ints(out)
	return out
}

// Witness is the JSON witness of one configuration / unseal.
func Witness(s *Sealed, offered []int, ex *Expect, o *Obs) map[string]any {
	w := map[string]any{
		"config":  s.Cfg.Sig(),
		"context": s.Ctx,
		"payload": vf.Hex(s.Payload),
	}
	if s.Err != nil {
		w["seal_error"] = s.Err.Error()
	}
	if offered != nil {
		w["offered_key_ids"] = offered
	}
	if ex != nil {
		w["model"] = fmt.Sprintf("%+v", *ex)
	}
	if o != nil {
		w["observed"] = o.String()
	}
	return w
}
