package g3env

// Attacker-made, structurally VALID envelopes for decoders that must not
// panic on remote input (C40). Everything in an envelope is chosen by its
// author: threshold, grant list, and - because grants are encrypted to PUBLIC
// keys under a public, deterministic context - the share lists inside the
// grants. Byte-level mutants of a genuine envelope never get behind the
// authenticated decryption of a grant; the envelopes built here do.
//
// Added for C40; nothing in this file changes the behaviour of the helpers the
// C16-C18 checks use (AttackInner / AttackKinds are reused unchanged).

import (
	"fmt"
	"math/big"
	"math/rand/v2"

	"github.com/aperturerobotics/bifrost/crypto"
	"github.com/aperturerobotics/bifrost/envelope"
)

// EquivalentIDs returns up to 16 different 32-byte strings that a Ristretto255
// scalar decoder which reduces its input (and ignores the three unused top
// bits) maps to the scalar n: {n, n+L} x {top bits 000..111}. The canonical
// encoding comes first. Whether the decoder really treats them as equal is the
// decoder's business; CraftKinds only needs them as candidates (the C40 check
// counts, with circl itself, how many really coincide).
func EquivalentIDs(n uint64) [][]byte {
	var out [][]byte
	for _, base := range []*big.Int{new(big.Int).SetUint64(n), new(big.Int).Add(new(big.Int).SetUint64(n), groupOrder)} {
		for top := 0; top < 8; top++ {
			b := ScalarLE(base)
			b[31] |= byte(top << 5)
			out = append(out, b)
		}
	}
	return out
}

// CraftKinds lists the crafted share layouts of CraftInners: the AttackKinds
// of the C18 check plus layouts that aim at what happens AFTER the shares were
// accepted (interpolation over the first threshold+1 collected shares).
var CraftKinds = append(append([]string(nil), AttackKinds...),
	"dup-equivalent-all",      // k shares, all encodings of ONE scalar, then distinct ones
	"dup-equivalent-late",     // distinct shares, then another encoding of the FIRST id at a PRNG position
	"dup-equivalent-pairs",    // (n1, n1', n2, n2', ...): every id twice in two encodings
	"dup-across-grants",       // the two encodings of one id sit in two different grants
	"dup-exact-across-grants", // the same id bytes in two grants
	"zero-equivalents",        // ids 0, L, 0 with top bits: all encodings of the zero scalar
	"oversized-id",            // ids / values of 33, 64, 4096 bytes whose first 32 bytes are another share's id
	"thousands-duplicates",    // thousands of shares that are all one scalar in 16 encodings
	"thousands-distinct",      // thousands of distinct shares
	"values-equal",            // distinct ids, identical values
	"value-noncanonical",      // canonical ids, values >= L / top bits set
)

// CraftInners builds the plaintext grant bodies (one per crafted grant; most
// kinds need one, "...-across-grants" two) of one attacker-made envelope.
func CraftInners(rng *rand.Rand, kind string, nLegit int) ([][]byte, error) {
	sh := func(id, val []byte) *envelope.EnvelopeShare { return &envelope.EnvelopeShare{Id: id, Value: val} }
	rv := func() []byte { b := RandBytes(rng, 32); b[31] &= 0x0f; return b }
	enc := func(n uint64) []byte { // a PRNG non-canonical encoding of n
		e := EquivalentIDs(n)
		return e[1+rng.IntN(len(e)-1)]
	}
	marshal := func(ins ...*envelope.EnvelopeGrantInner) ([][]byte, error) {
		var out [][]byte
		for _, in := range ins {
			b, err := in.MarshalVT()
			if err != nil {
				return nil, err
			}
			out = append(out, b)
		}
		return out, nil
	}
	in := &envelope.EnvelopeGrantInner{}
	n0 := uint64(20 + rng.IntN(20))
	switch kind {
	case "dup-equivalent-all":
		e := EquivalentIDs(n0)
		rng.Shuffle(len(e), func(i, j int) { e[i], e[j] = e[j], e[i] })
		for _, id := range e[:2+rng.IntN(len(e)-1)] {
			in.Shares = append(in.Shares, sh(id, rv()))
		}
		for k := 0; k < rng.IntN(4); k++ {
			in.Shares = append(in.Shares, sh(SmallID(100+uint64(k)), rv()))
		}
	case "dup-equivalent-late":
		total := 2 + rng.IntN(6)
		for k := 0; k < total; k++ {
			in.Shares = append(in.Shares, sh(SmallID(n0+uint64(k)), rv()))
		}
		pos := 1 + rng.IntN(total)
		dup := sh(enc(n0), rv())
		in.Shares = append(in.Shares[:pos], append([]*envelope.EnvelopeShare{dup}, in.Shares[pos:]...)...)
	case "dup-equivalent-pairs":
		for k := 0; k < 1+rng.IntN(4); k++ {
			n := n0 + uint64(k)
			in.Shares = append(in.Shares, sh(SmallID(n), rv()), sh(enc(n), rv()))
		}
	case "dup-across-grants", "dup-exact-across-grants":
		in2 := &envelope.EnvelopeGrantInner{}
		second := enc(n0)
		if kind == "dup-exact-across-grants" {
			second = SmallID(n0)
		}
		in.Shares = append(in.Shares, sh(SmallID(n0), rv()))
		in2.Shares = append(in2.Shares, sh(second, rv()))
		for k := 0; k < rng.IntN(3); k++ {
			in.Shares = append(in.Shares, sh(SmallID(200+uint64(k)), rv()))
			in2.Shares = append(in2.Shares, sh(SmallID(300+uint64(k)), rv()))
		}
		if rng.IntN(2) == 0 {
			in, in2 = in2, in
		}
		return marshal(in, in2)
	case "zero-equivalents":
		e := EquivalentIDs(0)
		for _, id := range e[:2+rng.IntN(6)] {
			in.Shares = append(in.Shares, sh(id, rv()))
		}
		in.Shares = append(in.Shares, sh(SmallID(5), rv()))
	case "oversized-id":
		id := SmallID(n0)
		in.Shares = append(in.Shares, sh(id, rv()))
		for _, l := range []int{33, 64, 4096} {
			in.Shares = append(in.Shares, sh(append(append([]byte(nil), id...), make([]byte, l-32)...), rv()))
			in.Shares = append(in.Shares, sh(SmallID(n0+uint64(l)), append(rv(), make([]byte, l-32)...)))
		}
		in.Shares = append(in.Shares, sh(enc(n0), rv()))
	case "thousands-duplicates":
		e := EquivalentIDs(n0)
		for k := 0; k < 1000+rng.IntN(3000); k++ {
			in.Shares = append(in.Shares, sh(e[k%len(e)], rv()))
		}
	case "thousands-distinct":
		for k := 0; k < 1000+rng.IntN(3000); k++ {
			in.Shares = append(in.Shares, sh(SmallID(1000+uint64(k)), rv()))
		}
	case "values-equal":
		v := rv()
		for k := 0; k < 2+rng.IntN(5); k++ {
			in.Shares = append(in.Shares, sh(SmallID(n0+uint64(k)), append([]byte(nil), v...)))
		}
	case "value-noncanonical":
		for k := 0; k < 2+rng.IntN(5); k++ {
			in.Shares = append(in.Shares, sh(SmallID(n0+uint64(k)), enc(uint64(rng.IntN(1000)))))
		}
	default:
		b, err := AttackInner(rng, kind, nLegit)
		if err != nil {
			return nil, err
		}
		return [][]byte{b}, nil
	}
	return marshal(in)
}

// CraftLayouts: where the crafted grants go relative to the grants of the
// genuine envelope the attacker starts from.
var CraftLayouts = []string{"only", "append", "prepend", "replace-first"}

// CraftEnvelope returns a copy of base (a genuine envelope for application
// context ctx whose keypair slot i belongs to pubs[i]) in which the crafted
// grant bodies are placed according to layout, each encrypted to keypair slot
// `slot` under the documented grant context of its final grant index, and with
// the threshold field set to threshold.
func CraftEnvelope(base *envelope.Envelope, ctx string, pubs []crypto.PubKey, slot int, inners [][]byte, layout string, threshold uint32) (*envelope.Envelope, error) {
	if slot < 0 || slot >= len(pubs) {
		return nil, fmt.Errorf("g3env: slot %d out of range", slot)
	}
	e := base.CloneVT()
	e.Threshold = threshold
	first := 0
	switch layout {
	case "only":
		e.Grants = nil
	case "append":
		first = len(e.Grants)
	case "prepend":
		// genuine grants move up: they no longer decrypt (their context names
		// their old index), which is part of the hostile layout
		e.Grants = append(make([]*envelope.EnvelopeGrant, len(inners)), e.Grants...)
	case "replace-first":
		for len(e.Grants) < len(inners) {
			e.Grants = append(e.Grants, &envelope.EnvelopeGrant{})
		}
	default:
		return nil, fmt.Errorf("g3env: unknown layout %q", layout)
	}
	for k, inner := range inners {
		gi := first + k
		ct, err := EncryptInner(pubs[slot], e.GetEnvelopeId(), ctx, gi, inner)
		if err != nil {
			return nil, err
		}
		gr := &envelope.EnvelopeGrant{KeypairIndexes: []uint32{uint32(slot)}, Ciphertexts: [][]byte{ct}}
		if gi < len(e.Grants) {
			e.Grants[gi] = gr
		} else {
			e.Grants = append(e.Grants, gr)
		}
	}
	return e, nil
}
