package g3env

import (
	"math"
	"math/rand/v2"
)

// PoolSize is the number of identities the generators refer to. Ids
// 0..PoolSize-2 may be recipients; PoolSize-1 is never a recipient (the
// "unrelated" key).
const PoolSize = 6

// Unrelated is the pool id of the key that is never a recipient.
const Unrelated = PoolSize - 1

// Exhaustive enumerates every configuration with maxGrants or fewer grants
// inside the property's bound: 1-3 (distinct) recipients, share counts 0-2,
// every subset of the recipients as keypair index list (ascending), thresholds
// 0-3, total-share overrides 0-5. With maxGrants = 2 these are 19152
// configurations.
func Exhaustive(maxGrants int) []Config {
	var out []Config
	for nr := 1; nr <= 3; nr++ {
		recips := make([]int, nr)
		for i := range recips {
			recips[i] = i
		}
		var layouts []Grant
		for cnt := uint32(0); cnt <= 2; cnt++ {
			for mask := 0; mask < 1<<nr; mask++ {
				var idx []uint32
				for b := 0; b < nr; b++ {
					if mask&(1<<b) != 0 {
						idx = append(idx, uint32(b))
					}
				}
				layouts = append(layouts, Grant{Count: cnt, Idx: idx})
			}
		}
		var rec func(prefix []Grant, left int)
		emit := func(gs []Grant) {
			for thr := uint32(0); thr <= 3; thr++ {
				for ov := uint32(0); ov <= 5; ov++ {
					out = append(out, Config{Recips: recips, Thr: thr, Override: ov, Grants: append([]Grant(nil), gs...)})
				}
			}
		}
		rec = func(prefix []Grant, left int) {
			if len(prefix) > 0 {
				emit(prefix)
			}
			if left == 0 {
				return
			}
			for _, l := range layouts {
				rec(append(prefix[:len(prefix):len(prefix)], l), left-1)
			}
		}
		rec(nil, maxGrants)
	}
	return out
}

// Random draws one configuration from the property's bound with everything
// the exhaustive part leaves out: 1-4 grants (weighted to 3-4), arbitrary
// index lists (repeated indexes, any order), the same key listed as several
// recipients, and occasionally an index that names no recipient.
func Random(rng *rand.Rand) Config {
	nr := 1 + rng.IntN(3)
	c := Config{Thr: uint32(rng.IntN(4)), Override: uint32(rng.IntN(6))}
	perm := rng.Perm(PoolSize - 1)
	for i := 0; i < nr; i++ {
		id := perm[i]
		if i > 0 && rng.IntN(7) == 0 {
			id = c.Recips[rng.IntN(i)] // same key listed twice
		}
		c.Recips = append(c.Recips, id)
	}
	ng := []int{1, 2, 3, 3, 3, 4, 4, 4}[rng.IntN(8)]
	for g := 0; g < ng; g++ {
		gr := Grant{Count: uint32(rng.IntN(3))}
		n := []int{0, 1, 1, 1, 2, 2, 3, 4}[rng.IntN(8)]
		for k := 0; k < n; k++ {
			ix := uint32(rng.IntN(nr))
			if rng.IntN(60) == 0 {
				ix = []uint32{uint32(nr), uint32(nr) + 5, math.MaxUint32}[rng.IntN(3)]
			}
			gr.Idx = append(gr.Idx, ix)
		}
		c.Grants = append(c.Grants, gr)
	}
	return c
}
