package g8sig

import (
	"context"
	"errors"
	"sync"

	signaling_rpc "github.com/aperturerobotics/bifrost/signaling/rpc"
	"github.com/aperturerobotics/starpc/srpc"
)

// ErrKilled is returned by a stream the harness killed.
var ErrKilled = errors.New("g8sig: stream reset by harness")

// queue is an unbounded FIFO with a terminal error; receivers park in select.
type queue[T any] struct {
	mu     sync.Mutex
	items  []T
	err    error
	// softErr is a terminal error reported after the queued items were taken
	softErr error
	notify  chan struct{}
	// gets counts completed + started receive calls
	recvCalls int
}

func (q *queue[T]) wake() {
	if q.notify != nil {
		close(q.notify)
		q.notify = nil
	}
}

func (q *queue[T]) put(v T) bool {
	q.mu.Lock()
	defer q.mu.Unlock()
	if q.err != nil || q.softErr != nil {
		return false
	}
	q.items = append(q.items, v)
	q.wake()
	return true
}

func (q *queue[T]) fail(err error) {
	q.mu.Lock()
	if q.err == nil {
		q.err = err
		q.wake()
	}
	q.mu.Unlock()
}

// failSoft sets a terminal error that is reported only once the queue is drained.
func (q *queue[T]) failSoft(err error) {
	q.mu.Lock()
	if q.err == nil && q.softErr == nil {
		q.softErr = err
		q.wake()
	}
	q.mu.Unlock()
}

func (q *queue[T]) length() int { q.mu.Lock(); defer q.mu.Unlock(); return len(q.items) }

// get blocks until an item, a terminal error (after the queue drained unless
// hard) or ctx end.
func (q *queue[T]) get(ctx context.Context) (T, error) {
	var zero T
	q.mu.Lock()
	q.recvCalls++
	q.mu.Unlock()
	for {
		q.mu.Lock()
		if q.err != nil {
			err := q.err
			q.mu.Unlock()
			return zero, err
		}
		if len(q.items) > 0 {
			v := q.items[0]
			q.items = q.items[1:]
			q.mu.Unlock()
			return v, nil
		}
		if q.softErr != nil {
			err := q.softErr
			q.mu.Unlock()
			return zero, err
		}
		if q.notify == nil {
			q.notify = make(chan struct{})
		}
		ch := q.notify
		q.mu.Unlock()
		select {
		case <-ch:
		case <-ctx.Done():
			return zero, context.Canceled
		}
	}
}

// CStream is the client-side end of a Session call
// (signaling_rpc.SRPCSignaling_SessionClient). Requests of the client go to
// OnSend inline (in the client's goroutine); responses are queued with Push.
type CStream struct {
	ID     int
	ctx    context.Context
	cancel context.CancelFunc
	in     queue[*signaling_rpc.SessionResponse]

	// OnSend handles a client request inline. An error is returned to the client.
	OnSend func(s *CStream, req *signaling_rpc.SessionRequest) error
	// OnClose is called (once) when the client closes the stream.
	OnClose func(s *CStream)

	mu       sync.Mutex
	closed   bool // client called Close
	dead     bool // killed by the harness / remote end finished
	initSeen bool
	target   string
	nReq     int
	endCh    chan struct{} // closed when the stream ends (either side)
	ended    bool
	sendErr  error // what Send returns after the harness ended the stream (nil: ErrKilled)
	swallow  bool  // half-closed by the remote: Send succeeds, the request goes nowhere
	// failInFlight: the write during which the stream ended fails too
	failInFlight bool
	gates    []*wgate
}

// wgate is a one-shot write gate: the next client request of the given kind
// parks inside Send (the client's writer is blocked on a slow link) until the
// harness releases it.
type wgate struct {
	kind   string // send | ack | clear | any
	after  bool   // park after the request was handed to the relay (else before)
	taken  bool
	parked bool
	ch     chan struct{}
	rec    ReqRec // the request that took the gate
}

// NewCStream makes a client stream bound to ctx.
func NewCStream(ctx context.Context, id int) *CStream {
	s := &CStream{ID: id, endCh: make(chan struct{})}
	s.ctx, s.cancel = context.WithCancel(ctx)
	return s
}

// endL marks the stream as ended (lock held).
func (s *CStream) endL() {
	if !s.ended {
		s.ended = true
		close(s.endCh)
	}
}

// StallWrite arms a one-shot write gate: the next request of kind (send | ack
// | clear | any; never the Init) blocks the client's writer inside Send, before
// the relay sees it (after=false) or after the relay has handled it but before
// Send returns (after=true), until ReleaseWrites. A parked writer sits in a
// select, i.e. counts as quiescent.
func (s *CStream) StallWrite(kind string, after bool) {
	Ev()
	s.mu.Lock()
	s.gates = append(s.gates, &wgate{kind: kind, after: after, ch: make(chan struct{})})
	s.mu.Unlock()
}

// ReleaseWrites opens every write gate of the stream. Returns the number of
// writers that were parked in one.
func (s *CStream) ReleaseWrites() int {
	Ev()
	s.mu.Lock()
	n := 0
	for _, g := range s.gates {
		if g.parked {
			n++
		}
		close(g.ch)
	}
	s.gates = nil
	s.mu.Unlock()
	return n
}

// WritersParked is the number of client writers currently parked in a gate.
func (s *CStream) WritersParked() int {
	s.mu.Lock()
	defer s.mu.Unlock()
	n := 0
	for _, g := range s.gates {
		if g.parked {
			n++
		}
	}
	return n
}

// ParkedBefore returns the requests whose write is parked BEFORE the relay saw
// them (in flight on the slow link: the client regards them as transmitted).
func (s *CStream) ParkedBefore() []ReqRec {
	s.mu.Lock()
	defer s.mu.Unlock()
	var out []ReqRec
	for _, g := range s.gates {
		if g.parked && !g.after {
			out = append(out, g.rec)
		}
	}
	return out
}

// takeGateL returns the first armed gate matching kind (lock held).
func (s *CStream) takeGateL(kind string) *wgate {
	if kind == "init" {
		return nil
	}
	for _, g := range s.gates {
		if !g.taken && (g.kind == "any" || g.kind == kind) {
			g.taken = true
			return g
		}
	}
	return nil
}

// park blocks in gate g until it is released or the stream ends.
func (s *CStream) park(g *wgate) {
	s.mu.Lock()
	g.parked = true
	s.mu.Unlock()
	Ev()
	select {
	case <-g.ch:
	case <-s.endCh:
	case <-s.ctx.Done():
	}
	s.mu.Lock()
	g.parked = false
	s.mu.Unlock()
	Ev()
}

// Push queues a response for the client. Returns false if the stream is dead.
func (s *CStream) Push(r *signaling_rpc.SessionResponse) bool {
	Ev()
	return s.in.put(r)
}

// Kill makes the client's Recv and Send fail.
func (s *CStream) Kill(err error) {
	Ev()
	s.mu.Lock()
	s.dead = true
	s.endL()
	s.mu.Unlock()
	s.in.fail(err)
}

// EndShape describes how a stream ends from the client's point of view.
type EndShape struct {
	Name string
	// RecvErr is what the client's Recv returns (io.EOF = the remote ended the
	// call without an error).
	RecvErr error
	// Drain: responses already queued are still handed out before RecvErr (a
	// graceful end); otherwise they are lost with the stream.
	Drain bool
	// SendErr is what later Sends return; nil with Swallow = the remote only
	// closed ITS direction (half-close): the client can still write, nobody reads.
	SendErr error
	Swallow bool
	// CancelCtx: the stream's context ends with the stream (as for an rpc whose
	// transport went away).
	CancelCtx bool
	// FailInFlight: a Send that is in progress when the stream ends (the end is
	// injected from inside that write) returns SendErr instead of succeeding.
	FailInFlight bool
}

// End ends the stream in the given shape.
func (s *CStream) End(sh EndShape) {
	Ev()
	s.mu.Lock()
	s.dead = true
	s.sendErr = sh.SendErr
	s.swallow = sh.Swallow && sh.SendErr == nil
	s.failInFlight = sh.FailInFlight && !s.swallow
	s.endL()
	s.mu.Unlock()
	if sh.Drain {
		s.in.failSoft(sh.RecvErr)
	} else {
		s.in.fail(sh.RecvErr)
	}
	if sh.CancelCtx {
		s.cancel()
	}
}

// Alive reports that neither side ended the stream.
func (s *CStream) Alive() bool { s.mu.Lock(); defer s.mu.Unlock(); return !s.closed && !s.dead }

// Closed reports that the client closed the stream.
func (s *CStream) Closed() bool { s.mu.Lock(); defer s.mu.Unlock(); return s.closed }

// InitSeen reports that the client's Init request arrived, and its target.
func (s *CStream) InitSeen() (bool, string) {
	s.mu.Lock()
	defer s.mu.Unlock()
	return s.initSeen, s.target
}

// Pending is the number of responses not yet taken by the client.
func (s *CStream) Pending() int { return s.in.length() }

// Context implements srpc.Stream.
func (s *CStream) Context() context.Context { return s.ctx }

// Send implements SRPCSignaling_SessionClient.
func (s *CStream) Send(req *signaling_rpc.SessionRequest) error {
	Ev()
	s.mu.Lock()
	if s.closed || s.dead {
		err, sw := s.sendErr, s.swallow && !s.closed
		s.mu.Unlock()
		if sw {
			return nil
		}
		if err == nil {
			err = ErrKilled
		}
		return err
	}
	s.nReq++
	if in, ok := req.GetBody().(*signaling_rpc.SessionRequest_Init); ok && !s.initSeen {
		s.initSeen = true
		s.target = in.Init.GetPeerId()
	}
	h := s.OnSend
	rec := Classify(s.ID, req)
	g := s.takeGateL(rec.Kind)
	if g != nil {
		g.rec = rec
	}
	s.mu.Unlock()
	if g != nil && !g.after {
		s.park(g)
		if !s.Alive() {
			// the stream ended while the write was blocked: the request is lost
			return s.deadSendErr()
		}
	}
	var err error
	if h != nil {
		err = h(s, req)
	}
	if g != nil && g.after {
		s.park(g)
	}
	if err == nil {
		s.mu.Lock()
		if s.dead && s.failInFlight {
			err = s.sendErr
			if err == nil {
				err = ErrKilled
			}
		}
		s.mu.Unlock()
	}
	return err
}

// deadSendErr is what a Send on an ended stream returns.
func (s *CStream) deadSendErr() error {
	s.mu.Lock()
	defer s.mu.Unlock()
	if s.swallow && !s.closed {
		return nil
	}
	if s.sendErr != nil {
		return s.sendErr
	}
	return ErrKilled
}

// Recv implements SRPCSignaling_SessionClient.
func (s *CStream) Recv() (*signaling_rpc.SessionResponse, error) {
	r, err := s.in.get(s.ctx)
	Ev()
	return r, err
}

// RecvTo implements SRPCSignaling_SessionClient.
func (s *CStream) RecvTo(m *signaling_rpc.SessionResponse) error {
	r, err := s.Recv()
	if err != nil {
		return err
	}
	b, err := r.MarshalVT()
	if err != nil {
		return err
	}
	return m.UnmarshalVT(b)
}

// MsgSend implements srpc.Stream.
func (s *CStream) MsgSend(msg srpc.Message) error {
	req, ok := msg.(*signaling_rpc.SessionRequest)
	if !ok {
		return errors.New("g8sig: unexpected message type")
	}
	return s.Send(req)
}

// MsgRecv implements srpc.Stream.
func (s *CStream) MsgRecv(msg srpc.Message) error {
	m, ok := msg.(*signaling_rpc.SessionResponse)
	if !ok {
		return errors.New("g8sig: unexpected message type")
	}
	return s.RecvTo(m)
}

// CloseSend implements srpc.Stream.
func (s *CStream) CloseSend() error { return nil }

// Close implements srpc.Stream.
func (s *CStream) Close() error {
	Ev()
	s.mu.Lock()
	was := s.closed
	s.closed = true
	s.endL()
	h := s.OnClose
	s.mu.Unlock()
	s.cancel()
	s.in.fail(context.Canceled)
	if !was && h != nil {
		h(s)
	}
	return nil
}

var _ signaling_rpc.SRPCSignaling_SessionClient = (*CStream)(nil)

// SStream is the server-side end of a Session call
// (signaling_rpc.SRPCSignaling_SessionStream) for Harness B.
type SStream struct {
	ctx    context.Context
	cancel context.CancelFunc
	in     queue[*signaling_rpc.SessionRequest]
	// OnSend handles a server response inline (in the server's write loop).
	OnSend func(resp *signaling_rpc.SessionResponse) error
}

// NewSStream makes a server stream whose context is ctx.
func NewSStream(ctx context.Context) *SStream {
	s := &SStream{}
	s.ctx, s.cancel = context.WithCancel(ctx)
	return s
}

// Put queues a request for the server.
func (s *SStream) Put(r *signaling_rpc.SessionRequest) bool { Ev(); return s.in.put(r) }

// Kill ends the stream: context cancelled, Recv fails.
func (s *SStream) Kill(err error) { Ev(); s.in.fail(err); s.cancel() }

// Context implements srpc.Stream.
func (s *SStream) Context() context.Context { return s.ctx }

// Send implements SRPCSignaling_SessionStream.
func (s *SStream) Send(resp *signaling_rpc.SessionResponse) error {
	Ev()
	if s.ctx.Err() != nil {
		return context.Canceled
	}
	if s.OnSend != nil {
		return s.OnSend(resp)
	}
	return nil
}

// SendAndClose implements SRPCSignaling_SessionStream.
func (s *SStream) SendAndClose(resp *signaling_rpc.SessionResponse) error {
	if resp != nil {
		if err := s.Send(resp); err != nil {
			return err
		}
	}
	return nil
}

// Recv implements SRPCSignaling_SessionStream.
func (s *SStream) Recv() (*signaling_rpc.SessionRequest, error) {
	r, err := s.in.get(s.ctx)
	Ev()
	return r, err
}

// RecvTo implements SRPCSignaling_SessionStream.
func (s *SStream) RecvTo(m *signaling_rpc.SessionRequest) error {
	r, err := s.Recv()
	if err != nil {
		return err
	}
	b, err := r.MarshalVT()
	if err != nil {
		return err
	}
	return m.UnmarshalVT(b)
}

// MsgSend implements srpc.Stream.
func (s *SStream) MsgSend(msg srpc.Message) error {
	m, ok := msg.(*signaling_rpc.SessionResponse)
	if !ok {
		return errors.New("g8sig: unexpected message type")
	}
	return s.Send(m)
}

// MsgRecv implements srpc.Stream.
func (s *SStream) MsgRecv(msg srpc.Message) error {
	m, ok := msg.(*signaling_rpc.SessionRequest)
	if !ok {
		return errors.New("g8sig: unexpected message type")
	}
	return s.RecvTo(m)
}

// CloseSend implements srpc.Stream.
func (s *SStream) CloseSend() error { return nil }

// Close implements srpc.Stream.
func (s *SStream) Close() error { s.Kill(context.Canceled); return nil }

var _ signaling_rpc.SRPCSignaling_SessionStream = (*SStream)(nil)

// NopListen is a Listen client stream that never yields anything.
type NopListen struct{ ctx context.Context }

func (l *NopListen) Context() context.Context   { return l.ctx }
func (l *NopListen) MsgSend(srpc.Message) error { return nil }
func (l *NopListen) MsgRecv(srpc.Message) error { <-l.ctx.Done(); return context.Canceled }
func (l *NopListen) CloseSend() error           { return nil }
func (l *NopListen) Close() error               { return nil }
func (l *NopListen) Recv() (*signaling_rpc.ListenResponse, error) {
	<-l.ctx.Done()
	return nil, context.Canceled
}
func (l *NopListen) RecvTo(*signaling_rpc.ListenResponse) error {
	<-l.ctx.Done()
	return context.Canceled
}

var _ signaling_rpc.SRPCSignaling_ListenClient = (*NopListen)(nil)
