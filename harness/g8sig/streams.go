package g8sig

import (
	"context"
	"errors"
	"sync"

	signaling_rpc "github.com/aperturerobotics/bifrost/signaling/rpc"
	"github.com/aperturerobotics/starpc/srpc"
)

// ErrKilled is returned by a stream the harness killed.
var ErrKilled = errors.New("g8sig: stream reset by harness")

// queue is an unbounded FIFO with a terminal error; receivers park in select.
type queue[T any] struct {
	mu     sync.Mutex
	items  []T
	err    error
	notify chan struct{}
	// gets counts completed + started receive calls
	recvCalls int
}

func (q *queue[T]) wake() {
	if q.notify != nil {
		close(q.notify)
		q.notify = nil
	}
}

func (q *queue[T]) put(v T) bool {
	q.mu.Lock()
	defer q.mu.Unlock()
	if q.err != nil {
		return false
	}
	q.items = append(q.items, v)
	q.wake()
	return true
}

func (q *queue[T]) fail(err error) {
	q.mu.Lock()
	if q.err == nil {
		q.err = err
		q.wake()
	}
	q.mu.Unlock()
}

func (q *queue[T]) length() int { q.mu.Lock(); defer q.mu.Unlock(); return len(q.items) }

// get blocks until an item, a terminal error (after the queue drained unless
// hard) or ctx end.
func (q *queue[T]) get(ctx context.Context) (T, error) {
	var zero T
	q.mu.Lock()
	q.recvCalls++
	q.mu.Unlock()
	for {
		q.mu.Lock()
		if q.err != nil {
			err := q.err
			q.mu.Unlock()
			return zero, err
		}
		if len(q.items) > 0 {
			v := q.items[0]
			q.items = q.items[1:]
			q.mu.Unlock()
			return v, nil
		}
		if q.notify == nil {
			q.notify = make(chan struct{})
		}
		ch := q.notify
		q.mu.Unlock()
		select {
		case <-ch:
		case <-ctx.Done():
			return zero, context.Canceled
		}
	}
}

// CStream is the client-side end of a Session call
// (signaling_rpc.SRPCSignaling_SessionClient). Requests of the client go to
// OnSend inline (in the client's goroutine); responses are queued with Push.
type CStream struct {
	ID     int
	ctx    context.Context
	cancel context.CancelFunc
	in     queue[*signaling_rpc.SessionResponse]

	// OnSend handles a client request inline. An error is returned to the client.
	OnSend func(s *CStream, req *signaling_rpc.SessionRequest) error
	// OnClose is called (once) when the client closes the stream.
	OnClose func(s *CStream)

	mu       sync.Mutex
	closed   bool // client called Close
	dead     bool // killed by the harness / remote end finished
	initSeen bool
	target   string
	nReq     int
}

// NewCStream makes a client stream bound to ctx.
func NewCStream(ctx context.Context, id int) *CStream {
	s := &CStream{ID: id}
	s.ctx, s.cancel = context.WithCancel(ctx)
	return s
}

// Push queues a response for the client. Returns false if the stream is dead.
func (s *CStream) Push(r *signaling_rpc.SessionResponse) bool {
	Ev()
	return s.in.put(r)
}

// Kill makes the client's Recv and Send fail.
func (s *CStream) Kill(err error) {
	Ev()
	s.mu.Lock()
	s.dead = true
	s.mu.Unlock()
	s.in.fail(err)
}

// Alive reports that neither side ended the stream.
func (s *CStream) Alive() bool { s.mu.Lock(); defer s.mu.Unlock(); return !s.closed && !s.dead }

// Closed reports that the client closed the stream.
func (s *CStream) Closed() bool { s.mu.Lock(); defer s.mu.Unlock(); return s.closed }

// InitSeen reports that the client's Init request arrived, and its target.
func (s *CStream) InitSeen() (bool, string) {
	s.mu.Lock()
	defer s.mu.Unlock()
	return s.initSeen, s.target
}

// Pending is the number of responses not yet taken by the client.
func (s *CStream) Pending() int { return s.in.length() }

// Context implements srpc.Stream.
func (s *CStream) Context() context.Context { return s.ctx }

// Send implements SRPCSignaling_SessionClient.
func (s *CStream) Send(req *signaling_rpc.SessionRequest) error {
	Ev()
	s.mu.Lock()
	if s.closed || s.dead {
		s.mu.Unlock()
		return ErrKilled
	}
	s.nReq++
	if in, ok := req.GetBody().(*signaling_rpc.SessionRequest_Init); ok && !s.initSeen {
		s.initSeen = true
		s.target = in.Init.GetPeerId()
	}
	h := s.OnSend
	s.mu.Unlock()
	if h != nil {
		return h(s, req)
	}
	return nil
}

// Recv implements SRPCSignaling_SessionClient.
func (s *CStream) Recv() (*signaling_rpc.SessionResponse, error) {
	r, err := s.in.get(s.ctx)
	Ev()
	return r, err
}

// RecvTo implements SRPCSignaling_SessionClient.
func (s *CStream) RecvTo(m *signaling_rpc.SessionResponse) error {
	r, err := s.Recv()
	if err != nil {
		return err
	}
	b, err := r.MarshalVT()
	if err != nil {
		return err
	}
	return m.UnmarshalVT(b)
}

// MsgSend implements srpc.Stream.
func (s *CStream) MsgSend(msg srpc.Message) error {
	req, ok := msg.(*signaling_rpc.SessionRequest)
	if !ok {
		return errors.New("g8sig: unexpected message type")
	}
	return s.Send(req)
}

// MsgRecv implements srpc.Stream.
func (s *CStream) MsgRecv(msg srpc.Message) error {
	m, ok := msg.(*signaling_rpc.SessionResponse)
	if !ok {
		return errors.New("g8sig: unexpected message type")
	}
	return s.RecvTo(m)
}

// CloseSend implements srpc.Stream.
func (s *CStream) CloseSend() error { return nil }

// Close implements srpc.Stream.
func (s *CStream) Close() error {
	Ev()
	s.mu.Lock()
	was := s.closed
	s.closed = true
	h := s.OnClose
	s.mu.Unlock()
	s.cancel()
	s.in.fail(context.Canceled)
	if !was && h != nil {
		h(s)
	}
	return nil
}

var _ signaling_rpc.SRPCSignaling_SessionClient = (*CStream)(nil)

// SStream is the server-side end of a Session call
// (signaling_rpc.SRPCSignaling_SessionStream) for Harness B.
type SStream struct {
	ctx    context.Context
	cancel context.CancelFunc
	in     queue[*signaling_rpc.SessionRequest]
	// OnSend handles a server response inline (in the server's write loop).
	OnSend func(resp *signaling_rpc.SessionResponse) error
}

// NewSStream makes a server stream whose context is ctx.
func NewSStream(ctx context.Context) *SStream {
	s := &SStream{}
	s.ctx, s.cancel = context.WithCancel(ctx)
	return s
}

// Put queues a request for the server.
func (s *SStream) Put(r *signaling_rpc.SessionRequest) bool { Ev(); return s.in.put(r) }

// Kill ends the stream: context cancelled, Recv fails.
func (s *SStream) Kill(err error) { Ev(); s.in.fail(err); s.cancel() }

// Context implements srpc.Stream.
func (s *SStream) Context() context.Context { return s.ctx }

// Send implements SRPCSignaling_SessionStream.
func (s *SStream) Send(resp *signaling_rpc.SessionResponse) error {
	Ev()
	if s.ctx.Err() != nil {
		return context.Canceled
	}
	if s.OnSend != nil {
		return s.OnSend(resp)
	}
	return nil
}

// SendAndClose implements SRPCSignaling_SessionStream.
func (s *SStream) SendAndClose(resp *signaling_rpc.SessionResponse) error {
	if resp != nil {
		if err := s.Send(resp); err != nil {
			return err
		}
	}
	return nil
}

// Recv implements SRPCSignaling_SessionStream.
func (s *SStream) Recv() (*signaling_rpc.SessionRequest, error) {
	r, err := s.in.get(s.ctx)
	Ev()
	return r, err
}

// RecvTo implements SRPCSignaling_SessionStream.
func (s *SStream) RecvTo(m *signaling_rpc.SessionRequest) error {
	r, err := s.Recv()
	if err != nil {
		return err
	}
	b, err := r.MarshalVT()
	if err != nil {
		return err
	}
	return m.UnmarshalVT(b)
}

// MsgSend implements srpc.Stream.
func (s *SStream) MsgSend(msg srpc.Message) error {
	m, ok := msg.(*signaling_rpc.SessionResponse)
	if !ok {
		return errors.New("g8sig: unexpected message type")
	}
	return s.Send(m)
}

// MsgRecv implements srpc.Stream.
func (s *SStream) MsgRecv(msg srpc.Message) error {
	m, ok := msg.(*signaling_rpc.SessionRequest)
	if !ok {
		return errors.New("g8sig: unexpected message type")
	}
	return s.RecvTo(m)
}

// CloseSend implements srpc.Stream.
func (s *SStream) CloseSend() error { return nil }

// Close implements srpc.Stream.
func (s *SStream) Close() error { s.Kill(context.Canceled); return nil }

var _ signaling_rpc.SRPCSignaling_SessionStream = (*SStream)(nil)

// NopListen is a Listen client stream that never yields anything.
type NopListen struct{ ctx context.Context }

func (l *NopListen) Context() context.Context   { return l.ctx }
func (l *NopListen) MsgSend(srpc.Message) error { return nil }
func (l *NopListen) MsgRecv(srpc.Message) error { <-l.ctx.Done(); return context.Canceled }
func (l *NopListen) CloseSend() error           { return nil }
func (l *NopListen) Close() error               { return nil }
func (l *NopListen) Recv() (*signaling_rpc.ListenResponse, error) {
	<-l.ctx.Done()
	return nil, context.Canceled
}
func (l *NopListen) RecvTo(*signaling_rpc.ListenResponse) error {
	<-l.ctx.Done()
	return context.Canceled
}

var _ signaling_rpc.SRPCSignaling_ListenClient = (*NopListen)(nil)
