// Package g8sig holds the shared fakes of group g8 (signaling client and
// end-to-end checks C19, C21, C23): a quiescence detector based on goroutine
// dumps, a lock-step batch barrier, channel-less in-memory signaling streams,
// a scripted relay and "Harness B" (real clients <-> tap/proxy <-> real server).
package g8sig

import (
	"bytes"
	"os"
	"runtime"
	"strings"
	"sync"
	"sync/atomic"
	"time"
)

// Events is bumped by every harness-visible event (message crossing a stream,
// application call / return ...). Quiescence requires it to be stable.
var Events atomic.Int64

// Ev bumps the global event counter.
func Ev() { Events.Add(1) }

// parkedStates are goroutine wait reasons that can only end through an action
// of another goroutine (or a timer, which the per-instance predicates cover).
func parkedState(st string) bool {
	// strip ", 2 minutes", ", locked to thread"
	if i := strings.IndexByte(st, ','); i >= 0 {
		st = st[:i]
	}
	switch st {
	case "select", "chan receive", "chan send", "sync.Cond.Wait", "sync.WaitGroup.Wait", "select (no cases)",
		"chan receive (nil chan)", "chan send (nil chan)":
		return true
	}
	return false
}

// ignorable goroutines: runtime / testing infrastructure that is not part of
// any instance and never acts on one.
func ignorable(block string) bool {
	for _, s := range []string{
		"os/signal.", "runtime.ReadTrace", "runtime/trace.", "testing.(*M).", "g8sig.snapshot(",
		"runtime.ensureSigM",
	} {
		if strings.Contains(block, s) {
			return true
		}
	}
	return false
}

// Snap is one goroutine-dump snapshot.
type Snap struct {
	Total  int
	Busy   []string // header + first frames of goroutines that are not parked
	Events int64
}

var snapMu sync.Mutex
var snapBuf []byte

// Snapshots counts goroutine dumps taken; Debug prints per-round timing.
var (
	Snapshots atomic.Int64
	Debug     = os.Getenv("G8SIG_DEBUG") != ""
)

// snapshot inspects all goroutines of the process.
func snapshot() Snap {
	snapMu.Lock()
	defer snapMu.Unlock()
	Snapshots.Add(1)
	if snapBuf == nil {
		snapBuf = make([]byte, 1<<20)
	}
	var buf []byte
	for {
		n := runtime.Stack(snapBuf, true)
		if n < len(snapBuf) {
			buf = snapBuf[:n]
			break
		}
		snapBuf = make([]byte, 2*len(snapBuf))
	}
	s := Snap{Events: Events.Load()}
	first := true
	for len(buf) > 0 {
		var blk []byte
		if i := bytes.Index(buf, []byte("\n\n")); i >= 0 {
			blk, buf = buf[:i], buf[i+2:]
		} else {
			blk, buf = buf, nil
		}
		if !bytes.HasPrefix(blk, []byte("goroutine ")) {
			continue
		}
		s.Total++
		if first {
			// the first block is the calling goroutine (running)
			first = false
			continue
		}
		lb := bytes.IndexByte(blk, '[')
		rb := bytes.IndexByte(blk, ']')
		if lb > 0 && rb > lb && parkedState(string(blk[lb+1:rb])) {
			continue
		}
		if ignorable(string(blk)) {
			continue
		}
		lines := strings.Split(string(blk), "\n")
		if len(lines) > 7 {
			lines = lines[:7]
		}
		s.Busy = append(s.Busy, strings.Join(lines, " | "))
	}
	return s
}

// DumpAll returns a full goroutine dump.
func DumpAll() string {
	buf := make([]byte, 1<<20)
	for {
		n := runtime.Stack(buf, true)
		if n < len(buf) {
			return string(buf[:n])
		}
		buf = make([]byte, 2*len(buf))
	}
}

// FilterDump returns the goroutine blocks of dump that contain any of subs.
func FilterDump(dump string, subs ...string) []string {
	var out []string
	for _, blk := range strings.Split(dump, "\n\n") {
		for _, s := range subs {
			if strings.Contains(blk, s) {
				lines := strings.Split(blk, "\n")
				if len(lines) > 24 {
					lines = lines[:24]
				}
				out = append(out, strings.Join(lines, "\n"))
				break
			}
		}
	}
	return out
}

// QResult is the outcome of a quiescence wait.
type QResult struct {
	OK  bool   // quiescent state reached
	Why string // when !OK: what kept the system busy (inconclusive)
}

// Watchdog is the quiescence watchdog (expiry => inconclusive, never a verdict).
var Watchdog = 45 * time.Second

// waitQuiet polls until two consecutive snapshots show every goroutine parked,
// the event counter unchanged and pred() true.
func waitQuiet(pred func() (bool, string)) QResult {
	deadline := time.Now().Add(Watchdog)
	if Debug {
		t0 := time.Now()
		n0 := Snapshots.Load()
		defer func() {
			println("g8sig: quiet round", time.Since(t0).String(), "snapshots", Snapshots.Load()-n0)
		}()
	}
	var prev *Snap
	why := ""
	for {
		ok, pw := true, ""
		if pred != nil {
			ok, pw = pred()
		}
		s := snapshot()
		if ok && len(s.Busy) == 0 {
			// predicate must still hold after the snapshot
			if pred != nil {
				ok, pw = pred()
			}
			if ok && prev != nil && prev.Events == s.Events && s.Events == Events.Load() {
				return QResult{OK: true}
			}
			if ok {
				prev = &s
			} else {
				prev = nil
			}
		} else {
			prev = nil
			if !ok {
				why = "predicate: " + pw
			} else {
				why = "busy goroutines: " + strings.Join(s.Busy, " || ")
			}
		}
		if time.Now().After(deadline) {
			if why == "" {
				why = "event counter kept changing"
			}
			if len(why) > 1500 {
				why = why[:1500]
			}
			return QResult{OK: false, Why: why}
		}
		if prev == nil {
			time.Sleep(200 * time.Microsecond)
		} else {
			runtime.Gosched()
			time.Sleep(100 * time.Microsecond)
		}
	}
}

// Batch is a lock-step barrier for instances that run concurrently in one
// process: the goroutine dump is global, so a quiescent point is a point at
// which every member of the batch waits in Quiesce (or has left) and no
// goroutine of the process is runnable.
type Batch struct {
	mu      sync.Mutex
	active  int
	waiting []*waiter
	rounds  int
}

type waiter struct {
	pred func() (bool, string)
	ch   chan QResult
}

// NewBatch makes a batch with n members.
func NewBatch(n int) *Batch { return &Batch{active: n} }

// Rounds returns the number of barrier rounds completed.
func (b *Batch) Rounds() int { b.mu.Lock(); defer b.mu.Unlock(); return b.rounds }

// Leave removes a member (call exactly once per member, when it is done).
func (b *Batch) Leave() {
	b.mu.Lock()
	b.active--
	run := b.active > 0 && len(b.waiting) == b.active
	var ws []*waiter
	if run {
		ws = b.waiting
		b.waiting = nil
	}
	b.mu.Unlock()
	if run {
		go b.round(ws)
	}
}

// Quiesce blocks until every member waits here and the process is quiescent
// with every member's predicate true. pred may be nil.
func (b *Batch) Quiesce(pred func() (bool, string)) QResult {
	w := &waiter{pred: pred, ch: make(chan QResult, 1)}
	b.mu.Lock()
	b.waiting = append(b.waiting, w)
	run := len(b.waiting) == b.active
	var ws []*waiter
	if run {
		ws = b.waiting
		b.waiting = nil
	}
	b.mu.Unlock()
	if run {
		go b.round(ws)
	}
	return <-w.ch
}

func (b *Batch) round(ws []*waiter) {
	res := waitQuiet(func() (bool, string) {
		for _, w := range ws {
			if w.pred != nil {
				if ok, why := w.pred(); !ok {
					return false, why
				}
			}
		}
		return true, ""
	})
	b.mu.Lock()
	b.rounds++
	b.mu.Unlock()
	for _, w := range ws {
		w.ch <- res
	}
}
