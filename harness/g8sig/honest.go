package g8sig

import (
	"fmt"
	"sync"

	signaling_rpc "github.com/aperturerobotics/bifrost/signaling/rpc"
	"verifharness/keys"
)

// HonestRelay is a reference model of an HONEST relay plus a correct partner
// client P, played to ONE real client X through the scripted Relay. It is
// written from the protocol description (signaling.proto, property texts):
//
//   - the relay keeps a session epoch that changes whenever either side
//     attaches or detaches; every change is announced to X (Opened(e) while the
//     partner is attached, Closed otherwise) and empties both mailboxes;
//   - a SendMsg of X is accepted only with session_seqno == epoch while the
//     partner is attached (older: dropped silently; newer: protocol error);
//     an accepted message is handed to the partner, whose ack produces exactly
//     one AckMsg(seqno) to X - unless the epoch changed in between;
//   - the partner re-submits its own unacknowledged message after a re-open.
//
// Everything runs inline under one mutex, in the goroutine that caused it, so
// a run is deterministic up to the order of X's requests.
type HonestRelay struct {
	Relay
	X, P *keys.Identity

	hmu             sync.Mutex
	epoch           uint64
	partnerAttached bool
	cur             *CStream

	// AutoAck: the partner application receives (and acks) immediately.
	autoAck  bool
	heldAcks []uint64
	xPending *signaling_rpc.SessionMsg

	pOut      []*signaling_rpc.SessionMsg
	pInFlight bool
	pSeq      uint64

	deliveredToP map[string]int
	ackedByX     map[string]int
	acksPushed   map[uint64]int
	crossings    int
	log          []string
	protoErrs    []string
	staleDropped int
	inReq        bool // a client request is being handled (the client's writer is inside Send)

	// fault is called with the model lock held before crossing k is applied.
	fault func(h *HonestRelay, k int, desc string)
}

// NewHonestRelay makes the model. partnerAttached: P is attached from the start.
func NewHonestRelay(x, p *keys.Identity, partnerAttached, autoAck bool) *HonestRelay {
	h := &HonestRelay{X: x, P: p, partnerAttached: partnerAttached, autoAck: autoAck,
		deliveredToP: map[string]int{}, ackedByX: map[string]int{}, acksPushed: map[uint64]int{}}
	if partnerAttached {
		h.epoch = 1
	}
	h.Relay.OnReq = h.onReq
	h.Relay.OnClosed = h.onClosed
	return h
}

// SetFault installs the fault hook (nil removes it).
func (h *HonestRelay) SetFault(f func(h *HonestRelay, k int, desc string)) {
	h.hmu.Lock()
	h.fault = f
	h.hmu.Unlock()
}

func (h *HonestRelay) logf(f string, a ...any) {
	if len(h.log) < 400 {
		h.log = append(h.log, fmt.Sprintf(f, a...))
	}
}

// crossL counts one crossing and gives the fault hook its chance.
func (h *HonestRelay) crossL(desc string) {
	k := h.crossings
	h.crossings++
	h.logf("x%d %s", k, desc)
	if f := h.fault; f != nil {
		f(h, k, desc)
	}
}

func (h *HonestRelay) pushL(r *signaling_rpc.SessionResponse) {
	if h.cur != nil && h.cur.Alive() {
		h.logf("   -> %s", RespString(r))
		h.cur.Push(r)
	}
}

func (h *HonestRelay) resetL() {
	h.xPending, h.pInFlight, h.heldAcks = nil, false, nil
}

func (h *HonestRelay) pumpL() {
	if !(h.partnerAttached && h.cur != nil && h.cur.Alive() && !h.pInFlight && len(h.pOut) > 0) {
		return
	}
	h.crossL("resp:recv")
	if !(h.partnerAttached && h.cur != nil && h.cur.Alive() && !h.pInFlight && len(h.pOut) > 0) {
		return
	}
	h.pInFlight = true
	h.pushL(RecvMsg(h.pOut[0]))
}

func (h *HonestRelay) ackL(seq uint64) {
	h.crossL(fmt.Sprintf("resp:ack(#%d)", seq))
	if h.xPending == nil || h.xPending.GetSeqno() != seq {
		return // epoch changed in between: the partner's ack is stale
	}
	h.xPending = nil
	h.acksPushed[seq]++
	h.pushL(AckMsg(seq))
}

func (h *HonestRelay) onClosed(s *CStream) {
	h.hmu.Lock()
	defer h.hmu.Unlock()
	if h.cur == s {
		// X detached
		h.logf("X closed stream s%d", s.ID)
		h.cur = nil
		h.epoch++
		h.resetL()
	}
}

func (h *HonestRelay) onReq(s *CStream, rec ReqRec, req *signaling_rpc.SessionRequest) error {
	h.hmu.Lock()
	defer h.hmu.Unlock()
	h.inReq = true
	defer func() { h.inReq = false }()
	if rec.Kind == "init" {
		if rec.SSeq != 0 {
			h.protoErrs = append(h.protoErrs, "init with session_seqno != 0")
		}
		if h.cur != nil && h.cur != s {
			h.cur.Kill(ErrKilled) // usurped
		}
		h.crossL("req:" + rec.String())
		h.cur = s
		h.epoch++
		h.resetL()
		if h.partnerAttached {
			h.pushL(Opened(h.epoch))
			h.pumpL()
		}
		return nil
	}
	if s != h.cur {
		return nil
	}
	h.crossL("req:" + rec.String())
	if s != h.cur || !s.Alive() {
		return nil // the fault killed this stream: the request is lost with it
	}
	if rec.Kind == "other" {
		h.protoErrs = append(h.protoErrs, "unexpected request body")
		return nil
	}
	if rec.SSeq > h.epoch {
		h.protoErrs = append(h.protoErrs, fmt.Sprintf("%s: session_seqno %d above the relay's epoch %d", rec.Kind, rec.SSeq, h.epoch))
		return nil
	}
	if !h.partnerAttached || rec.SSeq != h.epoch {
		h.staleDropped++
		h.logf("   (dropped: stale or closed)")
		return nil
	}
	switch rec.Kind {
	case "send":
		h.xPending = rec.Msg
		h.deliveredToP[rec.Data]++
		if h.autoAck {
			h.ackL(rec.Seq)
		} else {
			h.heldAcks = append(h.heldAcks, rec.Seq)
		}
	case "ack":
		if h.pInFlight && len(h.pOut) > 0 && h.pOut[0].GetSeqno() == rec.Seq {
			h.ackedByX[string(h.pOut[0].GetSignedMsg().GetData())]++
			h.pOut = h.pOut[1:]
			h.pInFlight = false
			h.pumpL()
		}
	case "clear":
		if h.xPending != nil && h.xPending.GetSeqno() == rec.Seq {
			h.xPending = nil
			h.heldAcks = nil
		}
	}
	return nil
}

// PartnerSend makes the partner submit a message with payload data.
func (h *HonestRelay) PartnerSend(data string) {
	h.hmu.Lock()
	defer h.hmu.Unlock()
	h.pSeq++
	h.pOut = append(h.pOut, Honest(h.P, data, h.pSeq))
	h.pumpL()
}

// ReleaseAcks lets the partner application receive (ack) what it was holding.
// Returns how many acks were released.
func (h *HonestRelay) ReleaseAcks() int {
	h.hmu.Lock()
	defer h.hmu.Unlock()
	held := h.heldAcks
	h.heldAcks = nil
	for _, s := range held {
		h.ackL(s)
	}
	return len(held)
}

// HeldAcks is the number of acks the partner is holding.
func (h *HonestRelay) HeldAcks() int { h.hmu.Lock(); defer h.hmu.Unlock(); return len(h.heldAcks) }

// AttachPartner attaches the partner (epoch change, announced with Opened).
func (h *HonestRelay) AttachPartner() { h.hmu.Lock(); defer h.hmu.Unlock(); h.AttachPartnerL() }

// AttachPartnerL is AttachPartner for use inside the fault hook.
func (h *HonestRelay) AttachPartnerL() {
	h.logf("fault/step: partner attaches")
	h.partnerAttached = true
	h.epoch++
	h.resetL()
	h.pushL(Opened(h.epoch))
	h.pumpL()
}

// DetachPartnerL detaches the partner (announced with Closed).
func (h *HonestRelay) DetachPartnerL() {
	h.logf("fault: partner detaches")
	h.partnerAttached = false
	h.epoch++
	h.resetL()
	h.pushL(Closed())
}

// ReopenNoCloseL changes the epoch by delta and announces only the new Opened.
func (h *HonestRelay) ReopenNoCloseL(delta uint64) {
	h.logf("fault: re-open without Closed (+%d)", delta)
	h.epoch += delta
	h.resetL()
	h.pushL(Opened(h.epoch))
	h.pumpL()
}

// CloseThenOpenL announces Closed immediately followed by the new Opened.
func (h *HonestRelay) CloseThenOpenL() {
	h.logf("fault: Closed then Opened")
	h.pushL(Closed())
	h.epoch += 2
	h.resetL()
	h.pushL(Opened(h.epoch))
	h.pumpL()
}

// KillStreamL fails X's stream; X is expected to retry.
func (h *HonestRelay) KillStreamL() {
	h.logf("fault: X's stream killed")
	if h.cur != nil {
		h.cur.Kill(ErrKilled)
		h.cur = nil
		h.epoch++
		h.resetL()
	}
}

// EndStreamL ends X's stream in the given shape (error, clean EOF, half-close,
// context cancellation ...); the relay regards X as detached from then on. X is
// expected to retry.
func (h *HonestRelay) EndStreamL(sh EndShape) {
	h.logf("fault: X's stream ends (%s)", sh.Name)
	if h.cur != nil {
		h.cur.End(sh)
		h.cur = nil
		h.epoch++
		h.resetL()
	}
}

// InRequestL reports (model lock held, e.g. inside the fault hook) that the
// current crossing happens inside a write of the client.
func (h *HonestRelay) InRequestL() bool { return h.inReq }

// PartnerQueueL is the number of partner messages not yet acked by X (lock held).
func (h *HonestRelay) PartnerQueueL() int { return len(h.pOut) }

// Locked runs f with the model lock held (to apply a fault from the driver).
func (h *HonestRelay) Locked(f func()) { h.hmu.Lock(); defer h.hmu.Unlock(); f() }

// HonestState is a snapshot of the model for oracles and witnesses.
type HonestState struct {
	Epoch           uint64
	PartnerAttached bool
	Crossings       int
	DeliveredToP    map[string]int
	AckedByX        map[string]int
	AcksPushed      map[uint64]int
	PartnerQueue    int
	HeldAcks        int
	StaleDropped    int
	ProtoErrs       []string
	Log             []string
}

// State returns a copy of the model state.
func (h *HonestRelay) State() HonestState {
	h.hmu.Lock()
	defer h.hmu.Unlock()
	st := HonestState{Epoch: h.epoch, PartnerAttached: h.partnerAttached, Crossings: h.crossings,
		DeliveredToP: map[string]int{}, AckedByX: map[string]int{}, AcksPushed: map[uint64]int{},
		PartnerQueue: len(h.pOut), HeldAcks: len(h.heldAcks), StaleDropped: h.staleDropped,
		ProtoErrs: append([]string(nil), h.protoErrs...), Log: append([]string(nil), h.log...)}
	for k, v := range h.deliveredToP {
		st.DeliveredToP[k] = v
	}
	for k, v := range h.ackedByX {
		st.AckedByX[k] = v
	}
	for k, v := range h.acksPushed {
		st.AcksPushed[k] = v
	}
	return st
}

// LiveOK is the quiescence predicate: X's stream is registered and drained.
func (h *HonestRelay) LiveOK() (bool, string) {
	if ok, why := h.Relay.LiveOK(); !ok {
		return false, why
	}
	h.hmu.Lock()
	defer h.hmu.Unlock()
	if h.cur == nil || h.cur != h.Relay.Cur() {
		return false, "honest relay: latest stream not registered yet"
	}
	return true, ""
}
