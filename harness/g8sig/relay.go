package g8sig

import (
	"context"
	"fmt"
	"sync"

	signaling_rpc "github.com/aperturerobotics/bifrost/signaling/rpc"
	"github.com/aperturerobotics/starpc/srpc"
)

// ReqRec is one client request as seen by the relay.
type ReqRec struct {
	Stream int
	Kind   string // init | send | ack | clear | other
	SSeq   uint64 // session_seqno of the request
	Seq    uint64 // message seqno named (send: msg.Seqno, ack, clear)
	Data   string // send: payload
	Msg    *signaling_rpc.SessionMsg
}

func (r ReqRec) String() string {
	switch r.Kind {
	case "init":
		return fmt.Sprintf("s%d:init", r.Stream)
	case "send":
		return fmt.Sprintf("s%d:send(e%d,#%d,%s)", r.Stream, r.SSeq, r.Seq, r.Data)
	default:
		return fmt.Sprintf("s%d:%s(e%d,#%d)", r.Stream, r.Kind, r.SSeq, r.Seq)
	}
}

// Classify turns a request into a record.
func Classify(stream int, req *signaling_rpc.SessionRequest) ReqRec {
	rec := ReqRec{Stream: stream, SSeq: req.GetSessionSeqno(), Kind: "other"}
	switch b := req.GetBody().(type) {
	case *signaling_rpc.SessionRequest_Init:
		rec.Kind = "init"
	case *signaling_rpc.SessionRequest_SendMsg:
		rec.Kind = "send"
		rec.Seq = b.SendMsg.GetSeqno()
		rec.Data = string(b.SendMsg.GetSignedMsg().GetData())
		rec.Msg = b.SendMsg
	case *signaling_rpc.SessionRequest_AckMsg:
		rec.Kind = "ack"
		rec.Seq = b.AckMsg
	case *signaling_rpc.SessionRequest_ClearMsg:
		rec.Kind = "clear"
		rec.Seq = b.ClearMsg
	}
	return rec
}

// Response constructors.
func Opened(e uint64) *signaling_rpc.SessionResponse {
	return &signaling_rpc.SessionResponse{Body: &signaling_rpc.SessionResponse_Opened{Opened: e}}
}
func Closed() *signaling_rpc.SessionResponse {
	return &signaling_rpc.SessionResponse{Body: &signaling_rpc.SessionResponse_Closed{Closed: true}}
}
func RecvMsg(m *signaling_rpc.SessionMsg) *signaling_rpc.SessionResponse {
	return &signaling_rpc.SessionResponse{Body: &signaling_rpc.SessionResponse_RecvMsg{RecvMsg: m}}
}
func AckMsg(s uint64) *signaling_rpc.SessionResponse {
	return &signaling_rpc.SessionResponse{Body: &signaling_rpc.SessionResponse_AckMsg{AckMsg: s}}
}
func ClearMsg(s uint64) *signaling_rpc.SessionResponse {
	return &signaling_rpc.SessionResponse{Body: &signaling_rpc.SessionResponse_ClearMsg{ClearMsg: s}}
}

// Request constructors.
func ReqSend(sseq uint64, m *signaling_rpc.SessionMsg) *signaling_rpc.SessionRequest {
	return &signaling_rpc.SessionRequest{SessionSeqno: sseq, Body: &signaling_rpc.SessionRequest_SendMsg{SendMsg: m}}
}
func ReqAck(sseq, s uint64) *signaling_rpc.SessionRequest {
	return &signaling_rpc.SessionRequest{SessionSeqno: sseq, Body: &signaling_rpc.SessionRequest_AckMsg{AckMsg: s}}
}
func ReqClear(sseq, s uint64) *signaling_rpc.SessionRequest {
	return &signaling_rpc.SessionRequest{SessionSeqno: sseq, Body: &signaling_rpc.SessionRequest_ClearMsg{ClearMsg: s}}
}

// RespString describes a response.
func RespString(r *signaling_rpc.SessionResponse) string {
	switch b := r.GetBody().(type) {
	case *signaling_rpc.SessionResponse_Opened:
		return fmt.Sprintf("opened(%d)", b.Opened)
	case *signaling_rpc.SessionResponse_Closed:
		return "closed"
	case *signaling_rpc.SessionResponse_RecvMsg:
		return fmt.Sprintf("recv(#%d,%s)", b.RecvMsg.GetSeqno(), string(b.RecvMsg.GetSignedMsg().GetData()))
	case *signaling_rpc.SessionResponse_AckMsg:
		return fmt.Sprintf("ack(#%d)", b.AckMsg)
	case *signaling_rpc.SessionResponse_ClearMsg:
		return fmt.Sprintf("clear(#%d)", b.ClearMsg)
	}
	return "other"
}

// Relay is a scripted relay for ONE real client: it implements
// signaling_rpc.SRPCSignalingClient with hand-written streams. The script
// (test code) pushes responses explicitly; requests are recorded and passed to
// OnReq inline.
type Relay struct {
	mu      sync.Mutex
	streams []*CStream
	reqs    []ReqRec
	// OnReq is called inline (relay lock NOT held) for every client request.
	OnReq func(s *CStream, rec ReqRec, req *signaling_rpc.SessionRequest) error
	// OnStream is called inline when the client opens a Session call.
	OnStream func(s *CStream)
	// OnClosed is called inline when the client closes a stream.
	OnClosed func(s *CStream)
}

// SRPCClient implements SRPCSignalingClient.
func (r *Relay) SRPCClient() srpc.Client { return nil }

// Listen implements SRPCSignalingClient.
func (r *Relay) Listen(ctx context.Context, in *signaling_rpc.ListenRequest) (signaling_rpc.SRPCSignaling_ListenClient, error) {
	return &NopListen{ctx: ctx}, nil
}

// Session implements SRPCSignalingClient.
func (r *Relay) Session(ctx context.Context) (signaling_rpc.SRPCSignaling_SessionClient, error) {
	Ev()
	r.mu.Lock()
	s := NewCStream(ctx, len(r.streams))
	s.OnSend = r.onSend
	s.OnClose = func(s *CStream) {
		if r.OnClosed != nil {
			r.OnClosed(s)
		}
	}
	r.streams = append(r.streams, s)
	h := r.OnStream
	r.mu.Unlock()
	if h != nil {
		h(s)
	}
	return s, nil
}

func (r *Relay) onSend(s *CStream, req *signaling_rpc.SessionRequest) error {
	rec := Classify(s.ID, req)
	r.mu.Lock()
	r.reqs = append(r.reqs, rec)
	h := r.OnReq
	r.mu.Unlock()
	if h != nil {
		return h(s, rec, req)
	}
	return nil
}

// Cur returns the most recent stream (nil if none).
func (r *Relay) Cur() *CStream {
	r.mu.Lock()
	defer r.mu.Unlock()
	if len(r.streams) == 0 {
		return nil
	}
	return r.streams[len(r.streams)-1]
}

// NStreams returns the number of Session calls so far.
func (r *Relay) NStreams() int { r.mu.Lock(); defer r.mu.Unlock(); return len(r.streams) }

// Reqs returns a copy of the request log.
func (r *Relay) Reqs() []ReqRec {
	r.mu.Lock()
	defer r.mu.Unlock()
	return append([]ReqRec(nil), r.reqs...)
}

// LiveOK is the quiescence predicate of a relay whose client holds a peer
// reference: the latest stream is alive, its Init arrived and the client took
// every queued response. (Between a stream failure and the client's retry
// there is only a timer, which no goroutine dump shows.)
func (r *Relay) LiveOK() (bool, string) {
	s := r.Cur()
	if s == nil {
		return false, "relay: no session stream yet"
	}
	if !s.Alive() {
		return false, "relay: latest stream ended, waiting for the client to retry"
	}
	if ok, _ := s.InitSeen(); !ok {
		return false, "relay: init not yet received"
	}
	if n := s.Pending(); n != 0 {
		return false, fmt.Sprintf("relay: %d responses not yet taken by the client", n)
	}
	return true, ""
}
