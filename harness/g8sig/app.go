package g8sig

import (
	"context"
	"io"
	"sync"
	"sync/atomic"

	signaling_rpc "github.com/aperturerobotics/bifrost/signaling/rpc"
	signaling_client "github.com/aperturerobotics/bifrost/signaling/rpc/client"
	"github.com/aperturerobotics/util/backoff"
	"github.com/sirupsen/logrus"
	"verifharness/keys"
)

// QuietLogger returns a logger that discards everything.
func QuietLogger() *logrus.Entry {
	l := logrus.New()
	l.SetOutput(io.Discard)
	l.SetLevel(logrus.PanicLevel)
	return logrus.NewEntry(l)
}

// FastBackoff is the client back-off used by every harness client (constant 5 ms).
func FastBackoff() *backoff.Backoff {
	return &backoff.Backoff{
		BackoffKind: backoff.BackoffKind_BackoffKind_CONSTANT,
		Constant:    &backoff.Constant{Interval: 5},
	}
}

// NewClient builds a real signaling client for identity id over rpc.
func NewClient(ctx context.Context, id *keys.Identity, rpc signaling_rpc.SRPCSignalingClient) (*signaling_client.Client, error) {
	c, err := signaling_client.NewClient(QuietLogger(), rpc, id.Priv, FastBackoff())
	if err != nil {
		return nil, err
	}
	c.SetContext(ctx)
	return c, nil
}

// SendOp is one application-level Send call, as an interval on the logical clock.
type SendOp struct {
	Peer   string // name of the sending application
	To     string
	ID     string // payload id (= payload bytes)
	Call   int64
	Ret    int64 // 0 while pending
	Err    string
	OK     bool
	Done   bool
	Seqno  uint64 // message seqno, known after a successful return
	Ref    int    // index of the ClientPeerRef the call was made on (several refs may share one session)
	cancel context.CancelFunc
}

// RecvOp is one application-level Recv call.
type RecvOp struct {
	Peer string
	From string
	Call int64
	Ret  int64
	ID   string
	Msg  *signaling_rpc.SessionMsg
	Err  string
	Done bool
	Ref  int  // index of the ClientPeerRef the call was made on
	Pre  bool // the context was already cancelled when Recv was called
}

// App is the application on top of one real client: it issues Send / Recv
// calls in its own goroutines and records them as intervals.
type App struct {
	Name  string
	Clock *atomic.Int64

	mu    sync.Mutex
	sends []*SendOp
	recvs []*RecvOp
	// cancel functions of the receive activities (RecvLoop / RecvOnce), in start order
	recvCancels []context.CancelFunc
	wg          sync.WaitGroup
}

// NewApp makes an application recorder.
func NewApp(name string, clock *atomic.Int64) *App { return &App{Name: name, Clock: clock} }

// Send starts ref.Send(payload id) in a new goroutine.
func (a *App) Send(ctx context.Context, ref *signaling_client.ClientPeerRef, to, id string) *SendOp {
	return a.SendRef(ctx, ref, 0, to, id)
}

// SendRef is Send on the refIdx-th reference the application holds to that peer.
func (a *App) SendRef(ctx context.Context, ref *signaling_client.ClientPeerRef, refIdx int, to, id string) *SendOp {
	sctx, cancel := context.WithCancel(ctx)
	op := &SendOp{Peer: a.Name, To: to, ID: id, Ref: refIdx, cancel: cancel}
	a.mu.Lock()
	a.sends = append(a.sends, op)
	a.mu.Unlock()
	a.wg.Add(1)
	op.Call = a.Clock.Add(1)
	Ev()
	go func() {
		defer a.wg.Done()
		defer cancel()
		m, err := ref.Send(sctx, []byte(id))
		ret := a.Clock.Add(1)
		a.mu.Lock()
		op.Ret, op.Done = ret, true
		if err != nil {
			op.Err = err.Error()
		} else {
			op.OK = true
			op.Seqno = m.GetSeqno()
		}
		a.mu.Unlock()
		Ev()
	}()
	return op
}

// Cancel cancels the context of a pending send.
func (op *SendOp) Cancel() { Ev(); op.cancel() }

// RecvLoop starts a goroutine calling ref.Recv until ctx ends or max messages
// were returned (max <= 0: unbounded).
func (a *App) RecvLoop(ctx context.Context, ref *signaling_client.ClientPeerRef, from string, max int) {
	a.RecvLoopRef(ctx, ref, 0, from, max)
}

// RecvLoopRef is RecvLoop on the refIdx-th reference. The activity gets its own
// cancellable context (see CancelRecv): an application that gives up waiting.
func (a *App) RecvLoopRef(pctx context.Context, ref *signaling_client.ClientPeerRef, refIdx int, from string, max int) {
	ctx, cancel := context.WithCancel(pctx)
	a.mu.Lock()
	a.recvCancels = append(a.recvCancels, cancel)
	a.mu.Unlock()
	a.wg.Add(1)
	go func() {
		defer a.wg.Done()
		defer cancel()
		for n := 0; max <= 0 || n < max; n++ {
			op := &RecvOp{Peer: a.Name, From: from, Ref: refIdx}
			a.mu.Lock()
			a.recvs = append(a.recvs, op)
			a.mu.Unlock()
			op.Call = a.Clock.Add(1)
			Ev()
			m, err := ref.Recv(ctx)
			ret := a.Clock.Add(1)
			a.mu.Lock()
			op.Ret, op.Done = ret, true
			if err != nil {
				op.Err = err.Error()
			} else {
				op.Msg = m
				op.ID = string(m.GetSignedMsg().GetData())
			}
			a.mu.Unlock()
			Ev()
			if err != nil {
				return
			}
		}
	}()
}

// RecvOnce starts ONE ref.Recv call in its own goroutine with its own context;
// pre = the context is cancelled BEFORE Recv is called (an application polling
// with a dead context / that gave up just before). A Recv that returns an
// error has not handed a message to the application.
func (a *App) RecvOnce(pctx context.Context, ref *signaling_client.ClientPeerRef, refIdx int, from string, pre bool) {
	ctx, cancel := context.WithCancel(pctx)
	if pre {
		cancel()
	}
	op := &RecvOp{Peer: a.Name, From: from, Ref: refIdx, Pre: pre}
	a.mu.Lock()
	a.recvCancels = append(a.recvCancels, cancel)
	a.recvs = append(a.recvs, op)
	a.mu.Unlock()
	a.wg.Add(1)
	op.Call = a.Clock.Add(1)
	Ev()
	go func() {
		defer a.wg.Done()
		defer cancel()
		m, err := ref.Recv(ctx)
		ret := a.Clock.Add(1)
		a.mu.Lock()
		op.Ret, op.Done = ret, true
		if err != nil {
			op.Err = err.Error()
		} else {
			op.Msg = m
			op.ID = string(m.GetSignedMsg().GetData())
		}
		a.mu.Unlock()
		Ev()
	}()
}

// NRecvActivities returns the number of receive activities started so far.
func (a *App) NRecvActivities() int { a.mu.Lock(); defer a.mu.Unlock(); return len(a.recvCancels) }

// CancelRecv cancels the context of the n-th receive activity (RecvLoop /
// RecvOnce, in start order). Returns false if there is no such activity.
func (a *App) CancelRecv(n int) bool {
	a.mu.Lock()
	if n < 0 || n >= len(a.recvCancels) {
		a.mu.Unlock()
		return false
	}
	c := a.recvCancels[n]
	a.mu.Unlock()
	Ev()
	c()
	return true
}

// Sends returns a copy of the send operations.
func (a *App) Sends() []SendOp {
	a.mu.Lock()
	defer a.mu.Unlock()
	out := make([]SendOp, len(a.sends))
	for i, s := range a.sends {
		out[i] = *s
		out[i].cancel = nil
	}
	return out
}

// Recvs returns a copy of the receive operations.
func (a *App) Recvs() []RecvOp {
	a.mu.Lock()
	defer a.mu.Unlock()
	out := make([]RecvOp, len(a.recvs))
	for i, r := range a.recvs {
		out[i] = *r
	}
	return out
}

// Snapshot returns a copy of one send op.
func (a *App) Snapshot(op *SendOp) SendOp {
	a.mu.Lock()
	defer a.mu.Unlock()
	c := *op
	c.cancel = nil
	return c
}

// Received reports whether a Recv returned payload id, and the earliest call
// clock of such an operation.
func (a *App) Received(id string) (bool, int64) {
	a.mu.Lock()
	defer a.mu.Unlock()
	found, best := false, int64(0)
	for _, r := range a.recvs {
		if r.Done && r.Err == "" && r.ID == id {
			if !found || r.Call < best {
				found, best = true, r.Call
			}
		}
	}
	return found, best
}

// Wait waits for the application goroutines (after their contexts ended).
func (a *App) Wait() { a.wg.Wait() }
