package g8sig

import (
	"fmt"
	"math/rand/v2"

	signaling_rpc "github.com/aperturerobotics/bifrost/signaling/rpc"
)

// LargeLens are payload lengths at and around internal block boundaries of
// hashers / copy loops: powers of two from 1 KiB (BLAKE3 chunk) to 32 KiB, the
// 64 KiB multiples and lengths far from any boundary.
var LargeLens = []int{
	1023, 1024, 1025, 4095, 4096, 4097, 8191, 8193, 16383, 16385, 32767, 32768, 32769, 50000,
	65535, 65536, 65537, 100000, 131071, 131072, 131073, 150000, 196609, 262143,
}

// HugeLens are the lengths kept to one or two uses per run (cost under the race detector).
var HugeLens = []int{1<<20 + 1, 1<<20 - 1, 1 << 20}

// TailBlocks are the block sizes with respect to which "the last block" of a
// payload is taken.
var TailBlocks = []int{64, 1024, 4096, 16384, 32768, 65536, 65536, 65536, 131072}

// TailKinds lists the alterations CONFINED TO THE END of a large payload A
// signed (A's sender id and signature bytes are kept): a verifier whose digest
// does not cover the trailing partial block / the last byte / the bytes behind
// the last full block accepts one of them. "full:" kinds alter the blocks in
// front of the last one (the complementary class).
var TailKinds = []string{
	"flip-last-byte", "flip-first-of-last-block", "flip-in-last-block", "rewrite-last-16",
	"zero-last-block", "drop-last-block", "drop-last-byte", "append-byte", "extend-to-block",
	"last-block-from-prefix", "rewrite-last-block", "flip-last-of-full-blocks",
	"full:flip-first-byte", "full:flip-in-full-blocks",
}

// lastBlockStart is the offset of the last (partial, else full) block of n bytes for block size blk.
func lastBlockStart(n, blk int) int {
	if n == 0 {
		return 0
	}
	if rem := n % blk; rem != 0 {
		return n - rem
	}
	if n >= blk {
		return n - blk
	}
	return 0
}

// TailData computes the altered payload of kind for payload data and block size blk.
// The result always differs from data.
func TailData(kind string, blk int, data []byte, rng *rand.Rand) []byte {
	n := len(data)
	out := append([]byte(nil), data...)
	if n == 0 {
		return []byte{1}
	}
	st := lastBlockStart(n, blk)
	bit := byte(1) << rng.UintN(8)
	switch kind {
	case "flip-last-byte":
		out[n-1] ^= bit
	case "flip-first-of-last-block":
		out[st] ^= bit
	case "flip-in-last-block":
		out[st+rng.IntN(n-st)] ^= bit
	case "rewrite-last-16":
		k := 16
		if k > n {
			k = n
		}
		copy(out[n-k:], []byte("EVIL-CANDIDATE!!")[:k])
		if string(out) == string(data) {
			out[n-1] ^= 1
		}
	case "zero-last-block":
		same := true
		for i := st; i < n; i++ {
			if out[i] != 0 {
				same = false
			}
			out[i] = 0
		}
		if same {
			out[n-1] = 1
		}
	case "drop-last-block":
		if st == 0 {
			st = n - 1
		}
		out = out[:st]
	case "drop-last-byte":
		out = out[:n-1]
	case "append-byte":
		out = append(out, byte('a'+rng.IntN(26)))
	case "extend-to-block":
		m := (n/blk + 1) * blk
		for i := 0; len(out) < m; i++ {
			out = append(out, byte('A'+i%26))
		}
	case "last-block-from-prefix":
		copy(out[st:], data[:n-st])
		if string(out) == string(data) {
			out[n-1] ^= bit
		}
	case "rewrite-last-block":
		for i := st; i < n; i++ {
			out[i] = byte(rng.UintN(256))
		}
		if string(out) == string(data) {
			out[n-1] ^= bit
		}
	case "flip-last-of-full-blocks":
		i := st - 1
		if i < 0 {
			i = n - 1
		}
		out[i] ^= bit
	case "full:flip-first-byte":
		out[0] ^= bit
	case "full:flip-in-full-blocks":
		if st > 0 {
			out[rng.IntN(st)] ^= bit
		} else {
			out[rng.IntN(n)] ^= bit
		}
	default:
		panic(fmt.Sprintf("unknown tail kind %q", kind))
	}
	return out
}

// TailDerive builds a history-dependent forgery from the accepted honest
// message h: A's sender id and signature are kept, the payload is altered at
// its end (kind, block size blk).
func TailDerive(kind string, blk int, h *signaling_rpc.SessionMsg, seqno uint64, rng *rand.Rand) *signaling_rpc.SessionMsg {
	m := h.CloneVT()
	m.Seqno = seqno
	m.SignedMsg.Data = TailData(kind, blk, m.SignedMsg.Data, rng)
	return m
}

// SizeClass names the relation of a payload length to block size blk.
func SizeClass(n, blk int) string {
	switch {
	case n < blk:
		return "below-one-block"
	case n%blk == 0:
		return fmt.Sprintf("exactly-%d-blocks", minInt(n/blk, 3))
	case n%blk == 1:
		return "blocks-plus-1"
	case n%blk == blk-1:
		return "blocks-minus-1"
	}
	return "blocks-plus-partial"
}

func minInt(a, b int) int {
	if a < b {
		return a
	}
	return b
}

// ShortMsg renders a session message for a witness; large payloads are cut.
func ShortMsg(m *signaling_rpc.SessionMsg) string {
	d := m.GetSignedMsg().GetData()
	if len(d) <= 512 {
		return m.String()
	}
	c := m.CloneVT()
	c.SignedMsg.Data = nil
	return fmt.Sprintf("%s data(%d bytes)=%q...%q", c.String(), len(d), d[:48], d[len(d)-48:])
}
