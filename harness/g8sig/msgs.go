package g8sig

import (
	"bytes"
	"crypto/sha1" //nolint:gosec
	"crypto/sha256"
	"encoding/hex"
	"fmt"
	"math/rand/v2"
	"strconv"
	"strings"

	"github.com/aperturerobotics/bifrost/hash"
	"github.com/zeebo/blake3"
	"github.com/aperturerobotics/bifrost/peer"
	signaling_rpc "github.com/aperturerobotics/bifrost/signaling/rpc"
	"verifharness/keys"
)

// SignalingContext is the signing context of signaling session messages,
// copied from the documentation of the wire format (signaling/rpc/signaling.go).
const SignalingContext = "bifrost/signaling/rpc session msg 2024-06-05T02:45:07.208906Z"

// PubsubContext is another context used in the code base (pubsub messages).
const PubsubContext = "bifrost/pubsub/pubmessage 2024-06-05T02:38:47.55258Z channel/"

// Honest builds the message `from`'s client would submit with payload data.
func Honest(from *keys.Identity, data string, seqno uint64) *signaling_rpc.SessionMsg {
	m, err := signaling_rpc.NewSessionMsg(from.Priv, hash.HashType_HashType_BLAKE3, []byte(data), seqno)
	if err != nil {
		panic(err)
	}
	return m
}

// HonestHT builds the message `from` would submit with payload data, signed
// over the digest of hash type ht (a message A signed under the signaling
// context is A's message whatever supported hash type A's signer picked).
func HonestHT(from *keys.Identity, data []byte, seqno uint64, ht hash.HashType) *signaling_rpc.SessionMsg {
	m, err := signaling_rpc.NewSessionMsg(from.Priv, ht, data, seqno)
	if err != nil {
		panic(err)
	}
	return m
}

// PadPayload returns a payload that starts with the unique text data and is
// exactly n bytes long (n <= len(data): data unchanged). The filler depends on
// data only, so equal texts give equal payloads.
func PadPayload(data string, n int) []byte {
	out := []byte(data)
	if n <= len(out) {
		return out
	}
	out = append(out, '~')
	for i := 0; len(out) < n; i++ {
		out = append(out, byte('a'+(i*7+len(data))%26))
	}
	return out
}

// refDigest is the harness' own digest function (standard library / blake3
// primitive), independent of bifrost's hash package.
func refDigest(ht hash.HashType, data []byte) []byte {
	switch ht {
	case hash.HashType_HashType_SHA256:
		d := sha256.Sum256(data)
		return d[:]
	case hash.HashType_HashType_SHA1:
		d := sha1.Sum(data) //nolint:gosec
		return d[:]
	default:
		d := blake3.Sum256(data)
		return d[:]
	}
}

// refSignBody is the documented body covered by a signature (peer/signature.go):
// context, decimal hash type and digest joined by " - SIGN - ".
func refSignBody(ctx string, ht hash.HashType, digest []byte) []byte {
	return bytes.Join([][]byte{[]byte(ctx), []byte(strconv.Itoa(int(ht))), digest}, []byte(" - SIGN - "))
}

// StructKinds lists the STRUCTURAL payload substitutions: the forged payload is
// a value computed from the payload (and hash type) of a message A really
// signed - its digest under each hash type, the documented sign body, the
// digest of the sign body, the payload cut or padded to the digest length, the
// payload joined with its digest, prefixes of digest length ... - while A's
// sender id and signature bytes are kept. A verifier whose signed body does not
// bind the payload injectively (skipped / double hashing, length-dependent
// paths, padding, truncation) accepts one of them.
var StructKinds = []string{
	"blake3-of-data", "sha256-of-data", "sha1-of-data", "own-digest-of-data", "double-digest",
	"sign-body", "digest-of-sign-body", "sign-body-tail",
	"cut-to-digest-len", "zero-pad-to-digest-len", "zero-pad-to-block", "strip-trailing",
	"data-plus-digest", "digest-plus-data", "digest-prefix", "cut-to-20", "cut-to-32", "cut-to-64",
	"hex-digest", "marshalled-digest", "own-digest-other-hash-type", "other-digest-other-hash-type",
}

// StructData computes the substituted payload of kind for a signed message
// with payload data and signature hash type ht. newHT is the hash type to put
// into the forged signature (== ht unless the kind changes it).
func StructData(kind string, data []byte, ht hash.HashType, rng *rand.Rand) (out []byte, newHT hash.HashType) {
	newHT = ht
	hl := len(refDigest(ht, nil))
	others := []hash.HashType{}
	for _, o := range []hash.HashType{hash.HashType_HashType_SHA256, hash.HashType_HashType_SHA1, hash.HashType_HashType_BLAKE3} {
		if o != ht {
			others = append(others, o)
		}
	}
	cut := func(n int) []byte {
		if len(data) > n {
			return append([]byte(nil), data[:n]...)
		}
		// nothing to cut: extend to n+1 instead (still a computed neighbour)
		return append(append([]byte(nil), data...), make([]byte, n+1-len(data))...)
	}
	switch kind {
	case "blake3-of-data":
		out = refDigest(hash.HashType_HashType_BLAKE3, data)
	case "sha256-of-data":
		out = refDigest(hash.HashType_HashType_SHA256, data)
	case "sha1-of-data":
		out = refDigest(hash.HashType_HashType_SHA1, data)
	case "own-digest-of-data":
		out = refDigest(ht, data)
	case "double-digest":
		out = refDigest(ht, refDigest(ht, data))
	case "sign-body":
		out = refSignBody(SignalingContext, ht, refDigest(ht, data))
	case "digest-of-sign-body":
		out = refDigest(ht, refSignBody(SignalingContext, ht, refDigest(ht, data)))
	case "sign-body-tail":
		out = append([]byte(" - SIGN - "), refDigest(ht, data)...)
	case "cut-to-digest-len":
		out = cut(hl)
	case "zero-pad-to-digest-len":
		n := hl
		for n <= len(data) {
			n += hl
		}
		out = append(append([]byte(nil), data...), make([]byte, n-len(data))...)
	case "zero-pad-to-block":
		n := 64
		for n <= len(data) {
			n += 64
		}
		out = append(append([]byte(nil), data...), make([]byte, n-len(data))...)
	case "strip-trailing":
		out = bytes.TrimRight(data, "~abcdefghijklmnopqrstuvwxyz0123456789")
		if len(out) == len(data) || len(out) == 0 {
			out = cut(len(data) - 1)
		}
	case "data-plus-digest":
		out = append(append([]byte(nil), data...), refDigest(ht, data)...)
	case "digest-plus-data":
		out = append(refDigest(ht, data), data...)
	case "digest-prefix":
		d := refDigest(ht, data)
		out = d[:[]int{8, 16, 20, hl - 1}[rng.IntN(4)]]
	case "cut-to-20":
		out = cut(20)
	case "cut-to-32":
		out = cut(32)
	case "cut-to-64":
		out = cut(64)
	case "hex-digest":
		out = []byte(hex.EncodeToString(refDigest(ht, data)))
	case "marshalled-digest":
		// protobuf encoding of hash.Hash{hash_type, hash}: field 1 varint, field 2 bytes
		d := refDigest(ht, data)
		out = append([]byte{0x08, byte(ht), 0x12, byte(len(d))}, d...)
	case "own-digest-other-hash-type":
		out = refDigest(ht, data)
		newHT = others[rng.IntN(len(others))]
	case "other-digest-other-hash-type":
		newHT = others[rng.IntN(len(others))]
		out = refDigest(newHT, data)
	default:
		panic(fmt.Sprintf("unknown structural kind %q", kind))
	}
	return out, newHT
}

// LenClass names the relation of a payload length to the digest length of ht.
func LenClass(n int, ht hash.HashType) string {
	hl := len(refDigest(ht, nil))
	switch {
	case n < hl:
		return "shorter-than-digest"
	case n == hl:
		return "digest-length"
	}
	return "longer-than-digest"
}

// signedUnder builds a SessionMsg whose body is signed by signer under ctx.
func signedUnder(ctx string, signer *keys.Identity, ht hash.HashType, data string, seqno uint64) *signaling_rpc.SessionMsg {
	sm, err := peer.NewSignedMsg(ctx, signer.Priv, ht, []byte(data))
	if err != nil {
		panic(err)
	}
	return &signaling_rpc.SessionMsg{SignedMsg: sm, Seqno: seqno}
}

// ForgeKinds lists the adversarial deliveries of the C19 quantifier. Every
// forged message is derived from a payload that is never delivered honestly.
var ForgeKinds = []string{
	"flip-data", "flip-sig", "flip-sender", "third-key-claims-A", "A-signed-pubsub-ctx",
	"A-signed-near-ctx", "valid-from-C", "empty-sig", "nil-sig", "hash-type-0",
	"hash-type-swapped", "valid-from-self", "A-sig-reattributed-to-C", "pubkey-field-of-C",
	"truncated-sig", "appended-data", "empty-data", "empty-sender", "sig-of-other-payload",
	"nil-signed-msg",
}

func flipBit(b []byte, rng *rand.Rand) []byte {
	out := append([]byte(nil), b...)
	if len(out) == 0 {
		return []byte{1}
	}
	i := rng.IntN(len(out))
	out[i] ^= 1 << rng.UintN(8)
	return out
}

// Forge builds one adversarial message of the given kind, delivered on the
// session of local peer B with remote peer A; C is a third identity.
// data is a unique payload (never used for an honest delivery).
func Forge(kind string, a, b, c *keys.Identity, data string, seqno uint64, rng *rand.Rand) *signaling_rpc.SessionMsg {
	base := Honest(a, data, seqno)
	if strings.HasPrefix(kind, "st:") {
		// A's genuine signature over a payload that is never delivered, with the
		// payload replaced by a value computed from it
		base.SignedMsg.Data, base.SignedMsg.Signature.HashType = StructData(kind[3:], base.SignedMsg.Data, base.SignedMsg.Signature.HashType, rng)
		return base
	}
	switch kind {
	case "flip-data":
		base.SignedMsg.Data = flipBit(base.SignedMsg.Data, rng)
	case "flip-sig":
		base.SignedMsg.Signature.SigData = flipBit(base.SignedMsg.Signature.SigData, rng)
	case "flip-sender":
		// another well-formed peer id: the id of a key derived from the seed
		// (an adversary cannot pick a colliding id; any other id is "altered")
		if rng.IntN(2) == 0 {
			base.SignedMsg.FromPeerId = c.String()
		} else {
			s := []byte(base.SignedMsg.FromPeerId)
			i := rng.IntN(len(s))
			if s[i] == 'a' {
				s[i] = 'b'
			} else {
				s[i] = 'a'
			}
			base.SignedMsg.FromPeerId = string(s)
		}
	case "third-key-claims-A":
		m := signedUnder(SignalingContext, c, hash.HashType_HashType_BLAKE3, data, seqno)
		m.SignedMsg.FromPeerId = a.String()
		return m
	case "A-signed-pubsub-ctx":
		return signedUnder(PubsubContext+"chan", a, hash.HashType_HashType_BLAKE3, data, seqno)
	case "A-signed-near-ctx":
		ctxs := []string{SignalingContext + " ", SignalingContext[:len(SignalingContext)-1], "", " " + SignalingContext, PubsubContext}
		return signedUnder(ctxs[rng.IntN(len(ctxs))], a, hash.HashType_HashType_BLAKE3, data, seqno)
	case "valid-from-C":
		return Honest(c, data, seqno)
	case "empty-sig":
		base.SignedMsg.Signature.SigData = nil
	case "nil-sig":
		base.SignedMsg.Signature = nil
	case "hash-type-0":
		base.SignedMsg.Signature.HashType = hash.HashType_HashType_UNKNOWN
	case "hash-type-swapped":
		base.SignedMsg.Signature.HashType = hash.HashType_HashType_SHA256
	case "valid-from-self":
		return Honest(b, data, seqno)
	case "A-sig-reattributed-to-C":
		base.SignedMsg.FromPeerId = c.String()
	case "pubkey-field-of-C":
		sig, err := peer.NewSignature(SignalingContext, c.Priv, hash.HashType_HashType_BLAKE3, []byte(data), true)
		if err != nil {
			panic(err)
		}
		base.SignedMsg.Signature = sig
	case "truncated-sig":
		sd := base.SignedMsg.Signature.SigData
		base.SignedMsg.Signature.SigData = append([]byte(nil), sd[:len(sd)-1-rng.IntN(len(sd)-1)]...)
	case "appended-data":
		base.SignedMsg.Data = append(append([]byte(nil), base.SignedMsg.Data...), byte('x'))
	case "empty-data":
		base.SignedMsg.Data = nil
	case "empty-sender":
		base.SignedMsg.FromPeerId = ""
	case "sig-of-other-payload":
		other := Honest(a, data+"/other", seqno)
		base.SignedMsg.Signature = other.SignedMsg.Signature
	case "nil-signed-msg":
		base.SignedMsg = nil
	default:
		panic(fmt.Sprintf("unknown forge kind %q", kind))
	}
	return base
}

// SameSigned reports whether two session messages carry the identical signed
// envelope (sender, payload, hash type, signature bytes, pub key field).
func SameSigned(x, y *signaling_rpc.SessionMsg) bool {
	return x.GetSignedMsg() != nil && y.GetSignedMsg() != nil && x.GetSignedMsg().EqualVT(y.GetSignedMsg())
}

// DeriveKinds lists the HISTORY-dependent forgeries: messages derived from a
// message `h` that the verifier has already accepted (an honest delivery of
// A), optionally combined with a second accepted message `h2`. None of them is
// an honest delivery: each differs from every honest message in the payload,
// the claimed sender, the hash type or the signature bytes. (A copy of h that
// differs only in the unauthenticated pub_key field or in the outer seqno
// would still verify and carry A's payload; those are not forgeries and are
// not generated here.)
var DeriveKinds = []string{
	"sig-new-data", "sig-flip-data", "sig-append-data", "sig-trunc-data",
	"sig-hash-sha256", "sig-hash-sha1", "sig-hash-sha256-new-data",
	"sig-pubkeyC-new-data", "sig-pubkeyA-new-data",
	"data-with-older-sig", "older-data-with-sig", "data-resigned-by-C", "data-resigned-other-ctx",
	"sig-data-reattributed-C", "sig-data-reattributed-self", "sig-extended", "sig-new-data-nil-hash",
}

// StructDeriveKinds are the derive kinds "st:<k>" for every structural substitution.
var StructDeriveKinds = func() []string {
	var out []string
	for _, k := range StructKinds {
		out = append(out, "st:"+k)
	}
	return out
}()

// Derive builds a history-dependent forgery of kind from the accepted honest
// message h (sender A) and a second accepted honest message h2 of A (h2 may
// equal h when the history holds only one). fresh is a payload that was never
// delivered honestly. The outer seqno is given by the caller.
func Derive(kind string, h, h2 *signaling_rpc.SessionMsg, a, b, c *keys.Identity, fresh string, seqno uint64, rng *rand.Rand) *signaling_rpc.SessionMsg {
	m := h.CloneVT()
	m.Seqno = seqno
	sm := m.SignedMsg
	if strings.HasPrefix(kind, "st:") {
		sm.Data, sm.Signature.HashType = StructData(kind[3:], sm.Data, sm.Signature.GetHashType(), rng)
		return m
	}
	switch kind {
	case "sig-new-data":
		sm.Data = []byte(fresh)
	case "sig-flip-data":
		sm.Data = flipBit(sm.Data, rng)
	case "sig-append-data":
		sm.Data = append(sm.Data, byte('a'+rng.IntN(26)))
	case "sig-trunc-data":
		sm.Data = sm.Data[:len(sm.Data)-1-rng.IntN(len(sm.Data)/2)]
	case "sig-hash-sha256":
		sm.Signature.HashType = hash.HashType_HashType_SHA256
	case "sig-hash-sha1":
		sm.Signature.HashType = hash.HashType_HashType_SHA1
	case "sig-hash-sha256-new-data":
		sm.Signature.HashType = hash.HashType_HashType_SHA256
		sm.Data = []byte(fresh)
	case "sig-pubkeyC-new-data", "sig-pubkeyA-new-data":
		who := c
		if kind == "sig-pubkeyA-new-data" {
			who = a
		}
		s2, err := peer.NewSignature(SignalingContext, who.Priv, hash.HashType_HashType_BLAKE3, []byte(fresh), true)
		if err != nil {
			panic(err)
		}
		sm.Signature.PubKey = s2.PubKey
		sm.Data = []byte(fresh)
	case "data-with-older-sig":
		// payload of h under the signature of the other accepted message
		if h2 != h {
			sm.Signature = h2.SignedMsg.Signature.CloneVT()
		} else {
			sm.Signature = Honest(a, fresh, seqno).SignedMsg.Signature
		}
	case "older-data-with-sig":
		if h2 != h {
			sm.Data = append([]byte(nil), h2.SignedMsg.Data...)
		} else {
			sm.Data = []byte(fresh)
		}
	case "data-resigned-by-C":
		x := signedUnder(SignalingContext, c, hash.HashType_HashType_BLAKE3, string(sm.Data), seqno)
		sm.Signature = x.SignedMsg.Signature
	case "data-resigned-other-ctx":
		x := signedUnder(PubsubContext+"chan", a, hash.HashType_HashType_BLAKE3, string(sm.Data), seqno)
		sm.Signature = x.SignedMsg.Signature
	case "sig-data-reattributed-C":
		sm.FromPeerId = c.String()
	case "sig-data-reattributed-self":
		sm.FromPeerId = b.String()
	case "sig-extended":
		sm.Signature.SigData = append(sm.Signature.SigData, byte(rng.IntN(256)))
	case "sig-new-data-nil-hash":
		sm.Signature.HashType = hash.HashType_HashType_UNKNOWN
		sm.Data = []byte(fresh)
	default:
		panic(fmt.Sprintf("unknown derive kind %q", kind))
	}
	return m
}
