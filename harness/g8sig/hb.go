package g8sig

import (
	"context"
	"errors"
	"fmt"
	"sync"

	"github.com/aperturerobotics/bifrost/peer"
	signaling_rpc "github.com/aperturerobotics/bifrost/signaling/rpc"
	signaling_server "github.com/aperturerobotics/bifrost/signaling/rpc/server"
	"github.com/aperturerobotics/starpc/srpc"
	"verifharness/keys"
)

// HB is "Harness B": real clients <-> tap/proxy <-> one real server. The
// proxy sees every request and response (a "crossing"), can drop / duplicate /
// stall messages within the stream they were sent on and can kill streams. It
// never moves a message to another stream and never fabricates one.
type HB struct {
	Srv *signaling_server.Server

	mu        sync.Mutex
	conns     []*HBConn
	crossings int
	order     []string
	expect    map[string]bool // "owner>target" pairs that must have a live stream at quiescence
	rules     []*HBRule
	held      []*heldMsg
	cliAcks   []AckRec

	// Hook is called inline (proxy lock NOT held) before crossing k is applied.
	Hook func(hb *HB, k int, c *HBConn, dir, desc string)
}

// AckRec is one AckMsg request EMITTED by a client (recorded when it enters the
// proxy, once, whatever the proxy then does with it).
type AckRec struct {
	Owner  string // application name of the emitting client
	Target string // peer id of the session partner
	Seq    uint64 // message seqno named
}

// ClientAcks returns every AckMsg the (non-raw) clients emitted so far.
func (hb *HB) ClientAcks() []AckRec {
	hb.mu.Lock()
	defer hb.mu.Unlock()
	return append([]AckRec(nil), hb.cliAcks...)
}

// HBConn is one Session call of a client (or a raw one made by the harness).
type HBConn struct {
	ID     int
	Owner  string // name of the owning application ("A", "B", ...)
	OwnerP string // peer id
	Raw    bool
	C      *CStream
	S      *SStream

	mu      sync.Mutex
	target  string
	orphan  bool // the client side went away without the server noticing (Close is not propagated)
	ended   bool
	endErr  string
	toCli   []string // responses delivered to the client side (tap)
	lastAnn string   // last Opened/Closed delivered to the client
}

// Target returns the peer id named in the Init request ("" before Init).
func (c *HBConn) Target() string { c.mu.Lock(); defer c.mu.Unlock(); return c.target }

// Ended reports whether the server-side call returned, and its error.
func (c *HBConn) Ended() (bool, string) { c.mu.Lock(); defer c.mu.Unlock(); return c.ended, c.endErr }

// LastAnnouncement returns the last Opened(e)/Closed item delivered to the client.
func (c *HBConn) LastAnnouncement() string { c.mu.Lock(); defer c.mu.Unlock(); return c.lastAnn }

// Tap returns the responses delivered to the client.
func (c *HBConn) Tap() []string {
	c.mu.Lock()
	defer c.mu.Unlock()
	return append([]string(nil), c.toCli...)
}

// HBRule is a proxy fault rule.
type HBRule struct {
	Owner  string // "" = any
	Dir    string // c2s | s2c
	Kind   string // send | ack | clear | recv (s2c RecvMsg) | opened | closed | any
	Nth    int    // apply to the Nth matching message (0-based), counted per rule
	Action string // drop | dup | dup-late | stall
	seen   int
	done   bool
}

type heldMsg struct {
	conn *HBConn
	dir  string
	req  *signaling_rpc.SessionRequest
	resp *signaling_rpc.SessionResponse
	desc string
}

type hbIdentKey struct{}

// NewHB makes a harness with a fresh real server.
func NewHB() *HB {
	hb := &HB{expect: map[string]bool{}}
	hb.Srv = signaling_server.NewServerWithIdentify(QuietLogger(), func(ctx context.Context) (peer.ID, error) {
		id, ok := ctx.Value(hbIdentKey{}).(peer.ID)
		if !ok {
			return "", errors.New("g8sig: no identity on stream context")
		}
		return id, nil
	})
	return hb
}

// hbClient is the SRPCSignalingClient handed to one real client.
type hbClient struct {
	hb   *HB
	id   *keys.Identity
	name string
}

// ClientFor returns the rpc client of identity id (application name for logs).
func (hb *HB) ClientFor(id *keys.Identity, name string) signaling_rpc.SRPCSignalingClient {
	return &hbClient{hb: hb, id: id, name: name}
}

func (c *hbClient) SRPCClient() srpc.Client { return nil }

func (c *hbClient) Listen(ctx context.Context, in *signaling_rpc.ListenRequest) (signaling_rpc.SRPCSignaling_ListenClient, error) {
	return &NopListen{ctx: ctx}, nil
}

func (c *hbClient) Session(ctx context.Context) (signaling_rpc.SRPCSignaling_SessionClient, error) {
	conn := c.hb.newConn(ctx, c.id, c.name, false)
	return conn.C, nil
}

// RawSession opens a Session call as identity id towards target, made by the
// harness itself (the "duplicate call" that usurps a client's call).
func (hb *HB) RawSession(id *keys.Identity, name, target string) *HBConn {
	conn := hb.newConn(context.Background(), id, name, true)
	_ = conn.C.Send(&signaling_rpc.SessionRequest{Body: &signaling_rpc.SessionRequest_Init{Init: &signaling_rpc.SessionInit{PeerId: target}}})
	return conn
}

func (hb *HB) newConn(ctx context.Context, id *keys.Identity, name string, raw bool) *HBConn {
	Ev()
	conn := &HBConn{Owner: name, OwnerP: id.String(), Raw: raw}
	conn.S = NewSStream(context.WithValue(context.Background(), hbIdentKey{}, id.ID))
	conn.S.OnSend = func(resp *signaling_rpc.SessionResponse) error {
		return hb.crossResp(conn, resp)
	}
	hb.mu.Lock()
	conn.ID = len(hb.conns)
	conn.C = NewCStream(ctx, conn.ID)
	conn.C.OnSend = func(s *CStream, req *signaling_rpc.SessionRequest) error {
		return hb.crossReq(conn, req)
	}
	conn.C.OnClose = func(s *CStream) {
		conn.mu.Lock()
		orphan := conn.orphan
		conn.mu.Unlock()
		if !orphan {
			conn.S.Kill(context.Canceled)
		}
	}
	hb.conns = append(hb.conns, conn)
	hb.mu.Unlock()
	go func() {
		err := hb.Srv.Session(conn.S)
		Ev()
		conn.mu.Lock()
		conn.ended = true
		if err != nil {
			conn.endErr = err.Error()
		}
		conn.mu.Unlock()
		if err == nil {
			err = errors.New("g8sig: server call returned")
		}
		conn.C.Kill(err)
		conn.S.Kill(err)
	}()
	return conn
}

// Orphan marks every live (non-raw) call of owner as orphaned: when the owning
// client goes away (its context ends, it closes its streams) the proxy does NOT
// tell the server - the connection of a process that died without the relay
// noticing. The server keeps the call registered until somebody usurps it.
// Returns the number of calls orphaned.
func (hb *HB) Orphan(owner string) int {
	n := 0
	for _, c := range hb.Conns() {
		if c.Raw || c.Owner != owner {
			continue
		}
		if ended, _ := c.Ended(); ended {
			continue
		}
		c.mu.Lock()
		c.orphan = true
		c.mu.Unlock()
		n++
	}
	return n
}

// ReleaseWrites opens the write gates of every stream of owner ("" = all).
// Returns the number of writers that were parked.
func (hb *HB) ReleaseWrites(owner string) int {
	n := 0
	for _, c := range hb.Conns() {
		if owner == "" || c.Owner == owner {
			n += c.C.ReleaseWrites()
		}
	}
	return n
}

// Kill resets a stream in both directions.
func (hb *HB) Kill(c *HBConn) {
	c.S.Kill(ErrKilled)
	c.C.Kill(ErrKilled)
}

// EndConn ends a call: the server side sees its stream fail, the client side
// sees the end in the given shape (the link closed cleanly / with an error / ...).
func (hb *HB) EndConn(c *HBConn, sh EndShape) {
	c.S.Kill(ErrKilled)
	c.C.End(sh)
}

func reqKind(req *signaling_rpc.SessionRequest) string { return Classify(0, req).Kind }

func respKind(r *signaling_rpc.SessionResponse) string {
	switch r.GetBody().(type) {
	case *signaling_rpc.SessionResponse_Opened:
		return "opened"
	case *signaling_rpc.SessionResponse_Closed:
		return "closed"
	case *signaling_rpc.SessionResponse_RecvMsg:
		return "recv"
	case *signaling_rpc.SessionResponse_AckMsg:
		return "ack"
	case *signaling_rpc.SessionResponse_ClearMsg:
		return "clear"
	}
	return "other"
}

// match finds the action for a message (proxy lock held).
func (hb *HB) matchL(c *HBConn, dir, kind string) string {
	for _, r := range hb.rules {
		if r.done || r.Dir != dir || (r.Owner != "" && r.Owner != c.Owner) || (r.Kind != "any" && r.Kind != kind) {
			continue
		}
		if r.seen == r.Nth {
			r.done = true
			return r.Action
		}
		r.seen++
	}
	return ""
}

// stalledL reports whether (conn, dir) is stalled by a held "stall" message:
// later messages of that stream direction queue behind it (order preserved).
func (hb *HB) stalledL(c *HBConn, dir string) bool {
	for _, h := range hb.held {
		if h.conn == c && h.dir == dir && h.desc == "stall" {
			return true
		}
	}
	return false
}

func (hb *HB) crossReq(c *HBConn, req *signaling_rpc.SessionRequest) error {
	rec := Classify(c.ID, req)
	if rec.Kind == "init" {
		c.mu.Lock()
		c.target = req.GetInit().GetPeerId()
		c.mu.Unlock()
	}
	hb.mu.Lock()
	k := hb.crossings
	hb.crossings++
	desc := fmt.Sprintf("%s>S %s", c.Owner, rec.String())
	if len(hb.order) < 600 {
		hb.order = append(hb.order, desc)
	}
	if rec.Kind == "ack" && !c.Raw {
		hb.cliAcks = append(hb.cliAcks, AckRec{Owner: c.Owner, Target: c.Target(), Seq: rec.Seq})
	}
	hook := hb.Hook
	hb.mu.Unlock()
	if hook != nil {
		hook(hb, k, c, "c2s", desc)
	}
	hb.mu.Lock()
	act := ""
	if rec.Kind != "init" {
		act = hb.matchL(c, "c2s", rec.Kind)
	}
	if act == "" && hb.stalledL(c, "c2s") {
		act = "queue-behind-stall"
	}
	switch act {
	case "drop":
		hb.mu.Unlock()
		return nil
	case "stall":
		hb.held = append(hb.held, &heldMsg{conn: c, dir: "c2s", req: req.CloneVT(), desc: "stall"})
		hb.mu.Unlock()
		return nil
	case "queue-behind-stall":
		hb.held = append(hb.held, &heldMsg{conn: c, dir: "c2s", req: req.CloneVT(), desc: "behind"})
		hb.mu.Unlock()
		return nil
	case "dup-late":
		hb.held = append(hb.held, &heldMsg{conn: c, dir: "c2s", req: req.CloneVT(), desc: "dup"})
	}
	hb.mu.Unlock()
	c.S.Put(req.CloneVT())
	if act == "dup" {
		c.S.Put(req.CloneVT())
	}
	return nil
}

func (hb *HB) deliverResp(c *HBConn, resp *signaling_rpc.SessionResponse) {
	d := RespString(resp)
	c.mu.Lock()
	if len(c.toCli) < 200 {
		c.toCli = append(c.toCli, d)
	}
	switch respKind(resp) {
	case "opened", "closed":
		c.lastAnn = d
	}
	c.mu.Unlock()
	c.C.Push(resp.CloneVT())
}

func (hb *HB) crossResp(c *HBConn, resp *signaling_rpc.SessionResponse) error {
	kind := respKind(resp)
	hb.mu.Lock()
	k := hb.crossings
	hb.crossings++
	desc := fmt.Sprintf("S>%s %s", c.Owner, RespString(resp))
	if len(hb.order) < 600 {
		hb.order = append(hb.order, desc)
	}
	hook := hb.Hook
	hb.mu.Unlock()
	if hook != nil {
		hook(hb, k, c, "s2c", desc)
	}
	hb.mu.Lock()
	act := hb.matchL(c, "s2c", kind)
	if act == "" && hb.stalledL(c, "s2c") {
		act = "queue-behind-stall"
	}
	switch act {
	case "drop":
		hb.mu.Unlock()
		return nil
	case "stall":
		hb.held = append(hb.held, &heldMsg{conn: c, dir: "s2c", resp: resp.CloneVT(), desc: "stall"})
		hb.mu.Unlock()
		return nil
	case "queue-behind-stall":
		hb.held = append(hb.held, &heldMsg{conn: c, dir: "s2c", resp: resp.CloneVT(), desc: "behind"})
		hb.mu.Unlock()
		return nil
	case "dup-late":
		hb.held = append(hb.held, &heldMsg{conn: c, dir: "s2c", resp: resp.CloneVT(), desc: "dup"})
	}
	hb.mu.Unlock()
	hb.deliverResp(c, resp)
	if act == "dup" {
		hb.deliverResp(c, resp)
	}
	return nil
}

// SetHook installs (or with nil removes) the crossing hook.
func (hb *HB) SetHook(f func(hb *HB, k int, c *HBConn, dir, desc string)) {
	hb.mu.Lock()
	hb.Hook = f
	hb.mu.Unlock()
}

// AddRule installs a proxy fault rule.
func (hb *HB) AddRule(r HBRule) {
	hb.mu.Lock()
	rr := r
	hb.rules = append(hb.rules, &rr)
	hb.mu.Unlock()
}

// Held is the number of messages the proxy is holding (stalled or late duplicates).
func (hb *HB) Held() int { hb.mu.Lock(); defer hb.mu.Unlock(); return len(hb.held) }

// ReleaseHeld delivers everything the proxy holds, in order, on the stream and
// direction it was taken from (dead streams swallow it). Returns the count.
func (hb *HB) ReleaseHeld() int {
	hb.mu.Lock()
	held := hb.held
	hb.held = nil
	hb.mu.Unlock()
	for _, h := range held {
		if h.dir == "c2s" {
			h.conn.S.Put(h.req)
		} else {
			hb.deliverResp(h.conn, h.resp)
		}
	}
	return len(held)
}

// Expect declares that application owner holds a peer reference to target (so
// a live, registered stream must exist at a quiescent point); on=false removes it.
func (hb *HB) Expect(owner, target string, on bool) {
	hb.mu.Lock()
	if on {
		hb.expect[owner+">"+target] = true
	} else {
		delete(hb.expect, owner+">"+target)
	}
	hb.mu.Unlock()
}

// Latest returns the latest non-raw conn of owner towards target (nil if none).
func (hb *HB) Latest(owner, target string) *HBConn {
	hb.mu.Lock()
	defer hb.mu.Unlock()
	return hb.latestL(owner, target)
}

func (hb *HB) latestL(owner, target string) *HBConn {
	for i := len(hb.conns) - 1; i >= 0; i-- {
		c := hb.conns[i]
		if c.Raw || c.Owner != owner {
			continue
		}
		t := c.Target()
		if t == target || t == "" {
			return c
		}
	}
	return nil
}

// LiveOK is the quiescence predicate of Harness B: every expected pair has a
// live registered stream and every queue is drained.
func (hb *HB) LiveOK() (bool, string) {
	hb.mu.Lock()
	defer hb.mu.Unlock()
	for key := range hb.expect {
		var owner, target string
		for i := 0; i < len(key); i++ {
			if key[i] == '>' {
				owner, target = key[:i], key[i+1:]
			}
		}
		c := hb.latestL(owner, target)
		if c == nil {
			return false, "hb: no stream yet for " + key
		}
		if ended, _ := c.Ended(); ended || !c.C.Alive() {
			return false, "hb: latest stream of " + key + " ended, waiting for the client to retry"
		}
		if c.Target() == "" {
			return false, "hb: init of " + key + " not yet seen"
		}
	}
	for _, c := range hb.conns {
		if ended, _ := c.Ended(); ended {
			continue
		}
		if n := c.C.Pending(); n != 0 && c.C.Alive() && !c.Raw {
			return false, fmt.Sprintf("hb: %d responses not yet taken by %s", n, c.Owner)
		}
		if n := c.S.in.length(); n != 0 {
			return false, fmt.Sprintf("hb: %d requests of %s not yet taken by the server", n, c.Owner)
		}
	}
	return true, ""
}

// Crossings returns the number of crossings and (a prefix of) their order.
func (hb *HB) Crossings() (int, []string) {
	hb.mu.Lock()
	defer hb.mu.Unlock()
	return hb.crossings, append([]string(nil), hb.order...)
}

// Conns returns all conns.
func (hb *HB) Conns() []*HBConn {
	hb.mu.Lock()
	defer hb.mu.Unlock()
	return append([]*HBConn(nil), hb.conns...)
}

// Shutdown kills every stream (end of a case).
func (hb *HB) Shutdown() {
	for _, c := range hb.Conns() {
		hb.Kill(c)
	}
}
