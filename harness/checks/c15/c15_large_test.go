package c15

import (
	"bytes"
	"encoding/hex"
	"fmt"
	"math/rand/v2"
	"time"

	bhash "github.com/aperturerobotics/bifrost/hash"
	"verifharness/g2util"
	"verifharness/vf"
)

// Large data: lengths at, one below and one above internal block boundaries
// (powers of two from 1 KiB, multiples of 64 KiB, 1 MiB +- 1) and lengths with a
// long trailing partial block. Sum / HashType.Sum / BuildHasher must give the
// reference digest of ALL the data; VerifyData must accept the data and reject
// every variant that differs only at its end (last byte, first byte of the
// last partial block, last block dropped, ...), and must reject the data when
// the stored digest is the reference digest of the full blocks only.

var (
	c15MidLens   = []int{1023, 1024, 1025, 4095, 4097, 16383, 16385, 32767, 32769}
	c15LargeLens = []int{65535, 65536, 65537, 131071, 131072, 131073, 150000}
	c15HugeLens  = []int{1<<20 + 1, 1<<20 - 1, 1 << 20, 3<<16 + 7}
	c15Blocks    = []int{65536, 1024, 64, 4096, 16384, 32768, 131072}
)

type c15Tail struct {
	name string
	data []byte
}

func c15LastBlockStart(n, blk int) int {
	if rem := n % blk; rem != 0 {
		return n - rem
	}
	if n >= blk {
		return n - blk
	}
	return 0
}

// c15Tails: variants of data (len >= 2) that differ from it only at the end
// (or, "full:", in the blocks in front of the last one).
func c15Tails(data []byte, blk int, rng *rand.Rand, few bool) []c15Tail {
	n := len(data)
	st := c15LastBlockStart(n, blk)
	var out []c15Tail
	mod := func(name string, f func(b []byte) []byte) {
		b := f(g2util.Clone(data))
		if !bytes.Equal(b, data) {
			out = append(out, c15Tail{name, b})
		}
	}
	bit := func() byte { return byte(1) << rng.UintN(8) }
	mod("flip-last-byte", func(b []byte) []byte { b[n-1] ^= bit(); return b })
	mod("flip-first-of-last-block", func(b []byte) []byte { b[st] ^= bit(); return b })
	mod("drop-last-block", func(b []byte) []byte {
		if st == 0 {
			return b[:n-1]
		}
		return b[:st]
	})
	if few {
		return out
	}
	mod("flip-in-last-block", func(b []byte) []byte { b[st+rng.IntN(n-st)] ^= bit(); return b })
	mod("zero-last-block", func(b []byte) []byte {
		for i := st; i < n; i++ {
			b[i] = 0
		}
		return b
	})
	mod("drop-last-byte", func(b []byte) []byte { return b[:n-1] })
	mod("append-byte", func(b []byte) []byte { return append(b, byte(rng.UintN(256))) })
	mod("extend-to-block", func(b []byte) []byte { return append(b, g2util.Bytes(rng, (n/blk+1)*blk-n)...) })
	mod("full:flip-in-full-blocks", func(b []byte) []byte {
		if st > 0 {
			b[rng.IntN(st)] ^= bit()
		} else {
			b[0] ^= bit()
		}
		return b
	})
	return out
}

func largePart(r *vf.Run) {
	type lcase struct {
		t    int32
		n    int
		few  bool
		seed uint64
	}
	rng := r.Rand("c15-large")
	t0 := time.Now() // reported in the evidence only
	defer func() { r.Extra("large_data_part_wall_s", time.Since(t0).Seconds()) }()
	var cs []lcase
	seed := int(r.Seed() % 3)
	for i, n := range c15HugeLens[:r.N(1, len(c15HugeLens))] {
		for t := int32(1); t <= 3; t++ {
			if r.Quick() && t != int32(1+(i+seed)%3) {
				continue
			}
			cs = append(cs, lcase{t, n, true, rng.Uint64()})
		}
	}
	for _, n := range append(append([]int(nil), c15LargeLens...), c15MidLens...) {
		for t := int32(1); t <= 3; t++ {
			cs = append(cs, lcase{t, n, false, rng.Uint64()})
		}
	}
	r.Begin(fmt.Sprintf("large data (block boundaries, altered tails): %d cases", len(cs)))
	g2util.ParFor(len(cs), func(i int) {
		c := cs[i]
		rng := rand.New(rand.NewPCG(c.seed, 15))
		data := g2util.Bytes(rng, c.n)
		rd, _ := refDigest(c.t, data)
		w := func(extra ...any) map[string]any {
			m := map[string]any{"hash_type": c.t, "data_len": c.n, "data": vf.Hex(data), "data_tail": hex.EncodeToString(data[c.n-16:]), "case_seed": c.seed, "want": hex.EncodeToString(rd)}
			for j := 0; j+1 < len(extra); j += 2 {
				m[fmt.Sprint(extra[j])] = extra[j+1]
			}
			return m
		}
		r.Distinct("large_data_length_x_type", fmt.Sprintf("%d/%d", c.n, c.t))

		// ---- Sum
		var h *bhash.Hash
		var raw []byte
		var err, err2 error
		pk, pd := vf.Try(func() {
			h, err = bhash.Sum(bhash.HashType(c.t), g2util.Clone(data))
			raw, err2 = bhash.HashType(c.t).Sum(g2util.Clone(data))
		})
		r.Case(fmt.Sprintf("sum-large|%d|%d|%x", c.t, c.n, rd), !pk)
		r.Count("sum_large_data", 1)
		switch {
		case pk:
			r.Violation("Sum/panic/known", "Sum panicked on large data: "+pd, w())
			return
		case err != nil || err2 != nil:
			r.Violation("Sum/rejects-known-type", fmt.Sprintf("Sum failed for a known algorithm: %v %v", err, err2), w())
		case h == nil || int32(h.GetHashType()) != c.t || !bytes.Equal(h.GetHash(), rd) || !bytes.Equal(raw, rd):
			r.Violation("Sum/wrong-digest", "Sum of large data returned something other than the digest of ALL the data under the algorithm", w("got", hex.EncodeToString(raw)))
		}

		// ---- VerifyData on the data and on variants altered at the end
		verify := func(stored, d []byte) (ok bool, panicked bool) {
			var e error
			pk, pd := vf.Try(func() { _, e = mk(c.t, stored).VerifyData(d) })
			if pk {
				r.Violation("VerifyData/panic/known", "VerifyData panicked on large data: "+pd, w())
				return false, true
			}
			return e == nil, false
		}
		if ok, p := verify(rd, g2util.Clone(data)); !p {
			r.Case(fmt.Sprintf("verify-large|%d|%d|%x", c.t, c.n, rd), true)
			r.Count("verify_expected_ok", 1)
			if !ok {
				r.Violation("VerifyData/rejects-correct/known", "VerifyData failed although the stored digest is the digest of the (large) data", w())
			}
		}
		var blks []int
		for _, b := range c15Blocks {
			if b < c.n {
				blks = append(blks, b)
			}
		}
		if len(blks) > 2 {
			blks = []int{blks[0], blks[1+rng.IntN(len(blks)-1)]}
		}
		if c.few || (r.Quick() && c.n != 65537 && c.n != 131073 && c.n != 150000) {
			blks = blks[:1]
		}
		for _, blk := range blks {
			for _, tc := range c15Tails(data, blk, rng, c.few) {
				// the variant differs from the hashed data, so (no collisions) rd is not its
				// digest; the reference is consulted for the smaller sizes only (cost)
				want := false
				if c.n < 65535 {
					want = refVerify(c.t, rd, tc.data)
				}
				ok, p := verify(rd, tc.data)
				if p {
					continue
				}
				r.Case(fmt.Sprintf("verify-large|%d|%d|%x|%s|%d", c.t, c.n, rd, tc.name, blk), true)
				r.Count("verify_large_altered_tail", 1)
				r.Distinct("large_tail_kind_x_size_class", fmt.Sprintf("%s/blk%d/rem%d", tc.name, blk, min(c.n%blk, 2)))
				if ok && !want {
					r.Violation("VerifyData/accepts-wrong/known-wrong-digest", "VerifyData accepted large data that differs from the hashed data only at its end ("+tc.name+")",
						w("variant", tc.name, "block", blk, "variant_len", len(tc.data), "variant_tail", hex.EncodeToString(tc.data[max(0, len(tc.data)-16):])))
				}
			}
			// the digest of the full blocks only is not the digest of the data
			if st := c15LastBlockStart(c.n, blk); st > 0 {
				pd, _ := refDigest(c.t, data[:st])
				if ok, p := verify(pd, g2util.Clone(data)); !p {
					r.Case(fmt.Sprintf("verify-large|%d|%d|%x|prefix-digest|%d", c.t, c.n, rd, blk), true)
					r.Count("verify_large_prefix_digest", 1)
					if ok {
						r.Violation("VerifyData/accepts-wrong/known-wrong-digest", "VerifyData accepted large data against the digest of its leading full blocks only", w("block", blk, "prefix_len", st))
					}
				}
			}
		}

		// ---- BuildHasher: streaming in blocks (+ remainder) gives the reference digest
		chunks := []int{65536, 4096, 1000}
		if c.few {
			chunks = chunks[:1]
		}
		for _, ch := range chunks {
			var sd []byte
			var berr error
			pk, pd := vf.Try(func() {
				hh, e := bhash.HashType(c.t).BuildHasher()
				if berr = e; e != nil {
					return
				}
				for d := data; len(d) > 0; {
					k := min(ch, len(d))
					hh.Write(d[:k])
					d = d[k:]
				}
				sd = hh.Sum(nil)
			})
			r.Count("buildhasher_large_data", 1)
			switch {
			case pk:
				r.Violation("BuildHasher/panic/known", "BuildHasher panicked: "+pd, w())
			case berr != nil:
				r.Count("buildhasher_rejects_known", 1)
			case !bytes.Equal(sd, rd):
				r.Violation("BuildHasher/wrong-digest", "streaming digest of large data differs from the algorithm's digest", w("got", hex.EncodeToString(sd), "chunk", ch))
			}
		}
	})
	r.Extra("large_data_cases", len(cs))
}
