// C15, part "decoded hashes": every API of the property judged on Hash objects
// that were obtained by DECODING an encoding (UnmarshalVT / ParseFromB58 /
// UnmarshalHashJSON) rather than built in-process. The encodings are produced by
// the harness' own protobuf wire / base58 / JSON writers (nothing of the hash
// package), in all the shapes a foreign encoder may legitimately emit: extra
// unrecognised fields, fields in the other order, non-minimal varints,
// duplicated fields (last one wins), explicitly encoded zero values, enum
// values wider than 32 bits. The decoded object is judged by its (type, digest)
// value with the same reference model as the in-process hashes.
package c15

import (
	"bytes"
	"encoding/base64"
	"encoding/hex"
	"fmt"
	"math/big"
	"math/rand/v2"
	"strings"

	bhash "github.com/aperturerobotics/bifrost/hash"
	"verifharness/g2util"
	"verifharness/vf"
)

// ---- harness-side writers (independent of the package under test)

// pbVarint writes v as a base-128 varint with `pad` redundant continuation
// groups (non-minimal encoding; pad = 0 is the canonical form).
func pbVarint(v uint64, pad int) []byte {
	var out []byte
	for v >= 0x80 {
		out = append(out, byte(v)|0x80)
		v >>= 7
	}
	out = append(out, byte(v))
	for i := 0; i < pad && len(out) < 10; i++ {
		out[len(out)-1] |= 0x80
		out = append(out, 0)
	}
	return out
}

func pbTag(field, wt int, pad int) []byte { return pbVarint(uint64(field)<<3|uint64(wt), pad) }

func refB58(b []byte) string {
	x := new(big.Int).SetBytes(b)
	base, mod := big.NewInt(58), new(big.Int)
	var out []byte
	for x.Sign() > 0 {
		x.DivMod(x, base, mod)
		out = append(out, b58alphabet[mod.Int64()])
	}
	for _, c := range b {
		if c != 0 {
			break
		}
		out = append(out, b58alphabet[0])
	}
	for i, j := 0, len(out)-1; i < j; i, j = i+1, j-1 {
		out[i], out[j] = out[j], out[i]
	}
	return string(out)
}

// wireSpec describes one alternative binary encoding of the hash (t, d).
type wireSpec struct {
	ops []string
	b   []byte
}

// unknownField returns the bytes of one well-formed field the Hash message does
// not know (field numbers >= 3).
func unknownField(rng *rand.Rand, kind int) ([]byte, string) {
	fields := []int{3, 4, 5, 15, 16, 100, 1000, 536870911}
	f := fields[rng.IntN(len(fields))]
	switch kind % 5 {
	case 0:
		return append(pbTag(f, 0, 0), pbVarint(rng.Uint64()>>uint(rng.IntN(64)), 0)...), fmt.Sprintf("unknown-varint-f%d", f)
	case 1:
		return append(pbTag(f, 1, 0), g2util.Bytes(rng, 8)...), fmt.Sprintf("unknown-fixed64-f%d", f)
	case 2:
		p := g2util.Bytes(rng, rng.IntN(40))
		return append(append(pbTag(f, 2, 0), pbVarint(uint64(len(p)), 0)...), p...), fmt.Sprintf("unknown-bytes-f%d", f)
	case 3:
		return append(pbTag(f, 5, 0), g2util.Bytes(rng, 4)...), fmt.Sprintf("unknown-fixed32-f%d", f)
	default:
		// the demo's shape: field 3, varint 1
		return []byte{0x18, 0x01}, "unknown-varint-f3-1"
	}
}

// typeVarint is the varint value of an enum/int32: sign-extended to 64 bits.
func typeVarint(t int32) uint64 { return uint64(int64(t)) }

// buildWire assembles an encoding of (t, d). op selects ONE systematic variation
// (op >= 0) or a PRNG composition of several (op < 0). Every variation leaves
// the encoded value (t, d) unchanged by the protobuf wire rules (unknown
// fields are skipped, field order is free, the last occurrence of a singular
// field wins, varints may carry redundant continuation groups, an int32 is the
// low 32 bits of its varint).
const nWireOps = 17

func buildWire(rng *rand.Rand, t int32, d []byte, op int) wireSpec {
	tv := typeVarint(t)
	tagPadT, valPadT, tagPadD, lenPadD := 0, 0, 0, 0
	explicitT, explicitD := t != 0, len(d) > 0
	swap := false
	var pre, mid, post [][]byte
	var ops []string
	apply := func(o int) {
		switch o {
		case 0:
			ops = append(ops, "canonical")
		case 1:
			swap = true
			ops = append(ops, "fields-swapped")
		case 2, 3, 4:
			f, n := unknownField(rng, rng.IntN(5))
			switch o {
			case 2:
				post = append(post, f)
				ops = append(ops, n+"-appended")
			case 3:
				pre = append(pre, f)
				ops = append(ops, n+"-prepended")
			default:
				mid = append(mid, f)
				ops = append(ops, n+"-between")
			}
		case 5:
			post = append(post, []byte{0x18, 0x01})
			ops = append(ops, "unknown-varint-f3-1-appended")
		case 6:
			tagPadT = 1 + rng.IntN(3)
			explicitT = true
			ops = append(ops, "nonminimal-type-tag")
		case 7:
			valPadT = 1 + rng.IntN(4)
			explicitT = true
			ops = append(ops, "nonminimal-type-value")
		case 8:
			tagPadD = 1 + rng.IntN(3)
			explicitD = true
			ops = append(ops, "nonminimal-digest-tag")
		case 9:
			lenPadD = 1 + rng.IntN(4)
			explicitD = true
			ops = append(ops, "nonminimal-digest-length")
		case 10:
			// decoy type before the real one (last wins)
			explicitT = true
			pre = append(pre, append(pbTag(1, 0, 0), pbVarint(typeVarint(t+1+int32(rng.IntN(3))), 0)...))
			ops = append(ops, "type-duplicated-last-wins")
		case 11:
			// decoy digest before the real one (last wins)
			explicitD = true
			dd := g2util.Bytes(rng, rng.IntN(40))
			pre = append(pre, append(append(pbTag(2, 2, 0), pbVarint(uint64(len(dd)), 0)...), dd...))
			ops = append(ops, "digest-duplicated-last-wins")
		case 12:
			explicitT, explicitD = true, true
			ops = append(ops, "zero-values-explicit")
		case 13:
			// int32 as the low 32 bits of a wider varint
			explicitT = true
			if t < 0 {
				tv = uint64(uint32(t)) // 5-byte form of a negative value
			} else {
				tv = uint64(uint32(t)) | uint64(1+rng.IntN(1<<20))<<32
			}
			ops = append(ops, "type-varint-wider-than-32-bits")
		case 14:
			// the same field twice with the same value
			explicitT, explicitD = true, true
			pre = append(pre, append(pbTag(1, 0, 0), pbVarint(typeVarint(t), 0)...))
			post = append(post, append(append(pbTag(2, 2, 0), pbVarint(uint64(len(d)), 0)...), d...))
			ops = append(ops, "fields-repeated-same-value")
		case 15:
			// several unknown fields everywhere
			for k := 0; k < 3; k++ {
				f, _ := unknownField(rng, k)
				switch k {
				case 0:
					pre = append(pre, f)
				case 1:
					mid = append(mid, f)
				default:
					post = append(post, f)
				}
			}
			ops = append(ops, "unknown-fields-everywhere")
		case 16:
			// an unknown length-delimited field whose payload looks like a Hash
			inner := append(append(pbTag(1, 0, 0), 0x01), append([]byte{0x12, 0x02}, 0xaa, 0xbb)...)
			post = append(post, append(append(pbTag(7, 2, 0), pbVarint(uint64(len(inner)), 0)...), inner...))
			ops = append(ops, "unknown-nested-message-appended")
		}
	}
	if op >= 0 {
		apply(op)
	} else {
		for k := 1 + rng.IntN(4); k > 0; k-- {
			apply(1 + rng.IntN(nWireOps-1))
		}
	}
	var tf, df []byte
	if explicitT {
		tf = append(pbTag(1, 0, tagPadT), pbVarint(tv, valPadT)...)
	}
	if explicitD {
		df = append(append(pbTag(2, 2, tagPadD), pbVarint(uint64(len(d)), lenPadD)...), d...)
	}
	var out []byte
	for _, p := range pre {
		out = append(out, p...)
	}
	a, b := tf, df
	if swap {
		a, b = df, tf
	}
	out = append(out, a...)
	for _, p := range mid {
		out = append(out, p...)
	}
	out = append(out, b...)
	for _, p := range post {
		out = append(out, p...)
	}
	return wireSpec{ops: ops, b: out}
}

// jsonSpec: one alternative protobuf-JSON encoding of (t, d).
type jsonSpec struct {
	ops   []string
	s     string
	exact bool // the form is plain protobuf JSON: the decoded value must be (t, d)
}

const nJSONOps = 10

func buildJSON(rng *rand.Rand, t int32, d []byte, op int) jsonSpec {
	key := "hashType"
	tval := fmt.Sprintf("%d", t)
	hval := `"` + base64.StdEncoding.EncodeToString(d) + `"`
	var extraPre, extraPost []string
	swap, exact := false, true
	var ops []string
	names := map[int32]string{0: "HashType_UNKNOWN", 1: "HashType_SHA256", 2: "HashType_SHA1", 3: "HashType_BLAKE3"}
	apply := func(o int) {
		switch o {
		case 0:
			ops = append(ops, "canonical-number")
		case 1:
			if n, ok := names[t]; ok {
				tval = `"` + n + `"`
				ops = append(ops, "enum-name")
			}
		case 2:
			key = "hash_type"
			ops = append(ops, "proto-field-name")
		case 3:
			swap = true
			ops = append(ops, "fields-swapped")
		case 4:
			extraPost = append(extraPost, `"extra":1`)
			ops = append(ops, "unknown-field-appended")
		case 5:
			extraPre = append(extraPre, `"zzz":{"hashType":2,"hash":"AAAA","x":[1,2,{"y":null}]}`)
			ops = append(ops, "unknown-nested-field-prepended")
		case 6:
			hval = `"` + base64.URLEncoding.EncodeToString(d) + `"`
			exact = false
			ops = append(ops, "digest-base64url")
		case 7:
			hval = `"` + base64.RawStdEncoding.EncodeToString(d) + `"`
			exact = false
			ops = append(ops, "digest-base64-unpadded")
		case 8:
			extraPre = append(extraPre, fmt.Sprintf(`"%s":%d`, key, t+1), `"hash":"`+base64.StdEncoding.EncodeToString(g2util.Bytes(rng, 5))+`"`)
			exact = false // duplicate keys: JSON leaves the winner open; judged on the decoded value only
			ops = append(ops, "fields-duplicated")
		case 9:
			extraPost = append(extraPost, `"unknownFields":"GAE="`, `"Hash":"AAAA"`, `"HASHTYPE":3`)
			ops = append(ops, "unknown-lookalike-fields-appended")
		}
	}
	if op >= 0 {
		apply(op)
	} else {
		for k := 1 + rng.IntN(3); k > 0; k-- {
			apply(1 + rng.IntN(nJSONOps-1))
		}
	}
	parts := append([]string{}, extraPre...)
	a, b := `"`+key+`":`+tval, `"hash":`+hval
	if swap {
		a, b = b, a
	}
	parts = append(parts, a, b)
	parts = append(parts, extraPost...)
	sep := ","
	if rng.IntN(3) == 0 {
		sep = " ,\n\t"
	}
	return jsonSpec{ops: ops, s: "{" + strings.Join(parts, sep) + "}", exact: exact}
}

// ---- the part itself

type decCase struct {
	t      int32
	d      []byte
	data   []byte // the data the digest was (or was not) taken from
	how    string
	kind   string // "bin", "b58", "json"
	ops    []string
	input  []byte
	exact  bool
}

func decodedPart(r *vf.Run) {
	rng := r.Rand("c15-decoded")
	type base struct {
		t    int32
		d    []byte
		data []byte
		how  string
	}
	var bases []base
	datas := [][]byte{[]byte("abc"), {}, g2util.Bytes(rng, 1), g2util.Bytes(rng, 64), g2util.Bytes(rng, 1000)}
	nd := len(datas)
	if r.Quick() {
		nd = 3
	}
	for _, data := range datas[:nd] {
		for src := int32(1); src <= 3; src++ {
			dg, _ := refDigest(src, data)
			bases = append(bases, base{src, dg, data, "true-digest"})
			fl := g2util.Clone(dg)
			fl[rng.IntN(len(fl))] ^= 1 << rng.UintN(8)
			bases = append(bases, base{src, fl, data, "true-digest-bitflip"})
			bases = append(bases, base{src, dg[:len(dg)-1], data, "true-digest-cut"})
			bases = append(bases, base{src, append(g2util.Clone(dg), 0), data, "true-digest-extended"})
			// the right digest under another / unknown / no type
			for _, ot := range []int32{0, src%3 + 1, 4, 100, -1} {
				bases = append(bases, base{ot, dg, data, fmt.Sprintf("true-digest-of-type%d-under-type%d", src, ot)})
			}
		}
		bases = append(bases, base{1, nil, data, "known-type-empty-digest"}, base{0, nil, data, "no-hash-value"})
	}
	for k := r.N(30, 2000); k > 0; k-- {
		data := g2util.Bytes(rng, rng.IntN(200))
		src := int32(1 + rng.IntN(3))
		dg, _ := refDigest(src, data)
		bases = append(bases, base{src, dg, data, "true-digest"})
	}

	var cases []decCase
	perBasePRNG := r.N(6, 40)
	for _, b := range bases {
		var wires []wireSpec
		for op := 0; op < nWireOps; op++ {
			wires = append(wires, buildWire(rng, b.t, b.d, op))
		}
		for k := 0; k < perBasePRNG; k++ {
			wires = append(wires, buildWire(rng, b.t, b.d, -1))
		}
		for _, w := range wires {
			cases = append(cases, decCase{b.t, b.d, b.data, b.how, "bin", w.ops, w.b, true})
			cases = append(cases, decCase{b.t, b.d, b.data, b.how, "b58", w.ops, []byte(refB58(w.b)), true})
		}
		var jss []jsonSpec
		for op := 0; op < nJSONOps; op++ {
			jss = append(jss, buildJSON(rng, b.t, b.d, op))
		}
		for k := 0; k < perBasePRNG/2; k++ {
			jss = append(jss, buildJSON(rng, b.t, b.d, -1))
		}
		for _, j := range jss {
			if len(j.ops) == 0 {
				continue
			}
			cases = append(cases, decCase{b.t, b.d, b.data, b.how, "json", j.ops, []byte(j.s), j.exact})
		}
	}

	r.Begin(fmt.Sprintf("decoded hashes: %d alternative encodings of %d hashes", len(cases), len(bases)))
	g2util.ParFor(len(cases), func(i int) {
		c := cases[i]
		opsStr := strings.Join(c.ops, "+")
		w := map[string]any{"kind": c.kind, "encoded_value": hw(c.t, c.d), "how": c.how, "variation": opsStr, "input_hex": hex.EncodeToString(c.input), "data": vf.Hex(c.data)}
		if c.kind != "bin" {
			w["input"] = string(c.input)
		}
		h := &bhash.Hash{}
		var err error
		pk, pd := vf.Try(func() {
			switch c.kind {
			case "bin":
				err = h.UnmarshalVT(g2util.Clone(c.input))
			case "b58":
				err = h.ParseFromB58(string(c.input))
			default:
				var hh *bhash.Hash
				hh, err = bhash.UnmarshalHashJSON(g2util.Clone(c.input))
				if err == nil {
					h = hh
				}
			}
		})
		sig := fmt.Sprintf("decoded|%s|%x", c.kind, c.input)
		if pk {
			r.Case(sig, false)
			r.Violation("decoded/parse-panic/"+c.kind, "decoding panicked: "+pd, w)
			return
		}
		if err != nil {
			// a decoder may be strict about a foreign form: counted, nothing to judge
			r.Case(sig, false)
			r.Count("decoded_parse_error_"+c.kind, 1)
			for _, o := range c.ops {
				r.Distinct("decoded_rejected_variations_"+c.kind, o)
			}
			return
		}
		if h == nil {
			r.Case(sig, false)
			r.Violation("parse/nil-nil/"+c.kind, "parser returned neither a hash nor an error", w)
			return
		}
		r.Case(sig, true)
		r.Count("decoded_ok_"+c.kind, 1)
		for _, o := range c.ops {
			r.Distinct("decoded_variations_"+c.kind, o)
		}
		ty, dg := int32(h.GetHashType()), g2util.Clone(h.GetHash())
		w["decoded"] = hw(ty, dg)
		tc := typeClass(ty)
		fam := c.kind + "/" + strings.SplitN(famOf(c.ops), "|", 2)[0]

		// (1) the decoded value is the encoded value
		if !refEqual(ty, dg, c.t, c.d) {
			if c.exact {
				r.Violation("decoded/value-changed/"+fam, "the hash decoded from an alternative encoding of (type, digest) is not (type, digest)", w)
			} else {
				r.Count("decoded_value_differs_open_form", 1)
			}
		}

		// (2) VerifyData on the decoded object <=> reference on its (type, digest)
		for _, data := range [][]byte{c.data, append(g2util.Clone(c.data), 'x')} {
			var got []byte
			var verr error
			if pk, pd := vf.Try(func() { got, verr = h.VerifyData(g2util.Clone(data)) }); pk {
				r.Violation("decoded/VerifyData/panic/"+tc, "VerifyData on a decoded hash panicked: "+pd, w)
				return
			}
			want := refVerify(ty, dg, data)
			if want {
				r.Count("decoded_verify_expected_ok", 1)
			} else {
				r.Count("decoded_verify_expected_fail", 1)
			}
			switch {
			case want && verr != nil:
				w["verified_data"] = vf.Hex(data)
				r.Violation("decoded/VerifyData/rejects-correct/"+fam, "VerifyData on a hash obtained by decoding failed although its type is known and its digest is the data's digest: "+verr.Error(), w)
			case !want && verr == nil:
				w["verified_data"] = vf.Hex(data)
				r.Violation("decoded/VerifyData/accepts-wrong/"+fam, "VerifyData on a hash obtained by decoding succeeded although its digest is not the data's digest under its algorithm", w)
			case want:
				if rd, _ := refDigest(ty, data); !bytes.Equal(got, rd) {
					r.Violation("decoded/VerifyData/returns-wrong-digest", "VerifyData succeeded but returned a digest that is not the data's digest", w)
				}
			}
		}
		if !refEqual(int32(h.GetHashType()), h.GetHash(), ty, dg) {
			r.Violation("VerifyData/mutates-hash", "VerifyData modified the (decoded) hash object", w)
			return
		}

		// (3) Validate: ok => well-formed; compared with an in-process twin (count only)
		twin := mk(ty, dg)
		var e1, e2 error
		if pk, pd := vf.Try(func() { e1, e2 = h.Validate(), twin.Validate() }); pk {
			r.Violation("decoded/Validate/panic/"+tc, "Validate on a decoded hash panicked: "+pd, w)
			return
		}
		if e1 == nil && !refMayBeValid(ty, dg) {
			r.Violation("Validate/accepts-invalid/decoded/"+tc, "Validate accepted a decoded hash whose algorithm is unknown or whose digest length is not the algorithm's", w)
		}
		if (e1 == nil) != (e2 == nil) {
			r.Count("decoded_validate_differs_from_inprocess_twin", 1)
		}

		// (4) CompareHash against in-process hashes of the same / another value, both directions
		other := mk(ty, append(g2util.Clone(dg), 1))
		otherT := mk(ty+1, dg)
		var cl *bhash.Hash
		var eqA, eqB, eqSelf, eqClone, neA, neB, neC bool
		if pk, pd := vf.Try(func() {
			cl = h.Clone()
			eqA, eqB, eqSelf, eqClone = h.CompareHash(twin), twin.CompareHash(h), h.CompareHash(h), h.CompareHash(cl) && cl.CompareHash(h)
			neA, neB, neC = h.CompareHash(other), other.CompareHash(h), h.CompareHash(otherT)
		}); pk {
			r.Violation("decoded/CompareHash/panic", "CompareHash/Clone on a decoded hash panicked: "+pd, w)
			return
		}
		r.Count("decoded_compares", 7)
		if !eqA || !eqB || !eqSelf {
			r.Violation("decoded/CompareHash/equal-reported-different/"+fam, fmt.Sprintf("CompareHash between a decoded hash and an in-process hash with the same (type, digest): decoded.Compare(built)=%v built.Compare(decoded)=%v decoded.Compare(decoded)=%v", eqA, eqB, eqSelf), w)
		}
		if !eqClone || cl == nil || !refEqual(int32(cl.GetHashType()), cl.GetHash(), ty, dg) {
			r.Violation("decoded/Clone/changed/"+fam, "Clone of a decoded hash is not the same (type, digest)", w)
		}
		if neA || neB || neC {
			r.Violation("decoded/CompareHash/different-reported-equal/"+fam, "CompareHash reports a decoded hash equal to a hash with another digest / type", w)
		}

		// (5) re-encoding the decoded object: every encoding decodes to the same value
		if ty == 0 && len(dg) == 0 {
			r.Count("decoded_no_hash_value", 1)
			return
		}
		h2, h3, h4 := &bhash.Hash{}, &bhash.Hash{}, &bhash.Hash{}
		var h5 *bhash.Hash
		var r1, r2, r3, r4 error
		var s string
		var bin, js []byte
		wellFormed := refMayBeValid(ty, dg)
		if pk, pd := vf.Try(func() {
			s = h.MarshalString()
			r1 = h2.ParseFromB58(s)
			bin = h.MarshalDigest()
			r2 = h3.UnmarshalVT(g2util.Clone(bin))
			var b2 []byte
			b2, r3 = h.MarshalVT()
			if r3 == nil {
				r3 = h4.UnmarshalVT(b2)
			}
			if wellFormed {
				js, r4 = h.MarshalJSON()
				if r4 == nil {
					h5, r4 = bhash.UnmarshalHashJSON(js)
				}
			}
		}); pk {
			r.Violation("roundtrip/panic/decoded", "re-encoding a decoded hash panicked: "+pd, w)
			return
		}
		w["reencoded_b58"], w["reencoded_binary"], w["reencoded_json"] = s, hex.EncodeToString(bin), string(js)
		same := func(o *bhash.Hash) bool { return o != nil && refEqual(int32(o.GetHashType()), o.GetHash(), ty, dg) }
		r.Count("decoded_reencodings", 3)
		switch {
		case r1 != nil || r2 != nil || r3 != nil:
			r.Violation("roundtrip/decoded/parse-error/"+fam, fmt.Sprintf("re-parse of a re-encoded decoded hash failed: b58 %v, digest %v, binary %v", r1, r2, r3), w)
		case !same(h2):
			r.Violation("roundtrip/decoded/b58-changed/"+fam, "a decoded hash changed across MarshalString/ParseFromB58", w)
		case !same(h3) || !same(h4):
			r.Violation("roundtrip/decoded/binary-changed/"+fam, "a decoded hash changed across MarshalDigest/MarshalVT + UnmarshalVT", w)
		}
		if wellFormed {
			r.Count("decoded_reencodings", 1)
			if r4 != nil {
				r.Violation("roundtrip/decoded/json-parse-error/"+fam, "UnmarshalHashJSON(MarshalJSON(decoded hash)) failed: "+r4.Error(), w)
			} else if !same(h5) {
				r.Violation("roundtrip/decoded/json-changed/"+fam, "a decoded hash changed across MarshalJSON/UnmarshalHashJSON", w)
			}
		}
		// the re-decoded object is again a decoded object: verify once more on it
		if refVerify(ty, dg, c.data) {
			for _, o := range []*bhash.Hash{h2, h3, h4} {
				if same(o) {
					if _, e := o.VerifyData(g2util.Clone(c.data)); e != nil {
						r.Violation("decoded/VerifyData/rejects-correct/"+fam, "VerifyData failed on a re-decoded hash whose digest is the data's digest: "+e.Error(), w)
						break
					}
				}
			}
		}
		if i%211 == 0 {
			r.Sample(map[string]any{"op": "decoded", "kind": c.kind, "variation": opsStr, "input_hex": hex.EncodeToString(c.input), "decoded": hw(ty, dg), "how": c.how})
		}
	})
	r.Extra("decoded_cases", len(cases))
	r.Extra("decoded_base_hashes", len(bases))
}

// famOf names the input class of a witness: the first variation of the encoding
// with generated numbers removed (stable key).
func famOf(ops []string) string {
	if len(ops) == 0 {
		return "canonical"
	}
	o := ops[0]
	if strings.HasPrefix(o, "unknown-") {
		switch {
		case strings.HasSuffix(o, "-appended"):
			o = "unknown-field-appended"
		case strings.HasSuffix(o, "-prepended"):
			o = "unknown-field-prepended"
		case strings.HasSuffix(o, "-between"):
			o = "unknown-field-between"
		}
	}
	if len(ops) > 1 {
		return o + "|composed"
	}
	return o
}
