// C15: content hashes verify exactly and encode losslessly.
//
// Oracle: a reference model written from the property text. Digests come from
// implementations the package does not use for that purpose (crypto/sha256 and
// crypto/sha1 through the streaming interface, lukechampine.com/blake3 instead
// of zeebo/blake3), anchored by fixed known-answer vectors. The model never
// calls hash.Sum / VerifyData / Validate / CompareHash.
package c15

import (
	"bytes"
	"crypto/sha1"
	"crypto/sha256"
	"encoding/base64"
	"encoding/hex"
	"fmt"
	"math"
	"strings"
	"testing"

	bhash "github.com/aperturerobotics/bifrost/hash"
	lblake3 "lukechampine.com/blake3"
	"verifharness/g2util"
	"verifharness/vf"
)

// ---------------------------------------------------------------- reference model

// refLen is the digest length of the known algorithms (from the proto docs:
// SHA256 = 1, SHA1 = 2, BLAKE3 = 3 with a 32-byte digest).
func refLen(t int32) (int, bool) {
	switch t {
	case 1:
		return 32, true
	case 2:
		return 20, true
	case 3:
		return 32, true
	}
	return 0, false
}

func refDigest(t int32, data []byte) ([]byte, bool) {
	switch t {
	case 1:
		h := sha256.New()
		h.Write(data)
		return h.Sum(nil), true
	case 2:
		h := sha1.New()
		h.Write(data)
		return h.Sum(nil), true
	case 3:
		d := lblake3.Sum256(data)
		return d[:], true
	}
	return nil, false
}

func refVerify(t int32, stored, data []byte) bool {
	d, ok := refDigest(t, data)
	return ok && len(stored) == len(d) && bytes.Equal(stored, d)
}

// refValid: the property's "valid only if" clause plus the documented "no hash" value.
func refMayBeValid(t int32, digest []byte) bool {
	if t == 0 && len(digest) == 0 {
		return true // the package's "no hash" value (DESIGN section 8)
	}
	l, ok := refLen(t)
	return ok && len(digest) == l
}

func refEqual(t1 int32, d1 []byte, t2 int32, d2 []byte) bool {
	return t1 == t2 && bytes.Equal(d1, d2)
}

func typeClass(t int32) string {
	switch {
	case t == 0:
		return "type0"
	case t >= 1 && t <= 3:
		return "known"
	default:
		return "unknown"
	}
}

func mk(t int32, d []byte) *bhash.Hash {
	return &bhash.Hash{HashType: bhash.HashType(t), Hash: g2util.Clone(d)}
}

func hw(t int32, d []byte) map[string]any {
	return map[string]any{"hash_type": t, "digest": hex.EncodeToString(d), "digest_len": len(d)}
}

const b58alphabet = "123456789ABCDEFGHJKLMNPQRSTUVWXYZabcdefghijkmnopqrstuvwxyz"

func TestCheck(t *testing.T) {
	r := vf.Start(t, "C15", vf.Exploration)
	defer r.Finish()
	r.SetRule("Hashes = (type in {0..6, 7, 100, 2^31-1, -1, -2^31}) x (digest length 0..40, 64) x (digest content from {true digest of the data under each known algorithm cut or padded to the length, true digest with one bit flipped (all 256/160 bits for the exact-length case), zeros, PRNG}) x (data of length 0,1,55,56,64,100,1000, PRNG). " +
		"Oracle (reference model from the property text; digests by crypto/sha256, crypto/sha1 streaming and lukechampine.com/blake3, anchored by known-answer vectors): VerifyData(d) succeeds <=> type known and stored digest == reference digest of d (exact length); Sum succeeds <=> type known and then equals the reference; Validate ok => (type known and length right) or the all-zero 'no hash' value; CompareHash <=> (type, bytes) equal; a hash other than the all-zero value survives MarshalString/ParseFromB58, MarshalDigest+MarshalVT/UnmarshalVT and (valid hashes) MarshalJSON/UnmarshalHashJSON unchanged into a fresh object. " +
		"Large data (1023 B .. 150000 B at / one below / one above the powers of two from 1 KiB and the multiples of 64 KiB, all three algorithms; 1 MiB+1 once per run): Sum / HashType.Sum / BuildHasher fed in 64 KiB, 4 KiB and 1000-byte writes must equal the reference digest of ALL the data, VerifyData must accept the data, reject every variant that differs only at its end (last byte, first / random byte of the last partial block for block sizes 64 B..128 KiB flipped, last block zeroed / dropped, one byte dropped / appended, extended to the block boundary; complementary: a byte in the full blocks) and reject the data against the reference digest of its leading full blocks. " +
		"Arbitrary encoded inputs (PRNG bytes, PRNG base58/JSON text, mutated valid encodings): no panic; a successful parse must re-encode and re-parse to the same (type, digest) and Validate/VerifyData on it must not panic. " +
		"Decoded hashes: for hashes (true digest of the data under each algorithm, bit-flipped / cut / extended, the right digest under another, unknown or no type, empty) the harness' own protobuf-wire / base58 / JSON writers emit alternative encodings of the same (type, digest): extra unrecognised fields (varint, fixed32/64, bytes, nested message; field numbers 3..2^29-1) appended / prepended / between, fields in the other order, non-minimal varints in tags, type value and digest length, duplicated fields (last wins), explicit zero values, type varints wider than 32 bits, and PRNG compositions of these; JSON: enum by number or name, proto field name, other order, unknown (nested, look-alike) fields, base64url / unpadded digests, duplicate keys. Each is decoded with UnmarshalVT / ParseFromB58 / UnmarshalHashJSON and the DECODED object is judged by its (type, digest) with the same model: decoded value = encoded value (forms that the wire/JSON rules leave open are only counted); VerifyData <=> reference (on the data and on other data); Validate ok => well-formed; CompareHash with an in-process hash of the same value is true in both directions and false for another digest/type; Clone keeps the value; MarshalString/MarshalDigest/MarshalVT/MarshalJSON of the decoded object decode to the same value, and VerifyData holds on the re-decoded objects. A decoder rejecting a foreign form is counted, not flagged. " +
		"A case is non-trivial when the code under test returned (no panic) and the model produced a verdict; distinct = distinct (operation, type, digest, data).")
	r.Assume("The all-zero value (type 0, empty digest) is the package's 'no hash': it may validate and is not flagged; its base58 form is the empty string, which ParseFromB58 rejects - observed and counted, not flagged. Type 0 with a non-empty digest must not validate; VerifyData/Sum with type 0 must fail.")
	r.Assume("'valid only if' is one direction: Validate rejecting a well-formed hash is counted (validate_rejects_wellformed), not flagged. Round trips are judged into a fresh receiver only. nil and empty digests are the same digest.")
	r.Assume("crypto/sha256, crypto/sha1 and lukechampine.com/blake3 are the trusted reference digests (checked against fixed known-answer vectors at start).")

	// ---- anchor the reference digests with known answers
	kat := []struct {
		t    int32
		data string
		want string
	}{
		{1, "", "e3b0c44298fc1c149afbf4c8996fb92427ae41e4649b934ca495991b7852b855"},
		{1, "abc", "ba7816bf8f01cfea414140de5dae2223b00361a396177a9cb410ff61f20015ad"},
		{2, "", "da39a3ee5e6b4b0d3255bfef95601890afd80709"},
		{2, "abc", "a9993e364706816aba3e25717850c26c9cd0d89d"},
		{3, "", "af1349b9f5f9a1a6a0404dea36dcc9499bcb25c9adc112b7cc9a93cae41f3262"},
		{3, "abc", "6437b3ac38465133ffb63b75273a8db548c558465d79db03fd359c6cd5bd9d85"},
	}
	for _, k := range kat {
		d, _ := refDigest(k.t, []byte(k.data))
		if hex.EncodeToString(d) != k.want {
			t.Fatalf("harness: reference digest type %d of %q = %x, want %s", k.t, k.data, d, k.want)
		}
	}

	rng := r.Rand("c15")
	types := []int32{0, 1, 2, 3, 4, 5, 6, 7, 100, math.MaxInt32, -1, math.MinInt32}
	lens := make([]int, 0, 42)
	for l := 0; l <= 40; l++ {
		lens = append(lens, l)
	}
	lens = append(lens, 64)
	dataLens := []int{0, 1, 55, 56, 64, 100, 1000}
	var datas [][]byte
	for _, n := range dataLens {
		datas = append(datas, g2util.Bytes(rng, n))
	}
	datas = append(datas, []byte("abc"), []byte{})

	type hcase struct {
		t      int32
		digest []byte
		data   []byte
		how    string
	}
	var hs []hcase
	fit := func(d []byte, l int, pad byte) []byte {
		out := make([]byte, l)
		for i := range out {
			out[i] = pad
		}
		copy(out, d)
		return out
	}
	// structured: types x lengths x content kinds
	for di, data := range datas {
		if r.Quick() && di >= 3 && di < len(datas)-2 {
			continue
		}
		for _, ty := range types {
			for _, l := range lens {
				for src := int32(1); src <= 3; src++ {
					d, _ := refDigest(src, data)
					hs = append(hs, hcase{ty, fit(d, l, 0), data, fmt.Sprintf("true-digest-of-type%d-fit%d", src, l)})
				}
				hs = append(hs, hcase{ty, make([]byte, l), data, "zeros"})
				hs = append(hs, hcase{ty, g2util.Bytes(rng, l), data, "prng"})
			}
			if ty >= 0 && ty <= 6 {
				hs = append(hs, hcase{ty, nil, data, "nil-digest"})
			}
		}
	}
	// exact digests with every single bit flipped, under every type 0..6
	for di, data := range datas[:3] {
		for src := int32(1); src <= 3; src++ {
			d, _ := refDigest(src, data)
			for ty := int32(0); ty <= 6; ty++ {
				if ty != src && di > 0 {
					continue
				}
				for bit := 0; bit < len(d)*8; bit++ {
					m := g2util.Clone(d)
					m[bit/8] ^= 1 << (bit % 8)
					hs = append(hs, hcase{ty, m, data, fmt.Sprintf("true-digest-of-type%d-bit%d", src, bit)})
				}
			}
		}
	}
	// PRNG part
	nH := len(hs) + r.N(4000, 100000)
	for len(hs) < nH {
		c := hcase{}
		if rng.IntN(4) == 0 {
			c.t = int32(rng.Uint32())
		} else {
			c.t = types[rng.IntN(len(types))]
		}
		c.data = g2util.Bytes(rng, rng.IntN(300))
		switch rng.IntN(4) {
		case 0:
			c.digest, c.how = g2util.Bytes(rng, lens[rng.IntN(len(lens))]), "prng"
		default:
			src := int32(1 + rng.IntN(3))
			d, _ := refDigest(src, c.data)
			c.how = fmt.Sprintf("true-digest-of-type%d", src)
			switch rng.IntN(6) {
			case 0:
				d = d[:rng.IntN(len(d))]
				c.how += "-cut"
			case 1:
				d = append(d, g2util.Bytes(rng, 1+rng.IntN(8))...)
				c.how += "-extended"
			case 2:
				d[rng.IntN(len(d))] ^= 1 << rng.UintN(8)
				c.how += "-bitflip"
			}
			c.digest = d
			if rng.IntN(2) == 0 {
				c.t = src
			}
		}
		hs = append(hs, c)
	}

	r.Begin(fmt.Sprintf("verify/validate/sum/round-trip over %d hashes", len(hs)))
	g2util.ParFor(len(hs), func(i int) {
		c := hs[i]
		h := mk(c.t, c.digest)
		w := hw(c.t, c.digest)
		w["data"] = vf.Hex(c.data)
		w["how"] = c.how
		tc := typeClass(c.t)
		sig := fmt.Sprintf("%d|%x|%x", c.t, c.digest, c.data)
		zeroValue := c.t == 0 && len(c.digest) == 0

		// ---- VerifyData
		var got []byte
		var err error
		pk, pd := vf.Try(func() { got, err = h.VerifyData(g2util.Clone(c.data)) })
		if pk {
			r.Violation("VerifyData/panic/"+tc, "VerifyData panicked: "+pd, w)
			r.Case("verify|"+sig, false)
			return
		}
		want := refVerify(c.t, c.digest, c.data)
		r.Case("verify|"+sig, true)
		if want {
			r.Count("verify_expected_ok", 1)
		} else {
			r.Count("verify_expected_fail_"+tc, 1)
		}
		if i%997 == 0 {
			r.Sample(map[string]any{"op": "VerifyData", "hash_type": c.t, "digest": vf.Hex(c.digest), "how": c.how, "data_len": len(c.data), "model_ok": want, "code_ok": err == nil})
		}
		switch {
		case want && err != nil:
			r.Violation("VerifyData/rejects-correct/"+tc, "VerifyData failed although the stored digest is the data's digest: "+err.Error(), w)
		case !want && err == nil:
			cls := tc
			if tc == "known" {
				if l, _ := refLen(c.t); len(c.digest) != l {
					cls = "known-wrong-length"
				} else {
					cls = "known-wrong-digest"
				}
			}
			r.Violation("VerifyData/accepts-wrong/"+cls, "VerifyData succeeded although the stored digest is not the data's digest under the hash's algorithm", w)
		case want && err == nil:
			if rd, _ := refDigest(c.t, c.data); !bytes.Equal(got, rd) {
				w["returned"] = hex.EncodeToString(got)
				r.Violation("VerifyData/returns-wrong-digest", "VerifyData succeeded but returned a digest that is not the data's digest", w)
			}
		}
		if !bytes.Equal(h.GetHash(), c.digest) || int32(h.GetHashType()) != c.t {
			r.Violation("VerifyData/mutates-hash", "VerifyData modified the hash object", w)
			h = mk(c.t, c.digest)
		}

		// ---- Validate
		var verr error
		pk, pd = vf.Try(func() { verr = h.Validate() })
		if pk {
			r.Violation("Validate/panic/"+tc, "Validate panicked: "+pd, w)
		} else {
			r.Case("validate|"+fmt.Sprintf("%d|%d", c.t, len(c.digest)), true)
			may := refMayBeValid(c.t, c.digest)
			switch {
			case verr == nil && !may:
				cls := tc
				if tc == "known" {
					cls = "known-wrong-length"
				} else if tc == "type0" {
					cls = "type0-nonempty-digest"
				}
				r.Violation("Validate/accepts-invalid/"+cls, "Validate accepted a hash whose algorithm is unknown or whose digest length is not the algorithm's", w)
			case verr == nil && zeroValue:
				r.Count("validate_ok_no_hash_value", 1)
			case verr == nil:
				r.Count("validate_ok_wellformed", 1)
			case may && !zeroValue:
				r.Count("validate_rejects_wellformed", 1)
			default:
				r.Count("validate_rejected_"+tc, 1)
			}
			r.Distinct("validate_type_len", fmt.Sprintf("%d|%d", c.t, len(c.digest)))
		}

		// ---- round trips (fresh receiver)
		if zeroValue {
			s := h.MarshalString()
			h2 := &bhash.Hash{}
			if pk, pd := vf.Try(func() { err = h2.ParseFromB58(s) }); pk {
				r.Violation("ParseFromB58/panic/no-hash-value", "panicked: "+pd, w)
			} else if err != nil {
				r.Count("no_hash_value_b58_parse_error", 1)
			} else {
				r.Count("no_hash_value_b58_parse_ok", 1)
			}
		} else {
			var s string
			var bin, bin2, js []byte
			var e1, e2, e3, e4 error
			h2, h3, h4 := &bhash.Hash{}, &bhash.Hash{}, &bhash.Hash{}
			var h5 *bhash.Hash
			valid := refMayBeValid(c.t, c.digest) // well-formed by the model (the all-zero value is handled above)
			pk, pd := vf.Try(func() {
				s = h.MarshalString()
				e1 = h2.ParseFromB58(s)
				bin = h.MarshalDigest()
				e2 = h3.UnmarshalVT(g2util.Clone(bin))
				bin2, e3 = h.MarshalVT()
				if e3 == nil {
					e3 = h4.UnmarshalVT(g2util.Clone(bin2))
				}
				if valid {
					js, e4 = h.MarshalJSON()
					if e4 == nil {
						h5, e4 = bhash.UnmarshalHashJSON(js)
					}
				}
			})
			w["b58"], w["binary"], w["json"] = s, hex.EncodeToString(bin), string(js)
			r.Case("roundtrip|"+fmt.Sprintf("%d|%x", c.t, c.digest), !pk)
			same := func(o *bhash.Hash) bool {
				return o != nil && refEqual(int32(o.GetHashType()), o.GetHash(), c.t, c.digest)
			}
			switch {
			case pk:
				r.Violation("roundtrip/panic/"+tc, "encoding round trip panicked: "+pd, w)
			default:
				r.Count("roundtrips_b58", 1)
				r.Count("roundtrips_binary", 2)
				if e1 != nil {
					r.Violation("roundtrip/b58/parse-error/"+tc, "ParseFromB58(MarshalString(h)) failed: "+e1.Error(), w)
				} else if !same(h2) {
					w["got"] = hw(int32(h2.GetHashType()), h2.GetHash())
					r.Violation("roundtrip/b58/changed/"+tc, "hash changed across MarshalString/ParseFromB58", w)
				}
				if e2 != nil || e3 != nil {
					r.Violation("roundtrip/binary/parse-error/"+tc, fmt.Sprintf("UnmarshalVT(MarshalDigest/MarshalVT(h)) failed: %v %v", e2, e3), w)
				} else if !same(h3) || !same(h4) {
					w["got"] = hw(int32(h3.GetHashType()), h3.GetHash())
					r.Violation("roundtrip/binary/changed/"+tc, "hash changed across MarshalDigest/UnmarshalVT", w)
				}
				if !bytes.Equal(bin, bin2) {
					r.Count("marshaldigest_differs_from_marshalvt", 1)
				}
				if valid {
					r.Count("roundtrips_json", 1)
					if e4 != nil {
						r.Violation("roundtrip/json/parse-error/"+tc, "UnmarshalHashJSON(MarshalJSON(h)) failed: "+e4.Error(), w)
					} else if !same(h5) {
						w["got"] = hw(int32(h5.GetHashType()), h5.GetHash())
						r.Violation("roundtrip/json/changed/"+tc, "hash changed across MarshalJSON/UnmarshalHashJSON", w)
					}
				}
			}
		}
	})

	// ---------------- Sum / BuildHasher
	nS := r.N(600, 20000)
	r.Begin(fmt.Sprintf("Sum/BuildHasher: %d cases", nS))
	type scase struct {
		t    int32
		data []byte
	}
	var scs []scase
	for _, ty := range types {
		for _, d := range datas {
			scs = append(scs, scase{ty, d})
		}
	}
	for len(scs) < nS {
		c := scase{data: g2util.Bytes(rng, rng.IntN(2000))}
		if rng.IntN(3) == 0 {
			c.t = int32(rng.Uint32())
		} else {
			c.t = int32(rng.IntN(7))
		}
		scs = append(scs, c)
	}
	g2util.ParFor(len(scs), func(i int) {
		c := scs[i]
		tc := typeClass(c.t)
		w := map[string]any{"hash_type": c.t, "data": vf.Hex(c.data), "data_len": len(c.data)}
		var h *bhash.Hash
		var raw []byte
		var err, err2 error
		pk, pd := vf.Try(func() {
			h, err = bhash.Sum(bhash.HashType(c.t), g2util.Clone(c.data))
			raw, err2 = bhash.HashType(c.t).Sum(g2util.Clone(c.data))
		})
		r.Case(fmt.Sprintf("sum|%d|%x", c.t, c.data), !pk)
		r.Count("sum_"+tc, 1)
		rd, known := refDigest(c.t, c.data)
		switch {
		case pk:
			r.Violation("Sum/panic/"+tc, "Sum panicked: "+pd, w)
		case !known && (err == nil || err2 == nil):
			r.Violation("Sum/accepts-unknown-type/"+tc, "Sum succeeded for a type that is not a known algorithm", w)
		case known && (err != nil || err2 != nil):
			r.Violation("Sum/rejects-known-type", fmt.Sprintf("Sum failed for a known algorithm: %v %v", err, err2), w)
		case known:
			if h == nil || int32(h.GetHashType()) != c.t || !bytes.Equal(h.GetHash(), rd) || !bytes.Equal(raw, rd) {
				if h != nil {
					w["got"] = hw(int32(h.GetHashType()), h.GetHash())
				}
				w["want"] = hex.EncodeToString(rd)
				r.Violation("Sum/wrong-digest", "Sum returned something other than the data's digest under the algorithm", w)
				return
			}
			var e1, e2, e3 error
			if pk, pd := vf.Try(func() {
				e1 = h.Validate()
				_, e2 = h.VerifyData(g2util.Clone(c.data))
				_, e3 = h.VerifyData(append(g2util.Clone(c.data), 0))
			}); pk {
				r.Violation("Sum/result-unusable", "Validate/VerifyData on Sum's result panicked: "+pd, w)
			} else {
				if e2 != nil {
					r.Violation("VerifyData/rejects-correct/known", "VerifyData rejected the data the hash was summed from: "+e2.Error(), w)
				}
				if e3 == nil {
					r.Violation("VerifyData/accepts-wrong/known-wrong-digest", "VerifyData accepted other data (one byte appended)", w)
				}
				if e1 != nil {
					r.Count("validate_rejects_wellformed", 1)
				}
			}
		}
		// BuildHasher: streaming digest of a known type equals the reference; unknown => error
		var sd []byte
		var berr error
		pk, pd = vf.Try(func() {
			hh, e := bhash.HashType(c.t).BuildHasher()
			berr = e
			if e == nil {
				half := len(c.data) / 2
				hh.Write(c.data[:half])
				hh.Write(c.data[half:])
				sd = hh.Sum(nil)
			}
		})
		switch {
		case pk:
			r.Violation("BuildHasher/panic/"+tc, "BuildHasher panicked: "+pd, w)
		case !known && berr == nil:
			r.Violation("BuildHasher/accepts-unknown-type/"+tc, "BuildHasher succeeded for an unknown algorithm", w)
		case known && berr == nil && !bytes.Equal(sd, rd):
			w["got"], w["want"] = hex.EncodeToString(sd), hex.EncodeToString(rd)
			r.Violation("BuildHasher/wrong-digest", "streaming digest differs from the algorithm's digest", w)
		case known && berr != nil:
			r.Count("buildhasher_rejects_known", 1)
		}
		// GetHashLen for known types
		if l, ok := refLen(c.t); ok {
			if g := bhash.HashType(c.t).GetHashLen(); g != l {
				r.Violation("GetHashLen/wrong", fmt.Sprintf("GetHashLen=%d want %d", g, l), w)
			}
		}
	})

	// ---------------- CompareHash
	nC := r.N(4000, 100000)
	r.Begin(fmt.Sprintf("CompareHash: %d pairs", nC))
	type pair struct {
		t1, t2 int32
		d1, d2 []byte
		how    string
	}
	var ps []pair
	for i := 0; i < nC; i++ {
		a := hs[rng.IntN(len(hs))]
		p := pair{t1: a.t, d1: a.digest}
		switch rng.IntN(8) {
		case 0:
			p.t2, p.d2, p.how = a.t, g2util.Clone(a.digest), "clone"
		case 1:
			p.t2, p.d2, p.how = types[rng.IntN(len(types))], g2util.Clone(a.digest), "other-type"
		case 2:
			p.t2, p.d2, p.how = a.t, g2util.Clone(a.digest), "one-bit"
			if len(p.d2) > 0 {
				p.d2[rng.IntN(len(p.d2))] ^= 1 << rng.UintN(8)
			}
		case 3:
			p.t2, p.how = a.t, "prefix"
			if len(a.digest) > 0 {
				p.d2 = g2util.Clone(a.digest[:rng.IntN(len(a.digest))])
			}
		case 4:
			p.t2, p.d2, p.how = a.t, append(g2util.Clone(a.digest), byte(rng.UintN(256))), "extended"
		case 5:
			p.t2, p.d2, p.how = a.t, append(g2util.Clone(a.digest), 0), "zero-extended"
		case 6:
			b := hs[rng.IntN(len(hs))]
			p.t2, p.d2, p.how = b.t, b.digest, "unrelated"
		default:
			p.t2, p.how = a.t, "nil-vs-empty"
			if len(a.digest) == 0 {
				p.d1, p.d2 = nil, []byte{}
			} else {
				p.d2 = g2util.Clone(a.digest)
			}
		}
		ps = append(ps, p)
	}
	g2util.ParFor(len(ps), func(i int) {
		p := ps[i]
		a, b := mk(p.t1, p.d1), mk(p.t2, p.d2)
		if p.how == "nil-vs-empty" && len(p.d1) == 0 {
			a.Hash, b.Hash = nil, []byte{}
		}
		var ab, ba, aa bool
		pk, pd := vf.Try(func() { ab, ba, aa = a.CompareHash(b), b.CompareHash(a), a.CompareHash(a) })
		w := map[string]any{"a": hw(p.t1, p.d1), "b": hw(p.t2, p.d2), "how": p.how}
		r.Case(fmt.Sprintf("cmp|%d|%x|%d|%x", p.t1, p.d1, p.t2, p.d2), !pk)
		want := refEqual(p.t1, p.d1, p.t2, p.d2)
		if want {
			r.Count("compare_expected_equal", 1)
		} else {
			r.Count("compare_expected_different_"+p.how, 1)
		}
		switch {
		case pk:
			r.Violation("CompareHash/panic", "CompareHash panicked: "+pd, w)
		case ab != want || ba != want:
			w["a_cmp_b"], w["b_cmp_a"], w["model"] = ab, ba, want
			if want {
				r.Violation("CompareHash/equal-reported-different", "CompareHash reports equal hashes as different", w)
			} else {
				r.Violation("CompareHash/different-reported-equal/"+p.how, "CompareHash reports different hashes as equal", w)
			}
		case !aa:
			r.Violation("CompareHash/not-reflexive", "h.CompareHash(h) is false", w)
		}
	})
	// nil receivers / arguments
	{
		var n1, n2 *bhash.Hash
		x := mk(1, make([]byte, 32))
		var nn, nx, xn bool
		pk, pd := vf.Try(func() { nn, nx, xn = n1.CompareHash(n2), n1.CompareHash(x), x.CompareHash(n1) })
		r.Case("cmp|nil", !pk)
		if pk {
			r.Violation("CompareHash/panic", "CompareHash with nil panicked: "+pd, nil)
		} else if !nn || nx || xn {
			r.Violation("CompareHash/nil", fmt.Sprintf("nil handling: nil==nil %v, nil==x %v, x==nil %v", nn, nx, xn), nil)
		}
		var ve error
		if pk, pd := vf.Try(func() { _, ve = n1.VerifyData([]byte("abc")) }); pk {
			r.Violation("VerifyData/panic/type0", "VerifyData on a nil hash panicked: "+pd, nil)
		} else if ve == nil {
			r.Violation("VerifyData/accepts-wrong/type0", "VerifyData on a nil hash succeeded", nil)
		}
	}

	// ---------------- arbitrary encoded inputs
	nF := r.N(30000, 300000)
	r.Begin(fmt.Sprintf("arbitrary encodings: %d inputs", nF))
	type finput struct {
		kind string // "bin", "b58", "json"
		b    []byte
	}
	var validBins [][]byte
	var validStrs, validJSON []string
	for i := 0; i < 200; i++ {
		c := hs[rng.IntN(len(hs))]
		h := mk(c.t, c.digest)
		if bin, err := h.MarshalVT(); err == nil && len(bin) > 0 {
			validBins = append(validBins, bin)
			validStrs = append(validStrs, h.MarshalString())
		}
		if js, err := h.MarshalJSON(); err == nil {
			validJSON = append(validJSON, string(js))
		}
	}
	jsonSeeds := append([]string{
		`{}`, `null`, `[]`, `""`, `0`, `{"hashType":1}`, `{"hashType":"HashType_SHA256","hash":"AAAA"}`, `{"hash_type":3,"hash":""}`,
		`{"hashType":99999999999,"hash":"AA=="}`, `{"hashType":-1}`, `{"hashType":"nope"}`, `{"hash":"!!!"}`, `{"hash":null}`, `{"hashType":null}`,
		`{"hashType":1.5}`, `{"hashType":{}}`, `{"hash":[1,2]}`, `{"unknown":1}`, `{"hashType":1,"hashType":2}`, `{"hash":"` + strings.Repeat("A", 4096) + `"}`,
		`{"hashType":"1"}`, `{"hashType":"HashType_BLAKE3","hash":"` + base64.StdEncoding.EncodeToString(make([]byte, 32)) + `"}`, `{"hashType":3,"hash":"` + base64.RawURLEncoding.EncodeToString(bytes.Repeat([]byte{0xfb}, 32)) + `"}`,
	}, validJSON...)
	mutate := func(b []byte) []byte {
		m := g2util.Clone(b)
		if m == nil {
			m = []byte{}
		}
		for k := 1 + rng.IntN(4); k > 0; k-- {
			switch op := rng.IntN(5); {
			case op == 0 && len(m) > 0:
				m[rng.IntN(len(m))] = byte(rng.UintN(256))
			case op == 1 && len(m) > 0:
				m[rng.IntN(len(m))] ^= 1 << rng.UintN(8)
			case op == 2 && len(m) > 0:
				m = m[:rng.IntN(len(m))]
			case op == 3:
				p := rng.IntN(len(m) + 1)
				ins := g2util.Bytes(rng, 1+rng.IntN(4))
				m = append(append(g2util.Clone(m[:p]), ins...), m[p:]...)
			default:
				if len(m) > 1 {
					a := rng.IntN(len(m))
					bb := a + rng.IntN(len(m)-a)
					m = append(append(g2util.Clone(m[:bb]), m[a:bb]...), m[bb:]...)
				}
			}
		}
		return m
	}
	fin := make([]finput, 0, nF)
	// all 1-byte and a grid of 2-byte binary inputs, short varint edge cases
	for a := 0; a < 256; a++ {
		fin = append(fin, finput{"bin", []byte{byte(a)}})
		fin = append(fin, finput{"bin", []byte{0x08, byte(a)}}, finput{"bin", []byte{0x12, byte(a)}}, finput{"bin", []byte{0x12, byte(a), 1, 2, 3}})
	}
	fin = append(fin,
		finput{"bin", []byte{0x08, 0xff, 0xff, 0xff, 0xff, 0xff, 0xff, 0xff, 0xff, 0xff, 0x01}},
		finput{"bin", []byte{0x08, 0xff, 0xff, 0xff, 0xff, 0xff, 0xff, 0xff, 0xff, 0xff, 0xff, 0x01}},
		finput{"bin", []byte{0x12, 0xff, 0xff, 0xff, 0xff, 0xff, 0xff, 0xff, 0xff, 0xff, 0x01}},
		finput{"bin", []byte{0x12, 0xff, 0xff, 0xff, 0xff, 0x07}},
		finput{"bin", []byte{0x12, 0x80, 0x80, 0x80, 0x80, 0x08}},
		finput{"bin", nil}, finput{"b58", nil}, finput{"json", nil},
		finput{"b58", []byte("0OIl")}, finput{"b58", []byte(" ")}, finput{"b58", []byte(strings.Repeat("1", 100))}, finput{"b58", []byte(strings.Repeat("z", 200))})
	for len(fin) < nF {
		var f finput
		switch rng.IntN(9) {
		case 0:
			f = finput{"bin", g2util.Bytes(rng, rng.IntN(48))}
		case 1, 2:
			f = finput{"bin", mutate(validBins[rng.IntN(len(validBins))])}
		case 3:
			n := rng.IntN(60)
			b := make([]byte, n)
			for i := range b {
				b[i] = b58alphabet[rng.IntN(len(b58alphabet))]
			}
			f = finput{"b58", b}
		case 4, 5:
			f = finput{"b58", mutate([]byte(validStrs[rng.IntN(len(validStrs))]))}
		case 6:
			f = finput{"json", g2util.Bytes(rng, rng.IntN(40))}
		default:
			f = finput{"json", mutate([]byte(jsonSeeds[rng.IntN(len(jsonSeeds))]))}
		}
		fin = append(fin, f)
	}
	g2util.ParFor(len(fin), func(i int) {
		f := fin[i]
		h := &bhash.Hash{}
		var err error
		w := map[string]any{"kind": f.kind, "input_hex": vf.Hex(f.b), "input": string(f.b)}
		pk, pd := vf.Try(func() {
			switch f.kind {
			case "bin":
				err = h.UnmarshalVT(g2util.Clone(f.b))
			case "b58":
				err = h.ParseFromB58(string(f.b))
			default:
				var hh *bhash.Hash
				hh, err = bhash.UnmarshalHashJSON(g2util.Clone(f.b))
				if err == nil {
					h = hh
				}
			}
		})
		r.Case(fmt.Sprintf("parse|%s|%x", f.kind, f.b), !pk)
		if pk {
			r.Count("parse_panic_"+f.kind, 1)
			r.Violation("parse/panic/"+f.kind, "parsing arbitrary input panicked: "+pd, w)
			return
		}
		if err != nil {
			r.Count("parse_error_"+f.kind, 1)
			return
		}
		r.Count("parse_ok_"+f.kind, 1)
		if h == nil {
			r.Violation("parse/nil-nil/"+f.kind, "parser returned neither a hash nor an error", w)
			return
		}
		// a parsed hash must be usable and stable under re-encoding
		ty, dg := int32(h.GetHashType()), g2util.Clone(h.GetHash())
		w["parsed"] = hw(ty, dg)
		pk, pd = vf.Try(func() {
			_ = h.Validate()
			_, _ = h.VerifyData([]byte("abc"))
			_ = h.IsEmpty()
			_ = h.Clone()
		})
		if pk {
			r.Violation("parse/result-unusable/"+f.kind, "Validate/VerifyData on a parsed hash panicked: "+pd, w)
			return
		}
		if ty == 0 && len(dg) == 0 {
			r.Count("parse_ok_no_hash_value", 1)
			return
		}
		h2, h3 := &bhash.Hash{}, &bhash.Hash{}
		var e1, e2 error
		pk, pd = vf.Try(func() {
			e1 = h2.ParseFromB58(h.MarshalString())
			e2 = h3.UnmarshalVT(h.MarshalDigest())
		})
		switch {
		case pk:
			r.Violation("roundtrip/panic/parsed", "re-encoding a parsed hash panicked: "+pd, w)
		case e1 != nil || e2 != nil:
			r.Violation("roundtrip/parsed/parse-error", fmt.Sprintf("re-parse of a parsed hash failed: %v %v", e1, e2), w)
		case !refEqual(int32(h2.GetHashType()), h2.GetHash(), ty, dg) || !refEqual(int32(h3.GetHashType()), h3.GetHash(), ty, dg):
			r.Violation("roundtrip/parsed/changed", "a parsed hash changed across re-encoding", w)
		}
	})
	// ---------------- large data at / around block boundaries, altered tails
	largePart(r)

	// ---------------- hashes obtained by decoding alternative encodings
	decodedPart(r)

	r.Extra("hash_cases", len(hs))
	r.Extra("sum_cases", len(scs))
	r.Extra("compare_pairs", len(ps))
	r.Extra("encoded_inputs", len(fin))
}
