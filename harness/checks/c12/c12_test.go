// C12: public-key encryption round-trips and is bound to key and context.
//
// The real peer.EncryptToPubKey / peer.DecryptWithPrivKey are driven with
//   - a cross product of keys x contexts x messages (round trip, wrong key,
//     wrong context),
//   - the complete single-fault neighbourhood of a set of ciphertexts (every
//     bit flip, every truncation, extensions, byte substitutions, splices with
//     sibling ciphertexts),
//   - seeded arbitrary byte strings and multi-byte mutations.
//
// The oracle never looks inside the scheme: the harness knows which message was
// encrypted to which key under which context, and whether the bytes handed to
// Decrypt are the untouched ciphertext.
package c12

import (
	"bytes"
	"crypto/sha256"
	"fmt"
	"math/rand/v2"
	"runtime"
	"strings"
	"testing"
	"time"

	"github.com/aperturerobotics/bifrost/crypto"
	"github.com/aperturerobotics/bifrost/peer"
	"verifharness/g2util"
	"verifharness/keys"
	"verifharness/vf"
)

type encCase struct {
	key  int
	ctx  string
	msg  []byte
	kind string
	ct   []byte // filled after encryption
}

func (c *encCase) id() string {
	h := sha256.Sum256(c.msg)
	return fmt.Sprintf("k%d|%q|%s%d:%x", c.key, c.ctx, c.kind, len(c.msg), h[:6])
}

func (c *encCase) witness(pool []*keys.Identity) map[string]any {
	return map[string]any{"key": pool[c.key].String(), "ctx": c.ctx, "msg_len": len(c.msg), "msg": vf.Hex(c.msg), "ciphertext": vf.Hex(c.ct)}
}

// decrypt calls the code under test on a private copy of ct.
func decrypt(priv crypto.PrivKey, ctx string, ct []byte) (out []byte, err error, panicked bool, pd string) {
	in := g2util.Clone(ct)
	panicked, pd = vf.Try(func() { out, err = peer.DecryptWithPrivKey(priv, ctx, in) })
	return
}

func panicKey(n int) string {
	switch {
	case n < 34:
		return "DecryptWithPrivKey/panic/len<34"
	case n < 36:
		return "DecryptWithPrivKey/panic/len34-35"
	default:
		return "DecryptWithPrivKey/panic/len>=36"
	}
}

func makeMsg(rng *rand.Rand, kind string, n int) []byte {
	switch kind {
	case "zero":
		return make([]byte, n)
	case "text":
		s := "the quick brown fox jumps over the lazy dog. "
		return []byte(strings.Repeat(s, n/len(s)+1))[:n]
	default:
		return g2util.Bytes(rng, n)
	}
}

// wrongContexts returns contexts different from ctx that are "close" to it.
func wrongContexts(rng *rand.Rand, ctx string, all []string) []string {
	out := []string{ctx + "x", ctx + "\x00", ctx + " "}
	if len(ctx) > 0 {
		out = append(out, ctx[:len(ctx)-1], ctx[1:], strings.ToUpper(ctx), "")
		b := []byte(ctx)
		b[rng.IntN(len(b))] ^= 1 << rng.UintN(8)
		out = append(out, string(b))
	}
	out = append(out, all[rng.IntN(len(all))])
	res := out[:0]
	seen := map[string]bool{ctx: true}
	for _, c := range out {
		if !seen[c] {
			seen[c] = true
			res = append(res, c)
		}
	}
	return res
}

type tamper struct {
	kind string // violation-key class
	desc string
	ct   []byte
}

func TestCheck(t *testing.T) {
	r := vf.Start(t, "C12", vf.Exploration)
	defer r.Finish()
	r.SetRule("(A) round trip / binding: (key from a seeded pool) x (context from {empty, 1 char, doc example, 4 KiB, unicode, embedded NUL, PRNG bytes}) x (message lengths 0,1,2,15..17,31..36,63..65,100,255,256,1000,4096,65535..65537,1 MiB x {random, zeros, text}; highly compressible messages of 4 MiB+1 and 6 MiB (thorough: 1 MiB+1 .. 32 MiB+1)) plus PRNG-drawn (key,ctx,msg); for each ciphertext: decrypt with the right key+ctx must return exactly the message; decrypt with 2 other keys and with up to 9 neighbouring contexts (suffix/prefix added or removed, case, 1 bit, empty; 3 of them for messages >= 64 KiB) must return an error. Messages >= 64 KiB take seconds per call under the race detector: the quick tier runs 65535/65536/65537 bytes with one kind and one context each and 1 MiB with two kinds (the thorough tier all kinds under 4 of the 8 contexts); messages >= 2000 bytes run in the background overlapping the other phases. " +
		"(B) tamper sets, complete per chosen ciphertext (20 ciphertexts quick / 200 thorough; ciphertext lengths 53..~190 bytes): every single-bit flip, every truncation [0,len), extension by 1..32 bytes (random tail, zero tail, random head), byte substitutions (1 PRNG value per position in the quick tier, 3 in the thorough tier; all 255 values at each header position 0..35 for the first ciphertext(s)), every splice a[:k]+b[k:] with a sibling ciphertext (same key+ctx other message / same message other key / same message other ctx): each tampered string differs from the original and must yield an error. " +
		"(C) arbitrary bytes: PRNG strings (lengths 0..220, dense around the 34/36/52-byte header boundaries) and multi-byte mutations of valid ciphertexts: never a panic; a mutated valid ciphertext (bytes differ) must yield an error. " +
		"A case is non-trivial when the code under test was actually invoked on it (encryption succeeded for A/B); distinct = distinct (phase, key, ctx, message, mutation). The oracle is the harness' own record of what was encrypted for whom; it never inspects the scheme. Heap bytes allocated per decrypt of hostile input are measured and reported (observed only, not a verdict).")
	r.Assume("A successful decryption of PRNG-generated (not ciphertext-derived) bytes would not be flagged (the property only demands no panic there); none is expected and the count is reported.")
	r.Assume("Only Ed25519 keys (the only supported type) are exercised. Deterministic encryption (same inputs, same ciphertext) is observed and counted, not demanded.")

	rng := r.Rand("c12")
	phaseT := map[string]float64{} // wall time per phase: reported only, never part of a verdict
	t0 := time.Now()
	lap := func(name string) { phaseT[name] = time.Since(t0).Seconds(); t0 = time.Now() }
	pool := keys.Pool(rng, r.N(8, 32))
	for i := range pool {
		for j := 0; j < i; j++ {
			if pool[i].Pub.Equals(pool[j].Pub) {
				t.Fatalf("harness: duplicate key in pool")
			}
		}
	}
	ctxs := []string{"", "a", "example.com 2019-12-25 16:18:03 session tokens v1", strings.Repeat("c", 4096), "ключ-日本語", "a\x00b", "bifrost/peer/encrypt_test super-duper-secret", "A"}
	lens := []int{0, 1, 2, 15, 16, 17, 31, 32, 33, 34, 35, 36, 63, 64, 65, 100, 255, 256, 1000, 4096, 65535, 65536, 65537, 1 << 20}
	kinds := []string{"rand", "zero", "text"}

	// ---------------- phase A: round trip, wrong key, wrong context
	var cases []*encCase
	ki := 0
	for li, l := range lens {
		for kk, k := range kinds {
			for ci, c := range ctxs {
				// messages >= 64 KiB are very slow under the race detector (seconds
				// per call): the quick tier runs 65535/65536/65537 with one kind and
				// one context each and 1 MiB with two kinds
				if !r.Quick() && l >= 60000 && ci%2 == 1 {
					continue // thorough tier: 4 of the 8 contexts for messages >= 64 KiB
				}
				if r.Quick() && l >= 60000 {
					if ci != (li*len(kinds)+kk)%len(ctxs) || l < 1<<20 && kk != li%len(kinds) || l == 1<<20 && kk == 2 {
						continue
					}
				}
				cases = append(cases, &encCase{key: ki % len(pool), ctx: c, msg: makeMsg(rng, k, l), kind: k})
				ki++
			}
		}
	}
	// large, highly compressible messages: the size a limit sees differs by orders
	// of magnitude before and after the compression step inside the scheme
	// (power-of-two boundaries +-1; zeros and repeated text compress ~1000:1)
	bigLens := []int{4<<20 + 1, 6 << 20}
	if !r.Quick() {
		bigLens = []int{1<<20 + 1, 2 << 20, 4 << 20, 4<<20 + 1, 8<<20 + 1, 16 << 20, 32<<20 + 1}
	}
	for bi, l := range bigLens {
		k := []string{"zero", "text"}[bi%2]
		cases = append(cases, &encCase{key: ki % len(pool), ctx: ctxs[(bi+1)%len(ctxs)], msg: makeMsg(rng, k, l), kind: k})
		ki++
	}
	nA := r.N(700, 6000)
	for len(cases) < nA {
		c := &encCase{key: rng.IntN(len(pool))}
		if rng.IntN(3) == 0 {
			c.ctx = ctxs[rng.IntN(len(ctxs))]
		} else {
			c.ctx = string(g2util.Bytes(rng, rng.IntN(40)))
		}
		var n int
		switch rng.IntN(40) {
		case 0:
			n = rng.IntN(70000)
		case 1, 2:
			n = rng.IntN(2000)
		default:
			n = rng.IntN(200)
		}
		c.kind = kinds[rng.IntN(len(kinds))]
		c.msg = makeMsg(rng, c.kind, n)
		cases = append(cases, c)
	}
	// per-case PRNG material is drawn up front so that parallel execution
	// does not change the case list
	type aux struct {
		otherKeys []int
		wctx      []string
	}
	auxs := make([]aux, len(cases))
	for i, c := range cases {
		a := aux{}
		for len(a.otherKeys) < 2 {
			k := rng.IntN(len(pool))
			if k != c.key {
				a.otherKeys = append(a.otherKeys, k)
			}
		}
		a.wctx = wrongContexts(rng, c.ctx, ctxs)
		if len(c.msg) >= 60000 && len(a.wctx) > 3 {
			a.wctx = a.wctx[:3]
		}
		auxs[i] = a
	}

	r.Begin(fmt.Sprintf("phase A: %d (key,ctx,msg) cases", len(cases)))
	runA := func(i int) {
		c := cases[i]
		var ct, ct2 []byte
		var err error
		msgIn := g2util.Clone(c.msg)
		pk, pd := vf.Try(func() { ct, err = peer.EncryptToPubKey(pool[c.key].Pub, c.ctx, msgIn) })
		if pk {
			r.Violation("EncryptToPubKey/panic", "EncryptToPubKey panicked: "+pd, c.witness(pool))
			r.Case("A|"+c.id(), false)
			return
		}
		if err != nil {
			// honest key, any message: encryption has no reason to fail; the
			// property's round trip clause cannot hold if it does
			r.Violation("EncryptToPubKey/error", "encryption to an honest Ed25519 key failed: "+err.Error(), c.witness(pool))
			r.Case("A|"+c.id(), false)
			return
		}
		c.ct = g2util.Clone(ct)
		r.Count("encryptions", 1)
		if i < 2 {
			r.Sample(map[string]any{"phase": "A", "key": pool[c.key].String(), "ctx": c.ctx, "msg": vf.Hex(c.msg), "ciphertext": vf.Hex(ct)})
		}
		if len(c.msg) < 60000 {
			if vf.Try(func() { ct2, _ = peer.EncryptToPubKey(pool[c.key].Pub, c.ctx, g2util.Clone(c.msg)) }); bytes.Equal(ct, ct2) {
				r.Count("encryption_deterministic", 1)
			} else {
				r.Count("encryption_not_deterministic", 1)
			}
		}
		// right key, right context
		out, derr, dpk, dpd := decrypt(pool[c.key].Priv, c.ctx, c.ct)
		r.Case("A|rt|"+c.id(), true)
		r.Count("decrypt_roundtrip", 1)
		switch {
		case dpk:
			r.Violation("roundtrip/panic", "decrypting an untouched ciphertext panicked: "+dpd, c.witness(pool))
		case derr != nil:
			r.Violation("roundtrip/error", "decrypting an untouched ciphertext with the matching key and context failed: "+derr.Error(), c.witness(pool))
		case !bytes.Equal(out, c.msg):
			w := c.witness(pool)
			w["got"] = vf.Hex(out)
			w["got_len"] = len(out)
			r.Violation("roundtrip/mismatch", "decryption returned a different message", w)
		}
		// wrong keys
		for _, ok := range auxs[i].otherKeys {
			out, derr, dpk, dpd := decrypt(pool[ok].Priv, c.ctx, c.ct)
			r.Case(fmt.Sprintf("A|wk%d|%s", ok, c.id()), true)
			r.Count("decrypt_wrong_key", 1)
			if dpk {
				r.Violation(panicKey(len(c.ct)), "decrypt with a different key panicked: "+dpd, c.witness(pool))
			} else if derr == nil {
				w := c.witness(pool)
				w["other_key"] = pool[ok].String()
				w["got"] = vf.Hex(out)
				r.Violation("wrongkey/accepted", "decryption with a different private key returned a plaintext", w)
			}
		}
		// wrong contexts
		for _, wc := range auxs[i].wctx {
			out, derr, dpk, dpd := decrypt(pool[c.key].Priv, wc, c.ct)
			r.Case(fmt.Sprintf("A|wc%q|%s", wc, c.id()), true)
			r.Count("decrypt_wrong_ctx", 1)
			if dpk {
				r.Violation(panicKey(len(c.ct)), "decrypt with a different context panicked: "+dpd, c.witness(pool))
			} else if derr == nil {
				w := c.witness(pool)
				w["other_ctx"] = wc
				w["got"] = vf.Hex(out)
				r.Violation("wrongctx/accepted", "decryption with a different context returned a plaintext", w)
			}
		}
		// the same ciphertext SLICE presented several times (the helper above hands
		// every call a private copy): failed attempts with another key / context and
		// an earlier successful attempt must not spoil a later matching attempt
		{
			shared := g2util.Clone(c.ct)
			type att struct {
				key int
				ctx string
				ok  bool
			}
			seq := []att{{c.key, c.ctx, true}, {c.key, c.ctx, true}}
			if len(c.msg) < 2000 {
				pre := []att{}
				if len(auxs[i].otherKeys) > 0 {
					pre = append(pre, att{auxs[i].otherKeys[0], c.ctx, false})
				}
				if len(auxs[i].wctx) > 0 {
					pre = append(pre, att{c.key, auxs[i].wctx[0], false})
				}
				seq = append(pre, seq...)
			}
			for k, a := range seq {
				var out []byte
				var derr error
				dpk, dpd := vf.Try(func() { out, derr = peer.DecryptWithPrivKey(pool[a.key].Priv, a.ctx, shared) })
				r.Count("decrypt_same_slice_again", 1)
				if dpk {
					r.Violation("reuse/panic", "decrypting the same ciphertext slice again panicked: "+dpd, c.witness(pool))
					break
				}
				if !a.ok {
					continue // judged above on private copies
				}
				if derr != nil || !bytes.Equal(out, c.msg) {
					w := c.witness(pool)
					w["attempt"] = k
					w["attempts"] = fmt.Sprintf("%+v", seq)
					w["ciphertext_modified_by_earlier_call"] = !bytes.Equal(shared, c.ct)
					if derr != nil {
						w["err"] = derr.Error()
					}
					r.Violation("reuse/matching-attempt-fails-after-earlier-attempt", "a ciphertext that decrypts with the matching key and context no longer does after earlier decrypt calls on the same slice", w)
					break
				}
			}
			if !bytes.Equal(shared, c.ct) {
				r.Count("decrypt_modified_its_input", 1)
			}
		}
	}
	// messages >= 2000 bytes run in the background, overlapping phases A-C
	// (they take seconds each under the race detector); joined before Finish.
	var bigIdx, smallIdx []int
	for i, c := range cases {
		if len(c.msg) >= 2000 {
			bigIdx = append(bigIdx, i)
		} else {
			smallIdx = append(smallIdx, i)
		}
	}
	bigDone := make(chan struct{})
	go func() {
		defer close(bigDone)
		g2util.ParFor(len(bigIdx), func(j int) { runA(bigIdx[j]) })
	}()
	g2util.ParFor(len(smallIdx), func(j int) { runA(smallIdx[j]) })

	lap("A")

	// ---------------- phase B: complete single-fault neighbourhoods
	type tcase struct {
		a        *encCase
		siblings []*encCase // same key+ctx/other msg, same msg/other key, same msg/other ctx
		rseed    uint64
		allBytes bool
	}
	nB := r.N(20, 200)
	tlens := []int{0, 1, 5, 33, 34, 40, 66, 67, 100, 130}
	if r.Quick() {
		tlens = tlens[:8]
	}
	var tcs []*tcase
	for i := 0; i < nB; i++ {
		a := &encCase{key: rng.IntN(len(pool)), ctx: ctxs[rng.IntN(len(ctxs))], kind: "rand"}
		if a.ctx == ctxs[3] { // keep the 4 KiB context rare (slow, nothing new)
			a.ctx = ctxs[2]
		}
		a.msg = makeMsg(rng, "rand", tlens[i%len(tlens)])
		tc := &tcase{a: a, rseed: rng.Uint64(), allBytes: i < r.N(1, 8)}
		ok := (a.key + 1 + rng.IntN(len(pool)-1)) % len(pool)
		octx := a.ctx + "'"
		tc.siblings = []*encCase{
			{key: a.key, ctx: a.ctx, msg: makeMsg(rng, "rand", len(a.msg)), kind: "rand"},
			{key: ok, ctx: a.ctx, msg: a.msg, kind: "rand"},
			{key: a.key, ctx: octx, msg: a.msg, kind: "rand"},
		}
		if len(a.msg) == 0 { // "other message" must differ
			tc.siblings[0].msg = []byte{byte(rng.UintN(256))}
		}
		tcs = append(tcs, tc)
	}
	encrypt := func(c *encCase) bool {
		var err error
		var ct []byte
		pk, pd := vf.Try(func() { ct, err = peer.EncryptToPubKey(pool[c.key].Pub, c.ctx, g2util.Clone(c.msg)) })
		if pk {
			r.Violation("EncryptToPubKey/panic", "EncryptToPubKey panicked: "+pd, c.witness(pool))
			return false
		}
		if err != nil {
			r.Violation("EncryptToPubKey/error", "encryption to an honest Ed25519 key failed: "+err.Error(), c.witness(pool))
			return false
		}
		c.ct = g2util.Clone(ct)
		return true
	}
	r.Begin(fmt.Sprintf("phase B: tamper sets of %d ciphertexts", len(tcs)))
	g2util.ParFor(len(tcs), func(i int) {
		tc := tcs[i]
		a := tc.a
		if !encrypt(a) {
			r.Case("B|"+a.id(), false)
			return
		}
		// the base ciphertext itself must decrypt (otherwise "tampered => error" is vacuous)
		out, derr, dpk, _ := decrypt(pool[a.key].Priv, a.ctx, a.ct)
		if dpk || derr != nil || !bytes.Equal(out, a.msg) {
			r.Violation("roundtrip/tamper-base", "base ciphertext of a tamper set does not round-trip", a.witness(pool))
			r.Case("B|"+a.id(), false)
			return
		}
		if i == 0 {
			r.Sample(map[string]any{"phase": "B", "key": pool[a.key].String(), "ctx": a.ctx, "msg": vf.Hex(a.msg), "ciphertext": vf.Hex(a.ct), "tamper": "all bit flips, truncations, extensions, substitutions, splices"})
		}
		r.Distinct("tamper_ciphertext_lengths", fmt.Sprint(len(a.ct)))
		lr := rand.New(rand.NewPCG(tc.rseed, 12))
		L := len(a.ct)
		var ts []tamper
		for bit := 0; bit < L*8; bit++ {
			m := g2util.Clone(a.ct)
			m[bit/8] ^= 1 << (bit % 8)
			ts = append(ts, tamper{"bitflip", fmt.Sprintf("flip bit %d", bit), m})
		}
		for n := 0; n < L; n++ {
			ts = append(ts, tamper{"truncate", fmt.Sprintf("truncate to %d", n), g2util.Clone(a.ct[:n])})
		}
		for k := 1; k <= 32; k++ {
			ts = append(ts,
				tamper{"extend", fmt.Sprintf("append %d random", k), append(g2util.Clone(a.ct), g2util.Bytes(lr, k)...)},
				tamper{"extend", fmt.Sprintf("append %d zero", k), append(g2util.Clone(a.ct), make([]byte, k)...)},
				tamper{"extend", fmt.Sprintf("prepend %d random", k), append(g2util.Bytes(lr, k), a.ct...)})
		}
		for p := 0; p < L; p++ {
			if tc.allBytes && p < 36 {
				for v := 1; v < 256; v++ {
					m := g2util.Clone(a.ct)
					m[p] ^= byte(v)
					ts = append(ts, tamper{"substitute", fmt.Sprintf("byte %d ^= %#x", p, v), m})
				}
				continue
			}
			for j := 0; j < r.N(1, 3); j++ {
				v := byte(1 + lr.UintN(255))
				m := g2util.Clone(a.ct)
				m[p] ^= v
				ts = append(ts, tamper{"substitute", fmt.Sprintf("byte %d ^= %#x", p, v), m})
			}
		}
		for si, s := range tc.siblings {
			if !encrypt(s) {
				continue
			}
			if bytes.Equal(s.ct, a.ct) {
				// different (key|ctx|msg) must not give the same ciphertext if both
				// round-trip; covered by the wrong-key/ctx clauses; skip splices
				continue
			}
			m := min(len(s.ct), L)
			for k := 1; k < m; k++ {
				h := append(g2util.Clone(a.ct[:k]), s.ct[k:]...)
				ts = append(ts, tamper{"splice", fmt.Sprintf("a[:%d]+sibling%d[%d:]", k, si, k), h})
			}
		}
		for _, tm := range ts {
			if bytes.Equal(tm.ct, a.ct) {
				continue // not a modification
			}
			// a splice may reproduce the sibling exactly; under the sibling's own
			// key/ctx that would be a valid ciphertext, but we decrypt under a's
			// key+ctx where only a.ct is "the" ciphertext. A sibling with the same
			// key and ctx (sibling 0) is a legitimate other ciphertext: skip it.
			if tm.kind == "splice" && bytes.Equal(tm.ct, tc.siblings[0].ct) {
				continue
			}
			out, derr, dpk, dpd := decrypt(pool[a.key].Priv, a.ctx, tm.ct)
			r.Case("B|"+a.id()+"|"+tm.desc, true)
			r.Count("tamper_"+tm.kind, 1)
			if dpk {
				w := a.witness(pool)
				w["tamper"] = tm.desc
				w["tampered"] = vf.Hex(tm.ct)
				r.Violation(panicKey(len(tm.ct)), "decrypting a tampered ciphertext ("+tm.kind+") panicked: "+dpd, w)
			} else if derr == nil {
				w := a.witness(pool)
				w["tamper"] = tm.desc
				w["tampered"] = vf.Hex(tm.ct)
				w["got"] = vf.Hex(out)
				w["same_plaintext"] = bytes.Equal(out, a.msg)
				r.Violation("tamper/"+tm.kind+"/accepted", "a modified ciphertext decrypted without error", w)
			}
		}
	})

	lap("B")

	// ---------------- phase C: arbitrary bytes and multi-byte mutations
	type fz struct {
		key     int
		ctx     string
		b       []byte
		derived *encCase
	}
	var valid []*encCase
	for _, i := range smallIdx { // never touches the background (large) cases
		if c := cases[i]; c.ct != nil && len(c.ct) < 400 {
			valid = append(valid, c)
		}
	}
	nC := r.N(12000, 120000)
	fzs := make([]fz, 0, nC)
	// every length 0..80 with several PRNG fillings first (the header boundaries)
	for n := 0; n <= 80; n++ {
		for j := 0; j < r.N(40, 200); j++ {
			fzs = append(fzs, fz{key: rng.IntN(len(pool)), ctx: ctxs[rng.IntN(3)], b: g2util.Bytes(rng, n)})
		}
	}
	for len(fzs) < nC {
		f := fz{key: rng.IntN(len(pool)), ctx: ctxs[rng.IntN(len(ctxs))]}
		if f.ctx == ctxs[3] {
			f.ctx = ctxs[1]
		}
		switch x := rng.IntN(10); {
		case x < 3:
			f.b = g2util.Bytes(rng, rng.IntN(65))
		case x < 5:
			f.b = g2util.Bytes(rng, 30+rng.IntN(190))
		case len(valid) == 0:
			f.b = g2util.Bytes(rng, rng.IntN(100))
		default:
			v := valid[rng.IntN(len(valid))]
			f.key, f.ctx, f.derived = v.key, v.ctx, v
			m := g2util.Clone(v.ct)
			switch rng.IntN(5) {
			case 0: // several random bytes
				for k := 1 + rng.IntN(6); k > 0; k-- {
					m[rng.IntN(len(m))] = byte(rng.UintN(256))
				}
			case 1: // cut a middle section
				a := rng.IntN(len(m))
				b := a + rng.IntN(len(m)-a)
				m = append(m[:a:a], m[b:]...)
			case 2: // duplicate a section
				a := rng.IntN(len(m))
				b := a + rng.IntN(len(m)-a)
				m = append(append(g2util.Clone(m[:b]), m[a:b]...), m[b:]...)
			case 3: // keep the header, random body
				if len(m) > 36 {
					copy(m[36:], g2util.Bytes(rng, len(m)-36))
				}
			default: // random header, keep the body
				copy(m, g2util.Bytes(rng, min(36, len(m))))
			}
			f.b = m
		}
		fzs = append(fzs, f)
	}
	r.Begin(fmt.Sprintf("phase C: %d arbitrary / mutated byte strings", len(fzs)))
	g2util.ParFor(len(fzs), func(i int) {
		f := fzs[i]
		out, derr, dpk, dpd := decrypt(pool[f.key].Priv, f.ctx, f.b)
		r.Case(fmt.Sprintf("C|k%d|%q|%x", f.key, f.ctx, f.b), true)
		r.Distinct("fuzz_lengths", fmt.Sprint(len(f.b)))
		w := map[string]any{"key": pool[f.key].String(), "ctx": f.ctx, "input": vf.Hex(f.b), "input_len": len(f.b)}
		switch {
		case dpk:
			r.Count("fuzz_panic", 1)
			r.Violation(panicKey(len(f.b)), "decrypting arbitrary bytes panicked: "+dpd, w)
		case derr != nil:
			r.Count("fuzz_error", 1)
		case f.derived != nil && bytes.Equal(f.b, f.derived.ct):
			r.Count("fuzz_mutation_was_identity", 1)
		case f.derived != nil:
			w["original"] = vf.Hex(f.derived.ct)
			w["got"] = vf.Hex(out)
			r.Violation("tamper/multibyte/accepted", "a modified ciphertext decrypted without error", w)
		default:
			r.Count("fuzz_random_bytes_decrypted", 1)
		}
	})

	lap("C")

	// ---------------- allocation per hostile decrypt (observation only)
	var maxAlloc uint64
	var maxAllocLen int
	var ms runtime.MemStats
	nM := min(len(fzs), r.N(1500, 6000))
	for i := 0; i < nM; i++ {
		f := fzs[len(fzs)-1-i]
		runtime.ReadMemStats(&ms)
		before := ms.TotalAlloc
		_, _, _, _ = decrypt(pool[f.key].Priv, f.ctx, f.b)
		runtime.ReadMemStats(&ms)
		if d := ms.TotalAlloc - before; d > maxAlloc {
			maxAlloc, maxAllocLen = d, len(f.b)
		}
	}
	lap("alloc")
	<-bigDone
	lap("wait_large_messages")
	r.Extra("phaseA_large_message_cases", len(bigIdx))
	r.Extra("phase_wall_s", phaseT)
	r.Extra("max_heap_bytes_per_hostile_decrypt", maxAlloc)
	r.Extra("max_heap_bytes_input_len", maxAllocLen)
	r.Extra("hostile_decrypts_measured", nM)
	r.Extra("keys", len(pool))
	r.Extra("phaseA_cases", len(cases))
	r.Extra("phaseB_ciphertexts", len(tcs))
	r.Extra("phaseC_inputs", len(fzs))
}
