// C37: directive de-duplication never merges different requests.
//
// For each of the 11 directive types every instance over a 3-value universe
// per parameter is built through the type's public constructor, and every
// ordered pair (x, y) is judged: if the harness' own parameter tuples differ in
// at least one resolution-affecting parameter, x.IsEquivalent(y) must be false
// and a real controllerbus directive controller must not fold y into x's
// instance. Equal tuples => true is only counted (the property is
// one-directional).
package c37

import (
	"context"
	"fmt"
	"net/url"
	"sort"
	"strings"
	"testing"

	bifrost_http "github.com/aperturerobotics/bifrost/http"
	"github.com/aperturerobotics/bifrost/link"
	link_solicit "github.com/aperturerobotics/bifrost/link/solicit"
	"github.com/aperturerobotics/bifrost/peer"
	"github.com/aperturerobotics/bifrost/protocol"
	bifrost_rpc "github.com/aperturerobotics/bifrost/rpc"
	"github.com/aperturerobotics/bifrost/signaling"
	"github.com/aperturerobotics/bifrost/tptaddr"
	"github.com/aperturerobotics/bifrost/transport"
	"github.com/aperturerobotics/bifrost/transport/common/dialer"
	"github.com/aperturerobotics/controllerbus/directive"
	dcontroller "github.com/aperturerobotics/controllerbus/directive/controller"
	"github.com/aperturerobotics/util/backoff"

	"verifharness/g11dir"
	"verifharness/keys"
	"verifharness/vf"
)

// param is one parameter of a directive type with its value universe
// (values are indexes; the builder maps them to concrete values).
type param struct {
	name string
	n    int
	// affects = some resolver in the repository reads this parameter to decide
	// the result (or it is part of the request identity by the interface doc).
	affects bool
}

type dirType struct {
	name   string
	params []param
	build  func(v []int) directive.Directive
	show   func(v []int) string
}

type inst struct {
	v   []int
	dir directive.Directive
}

func product(ps []param) [][]int {
	out := [][]int{{}}
	for _, p := range ps {
		var next [][]int
		for _, o := range out {
			for i := 0; i < p.n; i++ {
				next = append(next, append(append([]int(nil), o...), i))
			}
		}
		out = next
	}
	return out
}

func TestCheck(t *testing.T) {
	r := vf.Start(t, "C37", vf.Exploration)
	defer r.Finish()
	r.SetExhaustive(true)
	r.SetRule("bounded-exhaustive: for each of 11 directive types (SolicitProtocol, EstablishLinkWithPeer, HandleMountedStream, DialTptAddr, LookupTptAddr, LookupTransport, LookupRpcService, LookupRpcClient, LookupHTTPHandler, SignalPeer, GetPeer) all instances over a 3-value universe per parameter (peers {\"\",A,B}, protocol ids, context bytes {nil,c1,c2}, transport ids {0,1,2}, addresses, ids {\"\",s1,s2}, methods {\"\",GET,POST}, URLs) and ALL ordered pairs of instances, plus all ordered cross-type pairs of one representative per type. Oracle: the harness' own parameter tuples; tuples differing in >=1 resolution-affecting parameter => IsEquivalent must be false and a real controllerbus directive controller must return distinct instances for the two AddDirective calls. Equal tuples => true is informational only. DialTptAddr back-off options are enumerated but not resolution-affecting (DESIGN 8). Near-equal part (beyond the 3-value universe): for every string / bytes / peer-id / address / URL parameter of every type a family of 20-45 near-equal but different values around a base value (letter case of all / the first / the last letter, ASCII and Unicode; leading / trailing space, tab, newline, NUL, slash, dot; doubled / removed separator; Cyrillic and full-width look-alikes, NFC vs NFD, zero-width space; prefix, extension, last bit, first two bytes swapped, doubled; for peer ids additionally an id whose base58 TEXT differs in letter case only, the text used as raw id, printable ids; for transport addresses case / spacing / doubling around the '|' and in host, port, path; for URLs path / query order / fragment / port / userinfo variants that the standard library renders differently) - ALL ordered pairs of each family with the other parameters equal (base values, or PRNG-chosen near-equal values common to both sides); for every two parameters of a type swapped-role pairs (p=u,q=v vs p=v,q=u) and boundary-shifted pairs (p=u+s,q=v vs p=u,q=s+v; p=u+s+v,q=\"\" vs p=u,q=v) over 8 separators; for the numeric transport constraints 15 values that coincide under 8/16/32-bit truncation or sign change. IsEquivalent must be false for every such pair; the real directive controller is tried on every third pair. Non-trivial = pair with different tuples (the direction the property constrains); distinct = (type, x, y).")
	r.Assume("a parameter is resolution-affecting when a resolver in the repository reads it (solicit controller reads SolicitProtocolTransportID/PeerID/Context; transport controller reads DialTptAddr address, peers; ...) or it is a getter of the directive interface used as request identity; DialerOpts.Backoff is not")

	pool := keys.Pool(r.Rand("c37-peers"), 2)
	peers := []peer.ID{"", pool[0].ID, pool[1].ID}
	pn := []string{"-", "A", "B"}
	protos := []protocol.ID{"p1", "p2", "p1/x"}
	ctxs := [][]byte{nil, []byte("c1"), []byte("c2")}
	tids := []uint64{0, 1, 2}
	addrs := []string{"udp|10.0.0.1:1", "udp|10.0.0.2:1", "ws|10.0.0.1:1"}
	strs := []string{"", "s1", "s2"}
	methods := []string{"", "GET", "POST"}
	urlStrs := []string{"/a", "/b", "/a?q=1", "http://h/a", "https://h/a"}
	backoffs := []*backoff.Backoff{nil, {BackoffKind: backoff.BackoffKind_BackoffKind_CONSTANT, Constant: &backoff.Constant{Interval: 5}}}
	mkURL := func(i int) *url.URL {
		u, err := url.Parse(urlStrs[i])
		if err != nil {
			t.Fatal(err)
		}
		return u
	}

	types := []dirType{
		{
			name:   "SolicitProtocol",
			params: []param{{"protocol", 3, true}, {"context", 3, true}, {"peer", 3, true}, {"transport", 3, true}},
			build: func(v []int) directive.Directive {
				return link_solicit.NewSolicitProtocol(protos[v[0]], ctxs[v[1]], peers[v[2]], tids[v[3]])
			},
			show: func(v []int) string {
				return fmt.Sprintf("protocol=%s context=%q peer=%s transport=%d", protos[v[0]], ctxs[v[1]], pn[v[2]], tids[v[3]])
			},
		},
		{
			name:   "EstablishLinkWithPeer",
			params: []param{{"src", 3, true}, {"dest", 3, true}},
			build:  func(v []int) directive.Directive { return link.NewEstablishLinkWithPeer(peers[v[0]], peers[v[1]]) },
			show:   func(v []int) string { return fmt.Sprintf("src=%s dest=%s", pn[v[0]], pn[v[1]]) },
		},
		{
			name:   "HandleMountedStream",
			params: []param{{"protocol", 3, true}, {"local", 3, true}, {"remote", 3, true}},
			build: func(v []int) directive.Directive {
				return link.NewHandleMountedStream(protos[v[0]], peers[v[1]], peers[v[2]])
			},
			show: func(v []int) string {
				return fmt.Sprintf("protocol=%s local=%s remote=%s", protos[v[0]], pn[v[1]], pn[v[2]])
			},
		},
		{
			name:   "DialTptAddr",
			params: []param{{"address", 3, true}, {"src", 3, true}, {"dest", 3, true}, {"backoff", 2, false}},
			build: func(v []int) directive.Directive {
				return tptaddr.NewDialTptAddr(&dialer.DialerOpts{Address: addrs[v[0]], Backoff: backoffs[v[3]]}, peers[v[1]], peers[v[2]])
			},
			show: func(v []int) string {
				return fmt.Sprintf("address=%s src=%s dest=%s backoff#%d", addrs[v[0]], pn[v[1]], pn[v[2]], v[3])
			},
		},
		{
			name:   "LookupTptAddr",
			params: []param{{"dest", 3, true}},
			build:  func(v []int) directive.Directive { return tptaddr.NewLookupTptAddr(peers[v[0]]) },
			show:   func(v []int) string { return fmt.Sprintf("dest=%s", pn[v[0]]) },
		},
		{
			name:   "LookupTransport",
			params: []param{{"peer", 3, true}, {"transport", 3, true}},
			build:  func(v []int) directive.Directive { return transport.NewLookupTransport(peers[v[0]], tids[v[1]]) },
			show:   func(v []int) string { return fmt.Sprintf("peer=%s transport=%d", pn[v[0]], tids[v[1]]) },
		},
		{
			name:   "LookupRpcService",
			params: []param{{"service", 3, true}, {"server", 3, true}},
			build:  func(v []int) directive.Directive { return bifrost_rpc.NewLookupRpcService(strs[v[0]], strs[v[1]]) },
			show:   func(v []int) string { return fmt.Sprintf("service=%q server=%q", strs[v[0]], strs[v[1]]) },
		},
		{
			name:   "LookupRpcClient",
			params: []param{{"service", 3, true}, {"client", 3, true}},
			build:  func(v []int) directive.Directive { return bifrost_rpc.NewLookupRpcClient(strs[v[0]], strs[v[1]]) },
			show:   func(v []int) string { return fmt.Sprintf("service=%q client=%q", strs[v[0]], strs[v[1]]) },
		},
		{
			name:   "LookupHTTPHandler",
			params: []param{{"method", 3, true}, {"url", len(urlStrs), true}, {"client", 3, true}},
			build: func(v []int) directive.Directive {
				return bifrost_http.NewLookupHTTPHandler(methods[v[0]], mkURL(v[1]), strs[v[2]])
			},
			show: func(v []int) string {
				return fmt.Sprintf("method=%q url=%s client=%q", methods[v[0]], urlStrs[v[1]], strs[v[2]])
			},
		},
		{
			name:   "SignalPeer",
			params: []param{{"signaling", 3, true}, {"local", 3, true}, {"remote", 3, true}},
			build: func(v []int) directive.Directive {
				return signaling.NewSignalPeer(strs[v[0]], peers[v[1]], peers[v[2]])
			},
			show: func(v []int) string {
				return fmt.Sprintf("signaling=%q local=%s remote=%s", strs[v[0]], pn[v[1]], pn[v[2]])
			},
		},
		{
			name:   "GetPeer",
			params: []param{{"peer", 3, true}},
			build:  func(v []int) directive.Directive { return peer.NewGetPeer(peers[v[0]]) },
			show:   func(v []int) string { return fmt.Sprintf("peer=%s", pn[v[0]]) },
		},
	}

	le := g11dir.QuietLogger()

	// busMerged adds x then y to a fresh real directive controller and reports
	// whether y was folded into x's instance.
	busMerged := func(x, y directive.Directive) bool {
		ctx, cancel := context.WithCancel(context.Background())
		defer cancel()
		dc := dcontroller.NewController(ctx, le)
		i1, r1, err := dc.AddDirective(x, nil)
		if err != nil {
			return false
		}
		defer r1.Release()
		i2, r2, err := dc.AddDirective(y, nil)
		if err != nil {
			return false
		}
		defer r2.Release()
		return i1 == i2
	}

	isEq := func(x, y directive.Directive) (eq bool, has bool) {
		e, ok := x.(directive.DirectiveWithEquiv)
		if !ok {
			return false, false
		}
		return e.IsEquivalent(y), true
	}

	var reps []inst
	repName := []string{}
	for _, dt := range types {
		tuples := product(dt.params)
		insts := make([]inst, len(tuples))
		for k, v := range tuples {
			insts[k] = inst{v: v, dir: dt.build(v)}
		}
		// a second, independently constructed object per tuple so that equal
		// tuples are compared across distinct objects
		twins := make([]inst, len(tuples))
		for k, v := range tuples {
			twins[k] = inst{v: v, dir: dt.build(v)}
		}
		reps = append(reps, insts[len(insts)-1])
		repName = append(repName, dt.name)
		r.Begin(fmt.Sprintf("type=%s instances=%d pairs=%d", dt.name, len(insts), len(insts)*len(insts)))
		r.Count("instances/"+dt.name, len(insts))
		if _, has := isEq(insts[0].dir, insts[0].dir); !has {
			r.Inconclusive(dt.name + " does not implement IsEquivalent")
			continue
		}
		sampled := false
		for _, x := range insts {
			for k, y0 := range insts {
				y := twins[k]
				_ = y0
				var diffAff, diffOther []string
				for pi, p := range dt.params {
					if x.v[pi] != y.v[pi] {
						if p.affects {
							diffAff = append(diffAff, p.name)
						} else {
							diffOther = append(diffOther, p.name)
						}
					}
				}
				sort.Strings(diffAff)
				var eq bool
				if p, d := vf.Try(func() { eq, _ = isEq(x.dir, y.dir) }); p {
					r.Violation("c37/"+dt.name+"/panic", "IsEquivalent panicked: "+d, map[string]any{"type": dt.name, "x": dt.show(x.v), "y": dt.show(y.v)})
					continue
				}
				sig := fmt.Sprintf("%s|%v|%v", dt.name, x.v, y.v)
				differs := len(diffAff) != 0
				r.Case(sig, differs)
				switch {
				case differs:
					r.Count("pairs_different/"+dt.name, 1)
					r.Distinct("differing_parameter_sets", dt.name+":"+strings.Join(diffAff, "+"))
					merged := busMerged(y.dir, x.dir) // x added after y: the controller calls x.IsEquivalent(y)
					r.Count("bus_pairs_checked", 1)
					if eq || merged {
						r.Violation("c37/"+dt.name+"/merged-despite/"+strings.Join(diffAff, "+"),
							fmt.Sprintf("%s: IsEquivalent=%v, folded into one instance by the directive controller=%v although the requests differ in %s: {%s} vs {%s}",
								dt.name, eq, merged, strings.Join(diffAff, "+"), dt.show(x.v), dt.show(y.v)),
							map[string]any{"type": dt.name, "x": dt.show(x.v), "y": dt.show(y.v), "differs_in": diffAff, "is_equivalent": eq, "bus_merged": merged})
					}
					if !sampled && len(diffAff) == 1 {
						sampled = true
						r.Sample(map[string]any{"type": dt.name, "x": dt.show(x.v), "y": dt.show(y.v), "differs_in": diffAff, "is_equivalent": eq, "bus_merged": merged})
					}
				case len(diffOther) != 0:
					// differs only in a parameter that does not affect resolution: nothing demanded
					r.Count("pairs_differ_only_in_non_affecting/"+dt.name, 1)
					if eq {
						r.Count("info_non_affecting_merged/"+dt.name, 1)
					}
				default:
					r.Count("pairs_equal/"+dt.name, 1)
					if !eq {
						r.Count("info_equal_params_not_equivalent/"+dt.name, 1)
					}
				}
			}
		}
	}

	// cross-type pairs: a directive of another type is another request.
	r.Begin("cross-type pairs")
	for a := range reps {
		for b := range reps {
			if a == b {
				continue
			}
			var eq bool
			if p, d := vf.Try(func() { eq, _ = isEq(reps[a].dir, reps[b].dir) }); p {
				r.Violation("c37/cross-type/panic/"+repName[a], "IsEquivalent panicked on a directive of another type: "+d, map[string]any{"x": repName[a], "y": repName[b]})
				continue
			}
			r.Case("cross|"+repName[a]+"|"+repName[b], true)
			r.Count("pairs_cross_type", 1)
			merged := busMerged(reps[b].dir, reps[a].dir)
			if eq || merged {
				r.Violation("c37/cross-type/"+repName[a]+"-vs-"+repName[b],
					fmt.Sprintf("%s treated a %s directive as equivalent (IsEquivalent=%v bus merged=%v)", repName[a], repName[b], eq, merged),
					map[string]any{"x": repName[a], "y": repName[b]})
			}
		}
	}
	r.Extra("directive_types", len(types))

	// near-equal parameter values (near_test.go)
	nearPhase(r, pool[0].ID, pool[1].ID, isEq, busMerged)
}
