// C37, near-equal values. The bounded-exhaustive part uses a 3-value universe
// of clearly different values per parameter. A de-duplication that compares
// "almost" (case-insensitively, trimmed, normalised, by prefix, by a
// concatenation of two parameters, as an unordered pair, through a narrower
// integer type ...) only shows on values that LOOK alike. This part builds,
// for every string / bytes / peer-id / address / URL parameter of the 11
// directive types, a family of near-equal but different values around a base
// value and judges every ordered pair of the family with all other parameters
// held equal; for every two parameters of one type it adds swapped-role pairs
// (p=u,q=v vs p=v,q=u) and boundary-shifted pairs (p=u+s,q=v vs p=u,q=s+v);
// for the numeric transport constraints values that coincide after
// truncation. Ground truth: the values the harness passed to the public
// constructors, compared byte for byte (URLs: by the standard library's own
// URL.String()).
package c37

import (
	"fmt"
	"net/url"
	"sort"
	"strings"
	"unicode/utf8"

	bifrost_http "github.com/aperturerobotics/bifrost/http"
	"github.com/aperturerobotics/bifrost/link"
	link_solicit "github.com/aperturerobotics/bifrost/link/solicit"
	"github.com/aperturerobotics/bifrost/peer"
	"github.com/aperturerobotics/bifrost/protocol"
	bifrost_rpc "github.com/aperturerobotics/bifrost/rpc"
	"github.com/aperturerobotics/bifrost/signaling"
	"github.com/aperturerobotics/bifrost/tptaddr"
	"github.com/aperturerobotics/bifrost/transport"
	"github.com/aperturerobotics/bifrost/transport/common/dialer"
	"github.com/aperturerobotics/controllerbus/directive"

	g "verifharness/g1util"
	"verifharness/vf"
)

type variant struct{ label, val string }

func toggleASCII(c byte) (byte, bool) {
	switch {
	case c >= 'a' && c <= 'z':
		return c - 32, true
	case c >= 'A' && c <= 'Z':
		return c + 32, true
	}
	return c, false
}

func mapASCII(s string, f func(byte) byte) string {
	b := []byte(s)
	for i := range b {
		b[i] = f(b[i])
	}
	return string(b)
}

// nearFamily returns near-equal variants of base (label "base" first). All
// variants are byte-wise different from each other (deduplicated).
func nearFamily(base string, peerKind bool) []variant {
	var out []variant
	seen := map[string]bool{}
	add := func(label, v string) {
		if !seen[v] {
			seen[v] = true
			out = append(out, variant{label, v})
		}
	}
	add("base", base)
	// letter case (byte level: raw peer ids are not UTF-8)
	add("case-upper-ascii", mapASCII(base, func(c byte) byte {
		if c >= 'a' && c <= 'z' {
			return c - 32
		}
		return c
	}))
	add("case-lower-ascii", mapASCII(base, func(c byte) byte {
		if c >= 'A' && c <= 'Z' {
			return c + 32
		}
		return c
	}))
	for i := 0; i < len(base); i++ {
		if t, ok := toggleASCII(base[i]); ok {
			add("case-first-letter", base[:i]+string([]byte{t})+base[i+1:])
			break
		}
	}
	for i := len(base) - 1; i >= 0; i-- {
		if t, ok := toggleASCII(base[i]); ok {
			add("case-last-letter", base[:i]+string([]byte{t})+base[i+1:])
			break
		}
	}
	if utf8.ValidString(base) {
		add("case-upper-unicode", strings.ToUpper(base))
		add("case-title-unicode", strings.ToTitle(base))
	}
	// whitespace and trailing / leading decoration
	add("space-leading", " "+base)
	add("space-trailing", base+" ")
	add("newline-trailing", base+"\n")
	add("tab-leading", "\t"+base)
	add("nul-trailing", base+"\x00")
	add("slash-trailing", base+"/")
	add("dot-trailing", base+".")
	add("slash-leading", "/"+base)
	// doubled separator
	if i := strings.IndexAny(base, "/|.:-_"); i >= 0 {
		add("separator-doubled", base[:i+1]+base[i:])
		add("separator-removed", base[:i]+base[i+1:])
	}
	// unicode look-alikes and normalisation forms
	if utf8.ValidString(base) && !peerKind {
		look := map[rune]rune{'a': '\u0430', 'e': '\u0435', 'o': '\u043e', 'p': '\u0440', 'c': '\u0441', 'H': '\u041d', 'E': '\u0415'}
		for i, c := range base {
			if l, ok := look[c]; ok {
				add("lookalike-cyrillic", base[:i]+string(l)+base[i+utf8.RuneLen(c):])
				break
			}
		}
		for i, c := range base {
			if c > 0x20 && c < 0x7f && c != '|' && c != '/' && c != '?' && c != ':' {
				add("lookalike-fullwidth", base[:i]+string(c-0x20+0xff00)+base[i+1:])
				break
			}
		}
		if strings.Contains(base, "\u00e9") {
			add("unicode-nfd", strings.Replace(base, "\u00e9", "e\u0301", 1))
			add("unicode-unaccented", strings.Replace(base, "\u00e9", "e", 1))
		}
		if len(base) > 0 {
			_, n := utf8.DecodeRuneInString(base)
			add("zero-width-space", base[:n]+"\u200b"+base[n:])
		}
	}
	// prefix / extension
	if len(base) > 1 {
		add("prefix", base[:len(base)-1])
		add("last-byte-doubled", base+base[len(base)-1:])
		b := []byte(base)
		b[len(b)-1] ^= 0x01
		add("last-bit", string(b))
		b = []byte(base)
		b[0], b[1] = b[1], b[0]
		add("first-two-swapped", string(b))
	}
	add("plus-x", base+"x")
	add("twice", base+base)
	// hierarchy: a value that is the other's prefix up to and including a
	// separator ("/foo/" vs "/foo/echo"), in both issue orders
	if i := strings.LastIndexAny(base, "/|.:-_"); i >= 0 && i+1 < len(base) {
		add("parent-with-separator", base[:i+1])
	}
	if i := strings.IndexAny(base, "/|.:-_"); i >= 0 && i+1 < len(base) {
		add("first-segment-with-separator", base[:i+1])
	}
	add("child-after-slash", base+"/x")
	add("child-after-dot", base+".x")
	return out
}

// b58CaseTwin returns another peer id whose base58 text equals id's text up to
// letter case ("" when there is none at the first 40 positions).
func b58CaseTwin(id peer.ID) peer.ID {
	s := g.B58Encode([]byte(id))
	alpha := g.B58Alphabet()
	for i := len(s) - 1; i >= 0 && i >= len(s)-40; i-- {
		t, ok := toggleASCII(s[i])
		if !ok || !strings.ContainsRune(alpha, rune(t)) {
			continue
		}
		cand := s[:i] + string([]byte{t}) + s[i+1:]
		raw, ok := g.B58Decode(cand)
		if ok && g.B58Encode(raw) == cand && string(raw) != string(id) {
			return peer.ID(raw)
		}
	}
	return ""
}

// nearType describes one directive type for this part: its string-like
// parameters (kind: str, bytes, peer, addr, url, method), numeric parameters
// and a builder from concrete values. mk returns nil when a value cannot be
// turned into the parameter type (URL that does not parse).
type nearType struct {
	name  string
	sp    []string
	kinds []string
	base  []string
	np    []string
	mk    func(s []string, n []uint64) directive.Directive
}

func parseURL(s string) *url.URL {
	u, err := url.Parse(s)
	if err != nil {
		return nil
	}
	return u
}

func nearTypes(idA, idB peer.ID) []nearType {
	a, b := string(idA), string(idB)
	return []nearType{
		{"SolicitProtocol", []string{"protocol", "context", "peer"}, []string{"str", "bytes", "peer"}, []string{"Proto/\u00e9.Echo-1", "Ctx-\u00e9.1/x", a}, []string{"transport"},
			func(s []string, n []uint64) directive.Directive {
				var ctx []byte
				if s[1] != "" {
					ctx = []byte(s[1])
				}
				return link_solicit.NewSolicitProtocol(protocol.ID(s[0]), ctx, peer.ID(s[2]), n[0])
			}},
		{"EstablishLinkWithPeer", []string{"src", "dest"}, []string{"peer", "peer"}, []string{a, b}, nil,
			func(s []string, n []uint64) directive.Directive {
				return link.NewEstablishLinkWithPeer(peer.ID(s[0]), peer.ID(s[1]))
			}},
		{"HandleMountedStream", []string{"protocol", "local", "remote"}, []string{"str", "peer", "peer"}, []string{"Proto/\u00e9.Echo-1", a, b}, nil,
			func(s []string, n []uint64) directive.Directive {
				return link.NewHandleMountedStream(protocol.ID(s[0]), peer.ID(s[1]), peer.ID(s[2]))
			}},
		{"DialTptAddr", []string{"address", "src", "dest"}, []string{"addr", "peer", "peer"}, []string{"udp|Host-1.Example.org:4000/Path", a, b}, nil,
			func(s []string, n []uint64) directive.Directive {
				return tptaddr.NewDialTptAddr(&dialer.DialerOpts{Address: s[0]}, peer.ID(s[1]), peer.ID(s[2]))
			}},
		{"LookupTptAddr", []string{"dest"}, []string{"peer"}, []string{a}, nil,
			func(s []string, n []uint64) directive.Directive { return tptaddr.NewLookupTptAddr(peer.ID(s[0])) }},
		{"LookupTransport", []string{"peer"}, []string{"peer"}, []string{a}, []string{"transport"},
			func(s []string, n []uint64) directive.Directive {
				return transport.NewLookupTransport(peer.ID(s[0]), n[0])
			}},
		{"LookupRpcService", []string{"service", "server"}, []string{"str", "str"}, []string{"svc.Caf\u00e9/Echo", "Server-1.b"}, nil,
			func(s []string, n []uint64) directive.Directive { return bifrost_rpc.NewLookupRpcService(s[0], s[1]) }},
		{"LookupRpcClient", []string{"service", "client"}, []string{"str", "str"}, []string{"svc.Caf\u00e9/Echo", "Client-1.b"}, nil,
			func(s []string, n []uint64) directive.Directive { return bifrost_rpc.NewLookupRpcClient(s[0], s[1]) }},
		{"LookupHTTPHandler", []string{"method", "url", "client"}, []string{"str", "url", "str"}, []string{"Get", "http://h.example/Dir/Page.html?x=1&y=2", "Client-1.b"}, nil,
			func(s []string, n []uint64) directive.Directive {
				u := parseURL(s[1])
				if u == nil {
					return nil
				}
				return bifrost_http.NewLookupHTTPHandler(s[0], u, s[2])
			}},
		{"SignalPeer", []string{"signaling", "local", "remote"}, []string{"str", "peer", "peer"}, []string{"Sig-1.\u00e9/x", a, b}, nil,
			func(s []string, n []uint64) directive.Directive {
				return signaling.NewSignalPeer(s[0], peer.ID(s[1]), peer.ID(s[2]))
			}},
		{"GetPeer", []string{"peer"}, []string{"peer"}, []string{a}, nil,
			func(s []string, n []uint64) directive.Directive { return peer.NewGetPeer(peer.ID(s[0])) }},
	}
}

// urlFamily: near-equal URLs (kept apart from the generic family: host and
// scheme case are equal by RFC 3986 and not used; path / query / fragment /
// port / userinfo differences are).
func urlFamily(base string) []variant {
	u := parseURL(base)
	var out []variant
	seen := map[string]bool{}
	add := func(label, v string) {
		p := parseURL(v)
		if p == nil {
			return
		}
		// ground truth: the standard library's rendering
		if k := p.String(); !seen[k] {
			seen[k] = true
			out = append(out, variant{label, v})
		}
	}
	add("base", base)
	pre := u.Scheme + "://" + u.Host
	path, q := u.Path, u.RawQuery
	add("path-case-upper", pre+strings.ToUpper(path)+"?"+q)
	add("path-case-lower", pre+strings.ToLower(path)+"?"+q)
	add("path-trailing-slash", pre+path+"/?"+q)
	add("path-trailing-dot", pre+path+".?"+q)
	add("path-doubled-slash", pre+strings.Replace(path, "/", "//", 1)+"?"+q)
	add("path-inner-doubled-slash", pre+path[:1]+strings.Replace(path[1:], "/", "//", 1)+"?"+q)
	add("path-dot-segment", pre+"/."+path+"?"+q)
	add("path-dotdot-segment", pre+"/x/.."+path+"?"+q)
	add("path-prefix", pre+path[:len(path)-1]+"?"+q)
	add("path-extended", pre+path+"l?"+q)
	add("path-trailing-space", pre+path+"%20?"+q)
	add("path-lookalike", pre+strings.Replace(path, "a", "\u0430", 1)+"?"+q)
	add("query-reordered", pre+path+"?y=2&x=1")
	add("query-case", pre+path+"?X=1&Y=2")
	add("query-trailing-amp", pre+path+"?"+q+"&")
	add("query-dropped", pre+path)
	add("query-empty", pre+path+"?")
	add("query-duplicate-key", pre+path+"?"+q+"&x=1")
	add("query-value-prefix", pre+path+"?x=1&y=")
	add("query-plus-vs-space", pre+path+"?x=1&y=2+")
	add("fragment", pre+path+"?"+q+"#f")
	add("port-default", u.Scheme+"://"+u.Host+":80"+path+"?"+q)
	add("userinfo", u.Scheme+"://u@"+u.Host+path+"?"+q)
	add("host-trailing-dot", u.Scheme+"://"+u.Host+"."+path+"?"+q)
	add("host-prefix", u.Scheme+"://"+u.Host[:len(u.Host)-1]+path+"?"+q)
	add("scheme-https", "https://"+u.Host+path+"?"+q)
	add("relative", path+"?"+q)
	add("scheme-relative", "//"+u.Host+path+"?"+q)
	add("opaque", u.Scheme+":"+strings.TrimPrefix(path, "/")+"?"+q)
	return out
}

func classOf(a, b string) string {
	x := []string{a, b}
	sort.Strings(x)
	return x[0] + "~" + x[1]
}

func nearPhase(r *vf.Run, idA, idB peer.ID,
	isEq func(x, y directive.Directive) (bool, bool),
	busMerged func(x, y directive.Directive) bool,
) {
	rng := r.Rand("c37-near")
	types := nearTypes(idA, idB)
	twinA := b58CaseTwin(idA)
	numNear := []uint64{0, 1, 2, 256, 257, 1 << 8, 1 << 16, 1<<16 + 1, 1 << 31, 1 << 32, 1<<32 + 1, 1<<32 + 2, 1 << 63, 1<<63 + 1, ^uint64(0)}

	// judge one pair built from two value vectors.
	busEvery := 3
	pairNo := 0
	judge := func(nt *nearType, how, param, class string, sx, sy []string, nx, ny []uint64) {
		var x, y directive.Directive
		if pn, pd := vf.Try(func() { x, y = nt.mk(sx, nx), nt.mk(sy, ny) }); pn {
			r.Violation("c37/"+nt.name+"/constructor-panic", "constructor panicked: "+pd, map[string]any{"type": nt.name, "x": fmt.Sprintf("%q %v", sx, nx), "y": fmt.Sprintf("%q %v", sy, ny)})
			return
		}
		if x == nil || y == nil {
			r.Count("near_pairs_not_constructible", 1)
			return
		}
		show := func(s []string, n []uint64) string {
			var sb strings.Builder
			for i := range s {
				if nt.kinds[i] == "peer" {
					fmt.Fprintf(&sb, "%s=0x%x ", nt.sp[i], s[i])
				} else {
					fmt.Fprintf(&sb, "%s=%q ", nt.sp[i], s[i])
				}
			}
			for i := range n {
				fmt.Fprintf(&sb, "%s=%d ", nt.np[i], n[i])
			}
			return strings.TrimSpace(sb.String())
		}
		var eq bool
		if pn, pd := vf.Try(func() { eq, _ = isEq(x, y) }); pn {
			r.Violation("c37/"+nt.name+"/panic", "IsEquivalent panicked: "+pd, map[string]any{"type": nt.name, "x": show(sx, nx), "y": show(sy, ny)})
			return
		}
		pairNo++
		merged := false
		if eq || pairNo%busEvery == 0 {
			merged = busMerged(y, x)
			r.Count("bus_pairs_checked", 1)
		}
		r.Case(fmt.Sprintf("near|%s|%s|%q%v|%q%v", nt.name, how, sx, nx, sy, ny), true)
		r.Count("near_pairs/"+how, 1)
		r.Count("near_pairs_type/"+nt.name, 1)
		r.Distinct("near_classes", how+":"+class)
		if eq || merged {
			r.Violation("c37/"+nt.name+"/merged-near-equal/"+param+"/"+how+"/"+class,
				fmt.Sprintf("%s: IsEquivalent=%v, folded into one instance by the directive controller=%v although the requests differ in %s (%s, %s): {%s} vs {%s}", nt.name, eq, merged, param, how, class, show(sx, nx), show(sy, ny)),
				map[string]any{"type": nt.name, "x": show(sx, nx), "y": show(sy, ny), "differs_in": param, "relation": how, "class": class, "is_equivalent": eq, "bus_merged": merged})
		}
	}

	families := map[string][]variant{}
	familyOf := func(nt *nearType, i int) []variant {
		key := nt.kinds[i] + "|" + nt.base[i]
		if f, ok := families[key]; ok {
			return f
		}
		var f []variant
		switch nt.kinds[i] {
		case "url":
			f = urlFamily(nt.base[i])
		case "peer":
			f = nearFamily(nt.base[i], true)
			if twinA != "" && nt.base[i] == string(idA) {
				f = append(f, variant{"base58-text-differs-in-case-only", string(twinA)})
			}
			f = append(f, variant{"base58-text-as-raw-id", g.B58Encode([]byte(nt.base[i]))})
			// a short printable id and its near-equals take part as well
			for _, v := range nearFamily("Peer-a.\u00e9", false)[:12] {
				f = append(f, variant{"printable-" + v.label, v.val})
			}
		case "addr":
			f = nearFamily(nt.base[i], false)
			b := nt.base[i]
			k := strings.Index(b, "|")
			f = append(f,
				variant{"transport-part-case", strings.ToUpper(b[:k]) + b[k:]},
				variant{"address-part-case-upper", b[:k] + strings.ToUpper(b[k:])},
				variant{"address-part-case-lower", b[:k] + strings.ToLower(b[k:])},
				variant{"host-part-case-lower", b[:k] + strings.ToLower(b[k:strings.LastIndex(b, "/")]) + b[strings.LastIndex(b, "/"):]},
				variant{"path-part-case-lower", b[:strings.LastIndex(b, "/")] + strings.ToLower(b[strings.LastIndex(b, "/"):])},
				variant{"pipe-doubled", b[:k] + "|" + b[k:]},
				variant{"space-after-pipe", b[:k+1] + " " + b[k+1:]},
				variant{"space-before-pipe", b[:k] + " " + b[k:]},
				variant{"port-leading-zero", strings.Replace(b, ":4000", ":04000", 1)},
				variant{"host-trailing-dot", strings.Replace(b, ".org:", ".org.:", 1)},
			)
		default:
			f = nearFamily(nt.base[i], false)
		}
		// dedupe by value (appended extras)
		seen := map[string]bool{}
		out := f[:0]
		for _, v := range f {
			if !seen[v.val] {
				seen[v.val] = true
				out = append(out, v)
			}
		}
		families[key] = out
		return out
	}

	for ti := range types {
		nt := &types[ti]
		r.Begin("near-equal values: type=" + nt.name)
		nbase := make([]uint64, len(nt.np))
		for i := range nbase {
			nbase[i] = 1
		}
		with := func(s []string, i int, v string) []string {
			o := append([]string(nil), s...)
			o[i] = v
			return o
		}
		// (1) one parameter, all ordered pairs of its family; the other parameters
		// equal (base values; for a third of the pairs another common setting)
		for i := range nt.sp {
			fam := familyOf(nt, i)
			r.Count("near_family_values/"+nt.name+"."+nt.sp[i], len(fam))
			for _, u := range fam {
				for _, v := range fam {
					if u.val == v.val {
						continue
					}
					common := nt.base
					if rng.IntN(3) == 0 {
						// another common setting: every other string parameter takes a near-equal variant too (the same on both sides)
						common = append([]string(nil), nt.base...)
						for j := range common {
							if j != i {
								fj := familyOf(nt, j)
								common[j] = fj[rng.IntN(len(fj))].val
							}
						}
					}
					judge(nt, "one-parameter", nt.sp[i], classOf(u.label, v.label), with(common, i, u.val), with(common, i, v.val), nbase, nbase)
				}
			}
		}
		// (2) two parameters: swapped roles and boundary shifts
		for i := range nt.sp {
			for j := i + 1; j < len(nt.sp); j++ {
				if nt.kinds[i] == "url" || nt.kinds[j] == "url" {
					continue
				}
				fi, fj := familyOf(nt, i), familyOf(nt, j)
				vals := []string{fi[0].val, fj[0].val}
				for k := 0; k < 6; k++ {
					vals = append(vals, fi[1+rng.IntN(len(fi)-1)].val, fj[1+rng.IntN(len(fj)-1)].val)
				}
				vals = append(vals, "a", "ab", "b", "")
				pname := nt.sp[i] + "+" + nt.sp[j]
				for _, u := range vals {
					for _, v := range vals {
						if u == v {
							continue
						}
						sx := with(with(nt.base, i, u), j, v)
						sy := with(with(nt.base, i, v), j, u)
						judge(nt, "swapped-roles", pname, "swap", sx, sy, nbase, nbase)
					}
				}
				for _, sep := range []string{"/", "|", ".", ":", " ", "\x00", "a", "\u00e9"} {
					for k := 0; k < 3; k++ {
						u, v := vals[rng.IntN(len(vals))], vals[rng.IntN(len(vals))]
						// (u+sep, v) vs (u, sep+v): the concatenation coincides
						sx := with(with(nt.base, i, u+sep), j, v)
						sy := with(with(nt.base, i, u), j, sep+v)
						judge(nt, "boundary-shifted", pname, fmt.Sprintf("sep-%q", sep), sx, sy, nbase, nbase)
						// (u+sep+v, "") vs (u, v)... one side empty
						judge(nt, "boundary-shifted", pname, fmt.Sprintf("joined-sep-%q", sep), with(with(nt.base, i, u+sep+v), j, ""), with(with(nt.base, i, u), j, v), nbase, nbase)
					}
				}
			}
		}
		// (3) numeric constraints: values that coincide after truncation / sign change
		for i := range nt.np {
			for _, u := range numNear {
				for _, v := range numNear {
					if u == v {
						continue
					}
					nx, ny := append([]uint64(nil), nbase...), append([]uint64(nil), nbase...)
					nx[i], ny[i] = u, v
					judge(nt, "numeric", nt.np[i], "truncation-candidates", nt.base, nt.base, nx, ny)
				}
			}
		}
	}
	r.Extra("near_equal_base58_case_twin_found", twinA != "")
}
