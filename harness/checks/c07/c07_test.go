// C07: stream establish headers are framed exactly and dispatched to the
// named protocol.
//
// Two halves:
//   - codec: the real readStreamEstablishHeader (through the verif export) is
//     fed reference-framed / real-marshalled headers followed by payloads under
//     scripted read chunkings, and crafted malformed headers;
//   - e2e: the real Controller (accept pump -> HandleIncomingStream ->
//     HandleMountedStream directive) and the real mountedLink.OpenMountedStream
//     run over fake links whose streams are chunkPipes.
//
// The reference framing (uvarint(len) || 0x0a || uvarint(len(id)) || id) is
// written here from the property text / proto definition and does not call the
// code under test.
package c07

import (
	"bytes"
	"encoding/binary"
	"fmt"
	"io"
	"math/rand/v2"
	"sync"
	"testing"
	"time"
	"unicode/utf8"

	"github.com/aperturerobotics/bifrost/protocol"
	tc "github.com/aperturerobotics/bifrost/transport/controller"
	"verifharness/g4pipe"
	"verifharness/vf"
)

func uvarint(v uint64) []byte {
	var b [binary.MaxVarintLen64]byte
	n := binary.PutUvarint(b[:], v)
	return append([]byte(nil), b[:n]...)
}

// refBody is the protobuf body of StreamEstablish{protocol_id = id}.
func refBody(id []byte) []byte {
	out := []byte{0x0a}
	out = append(out, uvarint(uint64(len(id)))...)
	return append(out, id...)
}

// refFrame frames an arbitrary body.
func refFrame(body []byte) []byte {
	return append(uvarint(uint64(len(body))), body...)
}

// refHeader is the reference wire form of a stream establish header.
func refHeader(id []byte) []byte { return refFrame(refBody(id)) }

// validID: the property's "valid protocol ID" = non-empty, valid UTF-8.
func validID(id []byte) bool { return len(id) > 0 && utf8.Valid(id) }

// the pool includes every boundary code point of the UTF-8 encoding lengths and the
// code points validators like to confuse with errors: U+FFFD (the replacement
// character, a VALID rune equal to utf8.RuneError), the BOM, non-characters.
var runePool = []rune{'a', 'z', '/', '.', '-', '0', 'A', ' ', '\n', 0, 0x7f, 0x80, 0xe9, 0x3a9, 0x7ff, 0x800, 0x20ac, 0x65e5, 0xd7ff, 0xe000, 0xfeff, 0xfffd, 0xfffe, 0xffff, 0x10000, 0x1f600, 0x10ffff}

// specialIDs are valid protocol ids made of such code points only.
var specialIDs = []string{"\ufffd", "app/\ufffd/1", "\ufffd\ufffd\ufffd", "\ufeffbom", "\x00", "a\x00b", "\u0080", "\u07ff\u0800", "\ud7ff\ue000", "\ufffe\uffff", "\U00010000\U0010ffff", " ", "\n", "\x7f"}

// genID builds a valid UTF-8 string of exactly n bytes starting with tag (as
// far as it fits).
func genID(rng *rand.Rand, n int, tag string) []byte {
	out := make([]byte, 0, n)
	if len(tag) <= n {
		out = append(out, tag...)
	}
	for len(out) < n {
		r := runePool[rng.IntN(len(runePool))]
		if rng.IntN(4) == 0 {
			r = rune('a' + rng.IntN(26))
		}
		l := utf8.RuneLen(r)
		if len(out)+l > n {
			out = append(out, byte('a'+rng.IntN(26)))
			continue
		}
		out = utf8.AppendRune(out, r)
	}
	return out
}

func randBytes(rng *rand.Rand, n int) []byte {
	b := make([]byte, n)
	for i := range b {
		b[i] = byte(rng.UintN(256))
	}
	return b
}

// chunker kinds
var chunkKinds = []string{"one", "all", "rand", "rand3", "first1", "first2", "first3", "hdr-exact", "hdr+1"}

func mkChunker(kind string, rng *rand.Rand, hdrLen int) g4pipe.Chunker {
	switch kind {
	case "one":
		return g4pipe.OneByte
	case "all":
		return g4pipe.All
	case "rand":
		return g4pipe.Random(rng, 0)
	case "rand3":
		return g4pipe.Random(rng, 3)
	case "first1":
		return g4pipe.Script([]int{1}, g4pipe.All)
	case "first2":
		return g4pipe.Script([]int{2}, g4pipe.Random(rng, 0))
	case "first3":
		return g4pipe.Script([]int{3}, g4pipe.All)
	case "hdr-exact":
		return g4pipe.Script([]int{hdrLen}, g4pipe.All)
	case "hdr+1":
		return g4pipe.Script([]int{hdrLen + 1}, g4pipe.All)
	}
	return g4pipe.All
}

type codecCase struct {
	idx         int
	class       string // "valid" or malformed class
	id          []byte
	payload     []byte
	stream      []byte // bytes on the wire (malformed classes)
	hdrLen      int
	chunk       string
	useReal     bool // header produced by the real marshaller instead of the reference
	errWithData bool
	termErr     error
	note        string
}

func (c *codecCase) sig() string {
	return fmt.Sprintf("%s|id%d:%x|p%d|%s|real=%v|ewd=%v|%s|%d", c.class, len(c.id), sum(c.id), len(c.payload), c.chunk, c.useReal, c.errWithData, c.note, len(c.stream))
}

func sum(b []byte) uint32 {
	var h uint32 = 2166136261
	for _, x := range b {
		h = (h ^ uint32(x)) * 16777619
	}
	return h
}

func idLenSet(limit int) []int {
	// body = 1 + varintlen(n) + n <= limit
	maxID := limit - 4 // n >= 16384 => 3 byte varint
	return []int{1, 2, 3, 4, 5, 125, 126, 127, 128, 129, 130, 16381, 16382, 16383, 16384, 16385, maxID - 2, maxID - 1, maxID}
}

func TestCheck(t *testing.T) {
	r := vf.Start(t, "C07", vf.Exploration)
	defer r.Finish()
	r.SetRule("codec: cases = (protocol id: valid UTF-8 of length {1,2,3,4,5,125..130,16381..16385,limit-2..limit} or PRNG 1..300) x (payload 0..4 KiB) x (read chunking {1 byte, all, PRNG, PRNG<=3, first read 1/2/3 bytes, header exactly, header+1, terminal error delivered together with the last bytes}) x (header from the reference framing | real marshaller), fed to the real readStreamEstablishHeader; malformed = {empty, zero length, length limit+1.. 2^64-1, truncated at each offset, >=10 continuation bytes, undecodable protobuf body, empty / invalid UTF-8 id}. " +
		"e2e: real Controller accept pump + HandleIncomingStream + real OpenMountedStream over fake links backed by chunkPipes; harness controller records the HandleMountedStream directive parameters and reads the stream. " +
		"e2e direct driver: the harness plays the accept pump and calls Controller.HandleIncomingStream itself with a chunkPipe end, so it knows when the call has returned: (every prefix of reference headers with ids of 1, 2, 5 bytes, 9 prefixes of a 2-byte-length header, the empty stream; 11 complete malformed headers) x (how the reads end after the sent bytes: clean EOF by half-close / full remote close, 9 read errors incl. context.Canceled, timeouts, closed-pipe, wrapped EOF, each alone or together with the last bytes; the stream stalls until the reader is parked and only then EOF / remote close / timeout / context cancellation / fault arrives; complete malformed headers also on a stream that never ends); on return a malformed header must have caused Close on the local stream end (Close calls are counted per end) and no HandleMountedStream lookup; valid headers through the same driver must be dispatched, also while the stream is still open. " +
		"Oracle: valid => decoded id == written id, bytes consumed == header length exactly, handler sees (id, link local peer, link remote peer) and reads exactly the payload; malformed => error / stream closed and nothing dispatched. A case is non-trivial when the clause it targets was actually exercised (valid: decoded; malformed: rejected); distinct = distinct (class, id, payload length, chunking).")
	limit := int(tc.VerifStreamEstablishMaxPacketSize())
	r.Extra("stream_establish_max_packet_size", limit)
	if limit < 64 {
		t.Fatalf("unexpected limit %d", limit)
	}
	t0 := time.Now()
	runCodec(r, limit)
	r.Extra("info_codec_wall_s", time.Since(t0).Seconds()) // informational only
	t1 := time.Now()
	runE2E(t, r, limit)
	r.Extra("info_e2e_wall_s", time.Since(t1).Seconds()) // informational only
}

func runCodec(r *vf.Run, limit int) {
	rng := r.Rand("c07-codec")
	var cases []*codecCase
	add := func(c *codecCase) { c.idx = len(cases); cases = append(cases, c) }

	// ---- valid: structured part
	lens := idLenSet(limit)
	for _, n := range lens {
		kinds := chunkKinds
		if n > 20000 {
			kinds = []string{"one", "all", "rand", "first2", "hdr-exact"}
		}
		for _, k := range kinds {
			for _, pl := range []int{0, 1, 37} {
				add(&codecCase{class: "valid", id: genID(rng, n, ""), payload: randBytes(rng, pl), chunk: k, useReal: rng.IntN(2) == 0})
			}
		}
		// the terminal error (EOF) arrives together with the last bytes of the stream
		add(&codecCase{class: "valid", id: genID(rng, n, ""), payload: nil, chunk: "all", errWithData: true, useReal: true})
		add(&codecCase{class: "valid", id: genID(rng, n, ""), payload: randBytes(rng, 5), chunk: "all", errWithData: true})
	}
	// ids made of boundary / easily-confused code points
	for _, sid := range specialIDs {
		for _, k := range []string{"one", "all", "rand"} {
			add(&codecCase{class: "valid", id: []byte(sid), payload: randBytes(rng, 9), chunk: k, useReal: k != "one"})
		}
	}
	nValid := r.N(2400, 200000)
	for len(cases) < nValid {
		n := 1 + rng.IntN(300)
		switch rng.IntN(10) {
		case 0:
			n = lens[rng.IntN(len(lens)-3)] // not the 100 KB ones
		case 1:
			n = 1 + rng.IntN(4)
		}
		pl := 0
		switch rng.IntN(4) {
		case 1:
			pl = 1 + rng.IntN(16)
		case 2:
			pl = rng.IntN(4097)
		}
		c := &codecCase{class: "valid", id: genID(rng, n, ""), payload: randBytes(rng, pl), chunk: chunkKinds[rng.IntN(len(chunkKinds))], useReal: rng.IntN(2) == 0}
		if rng.IntN(12) == 0 {
			c.errWithData = true
		}
		add(c)
	}

	// ---- malformed
	mal := func(class, note string, stream []byte, id []byte) {
		for _, k := range []string{"one", "all", "rand"} {
			add(&codecCase{class: class, note: note, stream: stream, chunk: k, id: id})
		}
	}
	mal("empty", "eof", nil, nil)
	add(&codecCase{class: "empty", note: "fault", stream: nil, chunk: "all", termErr: g4pipe.ErrFault})
	for _, tail := range []int{0, 1, 3, 4, 9} {
		mal("zero-length", fmt.Sprint("tail", tail), append([]byte{0}, randBytes(rng, tail)...), nil)
		mal("zero-length", fmt.Sprint("nonminimal-tail", tail), append([]byte{0x80, 0x00}, randBytes(rng, tail)...), nil)
	}
	for _, L := range []uint64{uint64(limit) + 1, uint64(limit) + 2, 1 << 20, 1<<31 - 1, 1 << 31, 1<<32 - 1, 1 << 32, 1 << 62, 1 << 63, 1<<64 - 1} {
		for _, tail := range []int{0, 3, 100} {
			mal("oversize", fmt.Sprintf("L=%d tail=%d", L, tail), append(uvarint(L), randBytes(rng, tail)...), nil)
		}
	}
	// off by one: a perfectly well-formed header whose body is limit+1 / limit+2 bytes
	for _, extra := range []int{1, 2} {
		id := genID(rng, limit-4+extra, "")
		mal("oversize", fmt.Sprintf("wellformed-body=limit+%d", extra), refHeader(id), id)
	}
	// truncation
	for _, n := range []int{1, 2, 3, 5, 127, 128, 300} {
		id := genID(rng, n, "")
		h := refHeader(id)
		offs := map[int]bool{}
		if len(h) <= 12 {
			for k := 0; k < len(h); k++ {
				offs[k] = true
			}
		} else {
			for k := 0; k <= 6; k++ {
				offs[k] = true
			}
			offs[len(h)-1] = true
			offs[len(h)-2] = true
			for j := 0; j < 6; j++ {
				offs[rng.IntN(len(h))] = true
			}
		}
		for k := range len(h) {
			if !offs[k] {
				continue
			}
			for _, ck := range []string{"one", "all", "rand"} {
				for _, te := range []error{nil, g4pipe.ErrFault} {
					add(&codecCase{class: "truncated", note: fmt.Sprintf("at%d of %d", k, len(h)), stream: h[:k], chunk: ck, termErr: te, id: id, errWithData: rng.IntN(3) == 0})
				}
			}
		}
	}
	{
		id := genID(rng, limit-4, "")
		h := refHeader(id)
		for _, k := range []int{4, 5, 1000, len(h) / 2, len(h) - 1} {
			add(&codecCase{class: "truncated", note: fmt.Sprintf("at%d of %d", k, len(h)), stream: h[:k], chunk: "rand", id: id})
		}
	}
	// bad varint: >= 10 continuation bytes
	for _, k := range []int{10, 11, 16} {
		mal("bad-varint", fmt.Sprint("cont80x", k), append(bytes.Repeat([]byte{0x80}, k), 0x01, 0x0a, 0x01, 'a'), nil)
		mal("bad-varint", fmt.Sprint("contFFx", k), append(bytes.Repeat([]byte{0xff}, k), 0x01, 0x0a, 0x01, 'a'), nil)
	}
	// undecodable protobuf bodies (malformed by the wire format itself)
	bodies := map[string][]byte{
		"inner-len-overflow":   {0x0a, 0x09, 'a', 'b', 'c'},
		"inner-len-overflow2":  append([]byte{0x0a, 0xff, 0xff, 0x03}, randBytes(rng, 40)...),
		"wiretype7":            {0x0f, 0x01, 0x02, 0x03},
		"wiretype6":            {0x0e, 0x01, 0x02, 0x03},
		"field0":               {0x02, 0x01, 'a', 0x00},
		"truncated-tag-varint": {0x0a, 0x01, 'a', 0x80},
		"end-group":            {0x0a, 0x01, 'a', 0x0c},
		"trunc-fixed64":        {0x0a, 0x01, 'a', 0x11, 0x01, 0x02},
		"trunc-unknown-bytes":  {0x0a, 0x01, 'a', 0x12, 0x05, 0x01},
		"len-varint-overflow":  {0x0a, 0xff, 0xff, 0xff, 0xff, 0xff, 0xff, 0xff, 0xff, 0xff, 0x7f, 'a'},
	}
	for _, name := range []string{"inner-len-overflow", "inner-len-overflow2", "wiretype7", "wiretype6", "field0", "truncated-tag-varint", "end-group", "trunc-fixed64", "trunc-unknown-bytes", "len-varint-overflow"} {
		mal("undecodable-body", name, append(refFrame(bodies[name]), randBytes(rng, 3)...), nil)
	}
	// invalid protocol ids
	badIDs := map[string][]byte{
		"empty":          {},
		"ff":             {0xff},
		"overlong-nul":   {0xc0, 0x80},
		"trunc-3byte":    {'a', 0xe2, 0x82},
		"surrogate":      {0xed, 0xa0, 0x80},
		"above-max":      {0xf4, 0x90, 0x80, 0x80},
		"lone-cont":      {'p', 'r', 'o', 't', 'o', 0x80},
		"latin1":         []byte("caf\xe9/1"),
		"long-then-bad":  append(genID(rng, 200, ""), 0xfe),
		"bad-then-valid": append([]byte{0xc3}, genID(rng, 50, "")...),
	}
	for _, name := range []string{"empty", "ff", "overlong-nul", "trunc-3byte", "surrogate", "above-max", "lone-cont", "latin1", "long-then-bad", "bad-then-valid"} {
		id := badIDs[name]
		mal("invalid-id", name, append(refHeader(id), randBytes(rng, 5)...), id)
	}
	// a body with no field 1 at all decodes to the empty id
	mal("invalid-id", "no-field1", append(refFrame([]byte{0x10, 0x01, 0x10, 0x02}), 'x'), []byte{})

	r.Extra("codec_cases", len(cases))

	// ---- run (parallel, deterministic per case)
	var wg sync.WaitGroup
	ch := make(chan *codecCase, 64)
	for w := 0; w < 12; w++ {
		wg.Add(1)
		go func() {
			defer wg.Done()
			for c := range ch {
				runCodecCase(r, c)
			}
		}()
	}
	for i, c := range cases {
		if i%256 == 0 {
			r.Begin(fmt.Sprintf("codec batch starting at case %d: %s", i, c.sig()))
		}
		ch <- c
	}
	close(ch)
	wg.Wait()
}

func runCodecCase(r *vf.Run, c *codecCase) {
	rng := rand.New(rand.NewPCG(r.Seed(), uint64(c.idx)+7777))
	wit := func() map[string]any {
		return map[string]any{"class": c.class, "note": c.note, "id_len": len(c.id), "id": vf.Hex(c.id), "payload_len": len(c.payload),
			"chunking": c.chunk, "err_with_last_bytes": c.errWithData, "real_marshaller": c.useReal, "stream": vf.Hex(c.stream), "case": c.idx}
	}
	if c.class == "valid" {
		if !validID(c.id) {
			panic("harness bug: generated id is not valid")
		}
		if err := protocol.ID(c.id).Validate(); err != nil {
			r.Violation("id/valid-id-rejected", "protocol.ID.Validate rejected a non-empty valid UTF-8 id: "+err.Error(), wit())
		}
		ref := refHeader(c.id)
		hdr := ref
		if c.useReal {
			var real []byte
			if pk, pd := vf.Try(func() { real = tc.VerifMarshalStreamEstablishHeader(tc.NewStreamEstablish(protocol.ID(c.id))) }); pk {
				r.Violation("marshal/panic", "marshalStreamEstablishHeader panicked: "+pd, wit())
				r.Case(c.sig(), false)
				return
			}
			if bytes.Equal(real, ref) {
				r.Count("marshal_equals_reference_framing", 1)
			} else {
				r.Count("marshal_differs_from_reference_framing", 1)
			}
			hdr = real
		}
		c.hdrLen = len(hdr)
		stream := append(append([]byte(nil), hdr...), c.payload...)
		sr := &g4pipe.ScriptReader{Data: stream, Chunk: mkChunker(c.chunk, rng, len(hdr)), ErrWithData: c.errWithData}
		var est *tc.StreamEstablish
		var err error
		if pk, pd := vf.Try(func() { est, err = tc.VerifReadStreamEstablishHeader(sr) }); pk {
			r.Violation("read/panic/valid", "readStreamEstablishHeader panicked on a valid header: "+pd, wit())
			r.Case(c.sig(), false)
			return
		}
		r.Count("codec_valid_reads", 1)
		r.Count("underlying_read_calls", sr.Calls)
		r.Distinct("chunkings", fmt.Sprintf("%s|%v|%d", c.chunk, c.errWithData, sr.Calls))
		if err != nil {
			key := "read/valid-rejected/" + c.chunk
			if c.errWithData && len(c.payload) == 0 {
				key = "read/valid-rejected/eof-with-last-header-bytes"
			}
			w := wit()
			w["error"] = err.Error()
			r.Violation(key, "a valid header was rejected: "+err.Error(), w)
			r.Case(c.sig(), false)
			return
		}
		ok := true
		if est == nil || est.GetProtocolId() != string(c.id) {
			ok = false
			w := wit()
			if est != nil {
				w["decoded"] = vf.Hex([]byte(est.GetProtocolId()))
			}
			r.Violation("read/wrong-id", "decoded protocol id differs from the one written", w)
		}
		if sr.Pos != len(hdr) {
			ok = false
			w := wit()
			w["consumed"] = sr.Pos
			w["header_len"] = len(hdr)
			key := "read/overread"
			if sr.Pos < len(hdr) {
				key = "read/underread"
			}
			r.Violation(key, fmt.Sprintf("reader consumed %d bytes, the header is %d bytes: the application would not see exactly the payload", sr.Pos, len(hdr)), w)
		} else {
			rest, _ := io.ReadAll(sr)
			if !bytes.Equal(rest, c.payload) {
				ok = false
				r.Violation("read/payload-damaged", "bytes left for the application differ from the payload", wit())
			}
		}
		if c.idx < 2 {
			r.Sample(map[string]any{"half": "codec", "id": string(c.id), "payload_len": len(c.payload), "chunking": c.chunk, "header": vf.Hex(hdr), "consumed": sr.Pos})
		}
		r.Case(c.sig(), ok)
		return
	}

	// malformed
	sr := &g4pipe.ScriptReader{Data: c.stream, Chunk: mkChunker(c.chunk, rng, len(c.stream)), Err: c.termErr, ErrWithData: c.errWithData}
	var est *tc.StreamEstablish
	var err error
	if pk, pd := vf.Try(func() { est, err = tc.VerifReadStreamEstablishHeader(sr) }); pk {
		r.Violation("read/panic/"+c.class, "readStreamEstablishHeader panicked on a malformed header: "+pd, wit())
		r.Case(c.sig(), false)
		return
	}
	r.Count("codec_malformed_reads/"+c.class, 1)
	rejected := err != nil
	if !rejected && c.class == "invalid-id" {
		// the header decodes; the id check that HandleIncomingStream applies must reject it
		if est == nil {
			r.Violation("read/nil-nil", "nil header with nil error", wit())
			r.Case(c.sig(), false)
			return
		}
		if verr := protocol.ID(est.GetProtocolId()).Validate(); verr != nil {
			rejected = true
			r.Count("invalid_id_rejected_by_validate", 1)
		}
	}
	if !rejected {
		w := wit()
		if est != nil {
			w["decoded"] = vf.Hex([]byte(est.GetProtocolId()))
		}
		r.Violation("read/malformed-accepted/"+c.class, "malformed header ("+c.class+" "+c.note+") was accepted", w)
	}
	r.Case(c.sig(), rejected)
}
