package c07

import (
	"bytes"
	"context"
	"fmt"
	"io"
	"net"
	"os"

	"verifharness/g4pipe"
	"verifharness/vf"
)

// The direct driver of the end-to-end half.
//
// The accept pump of the real controller starts HandleIncomingStream on its own
// goroutine, so a harness that feeds streams through AcceptStream can only see
// that a rejected stream WAS closed; "it returned and did not close" has no
// time-free signature there (the watchdog expires, which is never a verdict).
// Here the harness plays the accept pump itself: it calls the exported
// Controller.HandleIncomingStream with its own stream and knows when the call
// has returned. At that point a malformed header must have produced a Close on
// the LOCAL stream object (g4pipe.End counts Close calls per end; the harness
// never closes that end itself before the verdict) and no HandleMountedStream
// lookup.
//
// What is varied is HOW the reads of the stream end after the bytes that were
// sent: the property quantifies over "arbitrary malformed header byte strings"
// and the way a byte string ends on a stream is part of it.

// ending describes how the reads end once the n sent bytes were delivered.
type ending struct {
	name  string // for witnesses
	class string // stable part of violation keys / counters
	// arm is applied before the controller starts to read.
	arm func(oa, ob *g4pipe.End, n int)
	// late, if set, is applied once all n bytes were delivered and the reader
	// is parked inside Read (the stream stalled first).
	late func(oa, ob *g4pipe.End, n int, rcancel context.CancelFunc)
	// openAtDispatch (valid headers): the stream neither ended nor failed by the
	// time the header was dispatched; the harness ends it afterwards.
	openAtDispatch bool
}

var readErrors = []struct {
	name string
	err  error
}{
	{"fault", g4pipe.ErrFault},
	{"unexpected-eof", io.ErrUnexpectedEOF},
	{"context-canceled", context.Canceled},
	{"context-deadline", context.DeadlineExceeded},
	{"os-timeout", os.ErrDeadlineExceeded},
	{"closed-pipe", io.ErrClosedPipe},
	{"net-closed", net.ErrClosed},
	{"wrapped-eof", fmt.Errorf("stream reset by peer: %w", io.EOF)},
	{"wrapped-canceled", fmt.Errorf("link closed: %w", context.Canceled)},
}

func noArm(oa, ob *g4pipe.End, n int) {}

// endingsFor returns the endings for a header; complete = the bytes form a
// complete (malformed) header, so the controller can decide without the end.
func endingsFor(complete bool) []ending {
	var out []ending
	out = append(out,
		ending{name: "clean EOF (remote closed its sending side)", class: "eof", arm: func(oa, ob *g4pipe.End, n int) { oa.CloseWrite() }},
		ending{name: "clean EOF (remote closed the whole stream)", class: "eof-remote-close", arm: func(oa, ob *g4pipe.End, n int) { _ = oa.Close() }},
	)
	for _, re := range readErrors {
		re := re
		out = append(out, ending{name: "read error " + re.err.Error(), class: "err-" + re.name, arm: func(oa, ob *g4pipe.End, n int) { ob.In.FaultReadAt(n, re.err) }})
	}
	out = append(out,
		ending{name: "stall, then the read deadline fires (os.ErrDeadlineExceeded)", class: "stall-timeout", arm: noArm,
			late: func(oa, ob *g4pipe.End, n int, rcancel context.CancelFunc) {
				ob.In.FaultReadAt(n, os.ErrDeadlineExceeded)
			}},
		ending{name: "stall, then the link context is cancelled and the read fails with context.Canceled", class: "stall-cancel", arm: noArm,
			late: func(oa, ob *g4pipe.End, n int, rcancel context.CancelFunc) {
				rcancel()
				ob.In.FaultReadAt(n, context.Canceled)
			}},
		ending{name: "stall, then clean EOF (remote closes its sending side late)", class: "stall-eof", arm: noArm,
			late: func(oa, ob *g4pipe.End, n int, rcancel context.CancelFunc) { oa.CloseWrite() }},
		ending{name: "stall, then clean EOF (remote closes the whole stream late)", class: "stall-remote-close", arm: noArm,
			late: func(oa, ob *g4pipe.End, n int, rcancel context.CancelFunc) { _ = oa.Close() }},
		ending{name: "stall, then an injected read error", class: "stall-fault", arm: noArm,
			late: func(oa, ob *g4pipe.End, n int, rcancel context.CancelFunc) { ob.In.FaultReadAt(n, g4pipe.ErrFault) }},
	)
	if complete {
		// nothing ever ends: the controller has everything it needs to reject
		out = append(out, ending{name: "stream stays open and silent", class: "open", arm: noArm})
	}
	return out
}

// genDirectCases appends the direct-driver cases.
func genDirectCases(r *vf.Run, limit int, add func(c *e2eCase)) {
	rng := r.Rand("c07-e2e-direct")
	nLinks := 3
	chunkOf := func() string {
		return []string{"one", "all", "rand", "rand3", "first1", "first2", "first3"}[rng.IntN(7)]
	}

	// (1) truncated / empty headers: every prefix length of small headers, a
	// selection for a two-byte length prefix; x every ending; the terminal
	// error alone or together with the last bytes
	type pre struct {
		raw  []byte
		note string
	}
	var prefixes []pre
	prefixes = append(prefixes, pre{nil, "at0"})
	for _, n := range []int{1, 2, 5, 126} {
		h := refHeader(genID(rng, n, "dt/"))
		var offs []int
		if len(h) <= 12 {
			for k := 1; k < len(h); k++ {
				offs = append(offs, k)
			}
		} else {
			offs = []int{1, 2, 3, 4, 5, 6, len(h) / 2, len(h) - 2, len(h) - 1}
		}
		for _, k := range offs {
			prefixes = append(prefixes, pre{h[:k], fmt.Sprintf("at%d of %d", k, len(h))})
		}
	}
	if !r.Quick() {
		for i := 0; i < 200; i++ {
			h := refHeader(genID(rng, 1+rng.IntN(400), "dt/"))
			k := rng.IntN(len(h))
			prefixes = append(prefixes, pre{h[:k], fmt.Sprintf("at%d of %d", k, len(h))})
		}
	}
	for _, p := range prefixes {
		class := "truncated"
		if len(p.raw) == 0 {
			class = "empty"
		}
		for _, e := range endingsFor(false) {
			ewds := []bool{false}
			if len(p.raw) > 0 && e.late == nil {
				ewds = append(ewds, true)
			}
			for _, ewd := range ewds {
				add(&e2eCase{class: class, note: p.note, raw: p.raw, chunk: chunkOf(), via: rng.IntN(nLinks), ewd: ewd, direct: true, end: e})
			}
		}
	}

	// (2) complete but malformed headers, followed by nothing / more bytes
	type mal struct {
		class, note string
		raw         []byte
	}
	mals := []mal{
		{"zero-length", "tail0", []byte{0}},
		{"zero-length", "tail4", []byte{0, 0x0a, 0x01, 'a', 'b'}},
		{"oversize", "L=limit+1", append(uvarint(uint64(limit)+1), randBytes(rng, 7)...)},
		{"oversize", "L=2^64-1", append(uvarint(1<<64-1), randBytes(rng, 7)...)},
		{"bad-varint", "cont80x10", append(bytes.Repeat([]byte{0x80}, 10), 0x01, 0x0a, 0x01, 'a')},
		{"undecodable-body", "wiretype7", append(refFrame([]byte{0x0f, 0x01, 0x02, 0x03}), 'x')},
		{"undecodable-body", "inner-len-overflow", append(refFrame([]byte{0x0a, 0x09, 'a', 'b', 'c'}), 'x', 'y')},
		{"invalid-id", "empty", append(refHeader([]byte{}), 'p')},
		{"invalid-id", "ff", refHeader([]byte{0xff})},
		{"invalid-id", "lone-cont", append(refHeader([]byte{'p', 'r', 'o', 't', 'o', 0x80}), 'p', 'a', 'y')},
		{"invalid-id", "no-field1", append(refFrame([]byte{0x10, 0x01, 0x10, 0x02}), 'x')},
	}
	for _, m := range mals {
		for _, e := range endingsFor(true) {
			switch e.class {
			case "eof", "eof-remote-close", "open", "err-fault", "err-context-canceled", "stall-eof", "stall-cancel":
			default:
				continue
			}
			if e.class == "open" && len(m.raw) < 4 {
				continue // the reader needs 4 bytes before it can decide: an open stream would just stall
			}
			add(&e2eCase{class: m.class, note: m.note, raw: m.raw, chunk: chunkOf(), via: rng.IntN(nLinks), ewd: rng.IntN(3) == 0, direct: true, end: e})
		}
	}

	// (3) valid headers through the same driver (it would be worthless if it
	// never dispatched): stream ended behind the payload, or still open
	eofEnd := endingsFor(false)[0]
	openEnd := ending{name: "stream stays open until the header was dispatched", class: "open", arm: noArm, openAtDispatch: true}
	ids := [][]byte{genID(rng, 1, ""), genID(rng, 3, "dv/"), genID(rng, 126, "dv/"), genID(rng, 130, "dv/"), []byte(specialIDs[rng.IntN(len(specialIDs))])}
	for i, id := range ids {
		for j, ck := range chunkKinds {
			e := eofEnd
			if (i+j)%2 == 0 {
				e = openEnd
			}
			pl := randBytes(rng, []int{0, 1, 9, 300}[rng.IntN(4)])
			add(&e2eCase{class: "valid-raw", id: id, payload: pl, raw: append(refHeader(id), pl...), chunk: ck, via: rng.IntN(nLinks), ewd: e.class == "eof" && rng.IntN(3) == 0, direct: true, end: e})
		}
	}
}
