package c07

import (
	"bytes"
	"context"
	"fmt"
	"io"
	"math/rand/v2"
	"sync"
	"sync/atomic"
	"testing"
	"time"

	"github.com/aperturerobotics/bifrost/crypto"
	"github.com/aperturerobotics/bifrost/link"
	"github.com/aperturerobotics/bifrost/peer"
	"github.com/aperturerobotics/bifrost/protocol"
	"github.com/aperturerobotics/bifrost/stream"
	"github.com/aperturerobotics/bifrost/testbed"
	"github.com/aperturerobotics/bifrost/transport"
	tc "github.com/aperturerobotics/bifrost/transport/controller"
	"github.com/aperturerobotics/controllerbus/controller"
	"github.com/aperturerobotics/controllerbus/directive"
	"github.com/blang/semver/v4"
	"github.com/sirupsen/logrus"
	"verifharness/g4pipe"
	"verifharness/keys"
	"verifharness/vf"
)

const watchdog = 60 * time.Second

var uuidCtr atomic.Uint64

// fakeTransport is the transport the real controller constructs.
type fakeTransport struct {
	uuid uint64
	id   peer.ID
}

func (f *fakeTransport) Execute(ctx context.Context) error { <-ctx.Done(); return context.Canceled }
func (f *fakeTransport) GetUUID() uint64                   { return f.uuid }
func (f *fakeTransport) GetPeerID() peer.ID                { return f.id }
func (f *fakeTransport) Close() error                      { return nil }

// fakeLink implements link.Link. Streams are chunkPipe ends handed over by
// the harness.
type fakeLink struct {
	uuid, tptUUID uint64
	local, remote peer.ID

	mu       sync.Mutex
	closed   bool
	closeCh  chan struct{}
	acceptCh chan stream.Stream
	// onOpen supplies the local end of the next opened stream.
	onOpen func() (stream.Stream, error)
}

func newFakeLink(tptUUID uint64, local, remote peer.ID) *fakeLink {
	return &fakeLink{uuid: uuidCtr.Add(1) + 1000, tptUUID: tptUUID, local: local, remote: remote,
		closeCh: make(chan struct{}), acceptCh: make(chan stream.Stream, 16)}
}

func (l *fakeLink) GetUUID() uint64                { return l.uuid }
func (l *fakeLink) GetTransportUUID() uint64       { return l.tptUUID }
func (l *fakeLink) GetRemoteTransportUUID() uint64 { return l.tptUUID ^ 0xffff }
func (l *fakeLink) GetRemotePeer() peer.ID         { return l.remote }
func (l *fakeLink) GetLocalPeer() peer.ID          { return l.local }
func (l *fakeLink) OpenStream(opts stream.OpenOpts) (stream.Stream, error) {
	l.mu.Lock()
	f := l.onOpen
	l.mu.Unlock()
	if f == nil {
		return nil, io.ErrClosedPipe
	}
	return f()
}

func (l *fakeLink) AcceptStream() (stream.Stream, stream.OpenOpts, error) {
	select {
	case <-l.closeCh:
		return nil, stream.OpenOpts{}, io.EOF
	case s := <-l.acceptCh:
		return s, stream.OpenOpts{}, nil
	}
}

func (l *fakeLink) Close() error {
	l.mu.Lock()
	if !l.closed {
		l.closed = true
		close(l.closeCh)
	}
	l.mu.Unlock()
	return nil
}

func (l *fakeLink) isClosed() bool { l.mu.Lock(); defer l.mu.Unlock(); return l.closed }

// event is something the harness controller observed on the accepting bus.
type event struct {
	kind string // "directive" or "handler"
	// parameters of the HandleMountedStream directive
	pid           protocol.ID
	local, remote peer.ID
	// handler only
	ms link.MountedStream
}

// recorder is the harness controller resolving HandleMountedStream.
type recorder struct {
	events chan event
}

func (c *recorder) GetControllerInfo() *controller.Info {
	return controller.NewInfo("verif/c07/recorder", semver.MustParse("0.0.1"), "records HandleMountedStream")
}
func (c *recorder) Execute(ctx context.Context) error { return nil }
func (c *recorder) Close() error                      { return nil }
func (c *recorder) HandleDirective(ctx context.Context, di directive.Instance) ([]directive.Resolver, error) {
	d, ok := di.GetDirective().(link.HandleMountedStream)
	if !ok {
		return nil, nil
	}
	ev := event{kind: "directive", pid: d.HandleMountedStreamProtocolID(), local: d.HandleMountedStreamLocalPeerID(), remote: d.HandleMountedStreamRemotePeerID()}
	c.events <- ev
	h := &recHandler{rec: c, dir: ev}
	return directive.R(directive.NewValueResolver([]link.MountedStreamHandler{h}), nil)
}

// recHandler is bound to the directive it was issued for.
type recHandler struct {
	rec *recorder
	dir event
}

func (h *recHandler) HandleMountedStream(ctx context.Context, ms link.MountedStream) error {
	h.rec.events <- event{kind: "handler", pid: h.dir.pid, local: h.dir.local, remote: h.dir.remote, ms: ms}
	return nil
}

// node = testbed + real transport controller + captured handler.
type node struct {
	id      *keys.Identity
	tb      *testbed.Testbed
	ctrl    *tc.Controller
	tpt     *fakeTransport
	handler transport.TransportHandler
	rec     *recorder
}

func newNode(ctx context.Context, le *logrus.Entry, id *keys.Identity, withRecorder bool) (*node, error) {
	tb, err := testbed.NewTestbed(ctx, le, testbed.TestbedOpts{NoEcho: true, PrivKey: id.Priv})
	if err != nil {
		return nil, err
	}
	n := &node{id: id, tb: tb}
	hch := make(chan transport.TransportHandler, 1)
	n.tpt = &fakeTransport{uuid: uuidCtr.Add(1) + 500000, id: id.ID}
	n.ctrl = tc.NewController(le, tb.Bus, controller.NewInfo("verif/c07/tpt", semver.MustParse("0.0.1"), "fake transport"), id.ID, false,
		func(ctx context.Context, le *logrus.Entry, pkey crypto.PrivKey, handler transport.TransportHandler) (transport.Transport, error) {
			select {
			case hch <- handler:
			default:
			}
			return n.tpt, nil
		})
	if withRecorder {
		n.rec = &recorder{events: make(chan event, 256)}
		if _, err := tb.Bus.AddController(ctx, n.rec, nil); err != nil {
			return nil, err
		}
	}
	if _, err := tb.Bus.AddController(ctx, n.ctrl, nil); err != nil {
		return nil, err
	}
	wctx, cancel := context.WithTimeout(ctx, watchdog)
	defer cancel()
	if _, err := n.ctrl.GetTransport(wctx); err != nil {
		return nil, fmt.Errorf("transport not ready: %w", err)
	}
	select {
	case n.handler = <-hch:
	case <-wctx.Done():
		return nil, fmt.Errorf("handler not captured")
	}
	return n, nil
}

// establish registers lnk with the node's real controller and pins the
// EstablishLinkWithPeer directive so that the 10 s hold-open never closes it.
func (n *node) establish(lnk *fakeLink) error {
	_, ref, err := n.tb.Bus.AddDirective(link.NewEstablishLinkWithPeer(lnk.local, lnk.remote), nil)
	if err != nil {
		return err
	}
	_ = ref // held for the lifetime of the process
	n.handler.HandleLinkEstablished(lnk)
	// wait until the controller lists it (HoldLockMaybeAsync may defer)
	dl := time.Now().Add(watchdog)
	for {
		for _, l := range n.ctrl.GetPeerLinks(lnk.remote) {
			if l == link.Link(lnk) {
				return nil
			}
		}
		if time.Now().After(dl) {
			return fmt.Errorf("link never listed")
		}
		time.Sleep(time.Millisecond)
	}
}

type e2eCase struct {
	idx     int
	class   string // valid-open (real opener), valid-raw (reference header injected), or malformed class
	id      []byte
	payload []byte
	raw     []byte
	chunk   string
	via     int // which accepting link (0 = from A, 1.. = from X peers)
	ewd     bool
	fault   bool
	note    string
	// direct: the harness calls Controller.HandleIncomingStream itself (as the
	// accept pump does) and so knows when it has returned; end says how the
	// reads of the stream end after the bytes of raw (see direct_test.go).
	direct bool
	end    ending
}

func (c *e2eCase) sig() string {
	if c.direct {
		return fmt.Sprintf("e2e-direct|%s|%s|end=%s|id%d:%x|p%d|%s|via%d|ewd=%v|raw%d:%x", c.class, c.note, c.end.name, len(c.id), sum(c.id), len(c.payload), c.chunk, c.via, c.ewd, len(c.raw), sum(c.raw))
	}
	return fmt.Sprintf("e2e|%s|%s|id%d:%x|p%d|%s|via%d|ewd=%v|fault=%v|raw%d:%x", c.class, c.note, len(c.id), sum(c.id), len(c.payload), c.chunk, c.via, c.ewd, c.fault, len(c.raw), sum(c.raw))
}

type worker struct {
	r     *vf.Run
	w     int
	a, b  *node
	lnkA  *fakeLink   // at A: local A, remote B
	lnksB []*fakeLink // at B: [0] local B remote A; [1..] local B remote Xi
}

func newWorker(ctx context.Context, r *vf.Run, w int, le *logrus.Entry, ids []*keys.Identity) (*worker, error) {
	a, err := newNode(ctx, le, ids[0], false)
	if err != nil {
		return nil, err
	}
	b, err := newNode(ctx, le, ids[1], true)
	if err != nil {
		return nil, err
	}
	wk := &worker{r: r, w: w, a: a, b: b}
	wk.lnkA = newFakeLink(a.tpt.uuid, a.id.ID, b.id.ID)
	if err := a.establish(wk.lnkA); err != nil {
		return nil, err
	}
	wk.lnksB = append(wk.lnksB, newFakeLink(b.tpt.uuid, b.id.ID, a.id.ID))
	for _, x := range ids[2:] {
		wk.lnksB = append(wk.lnksB, newFakeLink(b.tpt.uuid, b.id.ID, x.ID))
	}
	for _, l := range wk.lnksB {
		if err := b.establish(l); err != nil {
			return nil, err
		}
	}
	return wk, nil
}

// drainEvents empties the event channel (nothing may be pending between cases).
func (wk *worker) drainEvents() (n int) {
	for {
		select {
		case <-wk.b.rec.events:
			n++
		default:
			return
		}
	}
}

func (wk *worker) run(c *e2eCase) {
	r := wk.r
	rng := rand.New(rand.NewPCG(r.Seed(), uint64(c.idx)+991))
	wit := func() map[string]any {
		m := map[string]any{"class": c.class, "note": c.note, "id_len": len(c.id), "id": vf.Hex(c.id), "payload_len": len(c.payload), "chunking": c.chunk,
			"via_link": c.via, "err_with_last_bytes": c.ewd, "raw": vf.Hex(c.raw), "case": c.idx, "worker": wk.w}
		if c.direct {
			m["driver"] = "harness calls Controller.HandleIncomingStream directly"
			m["reads_end_with"] = c.end.name
		}
		return m
	}
	if stale := wk.drainEvents(); stale > 0 {
		r.Inconclusive(fmt.Sprintf("e2e case %d: %d stale events before the case", c.idx, stale))
	}
	lb := wk.lnksB[c.via]
	if lb.isClosed() || wk.lnkA.isClosed() {
		r.Inconclusive(fmt.Sprintf("e2e case %d: a fake link was closed by the controller", c.idx))
		return
	}
	oa, ob := g4pipe.New() // oa: opener end, ob: acceptor end
	ob.In.Hold()
	ob.In.ErrWithData(c.ewd)

	var wire []byte
	switch c.class {
	case "valid-open":
		// the real opener: EstablishLinkWithPeer -> mountedLink.OpenMountedStream
		wk.lnkA.mu.Lock()
		wk.lnkA.onOpen = func() (stream.Stream, error) {
			lb.acceptCh <- ob
			return oa, nil
		}
		wk.lnkA.mu.Unlock()
		octx, cancel := context.WithTimeout(context.Background(), watchdog)
		ms, rel, err := link.OpenStreamWithPeerEx(octx, wk.a.tb.Bus, protocol.ID(c.id), wk.a.id.ID, wk.b.id.ID, 0, stream.OpenOpts{})
		cancel()
		if err != nil {
			if octx.Err() != nil {
				r.Inconclusive(fmt.Sprintf("e2e case %d: open did not complete: %v", c.idx, err))
			} else {
				w := wit()
				w["error"] = err.Error()
				r.Violation("e2e/open-failed", "OpenMountedStream failed for a valid protocol id: "+err.Error(), w)
			}
			r.Case(c.sig(), false)
			return
		}
		if ms.GetProtocolID() != protocol.ID(c.id) || ms.GetPeerID() != wk.b.id.ID {
			r.Violation("e2e/opener-mounted-stream-params", "opener's mounted stream carries the wrong protocol id / peer", wit())
		}
		s := ms.GetStream()
		for p := c.payload; len(p) > 0; {
			k := len(p)
			if k > 1 && rng.IntN(2) == 0 {
				k = 1 + rng.IntN(k)
			}
			if _, err := s.Write(p[:k]); err != nil {
				r.Inconclusive(fmt.Sprintf("e2e case %d: payload write failed: %v", c.idx, err))
				break
			}
			p = p[k:]
		}
		oa.CloseWrite()
		rel()
		wire = oa.Out.Written()
		if bytes.Equal(wire, append(refHeader(c.id), c.payload...)) {
			r.Count("opener_wire_equals_reference_framing", 1)
		} else {
			r.Count("opener_wire_differs_from_reference_framing", 1)
		}
	default:
		wire = c.raw
		oa.Out.Inject(wire)
		switch {
		case c.direct:
			c.end.arm(oa, ob, len(wire))
		case c.fault:
			ob.In.FaultReadAt(len(wire), g4pipe.ErrFault)
		default:
			oa.CloseWrite()
		}
		if !c.direct {
			lb.acceptCh <- ob
		}
	}
	hdrLen := len(wire) - len(c.payload)
	ob.In.SetChunker(mkChunker(c.chunk, rng, hdrLen))
	ob.In.Release()

	valid := c.class == "valid-open" || c.class == "valid-raw"
	timer := time.NewTimer(watchdog)
	defer timer.Stop()
	var handlerEv *event
	sawDirective := false

	// direct driver: the harness is the accept pump
	closedCh := ob.Closed()
	var done, returned chan struct{}
	var poll <-chan time.Time
	var rcancel context.CancelFunc = func() {}
	if c.direct {
		var rctx context.Context
		rctx, rcancel = context.WithCancel(context.Background())
		defer rcancel()
		returned = make(chan struct{})
		done = returned
		go func() {
			defer close(returned)
			wk.b.ctrl.HandleIncomingStream(rctx, wk.b.tpt, lb, ob, stream.OpenOpts{})
		}()
		closedCh = nil // judged when HandleIncomingStream has returned
		if c.end.late != nil {
			tk := time.NewTicker(200 * time.Microsecond)
			defer tk.Stop()
			poll = tk.C
		}
		defer func() {
			// the call must be over before the next case starts
			select {
			case <-returned:
			case <-time.After(watchdog):
				r.Inconclusive(fmt.Sprintf("e2e case %d: HandleIncomingStream did not return", c.idx))
			}
		}()
	}
wait:
	for {
		select {
		case <-poll:
			// the stream has stalled: every byte was delivered and the reader is
			// parked in Read. Only now does the read end (a condition, not a duration).
			if now, _ := ob.In.ReadersParked(); now > 0 && ob.In.Delivered() == len(wire) {
				if armed, _ := ob.ReadDeadlineArmed(); armed {
					r.Count("e2e_direct_stalled_reader_had_read_deadline_armed", 1)
				}
				r.Count("e2e_direct_read_ended_while_reader_parked", 1)
				c.end.late(oa, ob, len(wire), rcancel)
				poll = nil
			}
		case <-done:
			done = nil
			closes := ob.Closes()
			if !valid {
				ok := true
				for {
					var ev *event
					select {
					case e := <-wk.b.rec.events:
						ev = &e
					default:
					}
					if ev == nil {
						break
					}
					ok = false
					w := wit()
					w["event"] = ev.kind
					w["dispatched_protocol_id"] = vf.Hex([]byte(ev.pid))
					r.Violation("e2e/malformed-dispatched/"+c.class, "a malformed header ("+c.class+" "+c.note+") reached the HandleMountedStream lookup", w)
					if ev.kind == "handler" {
						_ = ev.ms.GetStream().Close()
					}
				}
				if closes == 0 {
					ok = false
					w := wit()
					w["consumed"] = ob.In.Delivered()
					terr, tpos := ob.In.Terminal()
					w["read_error_handed_to_controller"] = fmt.Sprint(terr)
					w["read_error_at"] = tpos
					r.Violation("e2e/malformed-not-closed/"+c.class+"/"+c.end.class, "HandleIncomingStream returned for a malformed header ("+c.class+" "+c.note+", reads ended with "+c.end.name+") without closing the stream", w)
				} else {
					r.Count("e2e_direct_rejected_closed/"+c.class+"/"+c.end.class, 1)
				}
				nrd, rdh := ob.In.ReadStats()
				r.Distinct("e2e_read_schedules", fmt.Sprint(c.chunk, c.ewd, nrd, rdh))
				r.Case(c.sig(), ok)
				return
			}
			// valid: everything the controller dispatched is already queued
			for handlerEv == nil {
				var ev *event
				select {
				case e := <-wk.b.rec.events:
					ev = &e
				default:
				}
				if ev == nil {
					break
				}
				r.Count("e2e_events_"+ev.kind, 1)
				if ev.kind == "directive" {
					sawDirective = true
					wk.checkParams(c, lb, *ev, wit)
					continue
				}
				handlerEv = ev
			}
			if handlerEv != nil {
				break wait
			}
			w := wit()
			w["consumed"] = ob.In.Delivered()
			w["stream_closed"] = closes > 0
			r.Violation("e2e/valid-rejected/direct/"+c.chunk, "a valid header was not dispatched: HandleIncomingStream returned without handing the stream to the handler", w)
			r.Case(c.sig(), false)
			return
		case ev := <-wk.b.rec.events:
			if !valid {
				w := wit()
				w["event"] = ev.kind
				w["dispatched_protocol_id"] = vf.Hex([]byte(ev.pid))
				r.Violation("e2e/malformed-dispatched/"+c.class, "a malformed header ("+c.class+" "+c.note+") reached the HandleMountedStream lookup", w)
				if ev.kind == "handler" {
					_ = ev.ms.GetStream().Close()
				}
				r.Case(c.sig(), false)
				// let the pipeline finish so the next case starts clean
				select {
				case <-ob.Closed():
				case <-time.After(2 * time.Second):
				}
				return
			}
			r.Count("e2e_events_"+ev.kind, 1)
			if ev.kind == "directive" {
				sawDirective = true
				wk.checkParams(c, lb, ev, wit)
				continue
			}
			handlerEv = &ev
			break wait
		case <-closedCh:
			if valid {
				// closed without handing the stream to a handler
				select {
				case ev := <-wk.b.rec.events:
					if ev.kind == "handler" {
						handlerEv = &ev
						break wait
					}
				default:
				}
				key := "e2e/valid-rejected/" + c.chunk
				if c.ewd && len(c.payload) == 0 {
					key = "e2e/valid-rejected/eof-with-last-header-bytes"
				}
				w := wit()
				w["consumed"] = ob.In.Delivered()
				r.Violation(key, "a valid header was not dispatched: the controller closed the stream", w)
				r.Case(c.sig(), false)
				return
			}
			// rejected as demanded; nothing may have been dispatched
			if n := wk.drainEvents(); n > 0 {
				r.Violation("e2e/malformed-dispatched/"+c.class, "a malformed header was dispatched before the stream was closed", wit())
				r.Case(c.sig(), false)
				return
			}
			r.Count("e2e_rejected_closed/"+c.class, 1)
			r.Case(c.sig(), true)
			return
		case <-timer.C:
			r.Inconclusive(fmt.Sprintf("e2e case %d (%s %s): neither dispatched nor closed within the watchdog (consumed %d of %d)", c.idx, c.class, c.note, ob.In.Delivered(), len(wire)))
			r.Case(c.sig(), false)
			_ = ob.Close()
			return
		}
	}

	// valid and handed to the handler
	ok := wk.checkParams(c, lb, *handlerEv, wit)
	ms := handlerEv.ms
	if ms.GetProtocolID() != protocol.ID(c.id) {
		ok = false
		r.Violation("e2e/mounted-stream-wrong-id", "MountedStream.GetProtocolID differs from the id written by the opener", wit())
	}
	if ms.GetPeerID() != lb.remote || ms.GetLink() == nil || ms.GetLink().GetRemotePeer() != lb.remote || ms.GetLink().GetLocalPeer() != lb.local {
		ok = false
		r.Violation("e2e/mounted-stream-wrong-peer", "MountedStream peers differ from the accepting link's peers", wit())
	}
	consumed := ob.In.Delivered()
	if consumed != hdrLen {
		ok = false
		w := wit()
		w["consumed"] = consumed
		w["header_len"] = hdrLen
		key := "e2e/overread"
		if consumed < hdrLen {
			key = "e2e/underread"
		}
		r.Violation(key, fmt.Sprintf("controller consumed %d bytes before dispatch, header is %d bytes", consumed, hdrLen), w)
	}
	if c.direct && c.end.openAtDispatch {
		// the stream was still open when the header was dispatched; end it now
		if n := ob.Closes(); n > 0 {
			ok = false
			r.Violation("e2e/valid-closed-by-controller", "the controller closed a stream it handed to the handler", wit())
		}
		r.Count("e2e_direct_valid_dispatched_while_stream_open", 1)
		oa.CloseWrite()
	}
	// the application reads the rest
	got, rerr := readAllWatchdog(ms.GetStream())
	if rerr != nil {
		r.Inconclusive(fmt.Sprintf("e2e case %d: handler read: %v", c.idx, rerr))
	} else if !bytes.Equal(got, c.payload) {
		ok = false
		w := wit()
		w["handler_read_len"] = len(got)
		w["handler_read"] = vf.Hex(got)
		r.Violation("e2e/payload-damaged", "the handler did not read exactly the payload", w)
	}
	_ = ms.GetStream().Close()
	if sawDirective {
		r.Count("e2e_directive_then_handler", 1)
	}
	if c.idx < 2 {
		r.Sample(map[string]any{"half": "e2e", "class": c.class, "id": string(c.id), "payload_len": len(c.payload), "chunking": c.chunk,
			"directive": map[string]string{"protocol": string(handlerEv.pid), "local": handlerEv.local.String(), "remote": handlerEv.remote.String()}, "consumed_before_dispatch": consumed})
	}
	nrd, rdh := ob.In.ReadStats()
	r.Distinct("e2e_read_schedules", fmt.Sprint(c.chunk, c.ewd, nrd, rdh))
	r.Case(c.sig(), ok)
}

func (wk *worker) checkParams(c *e2eCase, lb *fakeLink, ev event, wit func() map[string]any) bool {
	ok := true
	if ev.pid != protocol.ID(c.id) {
		ok = false
		w := wit()
		w["dispatched_protocol_id"] = vf.Hex([]byte(ev.pid))
		wk.r.Violation("e2e/directive-wrong-id", "HandleMountedStream lookup carries a protocol id different from the one written", w)
	}
	if ev.local != lb.local || ev.remote != lb.remote {
		ok = false
		w := wit()
		w["directive_local"], w["directive_remote"] = ev.local.String(), ev.remote.String()
		w["link_local"], w["link_remote"] = lb.local.String(), lb.remote.String()
		wk.r.Violation("e2e/directive-wrong-peer", "HandleMountedStream lookup carries peers different from the link's local/remote peers", w)
	}
	return ok
}

func readAllWatchdog(s stream.Stream) ([]byte, error) {
	type res struct {
		b   []byte
		err error
	}
	ch := make(chan res, 1)
	go func() {
		b, err := io.ReadAll(s)
		ch <- res{b, err}
	}()
	select {
	case x := <-ch:
		return x.b, x.err
	case <-time.After(watchdog):
		_ = s.Close()
		return nil, fmt.Errorf("watchdog")
	}
}

func genE2ECases(r *vf.Run, limit int) []*e2eCase {
	rng := r.Rand("c07-e2e")
	var cases []*e2eCase
	nLinks := 3
	add := func(c *e2eCase) { c.idx = len(cases); cases = append(cases, c) }
	kinds := chunkKinds
	lens := idLenSet(limit)
	// structured valid
	for i, n := range lens {
		tag := fmt.Sprintf("v%d/", i)
		add(&e2eCase{class: "valid-open", id: genID(rng, n, tag), payload: randBytes(rng, rng.IntN(64)), chunk: kinds[i%len(kinds)]})
		add(&e2eCase{class: "valid-raw", id: genID(rng, n, tag+"r"), payload: randBytes(rng, rng.IntN(64)), chunk: kinds[(i+3)%len(kinds)], via: 1 + i%(nLinks-1)})
	}
	for i, sid := range specialIDs {
		add(&e2eCase{class: "valid-open", id: []byte(sid), payload: randBytes(rng, 7), chunk: kinds[i%len(kinds)]})
		add(&e2eCase{class: "valid-raw", id: []byte(sid), payload: randBytes(rng, 7), chunk: kinds[(i+1)%len(kinds)], via: 1 + i%(nLinks-1)})
	}
	add(&e2eCase{class: "valid-open", id: genID(rng, 9, "ewd-o/"), chunk: "all", ewd: true})
	add(&e2eCase{class: "valid-raw", id: genID(rng, 9, "ewd-r/"), chunk: "all", ewd: true, via: 1})
	add(&e2eCase{class: "valid-raw", id: genID(rng, 1, ""), chunk: "all", ewd: true, via: 2})
	add(&e2eCase{class: "valid-open", id: genID(rng, 9, "ewd-p/"), payload: randBytes(rng, 9), chunk: "all", ewd: true})
	nValid := r.N(70, 2200)
	for len(cases) < nValid {
		n := 1 + rng.IntN(200)
		if rng.IntN(8) == 0 {
			n = lens[rng.IntN(len(lens)-3)]
		}
		pl := 0
		switch rng.IntN(3) {
		case 1:
			pl = 1 + rng.IntN(32)
		case 2:
			pl = rng.IntN(4097)
		}
		c := &e2eCase{class: "valid-open", id: genID(rng, n, fmt.Sprintf("p%d/", len(cases))), payload: randBytes(rng, pl), chunk: kinds[rng.IntN(len(kinds))]}
		if rng.IntN(2) == 0 {
			c.class = "valid-raw"
			c.via = rng.IntN(nLinks)
		}
		c.ewd = rng.IntN(10) == 0
		add(c)
	}
	for _, c := range cases {
		if c.class == "valid-raw" {
			c.raw = append(refHeader(c.id), c.payload...)
		}
	}
	// malformed
	mal := func(class, note string, raw []byte, fault bool) {
		add(&e2eCase{class: class, note: note, raw: raw, chunk: []string{"one", "all", "rand"}[rng.IntN(3)], via: rng.IntN(nLinks), fault: fault, ewd: rng.IntN(4) == 0})
	}
	mal("empty", "eof", nil, false)
	mal("empty", "fault", nil, true)
	mal("zero-length", "tail4", []byte{0, 0x0a, 0x01, 'a', 'b'}, false)
	mal("zero-length", "tail0", []byte{0}, false)
	for _, L := range []uint64{uint64(limit) + 1, 1<<31 - 1, 1<<32 - 1, 1<<64 - 1} {
		mal("oversize", fmt.Sprint("L=", L), append(uvarint(L), randBytes(rng, 7)...), false)
	}
	mal("oversize", "wellformed-body=limit+1", refHeader(genID(rng, limit-3, "")), false)
	for _, n := range []int{1, 3, 128} {
		h := refHeader(genID(rng, n, "trunc/"))
		offs := []int{1, 2, 3, len(h) - 1}
		if len(h) > 6 {
			offs = append(offs, 4, 5, 4+rng.IntN(len(h)-4))
		}
		for _, k := range offs {
			if k < len(h) {
				mal("truncated", fmt.Sprintf("at%d of %d", k, len(h)), h[:k], rng.IntN(2) == 0)
			}
		}
	}
	mal("bad-varint", "cont80x10", append(bytes.Repeat([]byte{0x80}, 10), 0x01, 0x0a, 0x01, 'a'), false)
	mal("undecodable-body", "inner-len-overflow", append(refFrame([]byte{0x0a, 0x09, 'a', 'b', 'c'}), 'x', 'y'), false)
	mal("undecodable-body", "wiretype7", append(refFrame([]byte{0x0f, 0x01, 0x02, 0x03}), 'x'), false)
	mal("undecodable-body", "field0", append(refFrame([]byte{0x02, 0x01, 'a', 0x00}), 'x'), false)
	mal("undecodable-body", "end-group", append(refFrame([]byte{0x0a, 0x01, 'a', 0x0c}), 'x'), false)
	for _, kv := range []struct {
		n  string
		id []byte
	}{{"empty", []byte{}}, {"ff", []byte{0xff}}, {"overlong-nul", []byte{0xc0, 0x80}}, {"surrogate", []byte{0xed, 0xa0, 0x80}}, {"latin1", []byte("caf\xe9/1")}, {"lone-cont", []byte{'p', 'r', 'o', 't', 'o', 0x80}}, {"long-then-bad", append(genID(rng, 200, "bad/"), 0xfe)}} {
		mal("invalid-id", kv.n, append(refHeader(kv.id), 'p', 'a', 'y'), false)
	}
	mal("invalid-id", "no-field1", append(refFrame([]byte{0x10, 0x01, 0x10, 0x02}), 'x'), false)
	if !r.Quick() {
		// more PRNG-placed truncations and invalid ids
		for i := 0; i < 400; i++ {
			h := refHeader(genID(rng, 1+rng.IntN(300), "t/"))
			k := rng.IntN(len(h))
			mal("truncated", fmt.Sprintf("at%d of %d", k, len(h)), h[:k], rng.IntN(2) == 0)
			id := genID(rng, 1+rng.IntN(100), "")
			id[rng.IntN(len(id))] = 0xff
			if !validID(id) {
				mal("invalid-id", "prng", append(refHeader(id), 'z'), false)
			}
		}
	}
	genDirectCases(r, limit, add)
	return cases
}

func runE2E(t *testing.T, r *vf.Run, limit int) {
	ctx, cancel := context.WithCancel(context.Background())
	defer cancel()
	log := logrus.New()
	log.SetOutput(io.Discard)
	log.SetLevel(logrus.PanicLevel)
	le := logrus.NewEntry(log)

	cases := genE2ECases(r, limit)
	r.Extra("e2e_cases", len(cases))
	nw := 8
	krng := r.Rand("c07-keys")
	workers := make([]*worker, nw)
	for w := 0; w < nw; w++ {
		wk, err := newWorker(ctx, r, w, le, keys.Pool(krng, 4))
		if err != nil {
			r.Inconclusive("e2e harness setup failed: " + err.Error())
			t.Logf("e2e setup: %v", err)
			return
		}
		workers[w] = wk
	}
	var wg sync.WaitGroup
	ch := make(chan *e2eCase)
	for _, wk := range workers {
		wg.Add(1)
		go func(wk *worker) {
			defer wg.Done()
			for c := range ch {
				wk.run(c)
			}
		}(wk)
	}
	for i, c := range cases {
		if i%8 == 0 {
			end := i + 8
			if end > len(cases) {
				end = len(cases)
			}
			desc := fmt.Sprintf("e2e cases %d..%d:", i, end-1)
			for _, x := range cases[i:end] {
				desc += "\n  " + x.sig() + " raw=" + vf.Hex(x.raw)
			}
			r.Begin(desc)
		}
		ch <- c
	}
	close(ch)
	wg.Wait()
}
