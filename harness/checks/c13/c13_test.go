// C13: key derivation is deterministic, separated, and total.
package c13

import (
	"bytes"
	"fmt"
	"strings"
	"sync"
	"sync/atomic"
	"testing"

	"github.com/aperturerobotics/bifrost/peer"
	"verifharness/keys"
	"verifharness/vf"
)

type in struct {
	key  int
	ctx  string
	salt []byte
	n    int
}

func (i in) sig() string { return fmt.Sprintf("k%d|%q|%x|%d", i.key, i.ctx, i.salt, i.n) }

// canon: nil and empty salt are the same salt.
func (i in) sepKey() string { return fmt.Sprintf("k%d|%q|%x", i.key, i.ctx, i.salt) }

func TestCheck(t *testing.T) {
	r := vf.Start(t, "C13", vf.Exploration)
	defer r.Finish()
	r.SetRule("inputs = (key from a seeded pool) x (context from {empty, 1 char, short, long, unicode, embedded NUL, PRNG}) x (salt from {nil, empty, 1 B, 1 KiB, PRNG}) x (output length from {0,1,31,32,33,64,1000}); a case is non-trivial when DeriveKey returned without error; distinct = distinct (key,ctx,salt,len). Oracle: no panic; same inputs twice (and from 2 goroutines) => same bytes; output buffers are pre-filled with call-dependent garbage and have varying capacity; over all outputs of >=16 bytes, equal output (first 32 bytes, per length class) => equal (key,ctx,salt), including salts/contexts of 16..70000 bytes that differ only in one late byte or in length; shorter outputs are prefixes of longer ones is NOT demanded; (context, salt) pairs shifted across every separator-like byte are derived consecutively in one process (caches keyed by joined strings); DeriveEd25519Key output signs and verifies")
	rng := r.Rand("c13")
	pool := keys.Pool(rng, r.N(12, 200))
	ctxs := []string{"", "a", "b", "ab", "example.com 2019-12-25 16:18:03 session tokens v1", strings.Repeat("x", 4096), "ключ-日本語", "a\x00b", "a\x00", "\x00"}
	salts := [][]byte{nil, {}, {0}, {1}, bytes.Repeat([]byte{7}, 1024), []byte("a"), []byte("ab")}
	lens := []int{0, 1, 31, 32, 33, 64, 1000}
	n := r.N(3000, 150000)

	seen := map[string]string{} // first-32-bytes -> sepKey
	var cases []in
	// structured part: full cross product on a few keys
	for k := 0; k < 3 && k < len(pool); k++ {
		for _, c := range ctxs {
			for _, s := range salts {
				for _, l := range lens {
					cases = append(cases, in{k, c, s, l})
					if l == 1 {
						cases = append(cases, in{k, c, s, 16}, in{k, c, s, 24})
					}
				}
			}
		}
	}
	// separation on late differences: salts and contexts that share a long
	// prefix and differ only in one late byte, or only in length
	for _, L := range []int{16, 31, 32, 33, 63, 64, 65, 100, 104, 105, 106, 127, 128, 129, 200, 255, 256, 257, 1000, 1024, 4096, 70000} {
		base := make([]byte, L)
		for i := range base {
			base[i] = byte(rng.UintN(256))
		}
		vars := [][]byte{base}
		for _, pos := range []int{0, L / 2, L - 1} {
			v := append([]byte(nil), base...)
			v[pos] ^= 1 << uint(rng.IntN(8))
			vars = append(vars, v)
		}
		vars = append(vars, append(append([]byte(nil), base...), 0), base[:L-1])
		for _, v := range vars {
			for _, l := range []int{16, 32, 64} {
				cases = append(cases, in{0, "ctx", v, l})
				if L <= 4096 {
					cases = append(cases, in{1, string(v), []byte("s"), l})
				}
			}
		}
	}
	// separation across the (context, salt) boundary: pairs whose concatenation
	// with any separator-like byte coincides (("a/b","c") vs ("a","b/c"), ...)
	var shifted []in
	for _, sep := range []string{"/", ":", "|", ",", " ", "\x00", "-", ".", "//"} {
		for _, w := range [][3]string{{"a", "b", "c"}, {"app", "", ""}, {"dex", "x", "y"}, {"", "k", ""}, {"ctx", sep, "s"}} {
			l, m, rr := w[0], w[1], w[2]
			pairs := [][2]string{{l + sep + m, rr}, {l, m + sep + rr}, {l + sep + m + sep, rr}, {l, sep + m + sep + rr}, {l + sep + m + sep + rr, ""}, {"", l + sep + m + sep + rr}}
			for _, pr := range pairs {
				for k := 0; k < 2; k++ {
					c := in{k, pr[0], []byte(pr[1]), 32}
					cases = append(cases, c)
					shifted = append(shifted, c)
				}
			}
		}
	}
	for len(cases) < n {
		c := in{key: rng.IntN(len(pool))}
		switch rng.IntN(4) {
		case 0:
			c.ctx = ctxs[rng.IntN(len(ctxs))]
		default:
			b := make([]byte, rng.IntN(40))
			for i := range b {
				b[i] = byte(rng.UintN(256))
			}
			c.ctx = string(b)
		}
		switch rng.IntN(3) {
		case 0:
			c.salt = salts[rng.IntN(len(salts))]
		default:
			c.salt = make([]byte, rng.IntN(48))
			for i := range c.salt {
				c.salt[i] = byte(rng.UintN(256))
			}
		}
		c.n = lens[rng.IntN(len(lens))]
		cases = append(cases, c)
	}

	// the output buffer is pre-filled with call-dependent garbage and its
	// capacity varies (exact, or larger than the length): the derived bytes
	// must not depend on either.
	var fillCtr atomic.Uint32
	derive := func(c in) (out []byte, err error, panicked bool, pd string) {
		k := fillCtr.Add(1)
		if k%2 == 0 {
			out = make([]byte, c.n)
		} else {
			out = make([]byte, c.n, c.n+int(k%97)+1)
		}
		for i := range out {
			out[i] = byte(0xA5 ^ k ^ uint32(i))
		}
		// every third call hands the salt over as a sub-slice of a larger buffer
		// (spare capacity filled with a canary): the function must neither depend
		// on nor write to caller memory outside `out`
		salt := c.salt
		var whole []byte
		if k%3 == 0 && len(c.salt) > 0 {
			whole = make([]byte, len(c.salt)+64)
			copy(whole, c.salt)
			for i := len(c.salt); i < len(whole); i++ {
				whole[i] = byte(0x3C ^ k ^ uint32(i))
			}
			salt = whole[:len(c.salt)]
		}
		panicked, pd = vf.Try(func() { err = peer.DeriveKey(c.ctx, salt, pool[c.key].Priv, out) })
		if whole != nil && !panicked {
			okc := bytes.Equal(whole[:len(c.salt)], c.salt)
			for i := len(c.salt); i < len(whole) && okc; i++ {
				okc = whole[i] == byte(0x3C^k^uint32(i))
			}
			if !okc {
				r.Violation("DeriveKey/modifies-caller-memory", "DeriveKey wrote to the caller's salt buffer (the salt itself or the spare capacity behind it)", map[string]any{"case": c.sig()})
			}
			r.Count("salt_with_spare_capacity_calls", 1)
		}
		return
	}

	for i, c := range cases {
		if i%256 == 0 {
			r.Begin(fmt.Sprintf("batch starting at case %d: %s", i, c.sig()))
		}
		out, err, pk, pd := derive(c)
		if pk {
			cls := "ctx-nonempty"
			if c.ctx == "" {
				cls = "ctx-empty"
			}
			r.Violation("DeriveKey/panic/"+cls, "DeriveKey panicked: "+pd, map[string]any{"ctx": c.ctx, "salt": vf.Hex(c.salt), "len": c.n, "key": pool[c.key].String()})
			r.Case(c.sig(), false)
			continue
		}
		r.Case(c.sig(), err == nil)
		if err != nil {
			r.Count("errors", 1)
			continue
		}
		if i < 3 {
			r.Sample(map[string]any{"ctx": c.ctx, "salt": vf.Hex(c.salt), "len": c.n, "out": vf.Hex(out)})
		}
		// determinism, incl. two goroutines
		var o2, o3 []byte
		var wg sync.WaitGroup
		wg.Add(2)
		go func() { defer wg.Done(); o2, _, _, _ = derive(c) }()
		go func() { defer wg.Done(); o3, _, _, _ = derive(c) }()
		wg.Wait()
		if !bytes.Equal(out, o2) || !bytes.Equal(out, o3) {
			r.Violation("DeriveKey/nondeterministic", "same inputs gave different outputs", map[string]any{"case": c.sig(), "a": vf.Hex(out), "b": vf.Hex(o2), "c": vf.Hex(o3)})
		}
		r.Count("derivations", 3)
		if c.n >= 16 {
			// outputs of equal length must differ when (key,ctx,salt) differ; lengths
			// are kept apart (a prefix relation across lengths is allowed, not demanded)
			w := 32
			if c.n < 32 {
				w = c.n
			}
			k := fmt.Sprintf("%d|%s", w, out[:w])
			if prev, ok := seen[k]; ok && prev != c.sepKey() {
				r.Violation("DeriveKey/collision", "different (key,ctx,salt) gave the same output", map[string]any{"a": prev, "b": c.sepKey(), "len": c.n, "out": vf.Hex(out[:w])})
			}
			seen[k] = c.sepKey()
		}
	}
	r.Extra("distinct_outputs_32", len(seen))

	// one salt slice WITH spare capacity shared by concurrent derivations, and two
	// salts that are adjacent fields of one buffer: outputs must equal those of
	// independent exact-capacity copies
	for _, L := range []int{1, 16, 33, 1024, 1 << 16} {
		buf := make([]byte, 2*L+128)
		for i := range buf {
			buf[i] = byte(rng.UintN(256))
		}
		saltA, saltB := buf[:L], buf[L:2*L:2*L]
		refA, refB := append([]byte(nil), saltA...), append([]byte(nil), saltB...)
		want := func(salt []byte) []byte {
			o := make([]byte, 32)
			_ = peer.DeriveKey("shared", append([]byte(nil), salt...), pool[0].Priv, o)
			return o
		}
		wantA, wantB := want(refA), want(refB)
		var wg sync.WaitGroup
		var bad atomic.Int32
		for g := 0; g < 8; g++ {
			wg.Add(1)
			go func() {
				defer wg.Done()
				for it := 0; it < r.N(12, 200); it++ {
					o := make([]byte, 32)
					if pk, _ := vf.Try(func() { _ = peer.DeriveKey("shared", saltA, pool[0].Priv, o) }); pk || !bytes.Equal(o, wantA) {
						bad.Add(1)
					}
				}
			}()
		}
		wg.Wait()
		r.Case(fmt.Sprintf("shared-salt|%d", L), true)
		r.Count("shared_salt_concurrent_derivations", 8*r.N(12, 200))
		if bad.Load() > 0 {
			r.Violation("DeriveKey/nondeterministic/shared-salt-slice", "concurrent derivations sharing one salt slice (with spare capacity) gave different outputs for the same inputs", map[string]any{"salt_len": L, "mismatches": bad.Load()})
		}
		ob := make([]byte, 32)
		_ = peer.DeriveKey("shared", saltB, pool[0].Priv, ob)
		if !bytes.Equal(saltB, refB) || !bytes.Equal(ob, wantB) {
			r.Violation("DeriveKey/modifies-caller-memory", "deriving with one salt changed an adjacent salt held in the same buffer", map[string]any{"salt_len": L})
		}
	}

	// DeriveEd25519Key: usable key, deterministic, separated
	seenID := map[string]string{}
	m := r.N(300, 20000)
	for i := 0; i < m+len(shifted); i++ {
		var c in
		if i < len(shifted) {
			c = shifted[i] // boundary-shifted pairs, consecutively, in one process
		} else {
			c = cases[rng.IntN(len(cases))]
		}
		var err error
		var id1, id2 string
		pk, pd := vf.Try(func() {
			priv, pub, e := peer.DeriveEd25519Key(c.ctx, c.salt, pool[c.key].Priv)
			err = e
			if e != nil {
				return
			}
			if priv == nil || pub == nil {
				r.Violation("DeriveEd25519Key/nil-nil", "nil key with nil error", c.sig())
				return
			}
			msg := []byte("m" + c.sig())
			sig, e := priv.Sign(msg)
			if e != nil {
				r.Violation("DeriveEd25519Key/unusable", "derived key cannot sign: "+e.Error(), c.sig())
				return
			}
			ok, e := pub.Verify(msg, sig)
			if e != nil || !ok {
				r.Violation("DeriveEd25519Key/unusable", "derived key signature does not verify", c.sig())
			}
			if !priv.GetPublic().Equals(pub) {
				r.Violation("DeriveEd25519Key/unusable", "derived pub != priv.GetPublic()", c.sig())
			}
			pid, _ := peer.IDFromPublicKey(pub)
			id1 = pid.String()
			_, pub2, _ := peer.DeriveEd25519Key(c.ctx, c.salt, pool[c.key].Priv)
			pid2, _ := peer.IDFromPublicKey(pub2)
			id2 = pid2.String()
		})
		if pk {
			cls := "ctx-nonempty"
			if c.ctx == "" {
				cls = "ctx-empty"
			}
			r.Violation("DeriveEd25519Key/panic/"+cls, "panicked: "+pd, c.sig())
			continue
		}
		r.Case("ed|"+c.sepKey(), err == nil)
		if err != nil {
			continue
		}
		if id1 != id2 {
			r.Violation("DeriveEd25519Key/nondeterministic", "same inputs, different keys", c.sig())
		}
		if prev, ok := seenID[id1]; ok && prev != c.sepKey() {
			r.Violation("DeriveEd25519Key/collision", "different inputs, same derived key", map[string]any{"a": prev, "b": c.sepKey()})
		}
		seenID[id1] = c.sepKey()
		r.Count("ed25519_derivations", 2)
	}
}
