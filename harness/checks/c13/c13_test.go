// C13: key derivation is deterministic, separated, and total.
package c13

import (
	"bytes"
	"fmt"
	"strings"
	"sync"
	"testing"

	"github.com/aperturerobotics/bifrost/peer"
	"verifharness/keys"
	"verifharness/vf"
)

type in struct {
	key  int
	ctx  string
	salt []byte
	n    int
}

func (i in) sig() string { return fmt.Sprintf("k%d|%q|%x|%d", i.key, i.ctx, i.salt, i.n) }

// canon: nil and empty salt are the same salt.
func (i in) sepKey() string { return fmt.Sprintf("k%d|%q|%x", i.key, i.ctx, i.salt) }

func TestCheck(t *testing.T) {
	r := vf.Start(t, "C13", vf.Exploration)
	defer r.Finish()
	r.SetRule("inputs = (key from a seeded pool) x (context from {empty, 1 char, short, long, unicode, embedded NUL, PRNG}) x (salt from {nil, empty, 1 B, 1 KiB, PRNG}) x (output length from {0,1,31,32,33,64,1000}); a case is non-trivial when DeriveKey returned without error; distinct = distinct (key,ctx,salt,len). Oracle: no panic; same inputs twice (and from 2 goroutines) => same bytes; over all 32+ byte outputs equal output prefix(32) => equal (key,ctx,salt); shorter outputs are prefixes of longer ones is NOT demanded; DeriveEd25519Key output signs and verifies")
	rng := r.Rand("c13")
	pool := keys.Pool(rng, r.N(12, 200))
	ctxs := []string{"", "a", "b", "ab", "example.com 2019-12-25 16:18:03 session tokens v1", strings.Repeat("x", 4096), "ключ-日本語", "a\x00b", "a\x00", "\x00"}
	salts := [][]byte{nil, {}, {0}, {1}, bytes.Repeat([]byte{7}, 1024), []byte("a"), []byte("ab")}
	lens := []int{0, 1, 31, 32, 33, 64, 1000}
	n := r.N(3000, 150000)

	seen := map[string]string{} // first-32-bytes -> sepKey
	var cases []in
	// structured part: full cross product on a few keys
	for k := 0; k < 3 && k < len(pool); k++ {
		for _, c := range ctxs {
			for _, s := range salts {
				for _, l := range lens {
					cases = append(cases, in{k, c, s, l})
				}
			}
		}
	}
	for len(cases) < n {
		c := in{key: rng.IntN(len(pool))}
		switch rng.IntN(4) {
		case 0:
			c.ctx = ctxs[rng.IntN(len(ctxs))]
		default:
			b := make([]byte, rng.IntN(40))
			for i := range b {
				b[i] = byte(rng.UintN(256))
			}
			c.ctx = string(b)
		}
		switch rng.IntN(3) {
		case 0:
			c.salt = salts[rng.IntN(len(salts))]
		default:
			c.salt = make([]byte, rng.IntN(48))
			for i := range c.salt {
				c.salt[i] = byte(rng.UintN(256))
			}
		}
		c.n = lens[rng.IntN(len(lens))]
		cases = append(cases, c)
	}

	derive := func(c in) (out []byte, err error, panicked bool, pd string) {
		out = make([]byte, c.n)
		panicked, pd = vf.Try(func() { err = peer.DeriveKey(c.ctx, c.salt, pool[c.key].Priv, out) })
		return
	}

	for i, c := range cases {
		if i%256 == 0 {
			r.Begin(fmt.Sprintf("batch starting at case %d: %s", i, c.sig()))
		}
		out, err, pk, pd := derive(c)
		if pk {
			cls := "ctx-nonempty"
			if c.ctx == "" {
				cls = "ctx-empty"
			}
			r.Violation("DeriveKey/panic/"+cls, "DeriveKey panicked: "+pd, map[string]any{"ctx": c.ctx, "salt": vf.Hex(c.salt), "len": c.n, "key": pool[c.key].String()})
			r.Case(c.sig(), false)
			continue
		}
		r.Case(c.sig(), err == nil)
		if err != nil {
			r.Count("errors", 1)
			continue
		}
		if i < 3 {
			r.Sample(map[string]any{"ctx": c.ctx, "salt": vf.Hex(c.salt), "len": c.n, "out": vf.Hex(out)})
		}
		// determinism, incl. two goroutines
		var o2, o3 []byte
		var wg sync.WaitGroup
		wg.Add(2)
		go func() { defer wg.Done(); o2, _, _, _ = derive(c) }()
		go func() { defer wg.Done(); o3, _, _, _ = derive(c) }()
		wg.Wait()
		if !bytes.Equal(out, o2) || !bytes.Equal(out, o3) {
			r.Violation("DeriveKey/nondeterministic", "same inputs gave different outputs", map[string]any{"case": c.sig(), "a": vf.Hex(out), "b": vf.Hex(o2), "c": vf.Hex(o3)})
		}
		r.Count("derivations", 3)
		if c.n >= 32 {
			k := string(out[:32])
			if prev, ok := seen[k]; ok && prev != c.sepKey() {
				r.Violation("DeriveKey/collision", "different (key,ctx,salt) gave the same output", map[string]any{"a": prev, "b": c.sepKey(), "out": vf.Hex(out[:32])})
			}
			seen[k] = c.sepKey()
		}
	}
	r.Extra("distinct_outputs_32", len(seen))

	// DeriveEd25519Key: usable key, deterministic, separated
	seenID := map[string]string{}
	m := r.N(300, 20000)
	for i := 0; i < m; i++ {
		c := cases[rng.IntN(len(cases))]
		var err error
		var id1, id2 string
		pk, pd := vf.Try(func() {
			priv, pub, e := peer.DeriveEd25519Key(c.ctx, c.salt, pool[c.key].Priv)
			err = e
			if e != nil {
				return
			}
			if priv == nil || pub == nil {
				r.Violation("DeriveEd25519Key/nil-nil", "nil key with nil error", c.sig())
				return
			}
			msg := []byte("m" + c.sig())
			sig, e := priv.Sign(msg)
			if e != nil {
				r.Violation("DeriveEd25519Key/unusable", "derived key cannot sign: "+e.Error(), c.sig())
				return
			}
			ok, e := pub.Verify(msg, sig)
			if e != nil || !ok {
				r.Violation("DeriveEd25519Key/unusable", "derived key signature does not verify", c.sig())
			}
			if !priv.GetPublic().Equals(pub) {
				r.Violation("DeriveEd25519Key/unusable", "derived pub != priv.GetPublic()", c.sig())
			}
			pid, _ := peer.IDFromPublicKey(pub)
			id1 = pid.String()
			_, pub2, _ := peer.DeriveEd25519Key(c.ctx, c.salt, pool[c.key].Priv)
			pid2, _ := peer.IDFromPublicKey(pub2)
			id2 = pid2.String()
		})
		if pk {
			cls := "ctx-nonempty"
			if c.ctx == "" {
				cls = "ctx-empty"
			}
			r.Violation("DeriveEd25519Key/panic/"+cls, "panicked: "+pd, c.sig())
			continue
		}
		r.Case("ed|"+c.sepKey(), err == nil)
		if err != nil {
			continue
		}
		if id1 != id2 {
			r.Violation("DeriveEd25519Key/nondeterministic", "same inputs, different keys", c.sig())
		}
		if prev, ok := seenID[id1]; ok && prev != c.sepKey() {
			r.Violation("DeriveEd25519Key/collision", "different inputs, same derived key", map[string]any{"a": prev, "b": c.sepKey()})
		}
		seenID[id1] = c.sepKey()
		r.Count("ed25519_derivations", 2)
	}
}
