// C38: configuration parsers are total and round-trip.
//
// Every parser named by the property is run (real code) on structured valid,
// structured near-valid, adversarial and PRNG garbage strings. Oracles are
// written from the property text / doc comments and never call the function
// they judge:
//   - totality: a recovered panic is a violation, for every input;
//   - round trip: for every accepted x, parse(format(parse(x))) == parse(x);
//   - protocol ids: accepted <=> non-empty and valid UTF-8 (own RFC 3629 validator);
//   - ParseTptAddr: accepted <=> a '|' exists with non-empty text on both sides of the FIRST '|';
//   - ParsePeerAddressMap: entries are constructed by the harness (peer, address,
//     padding, malformed kinds are known by construction) and the result must be
//     the sorted duplicate-free set of exactly the addresses given per peer.
package c38

import (
	"encoding/pem"
	"fmt"
	"math/big"
	"math/rand/v2"
	"net/url"
	"strconv"
	"strings"
	"sync"
	"testing"
	"time"

	"github.com/aperturerobotics/bifrost/crypto"
	"github.com/aperturerobotics/bifrost/peer"
	"github.com/aperturerobotics/bifrost/protocol"
	"github.com/aperturerobotics/bifrost/tptaddr"
	tptaddr_static "github.com/aperturerobotics/bifrost/tptaddr/static"
	"github.com/aperturerobotics/bifrost/util/confparse"
	"github.com/aperturerobotics/protobuf-go-lite/types/known/timestamppb"
	b58 "github.com/mr-tron/base58/base58"
	"verifharness/g12util"
	"verifharness/keys"
	"verifharness/vf"
)

type env struct {
	r    *vf.Run
	pool []*keys.Identity
	adv  []string
}

func short(x string) string {
	if len(x) > 96 {
		return fmt.Sprintf("%q...(%d bytes)", x[:96], len(x))
	}
	return strconv.Quote(x)
}

// guard runs f; a panic is a violation of totality for parser p.
func (e *env) guard(p, cls, x string, f func()) bool {
	pk, pd := vf.Try(f)
	if pk {
		e.r.Violation(p+"/panic/"+cls, p+" panicked: "+pd, map[string]any{"input": short(x), "input_hex": vf.Hex([]byte(x)), "class": cls})
	}
	return !pk
}

func (e *env) done(p, cls, x string, accepted bool) {
	e.r.Case(p+"|"+x, accepted)
	e.r.Count(p+"_inputs", 1)
	if accepted {
		e.r.Count(p+"_accepted", 1)
		e.r.Distinct(p+"_accepted_classes", cls)
	}
}

// ---------------------------------------------------------------- timestamps

const minTS = -62135596800 // 0001-01-01T00:00:00Z
const maxTS = 253402300799 // 9999-12-31T23:59:59Z

func tsInRange(ts *timestamppb.Timestamp) bool {
	return ts.GetSeconds() >= minTS && ts.GetSeconds() <= maxTS && ts.GetNanos() >= 0 && ts.GetNanos() < 1000000000
}

func (e *env) timestamp(x, cls string, want *timestamppb.Timestamp) {
	const p = "ParseTimestamp"
	var ts *timestamppb.Timestamp
	var err error
	if !e.guard(p, cls, x, func() { ts, err = confparse.ParseTimestamp(x) }) {
		e.done(p, cls, x, false)
		return
	}
	if err != nil {
		e.done(p, cls, x, false)
		return
	}
	e.done(p, cls, x, true)
	wit := map[string]any{"input": short(x), "class": cls, "parsed_seconds": ts.GetSeconds(), "parsed_nanos": ts.GetNanos(), "parsed_nil": ts == nil}
	if want != nil && !want.EqualVT(ts) {
		wit["want_seconds"], wit["want_nanos"] = want.GetSeconds(), want.GetNanos()
		e.r.Violation(p+"/value/"+cls, "parsed timestamp differs from the value written", wit)
	}
	if ts != nil && !tsInRange(ts) {
		// outside the Timestamp range: only totality of the formatter is required
		e.r.Count("timestamp_out_of_range", 1)
		e.guard("MarshalTimestamp", cls, x, func() { _ = confparse.MarshalTimestamp(ts) })
		return
	}
	var s string
	if !e.guard("MarshalTimestamp", cls, x, func() { s = confparse.MarshalTimestamp(ts) }) {
		return
	}
	var ts2 *timestamppb.Timestamp
	var err2 error
	if !e.guard(p, "formatted", s, func() { ts2, err2 = confparse.ParseTimestamp(s) }) {
		return
	}
	sub := "whole-second"
	if ts.GetNanos() != 0 {
		sub = "sub-second"
	}
	e.r.Count("timestamp_roundtrips_"+sub, 1)
	wit["formatted"] = s
	if err2 != nil {
		wit["reparse_err"] = err2.Error()
		e.r.Violation("MarshalTimestamp/roundtrip/"+sub, "formatted timestamp does not parse", wit)
		return
	}
	if (ts == nil) != (ts2 == nil) || !ts.EqualVT(ts2) {
		wit["reparsed_seconds"], wit["reparsed_nanos"] = ts2.GetSeconds(), ts2.GetNanos()
		e.r.Violation("MarshalTimestamp/roundtrip/"+sub, "parse(format(parse(x))) != parse(x)", wit)
	}
}

func (e *env) timestamps(rng *rand.Rand, n int) {
	e.timestamp("", "empty", nil)
	for _, a := range e.adv {
		e.timestamp(a, "adversarial", nil)
	}
	randSecs := func() int64 {
		switch rng.IntN(6) {
		case 0:
			return minTS + rng.Int64N(100000)
		case 1:
			return maxTS - rng.Int64N(100000)
		case 2:
			return rng.Int64N(2000) - 1000
		case 3:
			return minTS + rng.Int64N(maxTS-minTS+1)
		default:
			return 946684800 + rng.Int64N(1500000000) // 2000 .. 2047
		}
	}
	pow10 := []int64{1, 10, 100, 1000, 10000, 100000, 1000000, 10000000, 100000000, 1000000000}
	for i := 0; i < n; i++ {
		secs := randSecs()
		digits := rng.IntN(10) // 0..9 fractional digits
		var nanos int64
		if digits > 0 {
			nanos = rng.Int64N(pow10[digits]) * pow10[9-digits]
		}
		tm := time.Unix(secs, nanos).UTC()
		want := &timestamppb.Timestamp{Seconds: secs, Nanos: int32(nanos)}
		base := tm.Format("2006-01-02T15:04:05")
		frac := ""
		if digits > 0 {
			frac = "." + fmt.Sprintf("%09d", nanos)[:digits]
		}
		switch rng.IntN(12) {
		case 0, 1, 2, 3:
			e.timestamp(base+frac+"Z", fmt.Sprintf("rfc3339-Z-frac%d", digits), want)
		case 4, 5, 6:
			ms := secs*1000 + nanos/1000000
			w := &timestamppb.Timestamp{Seconds: secs, Nanos: int32(nanos / 1000000 * 1000000)}
			cls := "unix-ms-whole"
			if w.Nanos != 0 {
				cls = "unix-ms-fraction"
			}
			e.timestamp(strconv.FormatInt(ms, 10), cls, w)
		case 7:
			off := []string{"+00:00", "-00:00", "+02:00", "-07:30", "+14:00", "+0200", "+02"}[rng.IntN(7)]
			e.timestamp(base+frac+off, "rfc3339-offset", nil)
		case 8:
			e.timestamp(strconv.Quote(base+frac+"Z"), "json-quoted", nil)
		case 9:
			e.timestamp(strings.ToLower(base+frac+"Z"), "lowercase", nil)
		case 10:
			e.timestamp(strings.Replace(base, "T", " ", 1)+frac+"Z", "space-separator", nil)
		default:
			// near-valid: drop / duplicate / replace one character
			s := base + frac + "Z"
			pos := rng.IntN(len(s))
			switch rng.IntN(3) {
			case 0:
				s = s[:pos] + s[pos+1:]
			case 1:
				s = s[:pos] + s[pos:pos+1] + s[pos:]
			default:
				s = s[:pos] + string("0123456789-:TZ.+ x"[rng.IntN(18)]) + s[pos+1:]
			}
			e.timestamp(s, "near-valid", nil)
		}
	}
	// out-of-range and huge unix ms
	for _, ms := range []int64{minTS*1000 - 1, maxTS*1000 + 1000, 1 << 62, -(1 << 62), 9223372036854775807, -9223372036854775808} {
		e.timestamp(strconv.FormatInt(ms, 10), "unix-ms-out-of-range", nil)
	}
	for i := 0; i < n/10; i++ {
		e.timestamp(g12util.Garbage(rng), "garbage", nil)
	}
	e.timestamp(strings.Repeat("1", 1<<20), "1MiB", nil)
	e.timestamp("2021-08-15T15:49:13."+strings.Repeat("9", 1<<20)+"Z", "1MiB", nil)
	// nil formats to "" which parses to nil
	var s string
	if e.guard("MarshalTimestamp", "nil", "", func() { s = confparse.MarshalTimestamp(nil) }) {
		if ts, err := confparse.ParseTimestamp(s); err != nil || ts != nil {
			e.r.Violation("MarshalTimestamp/roundtrip/nil", "nil timestamp does not round-trip", map[string]any{"formatted": s})
		}
	}
}

// ----------------------------------------------------------------- durations

func (e *env) duration(x, cls string, want *time.Duration) {
	const p = "ParseDuration"
	var d time.Duration
	var err error
	if !e.guard(p, cls, x, func() { d, err = confparse.ParseDuration(x) }) || err != nil {
		e.done(p, cls, x, false)
		return
	}
	e.done(p, cls, x, true)
	wit := map[string]any{"input": short(x), "class": cls, "parsed_ns": int64(d)}
	if want != nil && *want != d {
		wit["want_ns"] = int64(*want)
		e.r.Violation(p+"/value/"+cls, "parsed duration differs from the value written", wit)
	}
	for _, ie := range []bool{false, true} {
		var s string
		if !e.guard("MarshalDuration", cls, x, func() { s = confparse.MarshalDuration(d, ie) }) {
			continue
		}
		var d2 time.Duration
		var err2 error
		if !e.guard(p, "formatted", s, func() { d2, err2 = confparse.ParseDuration(s) }) {
			continue
		}
		e.r.Count("duration_roundtrips", 1)
		if err2 != nil || d2 != d {
			wit["formatted"], wit["ignore_empty"], wit["reparsed_ns"], wit["reparse_err"] = s, ie, int64(d2), fmt.Sprint(err2)
			e.r.Violation("MarshalDuration/roundtrip", "parse(format(parse(x))) != parse(x)", wit)
		}
	}
}

func (e *env) durations(rng *rand.Rand, n int) {
	e.duration("", "empty", new(time.Duration))
	for _, a := range e.adv {
		e.duration(a, "adversarial", nil)
	}
	units := []struct {
		s string
		d int64
	}{{"h", int64(time.Hour)}, {"m", int64(time.Minute)}, {"s", int64(time.Second)}, {"ms", int64(time.Millisecond)}, {"us", int64(time.Microsecond)}, {"µs", int64(time.Microsecond)}, {"μs", int64(time.Microsecond)}, {"ns", 1}}
	for i := 0; i < n; i++ {
		var sb strings.Builder
		total := new(big.Int)
		neg := rng.IntN(4) == 0
		if neg {
			sb.WriteByte('-')
		} else if rng.IntN(10) == 0 {
			sb.WriteByte('+')
		}
		k := 1 + rng.IntN(4)
		for j := 0; j < k; j++ {
			u := units[rng.IntN(len(units))]
			var v int64
			switch rng.IntN(4) {
			case 0:
				v = rng.Int64N(10)
			case 1:
				v = rng.Int64N(100000)
			case 2:
				v = rng.Int64N(1 << 40)
			default:
				v = rng.Int64N(3000)
			}
			sb.WriteString(strconv.FormatInt(v, 10))
			sb.WriteString(u.s)
			total.Add(total, new(big.Int).Mul(big.NewInt(v), big.NewInt(u.d)))
		}
		if neg {
			total.Neg(total)
		}
		var want *time.Duration
		cls := "structured-int-overflow"
		if total.IsInt64() {
			w := time.Duration(total.Int64())
			want = &w
			cls = "structured-int"
		}
		e.duration(sb.String(), cls, want)
		if i%4 == 0 {
			// fractional form: value unknown to the harness, round trip only
			e.duration(fmt.Sprintf("%d.%d%s", rng.IntN(1000), rng.IntN(100000), units[rng.IntN(len(units))].s), "structured-fraction", nil)
		}
		if i%10 == 0 {
			e.duration(g12util.Garbage(rng), "garbage", nil)
		}
	}
	e.duration(strings.Repeat("1", 1<<20)+"h", "1MiB", nil)
	e.duration(strings.Repeat("1h", 1<<19), "1MiB", nil)
	e.duration("0."+strings.Repeat("0", 1<<20)+"1s", "1MiB", nil)
}

// --------------------------------------------------------------- protocol ids

// validUTF8 is an independent RFC 3629 validator.
func validUTF8(s string) bool {
	b := []byte(s)
	for i := 0; i < len(b); {
		c := b[i]
		var n int
		var lo, hi byte = 0x80, 0xBF
		switch {
		case c <= 0x7F:
			i++
			continue
		case c >= 0xC2 && c <= 0xDF:
			n = 1
		case c == 0xE0:
			n, lo = 2, 0xA0
		case c >= 0xE1 && c <= 0xEC, c == 0xEE, c == 0xEF:
			n = 2
		case c == 0xED:
			n, hi = 2, 0x9F
		case c == 0xF0:
			n, lo = 3, 0x90
		case c >= 0xF1 && c <= 0xF3:
			n = 3
		case c == 0xF4:
			n, hi = 3, 0x8F
		default:
			return false
		}
		if i+n >= len(b) {
			return false
		}
		if b[i+1] < lo || b[i+1] > hi {
			return false
		}
		for j := 2; j <= n; j++ {
			if b[i+j] < 0x80 || b[i+j] > 0xBF {
				return false
			}
		}
		i += n + 1
	}
	return true
}

func (e *env) protocolID(x, cls string) {
	const p = "ParseProtocolID"
	wantOK := x != "" && validUTF8(x)
	for _, allowEmpty := range []bool{false, true} {
		var id protocol.ID
		var err error
		if !e.guard(p, cls, x, func() { id, err = confparse.ParseProtocolID(x, allowEmpty) }) {
			e.done(p, cls, x, false)
			continue
		}
		want := wantOK || (allowEmpty && x == "")
		e.done(p, cls, x, err == nil)
		wit := map[string]any{"input": short(x), "input_hex": vf.Hex([]byte(x)), "allow_empty": allowEmpty, "err": fmt.Sprint(err), "class": cls}
		switch {
		case err == nil && !want:
			e.r.Violation(p+"/accepted-invalid/"+cls, "protocol id accepted although empty or not valid UTF-8", wit)
		case err != nil && want:
			e.r.Violation(p+"/rejected-valid/"+cls, "non-empty valid UTF-8 protocol id rejected", wit)
		case err == nil && string(id) != x:
			e.r.Violation(p+"/value/"+cls, "parsed protocol id differs from input", wit)
		case err == nil:
			// round trip through String()
			id2, err2 := confparse.ParseProtocolID(id.String(), allowEmpty)
			if err2 != nil || id2 != id {
				e.r.Violation(p+"/roundtrip", "protocol id does not round-trip", wit)
			}
		}
		var verr, v2 error
		if e.guard("ValidateProtocolID", cls, x, func() { verr = confparse.ValidateProtocolID(x, allowEmpty) }) && (verr == nil) != want {
			e.r.Violation("ValidateProtocolID/mismatch/"+cls, "ValidateProtocolID disagrees with the acceptance rule", wit)
		}
		if !allowEmpty && e.guard("protocol.ID.Validate", cls, x, func() { v2 = protocol.ID(x).Validate() }) && (v2 == nil) != want {
			e.r.Violation("protocol.ID.Validate/mismatch/"+cls, "protocol.ID.Validate disagrees with the acceptance rule", wit)
		}
	}
}

func (e *env) protocolIDs(rng *rand.Rand, n int) {
	e.protocolID("", "empty")
	for _, a := range e.adv {
		e.protocolID(a, "adversarial")
	}
	valid := []string{"bifrost/stream", "/x/1.0.0", "a", "é", "日本語/プロトコル", "🙂", "a b", "a\x00b", "\x7f", "\u0080", "�", "\U0010ffff", "퟿", ""}
	invalid := []string{"\x80", "\xbf", "\xc0\x80", "\xc1\xbf", "\xc2", "a\xc2", "\xe0\x80\x80", "\xe0\x9f\xbf", "\xed\xa0\x80", "\xed\xbf\xbf", "\xf0\x80\x80\x80", "\xf0\x8f\xbf\xbf", "\xf4\x90\x80\x80", "\xf5\x80\x80\x80", "\xf8\x88\x80\x80\x80", "\xfe", "\xff", "ok\xe2\x82", "\xe2\x82", "\xf0\x9f\x99", "abc\xffdef"}
	for _, v := range valid {
		e.protocolID(v, "valid")
	}
	for _, v := range invalid {
		e.protocolID(v, "invalid-utf8")
	}
	for i := 0; i < n; i++ {
		switch rng.IntN(4) {
		case 0:
			e.protocolID(string(g12util.RandBytes(rng, 1+rng.IntN(6))), "random-bytes")
		case 1:
			e.protocolID(g12util.RandFrom(rng, "abcxyz/.-_0129é日🙂 ", 1+rng.IntN(20)), "random-utf8")
		case 2:
			// valid string with one byte damaged
			s := []byte(g12util.RandFrom(rng, "aé日🙂/", 2+rng.IntN(8)))
			s[rng.IntN(len(s))] ^= byte(1 << rng.UintN(8))
			e.protocolID(string(s), "damaged-utf8")
		default:
			e.protocolID(g12util.Garbage(rng), "garbage")
		}
	}
	e.protocolID(strings.Repeat("é", 1<<19), "1MiB")
	e.protocolID(strings.Repeat("é", 1<<19)+"\xff", "1MiB")

	// lists
	for i := 0; i < n/10; i++ {
		k := rng.IntN(6)
		var in []string
		allOK := true
		for j := 0; j < k; j++ {
			var s string
			switch rng.IntN(6) {
			case 0:
				s = invalid[rng.IntN(len(invalid))]
			case 1:
				s = ""
			default:
				s = valid[rng.IntN(4)]
			}
			in = append(in, s)
		}
		for _, allowEmpty := range []bool{false, true} {
			allOK = true
			for _, s := range in {
				if !(s != "" && validUTF8(s)) && !(allowEmpty && s == "") {
					allOK = false
				}
			}
			var out, outU []protocol.ID
			var err, errU error
			desc := fmt.Sprintf("%q", in)
			if !e.guard("ParseProtocolIDs", "list", desc, func() {
				out, err = confparse.ParseProtocolIDs(in, allowEmpty)
				outU, errU = confparse.ParseProtocolIDsUnique(in, allowEmpty)
			}) {
				continue
			}
			e.done("ParseProtocolIDs", "list", desc+fmt.Sprint(allowEmpty), err == nil)
			wit := map[string]any{"input": desc, "allow_empty": allowEmpty, "out": fmt.Sprintf("%q", out), "out_unique": fmt.Sprintf("%q", outU), "err": fmt.Sprint(err), "err_unique": fmt.Sprint(errU)}
			if (err == nil) != allOK || (errU == nil) != allOK {
				e.r.Violation("ParseProtocolIDs/accept", "list accepted/rejected against the per-id rule", wit)
				continue
			}
			if !allOK {
				continue
			}
			var wantU []string
			seen := map[string]bool{}
			for _, s := range in {
				if !seen[s] {
					seen[s] = true
					wantU = append(wantU, s)
				}
			}
			if fmt.Sprintf("%q", protocol.IDsToString(out)) != fmt.Sprintf("%q", append([]string{}, in...)) {
				e.r.Violation("ParseProtocolIDs/value", "list output differs from input", wit)
			}
			if fmt.Sprintf("%q", protocol.IDsToString(outU)) != fmt.Sprintf("%q", append([]string{}, wantU...)) {
				e.r.Violation("ParseProtocolIDsUnique/value", "unique list is not the first-occurrence de-duplication of the input", wit)
			}
		}
	}
}

// ---------------------------------------------------------------- tpt addrs

func (e *env) tptAddr(x, cls string) {
	const p = "ParseTptAddr"
	var tid, addr string
	var err error
	if !e.guard(p, cls, x, func() { tid, addr, err = tptaddr.ParseTptAddr(x) }) {
		e.done(p, cls, x, false)
		return
	}
	// reference: split at the first '|'
	i := -1
	for k := 0; k < len(x); k++ {
		if x[k] == '|' {
			i = k
			break
		}
	}
	want := i > 0 && i < len(x)-1
	e.done(p, cls, x, err == nil)
	wit := map[string]any{"input": short(x), "transport_id": short(tid), "addr": short(addr), "err": fmt.Sprint(err)}
	switch {
	case (err == nil) != want:
		e.r.Violation(p+"/accept/"+cls, "accepted <=> '|' with non-empty text on both sides of the first '|' does not hold", wit)
	case err == nil && (tid != x[:i] || addr != x[i+1:]):
		e.r.Violation(p+"/split/"+cls, "not split at the first '|'", wit)
	case err == nil:
		// round trip: join and parse again
		t2, a2, err2 := tptaddr.ParseTptAddr(tid + "|" + addr)
		if err2 != nil || t2 != tid || a2 != addr {
			e.r.Violation(p+"/roundtrip", "transport address does not round-trip", wit)
		}
	case err != nil && (tid != "" || addr != ""):
		e.r.Violation(p+"/error-with-value", "error returned together with non-empty parts", wit)
	}
}

func (e *env) tptAddrs(rng *rand.Rand, n int) {
	// exhaustive over a small alphabet up to length 6
	alpha := []byte{'a', '|', '/'}
	var rec func(prefix []byte, depth int)
	rec = func(prefix []byte, depth int) {
		e.tptAddr(string(prefix), "enumerated")
		if depth == 0 {
			return
		}
		for _, c := range alpha {
			rec(append(append([]byte{}, prefix...), c), depth-1)
		}
	}
	rec(nil, 6)
	for _, a := range e.adv {
		e.tptAddr(a, "adversarial")
	}
	for i := 0; i < n; i++ {
		switch rng.IntN(3) {
		case 0:
			e.tptAddr(g12util.RandFrom(rng, "udp|ws:/.0123456789[]é\x00 ", rng.IntN(30)), "structured")
		case 1:
			e.tptAddr(g12util.RandFrom(rng, "abc", 1+rng.IntN(5))+"|"+g12util.Garbage(rng), "structured")
		default:
			e.tptAddr(g12util.Garbage(rng), "garbage")
		}
	}
	e.tptAddr(strings.Repeat("a", 1<<20), "1MiB")
	e.tptAddr(strings.Repeat("a", 1<<19)+"|"+strings.Repeat("|", 1<<19), "1MiB")
}

// ------------------------------------------------------ static address lists

const (
	kGood = iota
	kBad
	kAmbiguous
)

type aentry struct {
	raw  string
	kind int
	peer string // canonical peer string (good / ambiguous)
	addr string // address as given (good / ambiguous)
	why  string
}

func (e *env) addrUniverse(rng *rand.Rand) (peers []string, addrs []string) {
	for i := 0; i < 3; i++ {
		peers = append(peers, e.pool[i].String())
	}
	addrs = []string{"udp|127.0.0.1:5000", "udp|[::1]:5000", "ws|wss://relay.example.org/bifrost?x=1|y", "inproc|a b"}
	return
}

func (e *env) genEntry(rng *rand.Rand, peers, addrs []string) aentry {
	pads := []string{"", "", "", " ", "  ", "\t", " \n"}
	pad := func() string { return pads[rng.IntN(len(pads))] }
	pr := peers[rng.IntN(len(peers))]
	ad := addrs[rng.IntN(len(addrs))]
	switch rng.IntN(12) {
	case 0: // no delimiter at all
		return aentry{raw: pad() + pr + pad(), kind: kBad, why: "no delimiter"}
	case 1: // only one delimiter: peer|address-without-transport
		return aentry{raw: pr + "|" + strings.ReplaceAll(ad, "|", ":"), kind: kBad, why: "one delimiter"}
	case 2: // invalid peer id (characters outside the base58 alphabet)
		bad := []string{"0", "O0Il", "not-a-peer!", pr[:len(pr)-1] + "0", "l" + pr[1:], pr + "!", pr[:10] + " " + pr[10:]}[rng.IntN(7)]
		return aentry{raw: pad() + bad + pad() + "|" + ad, kind: kBad, why: "invalid peer"}
	case 3: // empty peer id
		return aentry{raw: pad() + "|" + ad, kind: kBad, why: "empty peer"}
	case 4: // empty transport or address part: not judged either way
		a := []string{"|" + "127.0.0.1:1", "udp|", "|"}[rng.IntN(3)]
		return aentry{raw: pr + "|" + a, kind: kAmbiguous, peer: pr, addr: a, why: "empty part"}
	case 5:
		return aentry{raw: "", kind: kBad, why: "empty entry"}
	default:
		return aentry{raw: pad() + pr + pad() + "|" + pad() + ad + pad(), kind: kGood, peer: pr, addr: ad}
	}
}

func (e *env) addressList(list []aentry, cls string) {
	const p = "ParsePeerAddressMap"
	in := make([]string, len(list))
	for i, en := range list {
		in[i] = en.raw
	}
	desc := fmt.Sprintf("%q", in)
	var got map[string][]string
	var errs []error
	if !e.guard(p, cls, desc, func() { got, errs = tptaddr_static.ParsePeerAddressMap(in) }) {
		e.done(p, cls, desc, false)
		return
	}
	required := map[string]map[string]bool{}
	allowed := map[string]map[string]bool{}
	nBad, nAmb, nGood := 0, 0, 0
	for _, en := range list {
		switch en.kind {
		case kBad:
			nBad++
		case kAmbiguous:
			nAmb++
			if allowed[en.peer] == nil {
				allowed[en.peer] = map[string]bool{}
			}
			allowed[en.peer][en.addr] = true
		case kGood:
			nGood++
			if allowed[en.peer] == nil {
				allowed[en.peer] = map[string]bool{}
			}
			if required[en.peer] == nil {
				required[en.peer] = map[string]bool{}
			}
			allowed[en.peer][en.addr] = true
			required[en.peer][en.addr] = true
		}
	}
	e.done(p, cls, desc, nGood > 0)
	e.r.Count("address_entries_good", nGood)
	e.r.Count("address_entries_malformed", nBad)
	e.r.Count("address_entries_unjudged", nAmb)
	wit := map[string]any{"input": in, "got": got, "errors": len(errs), "malformed_given": nBad, "unjudged_given": nAmb}
	if len(errs) < nBad || len(errs) > nBad+nAmb {
		e.r.Violation(p+"/error-count", "number of reported errors differs from the number of malformed entries", wit)
	}
	for pr, lst := range got {
		if allowed[pr] == nil {
			wit["peer"] = pr
			e.r.Violation(p+"/extra-peer", "a peer appears in the map that has no address in the list", wit)
			continue
		}
		for i, a := range lst {
			if !allowed[pr][a] {
				wit["peer"], wit["addr"] = pr, a
				e.r.Violation(p+"/extra-address", "an address appears that was not given for that peer", wit)
			}
			if i > 0 && !(lst[i-1] < a) {
				wit["peer"] = pr
				e.r.Violation(p+"/not-sorted-unique", "address list is not strictly increasing (sorted, duplicate-free)", wit)
			}
		}
	}
	for pr, req := range required {
		have := map[string]bool{}
		for _, a := range got[pr] {
			have[a] = true
		}
		for a := range req {
			if !have[a] {
				wit["peer"], wit["addr"] = pr, a
				e.r.Violation(p+"/missing-address", "an address given for a peer is missing from its set", wit)
			}
		}
	}
	// the controller built from the same list: refuses iff something was reported
	if nAmb == 0 {
		var cerr error
		if e.guard("tptaddr_static.NewController", cls, desc, func() {
			_, cerr = tptaddr_static.NewController(&tptaddr_static.Config{Addresses: in})
		}) && (cerr != nil) != (nBad > 0) {
			wit["controller_err"] = fmt.Sprint(cerr)
			e.r.Violation("tptaddr_static.NewController/accept", "controller construction accepted a malformed list or refused a well-formed one", wit)
		}
	}
}

func (e *env) addressLists(rng *rand.Rand, n int) {
	peers, addrs := e.addrUniverse(rng)
	// systematic: every list of length <= 3 over a fixed universe of 9 entries
	var uni []aentry
	for _, pr := range peers {
		for _, ad := range addrs[:2] {
			uni = append(uni, aentry{raw: pr + "|" + ad, kind: kGood, peer: pr, addr: ad})
		}
	}
	uni = append(uni,
		aentry{raw: peers[0], kind: kBad},
		aentry{raw: peers[1] + "|justone", kind: kBad},
		aentry{raw: "0OIl|" + addrs[0], kind: kBad})
	e.addressList(nil, "enumerated")
	for _, a := range uni {
		e.addressList([]aentry{a}, "enumerated")
		for _, b := range uni {
			e.addressList([]aentry{a, b}, "enumerated")
			for _, c := range uni {
				e.addressList([]aentry{a, b, c}, "enumerated")
			}
		}
	}
	for i := 0; i < n; i++ {
		k := rng.IntN(13)
		lst := make([]aentry, k)
		for j := range lst {
			lst[j] = e.genEntry(rng, peers, addrs)
		}
		e.addressList(lst, "sampled")
	}
	// adversarial / garbage entries: totality only (kinds unknown => no list oracle)
	for i := 0; i < n/4; i++ {
		var in []string
		for j := rng.IntN(5); j >= 0; j-- {
			if rng.IntN(2) == 0 {
				in = append(in, e.adv[rng.IntN(len(e.adv))])
			} else {
				in = append(in, g12util.Garbage(rng))
			}
		}
		desc := fmt.Sprintf("%q", in)
		ok := e.guard("ParsePeerAddressMap", "garbage", desc, func() { _, _ = tptaddr_static.ParsePeerAddressMap(in) })
		e.done("ParsePeerAddressMap", "garbage", desc, false && ok)
	}
	big := []string{strings.Repeat("a", 1<<20), peers[0] + "|" + strings.Repeat("|", 1<<20)}
	e.guard("ParsePeerAddressMap", "1MiB", "1MiB", func() { _, _ = tptaddr_static.ParsePeerAddressMap(big) })
}

// ------------------------------------------------------------------ peer ids

func (e *env) peerID(x, cls string, want peer.ID) {
	const p = "ParsePeerID"
	var id peer.ID
	var err error
	if !e.guard(p, cls, x, func() { id, err = confparse.ParsePeerID(x) }) || err != nil {
		e.done(p, cls, x, false)
		e.guard("ValidatePeerID", cls, x, func() { _ = confparse.ValidatePeerID(x) })
		return
	}
	e.done(p, cls, x, true)
	wit := map[string]any{"input": short(x), "class": cls, "parsed_hex": vf.Hex([]byte(id))}
	if want != "" && id != want {
		e.r.Violation(p+"/value/"+cls, "parsed peer id differs from the identity it was formatted from", wit)
	}
	if x == "" {
		if id != "" {
			e.r.Violation(p+"/empty", "empty string parsed to a non-empty peer id", wit)
		}
		return
	}
	var s string
	if !e.guard("peer.ID.String", cls, x, func() { s = id.String() }) {
		return
	}
	id2, err2 := confparse.ParsePeerID(s)
	e.r.Count("peerid_roundtrips", 1)
	if err2 != nil || id2 != id {
		wit["formatted"], wit["reparse_err"] = s, fmt.Sprint(err2)
		e.r.Violation(p+"/roundtrip", "parse(format(parse(x))) != parse(x)", wit)
	}
	var verr error
	if e.guard("ValidatePeerID", cls, x, func() { verr = confparse.ValidatePeerID(x) }) && verr != nil {
		wit["validate_err"] = verr.Error()
		e.r.Violation("ValidatePeerID/mismatch", "ValidatePeerID rejects a non-empty id that ParsePeerID accepts", wit)
	}
}

const b58alpha = "123456789ABCDEFGHJKLMNPQRSTUVWXYZabcdefghijkmnopqrstuvwxyz"

func mutateString(rng *rand.Rand, s, alphabet string) string {
	if s == "" {
		return s
	}
	pos := rng.IntN(len(s))
	switch rng.IntN(5) {
	case 0:
		return s[:pos] + s[pos+1:]
	case 1:
		return s[:pos] + string(alphabet[rng.IntN(len(alphabet))]) + s[pos:]
	case 2:
		return s[:pos] + string(alphabet[rng.IntN(len(alphabet))]) + s[pos+1:]
	case 3:
		return s[:pos]
	default:
		return s[:pos] + string("0OIl !\x00é"[rng.IntN(8)]) + s[pos+1:]
	}
}

func (e *env) peerIDs(rng *rand.Rand, n int) {
	e.peerID("", "empty", "")
	for _, a := range e.adv {
		e.peerID(a, "adversarial", "")
	}
	for _, id := range e.pool {
		e.peerID(id.String(), "valid", id.ID)
		e.peerID(" "+id.String(), "padded", "")
	}
	for i := 0; i < n; i++ {
		id := e.pool[rng.IntN(len(e.pool))]
		switch rng.IntN(4) {
		case 0, 1:
			e.peerID(mutateString(rng, id.String(), b58alpha), "near-valid", "")
		case 2:
			// some other well-formed multihash in base58
			mh := append([]byte{byte(rng.IntN(32)), byte(rng.IntN(40))}, g12util.RandBytes(rng, rng.IntN(40))...)
			e.peerID(b58.Encode(mh), "random-multihash", "")
		default:
			e.peerID(g12util.Garbage(rng), "garbage", "")
		}
	}
	e.peerID(strings.Repeat("z", e.r.N(1<<13, 1<<15)), "large", "")
	e.peerID(strings.Repeat("1", 1<<13), "large", "")

	// lists
	for i := 0; i < n/10; i++ {
		k := rng.IntN(6)
		var in []string
		var want []peer.ID
		wantU := []peer.ID{}
		seen := map[peer.ID]bool{}
		valid, hasEmpty := true, false
		for j := 0; j < k; j++ {
			id := e.pool[rng.IntN(3)]
			switch rng.IntN(8) {
			case 0:
				in = append(in, "")
				hasEmpty = true
			case 1:
				in = append(in, "0OIl")
				valid = false
			default:
				in = append(in, id.String())
				want = append(want, id.ID)
				if !seen[id.ID] {
					seen[id.ID] = true
					wantU = append(wantU, id.ID)
				}
			}
		}
		for _, allowEmpty := range []bool{false, true} {
			var out, outU []peer.ID
			var err, errU error
			desc := fmt.Sprintf("%q/%v", in, allowEmpty)
			if !e.guard("ParsePeerIDs", "list", desc, func() {
				out, err = confparse.ParsePeerIDs(in, allowEmpty)
				outU, errU = confparse.ParsePeerIDsUnique(in, allowEmpty)
			}) {
				continue
			}
			wantOK := valid && (allowEmpty || !hasEmpty)
			e.done("ParsePeerIDs", "list", desc, err == nil)
			wit := map[string]any{"input": in, "allow_empty": allowEmpty, "err": fmt.Sprint(err), "err_unique": fmt.Sprint(errU), "out": fmt.Sprint(out), "out_unique": fmt.Sprint(outU)}
			if (err == nil) != wantOK || (errU == nil) != wantOK {
				e.r.Violation("ParsePeerIDs/accept", "peer id list accepted/rejected against the per-id rule", wit)
				continue
			}
			if wantOK && (fmt.Sprint(out) != fmt.Sprint(append([]peer.ID{}, want...)) || fmt.Sprint(outU) != fmt.Sprint(wantU)) {
				e.r.Violation("ParsePeerIDs/value", "peer id list output differs from the ids given (in order; unique = first occurrences)", wit)
			}
		}
	}
}

// ---------------------------------------------------------------------- keys

func (e *env) privKey(x, cls string, want crypto.PrivKey) {
	const p = "ParsePrivateKey"
	var k crypto.PrivKey
	var err error
	if !e.guard(p, cls, x, func() { k, err = confparse.ParsePrivateKey(x) }) || err != nil || k == nil {
		e.done(p, cls, x, false)
		if err == nil && strings.TrimSpace(x) != "" && want != nil {
			e.r.Violation(p+"/absent/"+cls, "a formatted private key parsed to (nil, nil)", map[string]any{"input": short(x)})
		}
		return
	}
	e.done(p, cls, x, true)
	wit := map[string]any{"input": short(x), "class": cls}
	if want != nil && !k.Equals(want) {
		e.r.Violation(p+"/value/"+cls, "parsed private key differs from the key that was formatted", wit)
	}
	// b58 and PEM formatters
	var s string
	var pm []byte
	var e1, e2 error
	if !e.guard("MarshalPrivateKey", cls, x, func() { s, e1 = confparse.MarshalPrivateKey(k); pm, e2 = confparse.MarshalPrivateKeyPEM(k) }) {
		return
	}
	if e1 != nil || e2 != nil {
		wit["marshal_err"] = fmt.Sprint(e1, e2)
		e.r.Violation("MarshalPrivateKey/error", "an accepted private key cannot be formatted", wit)
		return
	}
	for form, txt := range map[string]string{"b58": s, "pem": string(pm)} {
		var k2 crypto.PrivKey
		var err2 error
		if !e.guard(p, "formatted-"+form, txt, func() { k2, err2 = confparse.ParsePrivateKey(txt) }) {
			continue
		}
		e.r.Count("privkey_roundtrips_"+form, 1)
		if err2 != nil || k2 == nil || !k2.Equals(k) {
			wit["form"], wit["formatted"], wit["reparse_err"] = form, txt, fmt.Sprint(err2)
			e.r.Violation("MarshalPrivateKey/roundtrip/"+form, "parse(format(parse(x))) != parse(x)", wit)
		}
	}
	var k3 crypto.PrivKey
	var err3 error
	if e.guard("ParsePrivateKeyPEM", cls, string(pm), func() { k3, err3 = confparse.ParsePrivateKeyPEM(pm) }) && (err3 != nil || k3 == nil || !k3.Equals(k)) {
		e.r.Violation("MarshalPrivateKeyPEM/roundtrip", "PEM private key does not round-trip", wit)
	}
}

func (e *env) pubKey(x, cls string, want crypto.PubKey) {
	const p = "ParsePublicKey"
	var k crypto.PubKey
	var err error
	if !e.guard(p, cls, x, func() { k, err = confparse.ParsePublicKey(x) }) || err != nil || k == nil {
		e.done(p, cls, x, false)
		e.guard("ValidatePubKey", cls, x, func() { _ = confparse.ValidatePubKey(x, "") })
		if err == nil && strings.TrimSpace(x) != "" && want != nil {
			e.r.Violation(p+"/absent/"+cls, "a formatted public key parsed to (nil, nil)", map[string]any{"input": short(x)})
		}
		return
	}
	e.done(p, cls, x, true)
	wit := map[string]any{"input": short(x), "class": cls}
	if want != nil && !k.Equals(want) {
		e.r.Violation(p+"/value/"+cls, "parsed public key differs from the key that was formatted", wit)
	}
	var s string
	var pm []byte
	var e1, e2 error
	if !e.guard("MarshalPublicKey", cls, x, func() { s, e1 = confparse.MarshalPublicKey(k); pm, e2 = confparse.MarshalPublicKeyPEM(k) }) {
		return
	}
	if e1 != nil || e2 != nil {
		wit["marshal_err"] = fmt.Sprint(e1, e2)
		e.r.Violation("MarshalPublicKey/error", "an accepted public key cannot be formatted", wit)
		return
	}
	for form, txt := range map[string]string{"b58": s, "pem": string(pm)} {
		var k2 crypto.PubKey
		var err2 error
		if !e.guard(p, "formatted-"+form, txt, func() { k2, err2 = confparse.ParsePublicKey(txt) }) {
			continue
		}
		e.r.Count("pubkey_roundtrips_"+form, 1)
		if err2 != nil || k2 == nil || !k2.Equals(k) {
			wit["form"], wit["formatted"], wit["reparse_err"] = form, txt, fmt.Sprint(err2)
			e.r.Violation("MarshalPublicKey/roundtrip/"+form, "parse(format(parse(x))) != parse(x)", wit)
		}
	}
	var k3 crypto.PubKey
	var err3 error
	if e.guard("ParsePublicKeyPEM", cls, string(pm), func() { k3, err3 = confparse.ParsePublicKeyPEM(pm) }) && (err3 != nil || k3 == nil || !k3.Equals(k)) {
		e.r.Violation("MarshalPublicKeyPEM/roundtrip", "PEM public key does not round-trip", wit)
	}
}

func (e *env) keysSection(rng *rand.Rand, n int) {
	for _, a := range e.adv {
		e.privKey(a, "adversarial", nil)
		e.pubKey(a, "adversarial", nil)
		e.guard("ParsePrivateKeyPEM", "adversarial", a, func() { _, _ = confparse.ParsePrivateKeyPEM([]byte(a)) })
		e.guard("ParsePublicKeyPEM", "adversarial", a, func() { _, _ = confparse.ParsePublicKeyPEM([]byte(a)) })
	}
	type forms struct{ privB58, privPEM, pubB58, pubPEM string }
	var all []forms
	for idx, id := range e.pool {
		// formatted independently of confparse / keypem
		pd, _ := crypto.MarshalPrivateKey(id.Priv)
		ud, _ := crypto.MarshalPublicKey(id.Pub)
		f := forms{
			privB58: b58.Encode(pd),
			privPEM: string(pem.EncodeToMemory(&pem.Block{Type: "LIBP2P PRIVATE KEY", Bytes: pd})),
			pubB58:  b58.Encode(ud),
			pubPEM:  string(pem.EncodeToMemory(&pem.Block{Type: "LIBP2P PUBLIC KEY", Bytes: ud})),
		}
		all = append(all, f)
		e.privKey(f.privB58, "valid-b58", id.Priv)
		e.privKey(f.privPEM, "valid-pem", id.Priv)
		e.privKey("  "+f.privB58+"\n", "valid-b58-padded", id.Priv)
		e.privKey("\n"+f.privPEM+"  ", "valid-pem-padded", id.Priv)
		e.pubKey(f.pubB58, "valid-b58", id.Pub)
		e.pubKey(f.pubPEM, "valid-pem", id.Pub)
		e.pubKey(" "+f.pubB58+" ", "valid-b58-padded", id.Pub)
		// a private key where a public key is expected: PEM form is documented to be accepted
		e.pubKey(f.privPEM, "private-pem-as-public", id.Pub)
		// wrong kind: totality + round trip of whatever is accepted
		e.privKey(f.pubB58, "public-as-private", nil)
		e.privKey(f.pubPEM, "public-pem-as-private", nil)
		e.pubKey(f.privB58, "private-b58-as-public", nil)

		// ParsePeer precedence (from its doc comment): priv > pub > peer id
		other := e.pool[(idx+1)%len(e.pool)]
		for _, c := range []struct {
			priv, pub, pid string
			want     peer.ID
			wantPriv bool
			cls      string
		}{
			{f.privB58, "", "", id.ID, true, "priv"},
			{f.privPEM, other.String(), other.String(), id.ID, true, "priv-overrides"},
			{"", f.pubB58, "", id.ID, false, "pub"},
			{"", f.pubPEM, other.String(), id.ID, false, "pub-overrides"},
			{"", "", id.String(), id.ID, false, "peer-id"},
		} {
			var pr peer.Peer
			var err error
			desc := c.cls + "|" + id.String()
			if !e.guard("ParsePeer", c.cls, desc, func() { pr, err = confparse.ParsePeer(c.priv, c.pub, c.pid) }) {
				continue
			}
			e.done("ParsePeer", c.cls, desc, err == nil)
			if err != nil || pr == nil {
				e.r.Violation("ParsePeer/rejected/"+c.cls, "well-formed peer configuration rejected", map[string]any{"case": c.cls, "err": fmt.Sprint(err)})
				continue
			}
			if pr.GetPeerID() != c.want {
				e.r.Violation("ParsePeer/identity/"+c.cls, "peer built from configuration has the wrong identity", map[string]any{"case": c.cls, "got": pr.GetPeerID().String(), "want": c.want.String()})
			}
		}
		e.guard("ParsePeer", "empty", "", func() { _, _ = confparse.ParsePeer("", "", "") })
	}
	for i := 0; i < n; i++ {
		f := all[rng.IntN(len(all))]
		switch rng.IntN(6) {
		case 0:
			e.privKey(mutateString(rng, f.privB58, b58alpha), "near-valid-b58", nil)
		case 1:
			e.privKey(mutateString(rng, f.privPEM, "ABCDEFabcdef0123+/=-\n"), "near-valid-pem", nil)
		case 2:
			e.pubKey(mutateString(rng, f.pubB58, b58alpha), "near-valid-b58", nil)
		case 3:
			e.pubKey(mutateString(rng, f.pubPEM, "ABCDEFabcdef0123+/=-\n"), "near-valid-pem", nil)
		case 4:
			// well-formed base58 of random bytes (protobuf garbage)
			s := b58.Encode(g12util.RandBytes(rng, rng.IntN(80)))
			e.privKey(s, "random-b58", nil)
			e.pubKey(s, "random-b58", nil)
		default:
			g := g12util.Garbage(rng)
			e.privKey(g, "garbage", nil)
			e.pubKey(g, "garbage", nil)
			e.guard("ParsePeer", "garbage", g, func() { _, _ = confparse.ParsePeer(g, g, g); _, _ = confparse.ParsePeer("", g, g); _, _ = confparse.ParsePeer("", "", g) })
		}
	}
	large := strings.Repeat("z", e.r.N(1<<13, 1<<15))
	e.privKey(large, "large", nil)
	e.pubKey(large, "large", nil)
	e.privKey("-----BEGIN "+strings.Repeat("A", 1<<20), "1MiB", nil)
	e.pubKey("-----BEGIN LIBP2P PUBLIC KEY-----\n"+strings.Repeat("AAAA", 1<<18)+"\n-----END LIBP2P PUBLIC KEY-----\n", "1MiB", nil)
}

// ---------------------------------------------------------------------- urls

func genURL(rng *rand.Rand) string {
	pick := func(s ...string) string { return s[rng.IntN(len(s))] }
	var sb strings.Builder
	scheme := pick("http", "https", "ws", "wss", "udp", "quic", "tcp", "bifrost+ws", "")
	hasAuthority := scheme != "" || rng.IntN(2) == 0
	if scheme != "" {
		sb.WriteString(scheme + ":")
	}
	if hasAuthority {
		sb.WriteString("//")
		sb.WriteString(pick("", "", "", "user@", "user:pass@", "us%40er:p%3Ass@", "u%20s@", ":pw@"))
		sb.WriteString(pick("example.com", "relay.example.org", "localhost", "127.0.0.1", "10.0.0.255", "[::1]", "[2001:db8::1]", "[fe80::1%25eth0]", "xn--bcher-kva.example", "a-b.c"))
		sb.WriteString(pick("", "", ":80", ":443", ":65535", ":0"))
	}
	nseg := rng.IntN(4)
	for i := 0; i < nseg; i++ {
		sb.WriteString("/")
		sb.WriteString(pick("a", "bifrost", "v1", "a%20b", "a%2Fb", "%C3%A9", "é", "a+b", "~x", "..", ".", "x;y=1", "a,b", "@", "a=b", "%7E"))
	}
	if rng.IntN(4) == 0 {
		sb.WriteString("/")
	}
	if rng.IntN(3) == 0 {
		sb.WriteString("?")
		sb.WriteString(pick("", "a=1", "a=1&b=2", "q=a%20b", "q=a+b", "x=%26", "k", "a=/&b=?", "é=1"))
	}
	if rng.IntN(4) == 0 {
		sb.WriteString("#")
		sb.WriteString(pick("", "frag", "a%20b", "a/b?c", "é"))
	}
	return sb.String()
}

func urlFields(u *url.URL) string {
	return fmt.Sprintf("scheme=%q opaque=%q user=%q host=%q path=%q epath=%q forceq=%v query=%q frag=%q efrag=%q",
		u.Scheme, u.Opaque, u.User.String(), u.Host, u.Path, u.EscapedPath(), u.ForceQuery, u.RawQuery, u.Fragment, u.EscapedFragment())
}

func (e *env) oneURL(x, cls string, structured bool) {
	const p = "ParseURL"
	var u *url.URL
	var err error
	if !e.guard(p, cls, x, func() { u, err = confparse.ParseURL(x) }) || err != nil {
		e.done(p, cls, x, false)
		e.guard("ValidateURL", cls, x, func() { _ = confparse.ValidateURL(x, true); _ = confparse.ValidateURL(x, false) })
		return
	}
	e.done(p, cls, x, u != nil)
	if u == nil {
		if x != "" {
			e.r.Violation(p+"/absent", "non-empty input parsed to (nil, nil)", map[string]any{"input": short(x)})
		}
		return
	}
	var verr error
	if e.guard("ValidateURL", cls, x, func() { verr = confparse.ValidateURL(x, false) }) && verr != nil {
		e.r.Violation("ValidateURL/mismatch", "ValidateURL rejects what ParseURL accepts", map[string]any{"input": short(x), "err": verr.Error()})
	}
	var s string
	if !e.guard("url.String", cls, x, func() { s = u.String() }) {
		return
	}
	var u2 *url.URL
	var err2 error
	if !e.guard(p, "formatted", s, func() { u2, err2 = confparse.ParseURL(s) }) {
		return
	}
	if !structured {
		return // arbitrary input: net/url quirks are not judged
	}
	if s == "" {
		// a URL with no components at all ("#") formats to the empty string,
		// which ParseURL documents as "no URL": nothing to compare.
		e.r.Count("url_formats_to_empty", 1)
		return
	}
	e.r.Count("url_roundtrips", 1)
	wit := map[string]any{"input": x, "formatted": s, "class": cls}
	if err2 != nil || u2 == nil {
		wit["reparse_err"] = fmt.Sprint(err2)
		e.r.Violation(p+"/roundtrip/reparse", "formatted URL does not parse", wit)
		return
	}
	if s2 := u2.String(); s2 != s || urlFields(u) != urlFields(u2) {
		wit["formatted_again"], wit["fields"], wit["fields_again"] = s2, urlFields(u), urlFields(u2)
		e.r.Violation(p+"/roundtrip/value", "parse(format(parse(x))) != parse(x)", wit)
	}
}

func (e *env) urls(rng *rand.Rand, n int) {
	e.oneURL("", "empty", false)
	for _, a := range e.adv {
		e.oneURL(a, "adversarial", false)
	}
	var good []string
	for i := 0; i < n; i++ {
		x := genURL(rng)
		good = append(good, x)
		e.oneURL(x, "structured", true)
		if i%5 == 0 {
			e.oneURL(mutateString(rng, x, "%:/[]@?# \x00é"), "near-valid", false)
		}
		if i%10 == 0 {
			e.oneURL(g12util.Garbage(rng), "garbage", false)
		}
	}
	e.oneURL("http://example.com/"+strings.Repeat("a", 1<<20), "1MiB", false)
	e.oneURL(strings.Repeat("%", 1<<20), "1MiB", false)
	// lists: "Removes any empty values."
	for i := 0; i < n/10; i++ {
		var in, nonEmpty []string
		for j := rng.IntN(6); j > 0; j-- {
			if rng.IntN(4) == 0 {
				in = append(in, "")
			} else {
				g := good[rng.IntN(len(good))]
				if g == "" {
					continue
				}
				in = append(in, g)
				nonEmpty = append(nonEmpty, g)
			}
		}
		for _, allowEmpty := range []bool{true, false} {
			var out []*url.URL
			var err error
			desc := fmt.Sprintf("%q/%v", in, allowEmpty)
			if !e.guard("ParseURLs", "list", desc, func() { out, err = confparse.ParseURLs(in, allowEmpty) }) {
				continue
			}
			e.done("ParseURLs", "list", desc, err == nil)
			wit := map[string]any{"input": in, "allow_empty": allowEmpty, "err": fmt.Sprint(err), "n_out": len(out)}
			wantOK := allowEmpty || len(nonEmpty) == len(in)
			if (err == nil) != wantOK {
				e.r.Violation("ParseURLs/accept", "URL list accepted/rejected against the documented rule for empty values", wit)
				continue
			}
			if err == nil {
				ok := len(out) == len(nonEmpty)
				for k := 0; ok && k < len(out); k++ {
					single, _ := url.Parse(nonEmpty[k])
					ok = out[k] != nil && single != nil && out[k].String() == single.String()
				}
				if !ok {
					e.r.Violation("ParseURLs/value", "URL list output is not the non-empty inputs in order", wit)
				}
			}
		}
	}
}

// ------------------------------------------------------------------- regexps

func (e *env) regexps(rng *rand.Rand, n int) {
	const p = "ParseRegexp"
	one := func(x, cls string) {
		var ok bool
		if !e.guard(p, cls, x, func() {
			re, err := confparse.ParseRegexp(x)
			ok = err == nil && re != nil
			if ok {
				// round trip via String()
				re2, err2 := confparse.ParseRegexp(re.String())
				if err2 != nil || re2 == nil || re2.String() != re.String() {
					e.r.Violation(p+"/roundtrip", "compiled expression does not round-trip through String()", map[string]any{"input": short(x)})
				}
			} else if err == nil && x != "" {
				e.r.Violation(p+"/absent", "non-empty expression parsed to (nil, nil)", map[string]any{"input": short(x)})
			}
		}) {
			ok = false
		}
		e.done(p, cls, x, ok)
	}
	one("", "empty")
	for _, a := range e.adv {
		one(a, "adversarial")
	}
	for i := 0; i < n; i++ {
		switch rng.IntN(3) {
		case 0:
			one(g12util.RandFrom(rng, "ab.*+?()[]{}|^$\\d-,019:P<>i", rng.IntN(16)), "structured")
		case 1:
			one("^"+g12util.RandFrom(rng, "abc/._-", 1+rng.IntN(10))+"(/.*)?$", "structured")
		default:
			one(g12util.Garbage(rng), "garbage")
		}
	}
	one(strings.Repeat("a", e.r.N(1<<16, 1<<20)), "large")
}

// ----------------------------------------------------------------- the check

func TestC38(t *testing.T) {
	r := vf.Start(t, "C38", vf.Exploration)
	defer r.Finish()
	r.SetRule("per parser (ParseTimestamp, ParseDuration, ParseProtocolID(s), protocol.ID.Validate, ParseTptAddr, ParsePeerAddressMap/NewController, ParsePeerID(s), ParsePrivateKey/PublicKey (b58+PEM), ParsePeer, ParseURL(s), ParseRegexp): structured valid inputs built by the harness (so the intended value is known), structured near-valid (one edit), a fixed adversarial list (NUL, invalid UTF-8, huge numbers, JSON fragments, PEM fragments, range limits), PRNG garbage, 1 MiB inputs; ParseTptAddr exhaustively over {a,|,/}^<=6; address lists exhaustively (all lists of length<=3 over 9 entries) plus sampled lists of <=12 entries over 3 peers x 4 addresses with padding/duplicates/malformed kinds. A case = one (parser,input); non-trivial = the parser accepted the input so that the round-trip / value / reference oracle ran; distinct = distinct (parser,input). Oracle: no panic ever; parse(format(parse(x)))==parse(x) for accepted x (timestamps only inside 0001..9999; URLs only for generator-built URLs); protocol id accepted <=> non-empty && valid UTF-8 (own validator); ParseTptAddr accepted <=> first '|' has non-empty text on both sides, split there; address map == per peer the sorted duplicate-free set of exactly the given addresses, malformed entries reported and not inserted.")
	r.Assume("Go stdlib (time, net/url, regexp, encoding/pem) and protobuf-go-lite are trusted; timestamps outside the protobuf Timestamp range and non-generator URLs are checked for totality only.")
	r.Assume("Address-list entries with an empty transport or address part ('peer||addr', 'peer|udp|') are not judged: they may be inserted as given or reported.")
	r.Assume("base58 decoding is quadratic: the 'huge input' for base58-based parsers is 8 KiB (quick) / 32 KiB (thorough); the other parsers get 1 MiB.")
	e := &env{r: r, adv: g12util.Adversarial()}
	e.pool = keys.Pool(r.Rand("c38/keys"), r.N(6, 24))
	q := func(quick, thorough int) int { return r.N(quick, thorough) }

	sections := []struct {
		name string
		f    func(rng *rand.Rand, n int)
		n    int
	}{
		{"timestamps", e.timestamps, q(4000, 200000)},
		{"durations", e.durations, q(2500, 150000)},
		{"protocol-ids", e.protocolIDs, q(2500, 150000)},
		{"tpt-addrs", e.tptAddrs, q(2000, 150000)},
		{"address-lists", e.addressLists, q(2000, 60000)},
		{"peer-ids", e.peerIDs, q(1500, 60000)},
		{"keys", e.keysSection, q(1000, 40000)},
		{"urls", e.urls, q(2500, 150000)},
		{"regexps", e.regexps, q(800, 30000)},
	}
	// sections are independent (own PRNG stream, no shared mutable state): run them in parallel
	r.Begin("all parser sections running in parallel (panics are recovered per input and reported with the input)")
	var wg sync.WaitGroup
	for _, s := range sections {
		wg.Add(1)
		go func() {
			defer wg.Done()
			s.f(r.Rand("c38/"+s.name), s.n)
		}()
	}
	wg.Wait()
	r.Sample(map[string]any{"parser": "ParseTimestamp", "input": "1629048153123", "means": "unix milliseconds"})
	r.Sample(map[string]any{"parser": "ParsePeerAddressMap", "input": []string{e.pool[0].String() + "| udp|127.0.0.1:5000 ", "0OIl|udp|x"}})
	r.Sample(map[string]any{"parser": "ParseURL", "input": genURL(r.Rand("c38/sample"))})
}
