// C35: RPC and HTTP lookups reach only matching services, with exact prefix
// stripping.
//
// The real RpcServiceController, InvokerController and HTTPHandlerController
// are built for every configuration of a small universe; their HandleDirective
// is called with a harness-made directive.Instance for every service id / path
// (and server id) over the alphabet {a, b, /, .}. When a resolver is returned it
// is run against a recording resolver handler and the resolved invoker /
// http.Handler is invoked once: a recorder at the bottom notes the service id /
// path it was given. The oracle is a reference matcher written from the
// constructors' documentation. MatchServeMuxPattern is compared with
// net/http.ServeMux.Handler called directly.
package c35

import (
	"context"
	"fmt"
	"net/http"
	"net/http/httptest"
	"net/url"
	"regexp"
	"strings"
	"sync"
	"testing"
	"time"

	bifrost_http "github.com/aperturerobotics/bifrost/http"
	bifrost_rpc "github.com/aperturerobotics/bifrost/rpc"
	"github.com/aperturerobotics/controllerbus/controller"
	"github.com/aperturerobotics/controllerbus/directive"
	"github.com/aperturerobotics/starpc/srpc"
	"github.com/blang/semver/v4"

	"verifharness/g11dir"
	"verifharness/vf"
)

const watchdog = 60 * time.Second

var alphabet = []string{"a", "b", "/", "."}

// words returns all strings over the alphabet with minLen <= length <= maxLen.
func words(minLen, maxLen int) []string {
	var out []string
	cur := []string{""}
	if minLen == 0 {
		out = append(out, "")
	}
	for l := 1; l <= maxLen; l++ {
		var next []string
		for _, c := range cur {
			for _, a := range alphabet {
				next = append(next, c+a)
			}
		}
		if l >= minLen {
			out = append(out, next...)
		}
		cur = next
	}
	return out
}

// prefixLists returns all lists of at most maxN prefixes taken from ps.
func prefixLists(ps []string, maxN int) [][]string {
	out := [][]string{nil}
	prev := [][]string{nil}
	for n := 1; n <= maxN; n++ {
		var next [][]string
		for _, p := range prev {
			for _, x := range ps {
				next = append(next, append(append([]string(nil), p...), x))
			}
		}
		out = append(out, next...)
		prev = next
	}
	return out
}

// rx is a regular expression of the universe together with a hand-written
// predicate of the same language (the reference does not run the regexp).
type rx struct {
	src  string
	pred func(s string) bool
}

var regexes = []rx{
	{`^a`, func(s string) bool { return strings.HasPrefix(s, "a") }},
	{`b$`, func(s string) bool { return strings.HasSuffix(s, "b") }},
	{`^a/b$`, func(s string) bool { return s == "a/b" }},
	{`\.`, func(s string) bool { return strings.Contains(s, ".") }},
	{`^[ab]*$`, func(s string) bool { return strings.Trim(s, "ab") == "" }},
	{`^/a`, func(s string) bool { return strings.HasPrefix(s, "/a") }},
}

var serverRegexes = []rx{
	{`^s1$`, func(s string) bool { return s == "s1" }},
	{`^s`, func(s string) bool { return strings.HasPrefix(s, "s") }},
}

// firstPrefix returns the first prefix of the list (list order) that s starts with.
func firstPrefix(list []string, s string) (string, bool) {
	for _, p := range list {
		if len(s) >= len(p) && s[:len(p)] == p {
			return p, true
		}
	}
	return "", false
}

func inList(list []string, s string) bool {
	for _, x := range list {
		if x == s {
			return true
		}
	}
	return false
}

// recInvoker is the bottom invoker: it records the service id it is given.
type recInvoker struct {
	mu   sync.Mutex
	seen []string
}

func (i *recInvoker) InvokeMethod(serviceID, methodID string, strm srpc.Stream) (bool, error) {
	i.mu.Lock()
	i.seen = append(i.seen, serviceID)
	i.mu.Unlock()
	return true, nil
}

func (i *recInvoker) take() []string {
	i.mu.Lock()
	defer i.mu.Unlock()
	s := i.seen
	i.seen = nil
	return s
}

// recHTTP is the bottom http handler: it records the path it is given.
type recHTTP struct {
	mu   sync.Mutex
	seen []string
}

func (h *recHTTP) ServeHTTP(rw http.ResponseWriter, req *http.Request) {
	h.mu.Lock()
	h.seen = append(h.seen, req.URL.Path)
	h.mu.Unlock()
	rw.WriteHeader(200)
}

func (h *recHTTP) take() []string {
	h.mu.Lock()
	defer h.mu.Unlock()
	s := h.seen
	h.seen = nil
	return s
}

// runResolver runs res against a recording handler until it has either
// returned or marked itself idle, and returns the values it added. stop ends
// the resolver and waits for it.
func runResolver(ctx context.Context, res directive.Resolver) (vals []directive.Value, stop func() bool, ok bool) {
	fh := g11dir.NewFakeResolverHandler()
	rctx, cancel := context.WithCancel(ctx)
	done := make(chan struct{})
	go func() {
		defer close(done)
		_ = res.Resolve(rctx, fh)
	}()
	returned := func() bool {
		select {
		case <-done:
			return true
		default:
			return false
		}
	}
	idleSeen := func() bool {
		for _, e := range fh.Events() {
			if e.Kind == "idle" && e.Idle {
				return true
			}
		}
		return false
	}
	t := time.NewTimer(watchdog)
	defer t.Stop()
	for !ok {
		if returned() || idleSeen() {
			ok = true
			break
		}
		select {
		case <-done:
		case <-fh.Notify():
		case <-t.C:
			cancel()
			return nil, func() bool { return false }, false
		}
	}
	vals = fh.Values()
	stop = func() bool {
		cancel()
		t := time.NewTimer(watchdog)
		defer t.Stop()
		select {
		case <-done:
			return true
		case <-t.C:
			return false
		}
	}
	return vals, stop, true
}

type rpcConf struct {
	prefixes []string
	strip    bool
	re       *rx
	list     []string
	serverRe *rx
}

func (c rpcConf) String() string {
	re, sre := "-", "-"
	if c.re != nil {
		re = c.re.src
	}
	if c.serverRe != nil {
		sre = c.serverRe.src
	}
	return fmt.Sprintf("prefixes=%q strip=%v re=%s list=%q serverRe=%s", c.prefixes, c.strip, re, c.list, sre)
}

type httpConf struct {
	prefixes []string
	strip    bool
	re       *rx
}

func (c httpConf) String() string {
	re := "-"
	if c.re != nil {
		re = c.re.src
	}
	return fmt.Sprintf("prefixes=%q strip=%v re=%s", c.prefixes, c.strip, re)
}

func compile(r *rx) *regexp.Regexp {
	if r == nil {
		return nil
	}
	return regexp.MustCompile(r.src)
}

func parallel(n int, jobs int, f func(i int)) {
	var wg sync.WaitGroup
	ch := make(chan int)
	for w := 0; w < n; w++ {
		wg.Add(1)
		go func() {
			defer wg.Done()
			for i := range ch {
				f(i)
			}
		}()
	}
	for i := 0; i < jobs; i++ {
		ch <- i
	}
	close(ch)
	wg.Wait()
}

func TestCheck(t *testing.T) {
	r := vf.Start(t, "C35", vf.Exploration)
	defer r.Finish()
	r.SetExhaustive(true)
	maxLen := r.N(3, 4)
	r.SetRule(fmt.Sprintf("bounded-exhaustive sub-products over the alphabet {a,b,/,.}: (1) RpcServiceController and HTTPHandlerController with every list of <=2 prefixes of length 1..2 (421 lists) x strip flag x every id/path of length <=%d; (2) the same controllers with 6 prefix lists x strip x {no regex + 6 regexes} x 7 explicit id lists (none, single, ascending, descending, mixed order, with a duplicate) x {no server regex + 2} x every id/path of length <=%d x 4 server ids; (3) InvokerController with the 421 prefix lists x every id; (4) MatchServeMuxPattern over all sets of <=2 patterns from a pool of 8 x 5 methods (incl. empty) x 11 URLs. Oracle: reference matcher from the constructor docs (prefix OR regex OR list, no filter = all, server regex must also match) <=> a resolver is returned; the resolver is run and the resolved invoker/handler invoked once: with stripping and a prefix match the recorder at the bottom must see exactly id/path minus the first matching prefix in list order, without stripping the id/path unchanged; nothing is asserted about what is seen when stripping is on and the match came only from regex/list. Regexes are judged by hand-written predicates. quick enumerates ids of length <=3, thorough <=4, both completely. Non-trivial = the real HandleDirective was called; distinct = (controller, config, id, server id). (5) NOT exhaustive (enumerated bases x variants, decorations / extra pairs / triples / orders drawn from the seeded PRNG): the real controllers registered on a real in-memory controller bus with 2 or 3 near-equal LookupHTTPHandler / LookupRpcService directives alive at the same time (15 rooted paths / 7 service ids x every variant by trailing slash(es), doubled slash, dot and dot-dot segments, case, leading slash, proper prefix, extension, identical; pairs differing only in method / host / query / client id / server id), both issue orders with every reference held, plus one drawn order in mode released (judged, released, next issued inside the unref-dispose window) or late (registrations added after the first lookup); registration sets derived from the pair so that exactly one / both / neither lookup matches (prefix lists in both orders, discriminating regex, id list, server regex, two controllers, InvokerController). Oracle: the same reference matcher applied to each lookup's OWN path / ids: values delivered to the lookup's own reference once its directive instance is idle == number of matching registrations; every delivered value is invoked with the lookup's own URL / id and each registration's recorder must have seen exactly the expected (stripped) path / id, and nothing if its filter does not match.", maxLen, maxLen))
	r.Assume("empty-string prefixes are outside the universe (a prefix list entry \"\" cannot be told apart from 'no prefix matched' by srpc.CheckStripPrefix; not demanded either way)")
	r.Assume("bus family: URLs with a host and a relative path (no leading slash) are outside the universe (url.URL.String prints them like the rooted path, so LookupHTTPHandler.IsEquivalent cannot tell them apart on the unchanged tree; not judged either way)")
	r.Assume("the caller invokes the resolved invoker / handler with the same service id / URL it looked up (as bifrost_rpc.Invoker and BusHandler do)")

	ids := words(0, maxLen)
	pfx := words(1, 2)
	allLists := prefixLists(pfx, 2)
	smallLists := [][]string{nil, {"a"}, {"a/"}, {"a", "ab"}, {"ab", "a"}, {"/a", "/"}}
	idLists := [][]string{nil, {"a"}, {"a/b", "b."}, {"b.", "a/b"}, {"b", "ab", "a"}, {"ba", "a", "b", "ab"}, {"a", "b", "a"}}
	serverIDs := []string{"", "s1", "s2", "t"}

	// harness self-check: the hand-written predicates describe the regexes.
	for _, set := range [][]rx{regexes, serverRegexes} {
		for _, x := range set {
			re := regexp.MustCompile(x.src)
			for _, s := range append(append([]string(nil), ids...), serverIDs...) {
				if re.MatchString(s) != x.pred(s) {
					t.Fatalf("harness bug: predicate for %s wrong on %q", x.src, s)
				}
			}
		}
	}

	le := g11dir.QuietLogger()
	info := controller.NewInfo("verif/c35", semver.MustParse("0.0.1"), "c35")
	ctx, cancelAll := context.WithCancel(context.Background())
	defer cancelAll()

	// ---------- RPC service controller ----------
	var rpcConfs []rpcConf
	for _, l := range allLists {
		for _, s := range []bool{false, true} {
			rpcConfs = append(rpcConfs, rpcConf{prefixes: l, strip: s})
		}
	}
	nPart1 := len(rpcConfs)
	for _, l := range smallLists {
		for _, s := range []bool{false, true} {
			for ri := -1; ri < len(regexes); ri++ {
				for _, il := range idLists {
					for si := -1; si < len(serverRegexes); si++ {
						if ri < 0 && il == nil && si < 0 {
							continue // already in part 1 when the list is there; harmless dup avoided
						}
						c := rpcConf{prefixes: l, strip: s, list: il}
						if ri >= 0 {
							c.re = &regexes[ri]
						}
						if si >= 0 {
							c.serverRe = &serverRegexes[si]
						}
						rpcConfs = append(rpcConfs, c)
					}
				}
			}
		}
	}
	r.Extra("rpc_service_configs", len(rpcConfs))

	runRPC := func(ci int) {
		c := rpcConfs[ci]
		servers := serverIDs
		if ci < nPart1 {
			servers = serverIDs[:2]
		}
		r.Begin(fmt.Sprintf("RpcServiceController{%s} x %d ids x %d servers", c, len(ids), len(servers)))
		rec := &recInvoker{}
		ctrl := bifrost_rpc.NewRpcServiceController(info, bifrost_rpc.NewRpcServiceBuilder(rec),
			append([]string(nil), c.prefixes...), c.strip, compile(c.re), append([]string(nil), c.list...), compile(c.serverRe))
		cctx, ccancel := context.WithCancel(ctx)
		defer ccancel()
		if err := ctrl.Execute(cctx); err != nil {
			r.Inconclusive("RpcServiceController.Execute: " + err.Error())
			return
		}
		for _, id := range ids {
			mp, pm := firstPrefix(c.prefixes, id)
			noFilter := len(c.prefixes) == 0 && c.re == nil && len(c.list) == 0
			svc := noFilter || pm || (c.re != nil && c.re.pred(id)) || inList(c.list, id)
			invoked := false
			for _, srv := range servers {
				want := svc && (c.serverRe == nil || c.serverRe.pred(srv))
				di := g11dir.NewFakeInstance(cctx, bifrost_rpc.NewLookupRpcService(id, srv))
				var res []directive.Resolver
				var err error
				if p, d := vf.Try(func() { res, err = ctrl.HandleDirective(cctx, di) }); p {
					r.Violation("c35/rpc-service/panic", "HandleDirective panicked: "+d, map[string]any{"config": c.String(), "service_id": id, "server_id": srv})
					continue
				}
				got := err == nil && len(res) > 0
				r.Case(fmt.Sprintf("rpcsvc|%s|%q|%q", c, id, srv), true)
				if want {
					r.Count("rpc_service_expected_match", 1)
				} else {
					r.Count("rpc_service_expected_nomatch", 1)
				}
				wit := map[string]any{"controller": "RpcServiceController", "config": c.String(), "service_id": id, "server_id": srv, "resolver_returned": got, "reference_says": want, "error": fmt.Sprint(err)}
				if got && !want {
					r.Violation("c35/rpc-service/answered-nonmatching", fmt.Sprintf("RpcServiceController{%s} answered lookup (service %q, server %q) that its filters do not match", c, id, srv), wit)
					continue
				}
				if !got && want {
					r.Violation("c35/rpc-service/ignored-matching", fmt.Sprintf("RpcServiceController{%s} did not answer lookup (service %q, server %q) that its filters match", c, id, srv), wit)
					continue
				}
				if !got || invoked {
					continue
				}
				invoked = true
				// what does the handler see?
				vals, stop, ok := runResolver(cctx, res[0])
				if !ok {
					r.Inconclusive(fmt.Sprintf("resolver of RpcServiceController{%s} for %q never became idle", c, id))
					continue
				}
				var seen []string
				var ierr error
				var found bool
				if len(vals) == 1 {
					if inv, isInv := vals[0].(srpc.Invoker); isInv {
						found, ierr = inv.InvokeMethod(id, "m", nil)
						seen = rec.take()
					}
				}
				if !stop() {
					r.Inconclusive("resolver did not stop")
				}
				wit["values"] = len(vals)
				wit["handler_saw"] = seen
				wit["invoke_found"] = found
				wit["invoke_error"] = fmt.Sprint(ierr)
				var expect string
				assert := true
				switch {
				case !c.strip:
					expect = id
				case pm:
					expect = id[len(mp):]
				case len(c.prefixes) == 0:
					// "ignored if serviceIdPrefixes is empty"
					expect = id
				default:
					assert = false // matched through regex / list only: nothing strippable, nothing asserted
				}
				if !assert {
					r.Count("rpc_service_seen_not_asserted", 1)
					continue
				}
				r.Count("rpc_service_seen_checked", 1)
				if c.strip && pm {
					r.Count("rpc_service_stripped_checked", 1)
				}
				if len(vals) != 1 {
					r.Violation("c35/rpc-service/value-count", fmt.Sprintf("RpcServiceController{%s} resolved %d values for %q", c, len(vals), id), wit)
					continue
				}
				if len(seen) != 1 || seen[0] != expect {
					kind := "unstripped-changed"
					if c.strip {
						kind = "strip-wrong"
					}
					r.Violation("c35/rpc-service/"+kind, fmt.Sprintf("RpcServiceController{%s}: lookup %q: handler saw %q, expected exactly %q", c, id, seen, expect), wit)
				}
			}
		}
	}

	// ---------- Invoker controller ----------
	runInvoker := func(li int) {
		l := allLists[li]
		r.Begin(fmt.Sprintf("InvokerController{prefixes=%q} x %d ids", l, len(ids)))
		rec := &recInvoker{}
		ctrl := bifrost_rpc.NewInvokerController(le, nil, info, rec, append([]string(nil), l...))
		for _, id := range ids {
			mp, pm := firstPrefix(l, id)
			want := len(l) == 0 || pm
			di := g11dir.NewFakeInstance(ctx, bifrost_rpc.NewLookupRpcService(id, ""))
			var res []directive.Resolver
			var err error
			if p, d := vf.Try(func() { res, err = ctrl.HandleDirective(ctx, di) }); p {
				r.Violation("c35/invoker/panic", "HandleDirective panicked: "+d, map[string]any{"prefixes": l, "service_id": id})
				continue
			}
			got := err == nil && len(res) > 0
			r.Case(fmt.Sprintf("invoker|%q|%q", l, id), true)
			wit := map[string]any{"controller": "InvokerController", "prefixes": l, "service_id": id, "resolver_returned": got, "reference_says": want}
			if got && !want {
				r.Violation("c35/invoker/answered-nonmatching", fmt.Sprintf("InvokerController{prefixes=%q} answered lookup %q", l, id), wit)
				continue
			}
			if !got && want {
				r.Violation("c35/invoker/ignored-matching", fmt.Sprintf("InvokerController{prefixes=%q} did not answer lookup %q", l, id), wit)
				continue
			}
			if !got {
				r.Count("invoker_expected_nomatch", 1)
				continue
			}
			r.Count("invoker_expected_match", 1)
			vals, stop, ok := runResolver(ctx, res[0])
			if !ok {
				r.Inconclusive("InvokerController resolver never returned")
				continue
			}
			var seen []string
			if len(vals) == 1 {
				if inv, isInv := vals[0].(srpc.Invoker); isInv {
					_, _ = inv.InvokeMethod(id, "m", nil)
					seen = rec.take()
				}
			}
			stop()
			expect := id
			if pm {
				expect = id[len(mp):] // "strips the prefix before calling invoke"
			}
			wit["handler_saw"] = seen
			r.Count("invoker_seen_checked", 1)
			if len(vals) != 1 || len(seen) != 1 || seen[0] != expect {
				r.Violation("c35/invoker/strip-wrong", fmt.Sprintf("InvokerController{prefixes=%q}: lookup %q: %d values, handler saw %q, expected exactly %q", l, id, len(vals), seen, expect), wit)
			}
		}
	}

	// ---------- HTTP handler controller ----------
	var httpConfs []httpConf
	for _, l := range allLists {
		for _, s := range []bool{false, true} {
			httpConfs = append(httpConfs, httpConf{prefixes: l, strip: s})
		}
	}
	for _, l := range smallLists {
		for _, s := range []bool{false, true} {
			for ri := 0; ri < len(regexes); ri++ {
				httpConfs = append(httpConfs, httpConf{prefixes: l, strip: s, re: &regexes[ri]})
			}
		}
	}
	r.Extra("http_handler_configs", len(httpConfs))

	runHTTP := func(ci int) {
		c := httpConfs[ci]
		r.Begin(fmt.Sprintf("HTTPHandlerController{%s} x %d paths", c, len(ids)))
		rec := &recHTTP{}
		ctrl := bifrost_http.NewHTTPHandlerController(info, bifrost_http.NewHTTPHandlerBuilder(rec),
			append([]string(nil), c.prefixes...), c.strip, compile(c.re))
		cctx, ccancel := context.WithCancel(ctx)
		defer ccancel()
		if err := ctrl.Execute(cctx); err != nil {
			r.Inconclusive("HTTPHandlerController.Execute: " + err.Error())
			return
		}
		for _, p := range ids {
			mp, pm := firstPrefix(c.prefixes, p)
			noFilter := len(c.prefixes) == 0 && c.re == nil
			want := noFilter || pm || (c.re != nil && c.re.pred(p))
			u := &url.URL{Path: p}
			di := g11dir.NewFakeInstance(cctx, bifrost_http.NewLookupHTTPHandler("GET", u, ""))
			var res []directive.Resolver
			var err error
			if pn, d := vf.Try(func() { res, err = ctrl.HandleDirective(cctx, di) }); pn {
				r.Violation("c35/http/panic", "HandleDirective panicked: "+d, map[string]any{"config": c.String(), "path": p})
				continue
			}
			got := err == nil && len(res) > 0
			r.Case(fmt.Sprintf("http|%s|%q", c, p), true)
			wit := map[string]any{"controller": "HTTPHandlerController", "config": c.String(), "path": p, "resolver_returned": got, "reference_says": want, "error": fmt.Sprint(err)}
			if got && !want {
				r.Violation("c35/http/answered-nonmatching", fmt.Sprintf("HTTPHandlerController{%s} answered lookup for path %q that its filters do not match", c, p), wit)
				continue
			}
			if !got && want {
				r.Violation("c35/http/ignored-matching", fmt.Sprintf("HTTPHandlerController{%s} did not answer lookup for path %q that its filters match", c, p), wit)
				continue
			}
			if !got {
				r.Count("http_expected_nomatch", 1)
				continue
			}
			r.Count("http_expected_match", 1)
			vals, stop, ok := runResolver(cctx, res[0])
			if !ok {
				r.Inconclusive(fmt.Sprintf("resolver of HTTPHandlerController{%s} for %q never became idle", c, p))
				continue
			}
			var seen []string
			code := 0
			if len(vals) == 1 {
				if h, isH := vals[0].(http.Handler); isH {
					rw := httptest.NewRecorder()
					req := (&http.Request{Method: "GET", URL: &url.URL{Path: p}, Header: http.Header{}}).WithContext(cctx)
					if pn, d := vf.Try(func() { h.ServeHTTP(rw, req) }); pn {
						r.Violation("c35/http/serve-panic", "resolved handler panicked: "+d, wit)
					}
					code = rw.Code
					seen = rec.take()
				}
			}
			if !stop() {
				r.Inconclusive("resolver did not stop")
			}
			wit["values"] = len(vals)
			wit["handler_saw"] = seen
			wit["status"] = code
			var expect string
			assert := true
			switch {
			case !c.strip:
				expect = p
			case pm:
				expect = p[len(mp):]
			default:
				assert = false // strip on, matched by regex or by absence of filters: nothing asserted
			}
			if !assert {
				r.Count("http_seen_not_asserted", 1)
				continue
			}
			r.Count("http_seen_checked", 1)
			if c.strip && pm {
				r.Count("http_stripped_checked", 1)
			}
			if len(vals) != 1 {
				r.Violation("c35/http/value-count", fmt.Sprintf("HTTPHandlerController{%s} resolved %d values for %q", c, len(vals), p), wit)
				continue
			}
			if len(seen) != 1 || seen[0] != expect {
				kind := "unstripped-changed"
				if c.strip {
					kind = "strip-wrong"
				}
				r.Violation("c35/http/"+kind, fmt.Sprintf("HTTPHandlerController{%s}: lookup %q: handler saw %q (status %d), expected exactly %q", c, p, seen, code, expect), wit)
			}
		}
	}

	workers := 16
	parallel(workers, len(rpcConfs), runRPC)
	parallel(workers, len(allLists), runInvoker)
	parallel(workers, len(httpConfs), runHTTP)

	// ---------- MatchServeMuxPattern ----------
	checkMux(r)

	// ---------- concurrent near-equal lookups on a real bus ----------
	checkBus(t, r)

	r.Sample(map[string]any{"controller": "RpcServiceController", "config": rpcConfs[nPart1/2].String(), "ids": len(ids)})
	r.Sample(map[string]any{"controller": "RpcServiceController", "config": rpcConfs[len(rpcConfs)-1].String(), "ids": len(ids), "servers": serverIDs})
	r.Sample(map[string]any{"controller": "HTTPHandlerController", "config": httpConfs[len(httpConfs)-1].String(), "paths": len(ids)})
	r.Sample(map[string]any{"controller": "InvokerController", "prefixes": allLists[len(allLists)-1], "ids": len(ids)})
	r.Extra("ids_or_paths", len(ids))
	r.Extra("prefix_lists", len(allLists))
}

// tagHandler is a comparable handler registered on the mux.
type tagHandler struct{ pattern string }

func (h *tagHandler) ServeHTTP(rw http.ResponseWriter, req *http.Request) {
	rw.Header().Set("X-Tag", h.pattern)
	rw.WriteHeader(200)
}

// describe serves a request with h and summarises the outcome.
func describe(h http.Handler, method string, u *url.URL) string {
	if h == nil {
		return "nil"
	}
	if th, ok := h.(*tagHandler); ok {
		return "tag:" + th.pattern
	}
	rw := httptest.NewRecorder()
	req := &http.Request{Method: method, URL: u, Header: http.Header{}}
	if p, d := vf.Try(func() { h.ServeHTTP(rw, req.WithContext(context.Background())) }); p {
		return "panic:" + d
	}
	return fmt.Sprintf("code=%d loc=%s allow=%s", rw.Code, rw.Header().Get("Location"), rw.Header().Get("Allow"))
}

func checkMux(r *vf.Run) {
	pool := []string{"/", "/a", "/a/", "/a/b", "/b/", "GET /a", "POST /a/", "GET /"}
	var sets [][]string
	sets = append(sets, nil)
	for i := range pool {
		sets = append(sets, []string{pool[i]})
		for j := i + 1; j < len(pool); j++ {
			sets = append(sets, []string{pool[i], pool[j]})
		}
	}
	methods := []string{"", "GET", "POST", "OPTIONS", "HEAD"}
	paths := []string{"/", "/a", "/a/", "/a/b", "/b", "/b/x", "/a/../b/", "//a", "/c", "/a/b/", "/a/./b"}
	for _, set := range sets {
		mux := http.NewServeMux()
		methodless := true
		bad := false
		for _, p := range set {
			if strings.Contains(p, " ") {
				methodless = false
			}
			if pn, _ := vf.Try(func() { mux.Handle(p, &tagHandler{pattern: p}) }); pn {
				bad = true
			}
		}
		if bad {
			r.Count("mux_sets_rejected_by_servemux", 1)
			continue
		}
		r.Begin(fmt.Sprintf("MatchServeMuxPattern mux=%q", set))
		for _, m := range methods {
			for _, p := range paths {
				for _, host := range []string{"", "h"} {
					u := &url.URL{Path: p, Host: host}
					dir := bifrost_http.NewLookupHTTPHandler(m, u, "")
					var gh http.Handler
					var gp string
					if pn, d := vf.Try(func() { gh, gp = bifrost_http.MatchServeMuxPattern(mux, dir) }); pn {
						r.Violation("c35/mux/panic", "MatchServeMuxPattern panicked: "+d, map[string]any{"mux": set, "method": m, "path": p})
						continue
					}
					sig := fmt.Sprintf("mux|%q|%q|%q|%q", set, m, p, host)
					refMethods := []string{m}
					if m == "" {
						if !methodless {
							// empty method against method patterns: which method the
							// lookup stands for is not specified; nothing asserted.
							r.Case(sig, false)
							r.Count("mux_not_asserted_empty_method_with_method_patterns", 1)
							continue
						}
						refMethods = []string{"GET", "POST"}
					}
					r.Case(sig, true)
					r.Count("mux_compared", 1)
					for _, rm := range refMethods {
						eh, ep := mux.Handler(&http.Request{Method: rm, URL: &url.URL{Path: p, Host: host}})
						gd, ed := describe(gh, rm, u), describe(eh, rm, u)
						if gp != ep || gd != ed {
							r.Violation("c35/mux/differs-from-servemux",
								fmt.Sprintf("MatchServeMuxPattern(mux=%q, method=%q, path=%q host=%q) = (%s, %q) but ServeMux.Handler for method %s gives (%s, %q)", set, m, p, host, gd, gp, rm, ed, ep),
								map[string]any{"mux": set, "method": m, "path": p, "host": host, "got_pattern": gp, "got": gd, "want_pattern": ep, "want": ed, "reference_method": rm})
							break
						}
					}
				}
			}
		}
	}
}
