// C35, family (5): CONCURRENT lookups on one real controller bus.
//
// Families (1)-(4) of c35_test.go ask one controller about one lookup at a
// time through a harness-made directive instance. Here the real controllers are
// registered on a real in-memory controller bus and two or three
// LookupHTTPHandler / LookupRpcService directives are alive at the same time
// (the first reference is still held - or was released a moment ago - while
// the next one is added). The lookups of a case are near-equal: their paths /
// service ids / server ids differ by a trailing slash, a doubled slash, dot
// segments, case, one being a prefix of the other, or they differ only in
// query / host / method / client id. The bus machinery (directive
// de-duplication through IsEquivalent, shared resolvers, value replay to
// later references) is part of the system under test.
//
// Oracle: the same reference matcher as in families (1)-(3), applied to every
// lookup's OWN path / ids: the values delivered to the lookup's own reference
// by the time its directive instance is idle must be exactly one per matching
// registration; every delivered handler / invoker is really invoked with the
// lookup's own URL / service id and the recorder at the bottom of each
// registration must have seen exactly that lookup's path / id minus the first
// matching prefix (strip on, prefix match), the unchanged path / id (strip off)
// and nothing at all for a registration whose filter does not match.
package c35

import (
	"context"
	"fmt"
	"math/rand/v2"
	"net/http"
	"net/http/httptest"
	"net/url"
	"regexp"
	"strings"
	"sync"
	"testing"
	"time"

	bifrost_http "github.com/aperturerobotics/bifrost/http"
	bifrost_rpc "github.com/aperturerobotics/bifrost/rpc"
	"github.com/aperturerobotics/controllerbus/bus/inmem"
	"github.com/aperturerobotics/controllerbus/controller"
	"github.com/aperturerobotics/controllerbus/directive"
	cdc "github.com/aperturerobotics/controllerbus/directive/controller"
	"github.com/aperturerobotics/starpc/srpc"
	"github.com/blang/semver/v4"

	"verifharness/g11dir"
	"verifharness/vf"
)

// busRegexes is the regex pool of the bus family: the pool of families
// (1)-(3) plus expressions that tell near-equal paths apart. Every predicate
// is self-checked against regexp on all strings of the family at start.
var busRegexes = append(append([]rx(nil), regexes...), []rx{
	{`/$`, func(s string) bool { return strings.HasSuffix(s, "/") }},
	{`//`, func(s string) bool { return strings.Contains(s, "//") }},
	{`\.\.`, func(s string) bool { return strings.Contains(s, "..") }},
	{`^/a$`, func(s string) bool { return s == "/a" }},
	{`^/a/$`, func(s string) bool { return s == "/a/" }},
	{`[A-Z]`, func(s string) bool { return strings.ToLower(s) != s }},
	{`^a/?$`, func(s string) bool { return s == "a" || s == "a/" }},
}...)

// busLookup is one lookup of a case (http or rpc).
type busLookup struct {
	http                      bool
	method, host, query, clnt string // http only
	path                      string // http: URL path
	svc, srv                  string // rpc only
}

func (l busLookup) String() string {
	if l.http {
		return fmt.Sprintf("http{method=%q host=%q path=%q query=%q client=%q}", l.method, l.host, l.path, l.query, l.clnt)
	}
	return fmt.Sprintf("rpc{service=%q server=%q}", l.svc, l.srv)
}

func (l busLookup) dir() directive.Directive {
	if l.http {
		return bifrost_http.NewLookupHTTPHandler(l.method, &url.URL{Host: l.host, Path: l.path, RawQuery: l.query}, l.clnt)
	}
	return bifrost_rpc.NewLookupRpcService(l.svc, l.srv)
}

// own is the string the registrations' service/path filters are applied to.
func (l busLookup) own() string {
	if l.http {
		return l.path
	}
	return l.svc
}

// busReg is one registration (controller) of a case with its reference.
type busReg struct {
	kind string // "http", "rpcsvc", "invoker"
	hc   httpConf
	rc   rpcConf
	inv  []string
	recH *recHTTP
	recI *recInvoker
	ctrl controller.Controller
}

func (k *busReg) String() string {
	switch k.kind {
	case "http":
		return "HTTPHandlerController{" + k.hc.String() + "}"
	case "rpcsvc":
		return "RpcServiceController{" + k.rc.String() + "}"
	}
	return fmt.Sprintf("InvokerController{prefixes=%q}", k.inv)
}

// matches is the reference matcher (written from the constructor docs).
func (k *busReg) matches(l busLookup) bool {
	s := l.own()
	switch k.kind {
	case "http":
		c := k.hc
		_, pm := firstPrefix(c.prefixes, s)
		noFilter := len(c.prefixes) == 0 && c.re == nil
		return noFilter || pm || (c.re != nil && c.re.pred(s))
	case "rpcsvc":
		c := k.rc
		_, pm := firstPrefix(c.prefixes, s)
		noFilter := len(c.prefixes) == 0 && c.re == nil && len(c.list) == 0
		svc := noFilter || pm || (c.re != nil && c.re.pred(s)) || inList(c.list, s)
		return svc && (c.serverRe == nil || c.serverRe.pred(l.srv))
	}
	_, pm := firstPrefix(k.inv, s)
	return len(k.inv) == 0 || pm
}

// expect is what the recorder at the bottom must see for a matching lookup;
// asserted=false when nothing is demanded (strip on, matched through regex /
// list / absence of filters only).
func (k *busReg) expect(l busLookup) (string, bool) {
	s := l.own()
	switch k.kind {
	case "http":
		mp, pm := firstPrefix(k.hc.prefixes, s)
		switch {
		case !k.hc.strip:
			return s, true
		case pm:
			return s[len(mp):], true
		}
		return "", false
	case "rpcsvc":
		mp, pm := firstPrefix(k.rc.prefixes, s)
		switch {
		case !k.rc.strip:
			return s, true
		case pm:
			return s[len(mp):], true
		case len(k.rc.prefixes) == 0:
			return s, true
		}
		return "", false
	}
	mp, pm := firstPrefix(k.inv, s)
	if pm {
		return s[len(mp):], true
	}
	return s, true
}

func (k *busReg) take() []string {
	if k.recH != nil {
		return k.recH.take()
	}
	return k.recI.take()
}

func (k *busReg) build(info *controller.Info) {
	switch k.kind {
	case "http":
		k.recH = &recHTTP{}
		k.ctrl = bifrost_http.NewHTTPHandlerController(info, bifrost_http.NewHTTPHandlerBuilder(k.recH),
			append([]string(nil), k.hc.prefixes...), k.hc.strip, compile(k.hc.re))
	case "rpcsvc":
		k.recI = &recInvoker{}
		k.ctrl = bifrost_rpc.NewRpcServiceController(info, bifrost_rpc.NewRpcServiceBuilder(k.recI),
			append([]string(nil), k.rc.prefixes...), k.rc.strip, compile(k.rc.re), append([]string(nil), k.rc.list...), compile(k.rc.serverRe))
	default:
		k.recI = &recInvoker{}
		k.ctrl = bifrost_rpc.NewInvokerController(g11dir.QuietLogger(), nil, info, k.recI, append([]string(nil), k.inv...))
	}
}

// busCase is one scenario: registrations, lookups (in the order they are
// issued) and the mode:
//
//	held      registrations, then every lookup; all references held to the end
//	released  registrations, then lookup by lookup: judged, reference released,
//	          next lookup issued at once (inside the unref-dispose window)
//	late      first lookup, then the registrations, then the other lookups
type busCase struct {
	family string // "http" / "rpc"
	kind   string // how the lookups differ
	regs   []*busReg
	looks  []busLookup
	mode   string
}

func (c *busCase) sig() string {
	var b strings.Builder
	b.WriteString("bus|" + c.mode + "|")
	for _, k := range c.regs {
		b.WriteString(k.String() + ";")
	}
	b.WriteString("|")
	for _, l := range c.looks {
		b.WriteString(l.String() + ";")
	}
	return b.String()
}

// busRef records the values delivered to one reference.
type busRef struct {
	mu       sync.Mutex
	vals     []directive.AttachedValue
	removed  int
	disposed bool
}

func (h *busRef) HandleValueAdded(_ directive.Instance, v directive.AttachedValue) {
	h.mu.Lock()
	h.vals = append(h.vals, v)
	h.mu.Unlock()
}

func (h *busRef) HandleValueRemoved(_ directive.Instance, v directive.AttachedValue) {
	h.mu.Lock()
	h.removed++
	for i, x := range h.vals {
		if x.GetValueID() == v.GetValueID() {
			h.vals = append(h.vals[:i:i], h.vals[i+1:]...)
			break
		}
	}
	h.mu.Unlock()
}

func (h *busRef) HandleInstanceDisposed(directive.Instance) {
	h.mu.Lock()
	h.disposed = true
	h.mu.Unlock()
}

func (h *busRef) snapshot() (vals []directive.Value, removed int, disposed bool) {
	h.mu.Lock()
	defer h.mu.Unlock()
	for _, v := range h.vals {
		vals = append(vals, v.GetValue())
	}
	return vals, h.removed, h.disposed
}

// waitBusIdle waits until the directive instance reports idle (all resolvers
// of all registrations have delivered their value or there are none).
func waitBusIdle(di directive.Instance) bool {
	ch := make(chan struct{})
	var once sync.Once
	rel := di.AddIdleCallback(func(isIdle bool, _ []error) {
		if isIdle {
			once.Do(func() { close(ch) })
		}
	})
	defer rel()
	t := time.NewTimer(watchdog)
	defer t.Stop()
	select {
	case <-ch:
		return true
	case <-t.C:
		return false
	}
}

// runBusCase executes one scenario on a fresh bus and judges every lookup.
func runBusCase(r *vf.Run, c *busCase, info *controller.Info) {
	r.Begin("bus family: " + c.sig())
	ctx, cancel := context.WithCancel(context.Background())
	defer cancel()
	b := inmem.NewBus(cdc.NewController(ctx, g11dir.QuietLogger()))
	for _, k := range c.regs {
		k.build(info)
	}
	addRegs := func() bool {
		for _, k := range c.regs {
			if _, err := b.AddController(ctx, k.ctrl, nil); err != nil {
				r.Inconclusive("bus family: AddController: " + err.Error())
				return false
			}
		}
		return true
	}

	n := len(c.looks)
	refs := make([]*busRef, n)
	dis := make([]directive.Instance, n)
	drefs := make([]directive.Reference, n)
	defer func() {
		for _, dr := range drefs {
			if dr != nil {
				dr.Release()
			}
		}
	}()
	add := func(i int) bool {
		refs[i] = &busRef{}
		var err error
		var di directive.Instance
		var dr directive.Reference
		if p, d := vf.Try(func() { di, dr, err = b.AddDirective(c.looks[i].dir(), refs[i]) }); p {
			r.Violation("c35/bus/panic", "AddDirective panicked: "+d, map[string]any{"case": c.sig()})
			return false
		}
		if err != nil || di == nil || dr == nil {
			r.Inconclusive(fmt.Sprintf("bus family: AddDirective(%s): %v", c.looks[i], err))
			return false
		}
		dis[i], drefs[i] = di, dr
		return true
	}

	wantPattern := make([]byte, n)
	for i, l := range c.looks {
		wantPattern[i] = '0'
		for _, k := range c.regs {
			if k.matches(l) {
				wantPattern[i]++
			}
		}
	}

	judge := func(i int) bool {
		l := c.looks[i]
		if !waitBusIdle(dis[i]) {
			r.Inconclusive(fmt.Sprintf("bus family: directive of %s never became idle", l))
			return false
		}
		vals, removed, disposed := refs[i].snapshot()
		merged := []int{}
		for j := range dis {
			if j != i && dis[j] != nil && dis[j] == dis[i] {
				merged = append(merged, j)
			}
		}
		wantN := 0
		for _, k := range c.regs {
			if k.matches(l) {
				wantN++
			}
		}
		fam := "c35/bus-" + c.family
		wit := map[string]any{
			"mode": c.mode, "pair_kind": c.kind, "lookup_index": i, "lookup": l.String(),
			"values_delivered": len(vals), "reference_says_values": wantN, "values_removed": removed, "instance_disposed": disposed,
			"shares_directive_instance_with_lookups": merged,
		}
		var regs, looks []string
		for _, k := range c.regs {
			regs = append(regs, k.String())
		}
		for _, x := range c.looks {
			looks = append(looks, x.String())
		}
		wit["registrations"] = regs
		wit["lookups_in_issue_order"] = looks
		if wantN > 0 {
			r.Count("bus_"+c.family+"_lookups_expected_answered", 1)
		} else {
			r.Count("bus_"+c.family+"_lookups_expected_unanswered", 1)
		}
		if len(merged) > 0 {
			// observation only (the verdict is on behaviour): which lookups
			// the bus served through one shared directive instance.
			r.Count("bus_"+c.family+"_lookups_sharing_an_instance", 1)
			for _, j := range merged {
				if c.looks[j] != l {
					r.Count("bus_"+c.family+"_DIFFERENT_lookups_sharing_an_instance", 1)
					break
				}
			}
		}
		if disposed {
			// the instance went away under a held reference: not expected, but
			// not what C35 is about; do not judge.
			r.Inconclusive("bus family: instance disposed under a held reference")
			return false
		}
		// really invoke everything that was delivered, with the lookup's OWN url / id.
		var notes []string
		for vi, v := range vals {
			switch h := v.(type) {
			case http.Handler:
				if !l.http {
					notes = append(notes, fmt.Sprintf("value %d: http.Handler for an rpc lookup", vi))
					continue
				}
				m := l.method
				if m == "" {
					m = "GET"
				}
				rw := httptest.NewRecorder()
				req := (&http.Request{Method: m, Host: l.host, URL: &url.URL{Host: l.host, Path: l.path, RawQuery: l.query}, Header: http.Header{}}).WithContext(ctx)
				if pn, d := vf.Try(func() { h.ServeHTTP(rw, req) }); pn {
					r.Violation(fam+"/serve-panic", "resolved handler panicked: "+d, wit)
				}
				notes = append(notes, fmt.Sprintf("value %d: status %d", vi, rw.Code))
			case srpc.Invoker:
				if l.http {
					notes = append(notes, fmt.Sprintf("value %d: invoker for an http lookup", vi))
					continue
				}
				var found bool
				var ierr error
				if pn, d := vf.Try(func() { found, ierr = h.InvokeMethod(l.svc, "m", nil) }); pn {
					r.Violation(fam+"/serve-panic", "resolved invoker panicked: "+d, wit)
				}
				notes = append(notes, fmt.Sprintf("value %d: found=%v err=%v", vi, found, ierr))
			default:
				notes = append(notes, fmt.Sprintf("value %d: unexpected type %T", vi, v))
			}
		}
		wit["invocations"] = notes
		seen := make([][]string, len(c.regs))
		sawMap := map[string][]string{}
		for ki, k := range c.regs {
			seen[ki] = k.take()
			sawMap[fmt.Sprintf("%d:%s", ki, k)] = seen[ki]
		}
		wit["recorders_saw"] = sawMap

		if len(vals) > wantN {
			r.Violation(fam+"/answered-nonmatching", fmt.Sprintf("%s (issued as #%d of %d, mode %s, alongside near-equal lookups) was delivered %d value(s) but only %d of the registrations %v match it", l, i+1, n, c.mode, len(vals), wantN, regs), wit)
			return true
		}
		if len(vals) < wantN {
			r.Violation(fam+"/ignored-matching", fmt.Sprintf("%s (issued as #%d of %d, mode %s, alongside near-equal lookups) was delivered %d value(s) but %d of the registrations %v match it", l, i+1, n, c.mode, len(vals), wantN, regs), wit)
			return true
		}
		for ki, k := range c.regs {
			if !k.matches(l) {
				if len(seen[ki]) != 0 {
					r.Violation(fam+"/answered-nonmatching", fmt.Sprintf("%s reached the handler of %s (saw %q) whose filters do not match it", l, k, seen[ki]), wit)
					return true
				}
				continue
			}
			exp, asserted := k.expect(l)
			if !asserted {
				r.Count("bus_"+c.family+"_seen_not_asserted", 1)
				continue
			}
			r.Count("bus_"+c.family+"_seen_checked", 1)
			if len(seen[ki]) != 1 || seen[ki][0] != exp {
				kind := "unstripped-changed"
				if (k.kind == "http" && k.hc.strip) || (k.kind == "rpcsvc" && k.rc.strip) || k.kind == "invoker" {
					kind = "strip-wrong"
				}
				r.Violation(fam+"/"+kind, fmt.Sprintf("%s: the handler of %s saw %q, expected exactly %q", l, k, seen[ki], exp), wit)
				return true
			}
		}
		return true
	}

	ok := true
	switch c.mode {
	case "held":
		ok = addRegs()
		for i := 0; ok && i < n; i++ {
			ok = add(i)
		}
		for i := 0; ok && i < n; i++ {
			ok = judge(i)
		}
	case "released":
		ok = addRegs()
		for i := 0; ok && i < n; i++ {
			if ok = add(i); !ok {
				break
			}
			if ok = judge(i); !ok {
				break
			}
			if i+1 < n {
				drefs[i].Release()
				drefs[i] = nil
				dis[i] = nil
			}
		}
	case "late":
		ok = add(0)
		if ok {
			ok = addRegs()
		}
		for i := 1; ok && i < n; i++ {
			ok = add(i)
		}
		for i := 0; ok && i < n; i++ {
			ok = judge(i)
		}
	}
	r.Case(c.sig(), ok)
	if ok {
		r.Count("bus_"+c.family+"_cases", 1)
		r.Count("bus_"+c.family+"_cases_mode_"+c.mode, 1)
		r.Distinct("bus_"+c.family+"_difference_kinds", c.kind)
		r.Distinct("bus_"+c.family+"_expected_values_per_lookup_patterns", string(wantPattern))
		r.Distinct("bus_"+c.family+"_kind_x_pattern_x_mode", c.kind+"|"+string(wantPattern)+"|"+c.mode)
	}
}

// ---------------------------------------------------------------------------
// generators

type variant struct{ s, kind string }

// nearVariants returns strings near-equal to p: each is labelled with how it
// differs. leading says whether p is a rooted path ("/...").
func nearVariants(p string) []variant {
	var out []variant
	add := func(s, kind string) {
		if s == "" || s == p {
			return
		}
		for _, v := range out {
			if v.s == s {
				return
			}
		}
		out = append(out, variant{s, kind})
	}
	add(p+"/", "trailing-slash")
	add(p+"//", "trailing-slashes")
	add(p+"/.", "trailing-dot-segment")
	add(p+"/./", "trailing-dot-segment")
	add(p+"/b/..", "trailing-dotdot-segment")
	add(p+"/..", "parent")
	for i := 0; i < len(p); i++ {
		if p[i] != '/' {
			continue
		}
		add(p[:i]+"/"+p[i:], "doubled-slash")
		add(p[:i+1]+"./"+p[i+1:], "dot-segment")
		add(p[:i+1]+"b/../"+p[i+1:], "dotdot-segment")
	}
	add(strings.ToUpper(p), "case")
	for i := 0; i < len(p); i++ {
		if p[i] == 'a' || p[i] == 'b' {
			add(p[:i]+strings.ToUpper(p[i:i+1])+p[i+1:], "case")
			break
		}
	}
	if strings.HasPrefix(p, "/") {
		add(p[1:], "leading-slash")
	} else {
		add("/"+p, "leading-slash")
		add("./"+p, "dot-segment")
	}
	for k := 1; k < len(p); k++ {
		add(p[:k], "proper-prefix")
	}
	add(p+"a", "extended")
	add(p+".", "extended")
	return out
}

func lcp(a, b string) string {
	i := 0
	for i < len(a) && i < len(b) && a[i] == b[i] {
		i++
	}
	return a[:i]
}

// pickRegex chooses a regex of the pool that tells a and b apart if there is
// one (by the hand-written predicates), any regex otherwise.
func pickRegex(rng *rand.Rand, a, b string) *rx {
	var disc []int
	for i := range busRegexes {
		if busRegexes[i].pred(a) != busRegexes[i].pred(b) {
			disc = append(disc, i)
		}
	}
	if len(disc) > 0 {
		return &busRegexes[disc[rng.IntN(len(disc))]]
	}
	return &busRegexes[rng.IntN(len(busRegexes))]
}

var busModes = []string{"held", "released", "late"}

func hreg(c httpConf) *busReg { return &busReg{kind: "http", hc: c} }
func sreg(c rpcConf) *busReg  { return &busReg{kind: "rpcsvc", rc: c} }
func ireg(l []string) *busReg { return &busReg{kind: "invoker", inv: l} }
func cloneRegs(in []*busReg) []*busReg {
	out := make([]*busReg, len(in))
	for i, k := range in {
		x := *k
		x.recH, x.recI, x.ctrl = nil, nil, nil
		out[i] = &x
	}
	return out
}

// httpRegSets derives registration sets from a pair of paths: sets where
// exactly one, both or neither of the two match.
func httpRegSets(rng *rand.Rand, a, b string, idx int) [][]*busReg {
	s := rng.IntN(2) == 0
	sets := [][]*busReg{
		{hreg(httpConf{prefixes: []string{a}, strip: s})},
		{hreg(httpConf{prefixes: []string{b}, strip: !s})},
		{hreg(httpConf{prefixes: []string{b, a}, strip: true})},
		{hreg(httpConf{prefixes: []string{"/zz"}, strip: rng.IntN(2) == 0, re: pickRegex(rng, a, b)})},
		{hreg(httpConf{prefixes: []string{a}, strip: true}), hreg(httpConf{prefixes: []string{b}, strip: true})},
	}
	if c := lcp(a, b); c != "" && c != a && c != b {
		sets = append(sets, []*busReg{hreg(httpConf{prefixes: []string{c}, strip: rng.IntN(2) == 0})})
	}
	switch idx % 4 {
	case 0:
		sets = append(sets, []*busReg{hreg(httpConf{prefixes: []string{"/zz", "zz"}, strip: true})}) // neither
	case 1:
		sets = append(sets, []*busReg{hreg(httpConf{})}) // no filter: both
	case 2:
		sets = append(sets, []*busReg{hreg(httpConf{re: pickRegex(rng, a, b), strip: false})})
	}
	return sets
}

func rpcRegSets(rng *rand.Rand, a, b string, idx int) [][]*busReg {
	s := rng.IntN(2) == 0
	var sre *rx
	if k := rng.IntN(3); k > 0 {
		sre = &serverRegexes[k-1]
	}
	sets := [][]*busReg{
		{sreg(rpcConf{prefixes: []string{a}, strip: s, serverRe: sre})},
		{sreg(rpcConf{prefixes: []string{b}, strip: !s})},
		{sreg(rpcConf{list: []string{a}, serverRe: sre})},
		{sreg(rpcConf{list: []string{b}, prefixes: []string{"zz"}, strip: rng.IntN(2) == 0})},
		{sreg(rpcConf{prefixes: []string{"zz"}, re: pickRegex(rng, a, b)})},
		{ireg([]string{a})},
		{ireg([]string{b}), sreg(rpcConf{prefixes: []string{a}, strip: true})},
	}
	if c := lcp(a, b); c != "" && c != a && c != b {
		sets = append(sets, []*busReg{sreg(rpcConf{prefixes: []string{c}, strip: rng.IntN(2) == 0})})
	}
	switch idx % 4 {
	case 0:
		sets = append(sets, []*busReg{sreg(rpcConf{prefixes: []string{"zz"}, strip: true})}) // neither
	case 1:
		sets = append(sets, []*busReg{sreg(rpcConf{})}) // no filter: both
	case 2:
		sets = append(sets, []*busReg{ireg([]string{b, a})})
	}
	return sets
}

// genBusCases builds the deterministic case list of the family.
func genBusCases(r *vf.Run) []*busCase {
	rng := r.Rand("c35-bus")
	var cases []*busCase
	emit := func(family, kind string, regs []*busReg, mode string, looks ...busLookup) {
		cases = append(cases, &busCase{family: family, kind: kind, regs: cloneRegs(regs), mode: mode, looks: append([]busLookup(nil), looks...)})
	}
	// both orders held, one more order/mode drawn.
	emitPair := func(family, kind string, regs []*busReg, a, b busLookup) {
		emit(family, kind, regs, "held", a, b)
		emit(family, kind, regs, "held", b, a)
		m := busModes[1+rng.IntN(2)]
		if rng.IntN(2) == 0 {
			a, b = b, a
		}
		emit(family, kind, regs, m, a, b)
	}

	// ---- HTTP: near-equal paths ----
	var httpBases []string
	for _, x := range []string{"a", "b"} {
		httpBases = append(httpBases, "/"+x)
		for _, y := range []string{"a", "b"} {
			httpBases = append(httpBases, "/"+x+y, "/"+x+"/"+y, "/"+x+"."+y)
		}
	}
	nBases := r.N(len(httpBases), len(httpBases))
	hosts := []string{"", "", "h"}
	queries := []string{"", "", "q=1"}
	methods := []string{"GET", "GET", "", "POST"}
	clients := []string{"", "", "c"}
	deco := func(pa, pb string) busLookup {
		l := busLookup{http: true, method: methods[rng.IntN(len(methods))], host: hosts[rng.IntN(len(hosts))], query: queries[rng.IntN(len(queries))], clnt: clients[rng.IntN(len(clients))]}
		if !strings.HasPrefix(pa, "/") || !strings.HasPrefix(pb, "/") {
			// a URL with a host and a relative path prints like the rooted
			// path (url.URL.String): outside the universe.
			l.host = ""
		}
		return l
	}
	pairIdx := 0
	for _, base := range httpBases[:nBases] {
		vs := nearVariants(base)
		type pr struct{ a, b, kind string }
		var prs []pr
		for _, v := range vs {
			prs = append(prs, pr{base, v.s, v.kind})
		}
		for k := 0; k < len(vs)/2; k++ {
			i, j := rng.IntN(len(vs)), rng.IntN(len(vs))
			if i == j {
				continue
			}
			prs = append(prs, pr{vs[i].s, vs[j].s, vs[i].kind + "+" + vs[j].kind})
		}
		prs = append(prs, pr{base, base, "identical"})
		for _, p := range prs {
			d := deco(p.a, p.b)
			la, lb := d, d
			la.path, lb.path = p.a, p.b
			for _, regs := range httpRegSets(rng, p.a, p.b, pairIdx) {
				emitPair("http", p.kind, regs, la, lb)
			}
			pairIdx++
		}
		// triples
		for k := 0; k < 4; k++ {
			i, j := rng.IntN(len(vs)), rng.IntN(len(vs))
			if i == j {
				continue
			}
			d := deco(vs[i].s, vs[j].s)
			ls := []busLookup{d, d, d}
			ls[0].path, ls[1].path, ls[2].path = base, vs[i].s, vs[j].s
			sets := httpRegSets(rng, ls[rng.IntN(3)].path, ls[rng.IntN(3)].path, pairIdx)
			pairIdx++
			for t := 0; t < 2; t++ {
				perm := rng.Perm(3)
				regs := sets[rng.IntN(len(sets))]
				emit("http", "triple:"+vs[i].kind+"+"+vs[j].kind, regs, busModes[rng.IntN(3)], ls[perm[0]], ls[perm[1]], ls[perm[2]])
			}
		}
	}
	// ---- HTTP: same path, differing only in method / host / query / client id ----
	fieldVals := map[string][]string{
		"method": {"GET", "POST", ""},
		"host":   {"", "h", "H"},
		"query":  {"", "q=1", "q=2"},
		"client": {"", "c", "C"},
	}
	for _, p := range []string{"/a", "/a/b"} {
		regSets := [][]*busReg{
			{hreg(httpConf{prefixes: []string{p}, strip: true})},
			{hreg(httpConf{prefixes: []string{"/zz"}})},
			{hreg(httpConf{re: &busRegexes[5], strip: true})}, // ^/a
		}
		for _, f := range []string{"method", "host", "query", "client"} {
			vs := fieldVals[f]
			for i := range vs {
				for j := i + 1; j < len(vs); j++ {
					la := busLookup{http: true, method: "GET", path: p}
					lb := la
					set := func(l *busLookup, v string) {
						switch f {
						case "method":
							l.method = v
						case "host":
							l.host = v
						case "query":
							l.query = v
						case "client":
							l.clnt = v
						}
					}
					set(&la, vs[i])
					set(&lb, vs[j])
					for _, regs := range regSets {
						emitPair("http", "only-"+f, regs, la, lb)
					}
				}
			}
		}
	}

	// ---- RPC: near-equal service ids ----
	rpcBases := []string{"a", "b", "ab", "a/b", "a.b", "b/a", "a/a"}
	srvPool := []string{"", "", "s1", "s2"}
	pairIdx = 0
	for _, base := range rpcBases {
		vs := nearVariants(base)
		type pr struct{ a, b, kind string }
		var prs []pr
		for _, v := range vs {
			prs = append(prs, pr{base, v.s, v.kind})
		}
		for k := 0; k < len(vs)/2; k++ {
			i, j := rng.IntN(len(vs)), rng.IntN(len(vs))
			if i == j {
				continue
			}
			prs = append(prs, pr{vs[i].s, vs[j].s, vs[i].kind + "+" + vs[j].kind})
		}
		prs = append(prs, pr{base, base, "identical"})
		for _, p := range prs {
			srv := srvPool[rng.IntN(len(srvPool))]
			la := busLookup{svc: p.a, srv: srv}
			lb := busLookup{svc: p.b, srv: srv}
			for _, regs := range rpcRegSets(rng, p.a, p.b, pairIdx) {
				emitPair("rpc", p.kind, regs, la, lb)
			}
			pairIdx++
		}
		for k := 0; k < 4; k++ {
			i, j := rng.IntN(len(vs)), rng.IntN(len(vs))
			if i == j {
				continue
			}
			srv := srvPool[rng.IntN(len(srvPool))]
			ls := []busLookup{{svc: base, srv: srv}, {svc: vs[i].s, srv: srv}, {svc: vs[j].s, srv: srv}}
			sets := rpcRegSets(rng, ls[rng.IntN(3)].svc, ls[rng.IntN(3)].svc, pairIdx)
			pairIdx++
			for t := 0; t < 2; t++ {
				perm := rng.Perm(3)
				regs := sets[rng.IntN(len(sets))]
				emit("rpc", "triple:"+vs[i].kind+"+"+vs[j].kind, regs, busModes[rng.IntN(3)], ls[perm[0]], ls[perm[1]], ls[perm[2]])
			}
		}
	}
	// ---- RPC: same service id, near-equal server ids ----
	srvs := []string{"", "s1", "S1", "s1/", "s", "s11", "s2", "/s1"}
	for _, svc := range []string{"a", "a/b"} {
		var regSets [][]*busReg
		for si := -1; si < len(serverRegexes); si++ {
			var sre *rx
			if si >= 0 {
				sre = &serverRegexes[si]
			}
			regSets = append(regSets,
				[]*busReg{sreg(rpcConf{prefixes: []string{"a"}, strip: true, serverRe: sre})},
				[]*busReg{sreg(rpcConf{list: []string{svc}, serverRe: sre})},
			)
		}
		for i := range srvs {
			for j := i + 1; j < len(srvs); j++ {
				la := busLookup{svc: svc, srv: srvs[i]}
				lb := busLookup{svc: svc, srv: srvs[j]}
				for _, regs := range regSets {
					emitPair("rpc", "only-server-id", regs, la, lb)
				}
			}
		}
	}
	return cases
}

// checkBus runs family (5).
func checkBus(t *testing.T, r *vf.Run) {
	cases := genBusCases(r)
	// harness self-check: hand-written predicates == the regexes on every
	// string of the family.
	strs := map[string]bool{}
	for _, c := range cases {
		for _, l := range c.looks {
			strs[l.own()] = true
			strs[l.srv] = true
		}
	}
	for _, set := range [][]rx{busRegexes, serverRegexes} {
		for _, x := range set {
			re := regexp.MustCompile(x.src)
			for s := range strs {
				if re.MatchString(s) != x.pred(s) {
					t.Fatalf("harness bug: predicate for %s wrong on %q", x.src, s)
				}
			}
		}
	}
	info := controller.NewInfo("verif/c35-bus", semver.MustParse("0.0.1"), "c35 bus family")
	parallel(16, len(cases), func(i int) { runBusCase(r, cases[i], info) })
	r.Extra("bus_family_cases_generated", len(cases))
	r.Extra("bus_family_distinct_strings", len(strs))
	r.Extra("bus_family_exhaustive", false)
	for _, i := range []int{len(cases) / 3, len(cases) - 1} {
		c := cases[i]
		var regs, looks []string
		for _, k := range c.regs {
			regs = append(regs, k.String())
		}
		for _, l := range c.looks {
			looks = append(looks, l.String())
		}
		r.Sample(map[string]any{"family": "bus-" + c.family, "difference": c.kind, "mode": c.mode, "registrations": regs, "lookups_in_issue_order": looks})
	}
}
