// C18: envelopes resist tampering and are bound to their context.
package c18

import (
	"bytes"
	"errors"
	"fmt"
	"math"
	"math/rand/v2"
	"strings"
	"sync"
	"testing"

	"github.com/aperturerobotics/bifrost/envelope"
	"github.com/aperturerobotics/bifrost/keypem"
	"github.com/aperturerobotics/bifrost/peer"
	"verifharness/g3env"
	"verifharness/keys"
	"verifharness/vf"
)

// base is one pair of genuine envelopes (same configuration, recipients and
// context, different payloads) that the mutations start from.
type base struct {
	name   string
	cfg    g3env.Config
	ctx    string
	A, B   *g3env.Sealed
	wireA  []byte
	wireB  []byte
	all    []int
	nShare int
}

// mut is one mutation: it edits e (a private clone of A's envelope) or returns
// a replacement; a nil result means "not decodable" (nothing to unseal).
type mut struct {
	kind string
	// splice: the result may contain a complete copy of B, so B's payload is an
	// allowed outcome as well (there is no sender authentication to break)
	splice bool
	f      func(rng *rand.Rand, b *base, e *envelope.Envelope, pool []*keys.Identity) (*envelope.Envelope, string)
}

func flipBit(rng *rand.Rand, b []byte) ([]byte, string) {
	if len(b) == 0 {
		return []byte{byte(rng.UintN(256))}, "was-empty"
	}
	out := append([]byte(nil), b...)
	p, bit := rng.IntN(len(out)), rng.IntN(8)
	out[p] ^= 1 << bit
	return out, fmt.Sprintf("byte%d.bit%d", p, bit)
}

func decode(b []byte) (*envelope.Envelope, string) {
	e := &envelope.Envelope{}
	var err error
	p, d := vf.Try(func() { err = e.UnmarshalVT(b) })
	if p {
		return nil, "PANIC:" + d
	}
	if err != nil {
		return nil, ""
	}
	return e, ""
}

func pickGrant(rng *rand.Rand, e *envelope.Envelope) int { return rng.IntN(len(e.Grants)) }

// firstDecryptable returns a grant index with at least one (in-range) keypair
// index, scanning from a random start, or -1.
func firstDecryptable(rng *rand.Rand, b *base) (gi int, slot uint32) {
	n := len(b.cfg.Grants)
	st := rng.IntN(n)
	for k := 0; k < n; k++ {
		g := (st + k) % n
		if len(b.cfg.Grants[g].Idx) > 0 {
			return g, b.cfg.Grants[g].Idx[0]
		}
	}
	return -1, 0
}

func mutations() []mut {
	var ms []mut
	add := func(kind string, f func(rng *rand.Rand, b *base, e *envelope.Envelope, pool []*keys.Identity) (*envelope.Envelope, string)) {
		ms = append(ms, mut{kind: kind, f: f})
	}
	type fn = func(rng *rand.Rand, b *base, e *envelope.Envelope, pool []*keys.Identity) (*envelope.Envelope, string)

	// ---- threshold
	for _, v := range []struct {
		n string
		f func(t uint32) uint32
	}{
		{"plus1", func(t uint32) uint32 { return t + 1 }},
		{"plus2", func(t uint32) uint32 { return t + 2 }},
		{"minus1", func(t uint32) uint32 { return t - 1 }}, // 0 wraps to MaxUint32
		{"zero", func(t uint32) uint32 {
			if t == 0 {
				return 5
			}
			return 0
		}},
		{"maxuint32", func(uint32) uint32 { return math.MaxUint32 }},
		{"maxint32", func(uint32) uint32 { return math.MaxInt32 }},
	} {
		v := v
		add("threshold/"+v.n, func(rng *rand.Rand, b *base, e *envelope.Envelope, _ []*keys.Identity) (*envelope.Envelope, string) {
			e.Threshold = v.f(e.Threshold)
			return e, fmt.Sprint(e.Threshold)
		})
	}
	// ---- grants list
	add("grants/swap", func(rng *rand.Rand, b *base, e *envelope.Envelope, _ []*keys.Identity) (*envelope.Envelope, string) {
		if len(e.Grants) < 2 {
			e.Grants = append(e.Grants, e.Grants[0].CloneVT())
			return e, "single-grant-duplicated"
		}
		i := rng.IntN(len(e.Grants))
		j := (i + 1 + rng.IntN(len(e.Grants)-1)) % len(e.Grants)
		e.Grants[i], e.Grants[j] = e.Grants[j], e.Grants[i]
		return e, fmt.Sprintf("%d<->%d", i, j)
	})
	add("grants/duplicate", func(rng *rand.Rand, b *base, e *envelope.Envelope, _ []*keys.Identity) (*envelope.Envelope, string) {
		i := pickGrant(rng, e)
		e.Grants = append(e.Grants, e.Grants[i].CloneVT())
		return e, fmt.Sprintf("append-copy-of-%d", i)
	})
	add("grants/duplicate-in-place", func(rng *rand.Rand, b *base, e *envelope.Envelope, _ []*keys.Identity) (*envelope.Envelope, string) {
		i := pickGrant(rng, e)
		j := pickGrant(rng, e)
		e.Grants[j] = e.Grants[i].CloneVT()
		return e, fmt.Sprintf("%d:=%d", j, i)
	})
	add("grants/drop", func(rng *rand.Rand, b *base, e *envelope.Envelope, _ []*keys.Identity) (*envelope.Envelope, string) {
		i := pickGrant(rng, e)
		e.Grants = append(e.Grants[:i:i], e.Grants[i+1:]...)
		return e, fmt.Sprint(i)
	})
	add("grants/drop-all", func(rng *rand.Rand, b *base, e *envelope.Envelope, _ []*keys.Identity) (*envelope.Envelope, string) {
		e.Grants = nil
		return e, ""
	})
	add("grants/nil-entry", func(rng *rand.Rand, b *base, e *envelope.Envelope, _ []*keys.Identity) (*envelope.Envelope, string) {
		i := pickGrant(rng, e)
		e.Grants[i] = nil
		return e, fmt.Sprint(i)
	})
	add("grants/insert-empty-front", func(rng *rand.Rand, b *base, e *envelope.Envelope, _ []*keys.Identity) (*envelope.Envelope, string) {
		e.Grants = append([]*envelope.EnvelopeGrant{{}}, e.Grants...)
		return e, ""
	})
	// ---- keypair indexes / ciphertext lists
	add("kpidx/out-of-range", func(rng *rand.Rand, b *base, e *envelope.Envelope, _ []*keys.Identity) (*envelope.Envelope, string) {
		i := pickGrant(rng, e)
		g := e.Grants[i]
		v := []uint32{uint32(len(e.Keypairs)), uint32(len(e.Keypairs)) + 7, math.MaxUint32, math.MaxInt32}[rng.IntN(4)]
		if len(g.KeypairIndexes) == 0 {
			g.KeypairIndexes = append(g.KeypairIndexes, v)
			return e, fmt.Sprintf("g%d append %d (no ciphertext)", i, v)
		}
		k := rng.IntN(len(g.KeypairIndexes))
		g.KeypairIndexes[k] = v
		return e, fmt.Sprintf("g%d[%d]=%d", i, k, v)
	})
	add("kpidx/other-recipient", func(rng *rand.Rand, b *base, e *envelope.Envelope, _ []*keys.Identity) (*envelope.Envelope, string) {
		i := pickGrant(rng, e)
		g := e.Grants[i]
		if len(g.KeypairIndexes) == 0 {
			g.KeypairIndexes = []uint32{0}
			g.Ciphertexts = [][]byte{g3env.RandBytes(rng, 60)}
			return e, fmt.Sprintf("g%d gets index 0 and a junk ciphertext", i)
		}
		k := rng.IntN(len(g.KeypairIndexes))
		g.KeypairIndexes[k] = (g.KeypairIndexes[k] + 1 + uint32(rng.IntN(len(e.Keypairs)))) % uint32(len(e.Keypairs)+1)
		return e, fmt.Sprintf("g%d[%d]=%d", i, k, g.KeypairIndexes[k])
	})
	add("kpidx/unequal-lists", func(rng *rand.Rand, b *base, e *envelope.Envelope, _ []*keys.Identity) (*envelope.Envelope, string) {
		i := pickGrant(rng, e)
		g := e.Grants[i]
		switch rng.IntN(3) {
		case 0:
			g.KeypairIndexes = append(g.KeypairIndexes, uint32(rng.IntN(len(e.Keypairs))))
			return e, fmt.Sprintf("g%d extra index", i)
		case 1:
			g.Ciphertexts = append(g.Ciphertexts, g3env.RandBytes(rng, 50))
			return e, fmt.Sprintf("g%d extra ciphertext", i)
		default:
			if len(g.Ciphertexts) > 0 {
				g.Ciphertexts = g.Ciphertexts[:len(g.Ciphertexts)-1]
				return e, fmt.Sprintf("g%d ciphertext removed", i)
			}
			g.KeypairIndexes = []uint32{0, 0}
			return e, fmt.Sprintf("g%d two indexes, no ciphertext", i)
		}
	})
	add("kpidx/swap-ciphertexts-across-grants", func(rng *rand.Rand, b *base, e *envelope.Envelope, _ []*keys.Identity) (*envelope.Envelope, string) {
		if len(e.Grants) < 2 {
			e.Grants[0].Ciphertexts, e.Grants[0].KeypairIndexes = nil, nil
			return e, "single grant emptied"
		}
		i := rng.IntN(len(e.Grants))
		j := (i + 1) % len(e.Grants)
		e.Grants[i].Ciphertexts, e.Grants[j].Ciphertexts = e.Grants[j].Ciphertexts, e.Grants[i].Ciphertexts
		return e, fmt.Sprintf("%d<->%d", i, j)
	})
	// ---- ciphertext bytes
	add("grantct/bitflip", func(rng *rand.Rand, b *base, e *envelope.Envelope, _ []*keys.Identity) (*envelope.Envelope, string) {
		i, _ := firstDecryptable(rng, b)
		if i < 0 {
			e.EnvelopeId += "x"
			return e, "no decryptable grant; id changed"
		}
		g := e.Grants[i]
		k := rng.IntN(len(g.Ciphertexts))
		var d string
		g.Ciphertexts[k], d = flipBit(rng, g.Ciphertexts[k])
		return e, fmt.Sprintf("g%d.ct%d.%s", i, k, d)
	})
	add("grantct/truncate", func(rng *rand.Rand, b *base, e *envelope.Envelope, _ []*keys.Identity) (*envelope.Envelope, string) {
		i, _ := firstDecryptable(rng, b)
		if i < 0 {
			e.EnvelopeId += "y"
			return e, "no decryptable grant; id changed"
		}
		g := e.Grants[i]
		k := rng.IntN(len(g.Ciphertexts))
		n := []int{0, 1, 33, 34, 35, 36, 37, 51, 52, len(g.Ciphertexts[k]) - 1}[rng.IntN(10)]
		if n > len(g.Ciphertexts[k]) {
			n = len(g.Ciphertexts[k]) - 1
		}
		g.Ciphertexts[k] = g.Ciphertexts[k][:n]
		return e, fmt.Sprintf("g%d.ct%d[:%d]", i, k, n)
	})
	add("payloadct/bitflip", func(rng *rand.Rand, b *base, e *envelope.Envelope, _ []*keys.Identity) (*envelope.Envelope, string) {
		var d string
		e.Ciphertext, d = flipBit(rng, e.Ciphertext)
		return e, d
	})
	add("payloadct/truncate", func(rng *rand.Rand, b *base, e *envelope.Envelope, _ []*keys.Identity) (*envelope.Envelope, string) {
		n := []int{0, 1, 23, 24, 25, 39, 40, 41, len(e.Ciphertext) - 1}[rng.IntN(9)]
		if n > len(e.Ciphertext) {
			n = len(e.Ciphertext) - 1
		}
		e.Ciphertext = e.Ciphertext[:n]
		return e, fmt.Sprintf("[:%d]", n)
	})
	add("payloadct/extend", func(rng *rand.Rand, b *base, e *envelope.Envelope, _ []*keys.Identity) (*envelope.Envelope, string) {
		e.Ciphertext = append(e.Ciphertext, g3env.RandBytes(rng, 1+rng.IntN(8))...)
		return e, fmt.Sprint(len(e.Ciphertext))
	})
	add("payloadct/from-other-envelope", func(rng *rand.Rand, b *base, e *envelope.Envelope, _ []*keys.Identity) (*envelope.Envelope, string) {
		e.Ciphertext = append([]byte(nil), b.B.Env.Ciphertext...)
		return e, ""
	})
	// ---- envelope id, context hash, contents
	add("id/change", func(rng *rand.Rand, b *base, e *envelope.Envelope, _ []*keys.Identity) (*envelope.Envelope, string) {
		switch rng.IntN(4) {
		case 0:
			e.EnvelopeId = ""
		case 1:
			e.EnvelopeId += "0"
		case 2:
			e.EnvelopeId = b.B.Env.EnvelopeId
		default:
			id := []byte(e.EnvelopeId)
			if len(id) > 0 {
				p := rng.IntN(len(id))
				id[p] ^= 1
				e.EnvelopeId = string(id)
			} else {
				e.EnvelopeId = "a"
			}
		}
		return e, e.EnvelopeId
	})
	add("ctxhash/change", func(rng *rand.Rand, b *base, e *envelope.Envelope, _ []*keys.Identity) (*envelope.Envelope, string) {
		switch rng.IntN(4) {
		case 0:
			e.ContextHash = nil
			return e, "nil"
		case 1:
			e.ContextHash = e.ContextHash[:len(e.ContextHash)-1]
			return e, "short"
		case 2:
			e.ContextHash = append(e.ContextHash, 0)
			return e, "long"
		}
		var d string
		e.ContextHash, d = flipBit(rng, e.ContextHash)
		return e, d
	})
	add("contents/set", func(rng *rand.Rand, b *base, e *envelope.Envelope, _ []*keys.Identity) (*envelope.Envelope, string) {
		e.Contents = g3env.RandBytes(rng, 1+rng.IntN(20))
		return e, vf.Hex(e.Contents)
	})
	// ---- keypairs
	add("keypairs/swap", func(rng *rand.Rand, b *base, e *envelope.Envelope, _ []*keys.Identity) (*envelope.Envelope, string) {
		if len(e.Keypairs) < 2 {
			e.Keypairs = append(e.Keypairs, e.Keypairs[0].CloneVT())
			return e, "single keypair duplicated"
		}
		i := rng.IntN(len(e.Keypairs))
		j := (i + 1) % len(e.Keypairs)
		e.Keypairs[i], e.Keypairs[j] = e.Keypairs[j], e.Keypairs[i]
		return e, fmt.Sprintf("%d<->%d", i, j)
	})
	add("keypairs/replace", func(rng *rand.Rand, b *base, e *envelope.Envelope, pool []*keys.Identity) (*envelope.Envelope, string) {
		i := rng.IntN(len(e.Keypairs))
		switch rng.IntN(5) {
		case 0:
			pem, _ := keypem.MarshalPubKeyPem(pool[g3env.Unrelated].Pub)
			e.Keypairs[i].PubKey = pem
			return e, fmt.Sprintf("%d:=unrelated key", i)
		case 1:
			e.Keypairs[i].PubKey = g3env.RandBytes(rng, rng.IntN(100))
			return e, fmt.Sprintf("%d:=garbage", i)
		case 2:
			e.Keypairs[i] = nil
			return e, fmt.Sprintf("%d:=nil", i)
		case 3:
			e.Keypairs[i].PubKey = nil
			return e, fmt.Sprintf("%d:=empty pem", i)
		}
		var d string
		e.Keypairs[i].PubKey, d = flipBit(rng, e.Keypairs[i].PubKey)
		return e, fmt.Sprintf("%d.%s", i, d)
	})
	add("keypairs/drop", func(rng *rand.Rand, b *base, e *envelope.Envelope, _ []*keys.Identity) (*envelope.Envelope, string) {
		if rng.IntN(3) == 0 {
			e.Keypairs = nil
			return e, "all"
		}
		i := rng.IntN(len(e.Keypairs))
		e.Keypairs = append(e.Keypairs[:i:i], e.Keypairs[i+1:]...)
		return e, fmt.Sprint(i)
	})
	add("keypairs/all-same", func(rng *rand.Rand, b *base, e *envelope.Envelope, _ []*keys.Identity) (*envelope.Envelope, string) {
		i := rng.IntN(len(e.Keypairs))
		for k := range e.Keypairs {
			e.Keypairs[k] = e.Keypairs[i].CloneVT()
		}
		return e, fmt.Sprint(i)
	})
	// ---- attacker-made grants (anyone can encrypt to a public key)
	for _, ak := range g3env.AttackKinds {
		for _, where := range []string{"replace", "append", "replace-first"} {
			ak, where := ak, where
			add("attacker/"+where+"/"+ak, func(rng *rand.Rand, b *base, e *envelope.Envelope, pool []*keys.Identity) (*envelope.Envelope, string) {
				inner, err := g3env.AttackInner(rng, ak, b.nShare)
				if err != nil {
					return e, "inner-marshal-failed:" + err.Error()
				}
				gi, slot := firstDecryptable(rng, b)
				switch where {
				case "append":
					gi = len(e.Grants)
					slot = uint32(rng.IntN(len(b.cfg.Recips)))
					e.Grants = append(e.Grants, &envelope.EnvelopeGrant{})
				case "replace-first":
					gi = 0
					if len(b.cfg.Grants[0].Idx) > 0 {
						slot = b.cfg.Grants[0].Idx[0]
					} else {
						slot = uint32(rng.IntN(len(b.cfg.Recips)))
					}
				default:
					if gi < 0 {
						gi, slot = 0, 0
					}
				}
				ct, err := g3env.EncryptInner(pool[b.cfg.Recips[slot]].Pub, e.EnvelopeId, b.ctx, gi, inner)
				if err != nil {
					return e, "encrypt-failed:" + err.Error()
				}
				e.Grants[gi] = &envelope.EnvelopeGrant{KeypairIndexes: []uint32{slot}, Ciphertexts: [][]byte{ct}}
				return e, fmt.Sprintf("g%d->slot%d", gi, slot)
			})
		}
	}
	// ---- wire level
	add("wire/bitflip", func(rng *rand.Rand, b *base, e *envelope.Envelope, _ []*keys.Identity) (*envelope.Envelope, string) {
		w, d := flipBit(rng, b.wireA)
		m, p := decode(w)
		return m, d + p
	})
	add("wire/multi-bitflip", func(rng *rand.Rand, b *base, e *envelope.Envelope, _ []*keys.Identity) (*envelope.Envelope, string) {
		w := b.wireA
		var ds []string
		for k := 2 + rng.IntN(4); k > 0; k-- {
			var d string
			w, d = flipBit(rng, w)
			ds = append(ds, d)
		}
		m, p := decode(w)
		return m, strings.Join(ds, ",") + p
	})
	add("wire/truncate", func(rng *rand.Rand, b *base, e *envelope.Envelope, _ []*keys.Identity) (*envelope.Envelope, string) {
		n := rng.IntN(len(b.wireA))
		m, p := decode(b.wireA[:n])
		return m, fmt.Sprintf("[:%d]%s", n, p)
	})
	add("wire/drop-prefix", func(rng *rand.Rand, b *base, e *envelope.Envelope, _ []*keys.Identity) (*envelope.Envelope, string) {
		n := 1 + rng.IntN(len(b.wireA)-1)
		m, p := decode(b.wireA[n:])
		return m, fmt.Sprintf("[%d:]%s", n, p)
	})
	add("wire/insert", func(rng *rand.Rand, b *base, e *envelope.Envelope, _ []*keys.Identity) (*envelope.Envelope, string) {
		n := rng.IntN(len(b.wireA) + 1)
		ins := g3env.RandBytes(rng, 1+rng.IntN(4))
		w := append(append(append([]byte(nil), b.wireA[:n]...), ins...), b.wireA[n:]...)
		m, p := decode(w)
		return m, fmt.Sprintf("@%d+%x%s", n, ins, p)
	})
	add("wire/overwrite", func(rng *rand.Rand, b *base, e *envelope.Envelope, _ []*keys.Identity) (*envelope.Envelope, string) {
		w := append([]byte(nil), b.wireA...)
		n := rng.IntN(len(w))
		l := 1 + rng.IntN(8)
		for k := n; k < n+l && k < len(w); k++ {
			w[k] = byte(rng.UintN(256))
		}
		m, p := decode(w)
		return m, fmt.Sprintf("@%d len%d %x%s", n, l, w[n:min(n+l, len(w))], p)
	})
	add("wire/append-second-envelope", func(rng *rand.Rand, b *base, e *envelope.Envelope, _ []*keys.Identity) (*envelope.Envelope, string) {
		// proto merge semantics: scalar fields last-wins, repeated fields concatenate
		w := append(append([]byte(nil), b.wireA...), b.wireA...)
		m, p := decode(w)
		return m, "A+A" + p
	})
	// splices of two genuine envelopes: B's payload is a legitimate outcome
	sp := func(kind string, f fn) { ms = append(ms, mut{kind: kind, splice: true, f: f}) }
	sp("splice/wire-prefixA-suffixB", func(rng *rand.Rand, b *base, e *envelope.Envelope, _ []*keys.Identity) (*envelope.Envelope, string) {
		p := rng.IntN(len(b.wireA))
		q := rng.IntN(len(b.wireB))
		if rng.IntN(2) == 0 {
			q = min(p, len(b.wireB))
		}
		w := append(append([]byte(nil), b.wireA[:p]...), b.wireB[q:]...)
		m, pd := decode(w)
		return m, fmt.Sprintf("A[:%d]+B[%d:]%s", p, q, pd)
	})
	sp("splice/wire-concat-A-B", func(rng *rand.Rand, b *base, e *envelope.Envelope, _ []*keys.Identity) (*envelope.Envelope, string) {
		w := append(append([]byte(nil), b.wireA...), b.wireB...)
		m, pd := decode(w)
		return m, pd
	})
	sp("splice/fields", func(rng *rand.Rand, b *base, e *envelope.Envelope, _ []*keys.Identity) (*envelope.Envelope, string) {
		o := b.B.Env.CloneVT()
		mask := 1 + rng.IntN(62) // a proper, non-empty subset of 6 fields
		var d []string
		if mask&1 != 0 {
			e.EnvelopeId = o.EnvelopeId
			d = append(d, "id")
		}
		if mask&2 != 0 {
			e.Ciphertext = o.Ciphertext
			d = append(d, "ciphertext")
		}
		if mask&4 != 0 {
			e.Grants = o.Grants
			d = append(d, "grants")
		}
		if mask&8 != 0 {
			e.Keypairs = o.Keypairs
			d = append(d, "keypairs")
		}
		if mask&16 != 0 {
			e.ContextHash = o.ContextHash
			d = append(d, "ctxhash")
		}
		if mask&32 != 0 && len(e.Grants) > 0 && len(o.Grants) > 0 {
			i := rng.IntN(min(len(e.Grants), len(o.Grants)))
			e.Grants[i] = o.Grants[i]
			d = append(d, fmt.Sprintf("grant%d", i))
		}
		return e, "fromB:" + strings.Join(d, "+")
	})
	return ms
}

func TestC18(t *testing.T) {
	r := vf.Start(t, "C18", vf.Exploration)
	defer r.Finish()
	r.SetRule("bases = 7 genuine envelope pairs A/B (1-of-1, 2-of-2, 2-of-3, OR grant over two keys, 3-of-4-shares over three keys, a key listed twice, zero-share grant) sealed per seed with PRNG payloads and contexts. Part 1 (context): every base is unsealed under PRNG / neighbouring context strings that differ from the sealing one; demanded: error Is ErrContextMismatch, no payload. Part 2 (tampering): mutation kinds are cycled (threshold, grant list, keypair indexes, ciphertext lists, grant / payload ciphertext bytes, envelope id, context hash, keypair list, attacker-made grants encrypted to a recipient with crafted shares [zero id, exact and non-canonical duplicate ids, collisions with genuine ids, bad lengths, 10k shares, garbage], wire-level bit flips / truncations / insertions / overwrites of MarshalVT, splices of A with B) with PRNG parameters; the mutant is unsealed under the right context with all recipients' keys and with a PRNG subset. Part 3: PRNG byte strings and PRNG-built envelope messages through UnmarshalVT -> UnlockEnvelope. One evaluation = one unseal of one mutant (or an undecodable mutant, trivial); non-trivial = the mutant differs from the genuine envelope and was unsealed; distinct = distinct (base, kind, parameters, key set). Oracle: no panic (decode or unseal); returned payload is empty or exactly A's payload (for splices of A and B: or exactly B's); a payload never comes with an error or without success")
	r.Assume("splicing two genuine envelopes of the same recipients and context may reproduce B as a whole; B's payload is then not a forgery (envelopes carry no sender authentication)")
	r.Assume("the sealed secret comes from crypto/rand inside CIRCL (BuildEnvelope's rnd is not used for Ristretto scalars): envelope bytes differ between runs of the same seed, the case list (kinds, parameters, key sets) does not; witnesses carry the mutant's wire bytes")
	pool := g3env.NewPool(r)
	rng := r.Rand("c18/bases")

	cfgs := []struct {
		name string
		c    g3env.Config
	}{
		{"1of1", g3env.Config{Recips: []int{0}, Thr: 0, Grants: []g3env.Grant{{Count: 1, Idx: []uint32{0}}}}},
		{"2of2", g3env.Config{Recips: []int{0, 1}, Thr: 1, Grants: []g3env.Grant{{Count: 1, Idx: []uint32{0}}, {Count: 1, Idx: []uint32{1}}}}},
		{"2of3", g3env.Config{Recips: []int{2, 0, 1}, Thr: 1, Grants: []g3env.Grant{{Count: 1, Idx: []uint32{0}}, {Count: 1, Idx: []uint32{1}}, {Count: 1, Idx: []uint32{2}}}}},
		{"or-grant", g3env.Config{Recips: []int{3, 4}, Thr: 0, Grants: []g3env.Grant{{Count: 1, Idx: []uint32{0, 1}}}}},
		{"3of4shares", g3env.Config{Recips: []int{0, 1, 2}, Thr: 2, Grants: []g3env.Grant{{Count: 2, Idx: []uint32{0}}, {Count: 1, Idx: []uint32{1}}, {Count: 1, Idx: []uint32{2, 0}}}}},
		{"dup-recipient", g3env.Config{Recips: []int{1, 1, 4}, Thr: 1, Grants: []g3env.Grant{{Count: 1, Idx: []uint32{1}}, {Count: 2, Idx: []uint32{2, 0}}}}},
		{"zero-share-grant", g3env.Config{Recips: []int{0, 3}, Thr: 1, Override: 2, Grants: []g3env.Grant{{Count: 2, Idx: []uint32{0}}, {Count: 1, Idx: []uint32{1}}}}},
	}
	var bases []*base
	for _, bc := range cfgs {
		b := &base{name: bc.name, cfg: bc.c, ctx: g3env.RandContext(rng), all: g3env.DistinctKeys(bc.c)}
		if rng.IntN(3) == 0 {
			b.ctx = "myapp/" + bc.name + " v1"
		}
		b.A = g3env.Seal(pool, bc.c, b.ctx, g3env.RandBytes(rng, 1+rng.IntN(64)), rng)
		b.B = g3env.Seal(pool, bc.c, b.ctx, g3env.RandBytes(rng, 1+rng.IntN(64)), rng)
		for _, s := range []*g3env.Sealed{b.A, b.B} {
			if s.Err != nil || s.Panic != "" {
				t.Fatalf("harness: base %s does not seal: %v %s", bc.name, s.Err, s.Panic)
			}
			o := g3env.Unlock(pool, b.ctx, s.Env, b.all)
			if !bytes.Equal(o.Payload, s.Payload) {
				t.Fatalf("harness: base %s does not open with all keys: %s (C16/C17 territory)", bc.name, o)
			}
		}
		b.wireA, _ = b.A.Env.MarshalVT()
		b.wireB, _ = b.B.Env.MarshalVT()
		ref := g3env.NewRef(bc.c)
		for _, sh := range ref.Shares {
			b.nShare += len(sh)
		}
		bases = append(bases, b)
	}
	// is the attacker's replica of the grant encryption context still right?
	replicaOK := false
	{
		b := bases[0]
		dec, err := peer.DecryptWithPrivKey(pool[b.cfg.Recips[0]].Priv, g3env.GrantEncContext(b.A.Env.EnvelopeId, b.ctx, 0), b.A.Env.Grants[0].Ciphertexts[0])
		inner := &envelope.EnvelopeGrantInner{}
		replicaOK = err == nil && inner.UnmarshalVT(dec) == nil && len(inner.Shares) == 1
		r.Extra("attacker_context_replica_valid", replicaOK)
		if !replicaOK {
			r.Inconclusive("the harness' replica of the grant encryption context no longer decrypts a genuine grant: attacker-made grants are not reaching the share parser")
		}
	}

	// ---------- part 1: context binding
	crng := r.Rand("c18/contexts")
	nctx := r.N(40, 1500)
	for bi, b := range bases {
		r.Begin("context binding, base " + b.name)
		alts := []string{"", b.ctx + " ", " " + b.ctx, b.ctx + "\x00", strings.ToUpper(b.ctx), b.ctx + b.ctx, "x"}
		if len(b.ctx) > 0 {
			alts = append(alts, b.ctx[:len(b.ctx)-1], b.ctx[1:])
		}
		for len(alts) < nctx {
			alts = append(alts, g3env.RandContext(crng))
		}
		for _, c2 := range alts {
			if c2 == b.ctx {
				continue
			}
			ids := b.all
			if crng.IntN(4) == 0 {
				ids = nil
			}
			o := g3env.Unlock(pool, c2, b.A.Env, ids)
			r.Count("context_unseals", 1)
			r.Case(fmt.Sprintf("ctx|%d|%q|%v", bi, c2, ids), true)
			w := map[string]any{"base": b.name, "config": b.cfg.Sig(), "sealed_context": b.ctx, "unseal_context": c2, "offered_key_ids": ids, "observed": o.String()}
			switch {
			case o.Panic != "":
				r.Violation("context/panic", "UnlockEnvelope panicked under a different context: "+o.Panic, w)
			case len(o.Payload) != 0:
				r.Violation("context/payload-under-other-context", "unsealing under a different context string returned a payload", w)
			case o.Err == nil:
				r.Violation("context/no-error", "unsealing under a different context string was not rejected with an error", w)
			case !errors.Is(o.Err, envelope.ErrContextMismatch):
				r.Violation("context/other-error", "unsealing under a different context string was rejected, but not as a context mismatch: "+o.Err.Error(), w)
			default:
				r.Count("context_mismatch_reported", 1)
			}
		}
	}

	// ---------- part 2: tampering
	ms := mutations()
	r.Extra("mutation_kinds", len(ms))
	n := r.N(2500, 40000)
	var smu sync.Mutex
	sampled := map[string]bool{}
	judge := func(count func(string), key string, allowed [][]byte, o g3env.Obs, w map[string]any) {
		switch {
		case o.Panic != "":
			r.Violation("panic/"+key, "UnlockEnvelope panicked on a tampered envelope: "+o.Panic, w)
			count("outcome_panic")
			return
		case len(o.Payload) == 0:
			if o.Err != nil {
				count("outcome_error")
				count("error: " + o.Err.Error())
			} else {
				count("outcome_insufficient_shares")
			}
			if o.Err == nil && o.Res.GetSuccess() {
				r.Violation("success-without-payload/"+key, "result reports success but no payload was returned", w)
			}
			return
		}
		ok := false
		for _, a := range allowed {
			if bytes.Equal(a, o.Payload) {
				ok = true
			}
		}
		if !ok {
			r.Violation("different-payload/"+key, "unsealing a tampered envelope returned a payload that is not the sealed one", w)
			return
		}
		count("outcome_original_payload")
		if o.Err != nil || !o.Res.GetSuccess() {
			r.Violation("payload-without-success/"+key, "a payload was returned together with an error / without success", w)
		}
	}
	direct := func(k string) { r.Count(k, 1) }
	g3env.Batches(r, n, 256, func(i int) string { return fmt.Sprintf("tamper case %d kind %s", i, ms[i%len(ms)].kind) }, func(i int) {
		m := ms[i%len(ms)]
		if strings.HasPrefix(m.kind, "attacker/") && !replicaOK {
			return
		}
		mrng := r.Rand(fmt.Sprintf("c18/tamper/%d", i))
		b := bases[(i/len(ms)+i)%len(bases)]
		var me *envelope.Envelope
		var desc string
		p, pd := vf.Try(func() { me, desc = m.f(mrng, b, b.A.Env.CloneVT(), pool) })
		if p {
			t.Errorf("harness: mutation %s panicked: %s", m.kind, pd)
			return
		}
		w := map[string]any{"base": b.name, "config": b.cfg.Sig(), "context": b.ctx, "mutation": m.kind, "parameters": desc, "payload_A": vf.Hex(b.A.Payload)}
		if strings.Contains(desc, "PANIC:") {
			r.Violation("decode-panic/"+m.kind, "Envelope.UnmarshalVT panicked: "+desc, w)
			r.Case(fmt.Sprintf("%s|%s|%s", b.name, m.kind, desc), false)
			return
		}
		r.Count("mutants", 1)
		if me == nil {
			r.Count("mutants_undecodable", 1)
			r.Case(fmt.Sprintf("%s|%s|%s", b.name, m.kind, desc), false)
			return
		}
		changed := !me.EqualVT(b.A.Env)
		if !changed {
			r.Count("mutants_identical_to_original", 1)
		}
		if mb, err := me.MarshalVT(); err == nil {
			w["mutant_wire"] = fmt.Sprintf("%x", mb[:min(len(mb), 4096)])
		}
		allowed := [][]byte{b.A.Payload}
		if m.splice {
			allowed = append(allowed, b.B.Payload)
			w["payload_B"] = vf.Hex(b.B.Payload)
		}
		sets := [][]int{b.all}
		if mrng.IntN(2) == 0 {
			var sub []int
			for _, id := range b.all {
				if mrng.IntN(2) == 0 {
					sub = append(sub, id)
				}
			}
			sub = append(sub, g3env.Unrelated)
			sets = append(sets, sub)
		}
		for _, ids := range sets {
			o := g3env.Unlock(pool, b.ctx, me, ids)
			ww := map[string]any{"offered_key_ids": ids, "observed": o.String()}
			for k, v := range w {
				ww[k] = v
			}
			judge(direct, m.kind, allowed, o, ww)
			r.Count("tamper_unseals", 1)
			r.Distinct("mutation_kinds_unsealed", m.kind)
			if strings.HasPrefix(m.kind, "attacker/") && o.Res != nil && len(ids) == len(b.all) {
				for _, g := range o.Res.GetUnlockedGrantIndexes() {
					if strings.HasPrefix(desc, fmt.Sprintf("g%d->", g)) {
						r.Count("attacker_grants_decrypted_by_unseal", 1)
					}
				}
			}
			r.Case(fmt.Sprintf("%s|%s|%s|%v", b.name, m.kind, desc, ids), changed)
			smu.Lock()
			if !sampled[m.kind] && len(sampled) < 6 && (i*7)%len(ms) < 9 {
				sampled[m.kind] = true
				delete(ww, "mutant_wire")
				r.Sample(ww)
			}
			smu.Unlock()
		}
	})

	// ---------- part 3: arbitrary bytes / arbitrary messages
	nf := r.N(5000, 150000)
	const chunk = 250
	g3env.Batches(r, nf/chunk, 64, func(ci int) string { return fmt.Sprintf("arbitrary input cases %d..", ci*chunk) }, func(ci int) {
		// cases are microseconds each: count locally, flush once per chunk
		local := map[string]int{}
		count := func(k string) { local[k]++ }
		defer func() {
			for k, v := range local {
				r.Count(k, v)
			}
		}()
		frng := r.Rand(fmt.Sprintf("c18/fuzz/%d", ci))
		for i := ci * chunk; i < (ci+1)*chunk; i++ {
			fuzzOne(r, pool, bases, frng, i, count, judge)
		}
	})
}

func fuzzOne(r *vf.Run, pool []*keys.Identity, bases []*base, frng *rand.Rand, i int, count func(string), judge func(count func(string), key string, allowed [][]byte, o g3env.Obs, w map[string]any)) {
	{
		b := bases[i%len(bases)]
		var me *envelope.Envelope
		var kind string
		var raw []byte
		if i%2 == 0 {
			kind = "random-bytes"
			raw = g3env.RandBytes(frng, frng.IntN(120))
			if frng.IntN(3) == 0 {
				// protobuf-looking: tags of the envelope fields with random lengths
				raw = nil
				for k := frng.IntN(8); k > 0; k-- {
					tag := []byte{0x0a, 0x12, 0x18, 0x22, 0x2a, 0x32, 0x3a}[frng.IntN(7)]
					body := g3env.RandBytes(frng, frng.IntN(12))
					raw = append(raw, tag)
					if tag != 0x18 {
						raw = append(raw, byte(len(body)))
					}
					raw = append(raw, body...)
				}
			}
			var pd string
			me, pd = decode(raw)
			if pd != "" {
				r.Violation("decode-panic/random-bytes", "Envelope.UnmarshalVT panicked: "+pd, map[string]any{"bytes": fmt.Sprintf("%x", raw)})
				r.Case(fmt.Sprintf("fuzz|%d", i), false)
				return
			}
			if me == nil {
				count("arbitrary_undecodable")
				r.Case(fmt.Sprintf("fuzz|%x", raw), false)
				return
			}
		} else {
			kind = "random-message"
			// a message with the right context hash and genuine keypairs so that
			// it gets past the first checks; everything else random
			me = &envelope.Envelope{EnvelopeId: g3env.RandContext(frng), ContextHash: b.A.Env.ContextHash, Threshold: uint32(frng.IntN(4)), Ciphertext: g3env.RandBytes(frng, frng.IntN(60))}
			for _, kp := range b.A.Env.Keypairs {
				me.Keypairs = append(me.Keypairs, kp.CloneVT())
			}
			for k := frng.IntN(4); k >= 0; k-- {
				g := &envelope.EnvelopeGrant{}
				for j := frng.IntN(3); j > 0; j-- {
					g.KeypairIndexes = append(g.KeypairIndexes, uint32(frng.IntN(len(me.Keypairs)+1)))
					if frng.IntN(3) == 0 {
						g.Ciphertexts = append(g.Ciphertexts, b.A.Env.Grants[frng.IntN(len(b.A.Env.Grants))].Ciphertexts[0])
					} else {
						g.Ciphertexts = append(g.Ciphertexts, g3env.RandBytes(frng, frng.IntN(90)))
					}
				}
				me.Grants = append(me.Grants, g)
			}
			raw, _ = me.MarshalVT()
			if d, pd := decode(raw); pd != "" {
				r.Violation("decode-panic/random-message", "Envelope.UnmarshalVT panicked: "+pd, map[string]any{"bytes": fmt.Sprintf("%x", raw)})
			} else if d != nil {
				me = d
			}
		}
		o := g3env.Unlock(pool, b.ctx, me, b.all)
		count("arbitrary_unseals")
		count("arbitrary_unseals_" + kind)
		w := map[string]any{"kind": kind, "bytes": fmt.Sprintf("%x", raw), "context": b.ctx, "offered_key_ids": b.all, "observed": o.String()}
		judge(count, "arbitrary/"+kind, nil, o, w)
		r.Case(fmt.Sprintf("fuzz|%s|%x", kind, raw), true)
	}
}
