// C31: a solicited stream has at most one owner.
//
// Part 1: linearizability (porcupine) of concurrent AcceptMountedStream /
// Close calls on ONE SolicitMountedStream value against the sequential model
// written from the property text; schedules are free-running, yielding at the
// hook point, or gate-controlled at the hook point.
// Part 2: two-node harness: over all values a node received, each physical
// stream is returned to at most one accepting caller and an accepted stream is
// never closed through a solicitation value; includes scenarios in which one of
// several matching resolvers rejects the value (AddValue ok=false) or is
// released while the match is being resolved.
package c31

import (
	"errors"
	"fmt"
	"math/rand/v2"
	"runtime"
	"sort"
	"strings"
	"sync"
	"sync/atomic"
	"testing"
	"time"

	"github.com/anishathalye/porcupine"
	link_solicit "github.com/aperturerobotics/bifrost/link/solicit"
	"github.com/aperturerobotics/bifrost/util/verifhook"
	"verifharness/g10sol"
	"verifharness/vf"
)

const hookName = "solicit.accept.gap"

type opKind int

const (
	opAccept opKind = iota
	opClose
)

func (k opKind) String() string {
	if k == opAccept {
		return "accept"
	}
	return "close"
}

// out is the observed result of one call.
type out struct {
	Stream  bool // accept returned the (right) stream
	Wrong   bool // accept returned some other non-nil stream
	Already bool
	Err     bool
	Closed  bool // close returned true
}

func (o out) String() string {
	switch {
	case o.Wrong:
		return "WRONG-STREAM"
	case o.Stream:
		return "stream"
	case o.Already:
		return "already"
	case o.Err:
		return "err"
	case o.Closed:
		return "true"
	}
	return "false/none"
}

// sequential model from the property text and the interface documentation.
const (
	stOpen = iota
	stAccepted
	stClosed
)

// faulty: the underlying stream's Close misbehaves (returns an error, is slow).
// The property text fixes what ACCEPT may do after a Close call that found the
// value open (never the stream), not what that Close call itself reports when
// the stream's own Close failed: its result is then not judged.
func model(init int, faulty bool) porcupine.Model {
	return porcupine.Model{
		Init: func() interface{} { return init },
		Step: func(state, input, output interface{}) (bool, interface{}) {
			st, k, o := state.(int), input.(opKind), output.(out)
			if k == opAccept {
				switch st {
				case stOpen: // first accept owns the stream
					return o.Stream && !o.Wrong && !o.Already && !o.Err, stAccepted
				case stAccepted: // later accepts: already accepted, no stream
					return !o.Stream && !o.Wrong && o.Already && !o.Err, stAccepted
				default: // closed: never returns the stream
					return !o.Stream && !o.Wrong && o.Err, stClosed
				}
			}
			switch st {
			case stOpen:
				// the value is closed by this call whatever the stream's Close said
				return o.Closed || faulty, stClosed
			case stAccepted: // an accepted stream is never closed by the solicitation
				return !o.Closed, stAccepted
			default:
				// closing a closed value again: the property does not say what is
				// returned; both results are allowed
				return true, stClosed
			}
		},
		DescribeOperation: func(in, o interface{}) string { return fmt.Sprintf("%v -> %v", in, o) },
	}
}

type histSpec struct {
	ops   [][]opKind // per goroutine
	mode  string     // "free", "yield", "gated", "closegate"
	pre   int        // gated: index of the armed accept within goroutine 0
	erred bool       // value constructed with an error
	// fault: Close behaviour of the underlying stream (g10sol.Close* constants);
	// remoteGone: the other end of the stream was closed before the history
	fault      int
	remoteGone bool
}

func (h histSpec) String() string {
	var b strings.Builder
	b.WriteString(h.mode)
	if h.erred {
		b.WriteString("/errored")
	}
	if h.fault != g10sol.CloseOK {
		b.WriteString("/" + g10sol.CloseFaultNames[h.fault])
	}
	if h.remoteGone {
		b.WriteString("/remote-end-closed-first")
	}
	for g, l := range h.ops {
		fmt.Fprintf(&b, " g%d:", g)
		if len(l) > 16 {
			// long list: run-length form, e.g. a256 c1 a44
			for i := 0; i < len(l); {
				j := i
				for j < len(l) && l[j] == l[i] {
					j++
				}
				fmt.Fprintf(&b, "%s%d", l[i].String()[:1], j-i)
				if j < len(l) {
					b.WriteByte(' ')
				}
				i = j
			}
			continue
		}
		for i, k := range l {
			if h.mode == "gated" && g == 0 && i == h.pre {
				b.WriteString("[gap]")
			}
			b.WriteString(k.String()[:1])
		}
	}
	return b.String()
}

func genSpec(rng *rand.Rand, mode string) histSpec {
	g := 2 + rng.IntN(3)
	total := g + rng.IntN(7-g)
	h := histSpec{mode: mode, ops: make([][]opKind, g)}
	for i := 0; i < total; i++ {
		gi := i
		if i >= g {
			gi = rng.IntN(g)
		}
		k := opAccept
		if rng.IntN(5) < 2 {
			k = opClose
		}
		h.ops[gi] = append(h.ops[gi], k)
	}
	if mode == "closegate" {
		// some goroutine must close, and some other one should accept meanwhile
		hasC, hasA := false, false
		for _, l := range h.ops {
			for _, k := range l {
				hasC = hasC || k == opClose
				hasA = hasA || k == opAccept
			}
		}
		if !hasC {
			h.ops[0][0] = opClose
		}
		if !hasA {
			h.ops[1][0] = opAccept
		}
	}
	if mode == "gated" {
		// goroutine 0 needs an accept to pause in
		idx := -1
		for i, k := range h.ops[0] {
			if k == opAccept {
				idx = i
				break
			}
		}
		if idx < 0 {
			h.ops[0][0] = opAccept
			idx = 0
		}
		h.pre = idx
		// make sure someone can close / accept while paused
		has := false
		for _, l := range h.ops[1:] {
			for _, k := range l {
				if k == opClose {
					has = true
				}
			}
		}
		if !has && rng.IntN(4) != 0 {
			h.ops[1][0] = opClose
		}
	}
	return h
}

var errSeed = errors.New("seeded error")

type gateCtl struct {
	armed   atomic.Bool
	reached chan struct{}
	release chan struct{}
}

func TestCheck(t *testing.T) {
	r := vf.Start(t, "C31", vf.Exploration)
	defer r.Finish()
	r.SetRule("Part 1: PRNG histories of 2-4 goroutines with <= 6 accept/close calls on ONE fresh SolicitMountedStream value wrapping a harness stream that counts Close calls; three schedule families: free-running from a barrier, yielding (Gosched) at the verif hook point inside AcceptMountedStream, and gate-controlled (one accept is parked at the hook point while all other goroutines run to completion, then released). Call/return are stamped from one atomic counter; porcupine decides linearizability against the model {open, accepted, closed}: accept: open->accepted returns the stream, accepted->(nil,true,nil), closed->error and no stream; close: open->closed returns true, accepted->false, closed->any. Four schedule families now: the three above plus CLOSE-GATED (one Close call of the value is parked inside the underlying stream's Close - a slow close - while the other goroutines run, then released). In half of the histories the underlying stream is FAULTY: its Close returns an error (always / on the first call only / on repeated calls only / iff the remote end was closed before, which the harness then does first) or yields the processor several times (slow, with and without error); the stream end is closed by the call whatever it returns. The model is unchanged except that the RESULT of a Close call that found the value open is not judged when the stream is faulty (the property text does not say what Close reports when the stream's own Close fails): the value is closed by that call and no later accept may return the stream. Also: a stream that was returned by an accept has Close count 0. Non-trivial = history containing both an accept and a close on >= 2 goroutines; distinct = distinct (spec, observed interleaving). LONG histories (own block): one goroutine makes 300..1100 calls one after the other on ONE value, mostly accepts (a polling caller / many matching solicitations claiming the value one by one), closes interleaved at varying points - none; one close after exactly b accepts for b in {1,2,64,127..129,255..258,300,511..513,600}; closes after every multiple of 256 accepts; 1-5 closes at PRNG positions; a close first or right after the first accept and again after 256..258 accepts - in half of them a second goroutine makes 1-3 free-running calls, a quarter on faulty streams; same sequential model, same oracle (porcupine), the number of accept calls beyond the 256th on one value is in the evidence. Part 2: two-node harness (see C30) with several local directives of equal (protocol id, context) and different constraints; all values of a node are accepted / closed concurrently; per physical stream successful accepts <= 1 and an accepted stream has Close count 0. A block of REJECT scenarios (own batches): one node holds 2-3 requests with the same (protocol id, context) and different link-admitting constraints, the other node solicits the pair, and one of the matching resolvers rejects the value or goes away around the match, in seven patterns: every consumer accepts INSIDE the delivering AddValue call and then closes its siblings' bus instances (directive.Instance.Close, or Reference.Release + CloseIfUnreferenced) so that controllerbus answers the controller's next AddValue of the same match with ok=false; only one consumer does that; one request is registered with the controller directly (Controller.HandleDirective + Resolver.Resolve) with a harness directive.ResolverHandler that rejects every value, or has a hard cap of one value over two links; one bus request is closed by the harness at the moment the solicited stream is handed to its node's controller (synchronously, or from a free-running goroutine); static and dynamic (remote request last, after a quiescence). In every third generated scenario and every fourth reject scenario both ends of every solicited stream are FAULTY in the same six ways, and the accept / close plan of those scenarios has more closes, including Close calls that have RETURNED before the accept of the same value is called (one goroutine). Oracle for all two-node scenarios: per physical stream at most one successful accept over all values and consumers of the node (accepts inside the delivery included), a stream that some accept returned has Close count 0 at its node's end at the end, and the Close count read when an accept returns a stream is 0 (a closed stream is never handed over). Non-trivial = scenario where at least one stream matches >= 2 local directives")

	part1(r)
	partLong(r)
	g10sol.RunTwoNodeC31(r)
}

func part1(r *vf.Run) {
	rng := r.Rand("c31-hist")
	frng := r.Rand("c31-hist-stream-faults")
	n := r.N(2400, 100000)
	var gc gateCtl
	hits0 := verifhook.Hits(hookName)
	var yieldCtr atomic.Uint64
	// probe: is the hook point compiled into this tree?
	{
		a, _ := g10sol.NewFakeStreamPair(0)
		v := link_solicit.NewSolicitMountedStream(&g10sol.FakeMountedStream{Strm: a})
		_, _, _ = v.AcceptMountedStream()
	}
	hookMissing := verifhook.Hits(hookName) == hits0
	if hookMissing {
		r.Inconclusive("hook point " + hookName + " is not present in this tree: yielding and gate-controlled schedules are skipped, free-running only")
	}

	for i := 0; i < n; i++ {
		mode := "free"
		switch i % 4 {
		case 1:
			mode = "yield"
		case 2:
			mode = "gated"
		case 3:
			mode = "closegate"
		}
		if hookMissing && (mode == "yield" || mode == "gated") {
			mode = "free"
		}
		spec := genSpec(rng, mode)
		if rng.IntN(25) == 0 {
			spec.erred = true
		}
		// faulty underlying streams: Close returns an error (always / first call /
		// repeated calls / when the remote end went away first) or is slow
		if frng.IntN(2) == 0 {
			spec.fault = 1 + frng.IntN(g10sol.NumCloseFaults-1)
			spec.remoteGone = spec.fault == g10sol.CloseErrRemoteGone || frng.IntN(6) == 0
		}
		if i%64 == 0 {
			r.Begin(fmt.Sprintf("history %d: %s", i, spec))
		}
		switch mode {
		case "yield":
			verifhook.SetPoint(hookName, func() {
				if yieldCtr.Add(1)%3 != 0 {
					runtime.Gosched()
				}
			})
		case "gated":
			gc.reached = make(chan struct{}, 1)
			gc.release = make(chan struct{})
			g := &gc
			verifhook.SetPoint(hookName, func() {
				if g.armed.CompareAndSwap(true, false) {
					g.reached <- struct{}{}
					<-g.release
				}
			})
		default:
			verifhook.SetPoint(hookName, nil)
		}
		ops, closes, inconclusive := runHistory(spec, &gc)
		verifhook.SetPoint(hookName, nil)
		if inconclusive != "" {
			r.Inconclusive(inconclusive + " :: " + spec.String())
			r.Case("h|"+spec.String(), false)
			continue
		}
		evalHistory(r, spec, ops, closes, i < 3)
	}
	r.Extra("hook_hits_"+hookName, verifhook.Hits(hookName)-hits0)
}

// longBoundaries are the numbers of accept calls after which a long history
// places a close (or ends): the powers of two where a narrow call counter wraps,
// and their neighbours.
var longBoundaries = []int{255, 256, 257, 258, 300, 511, 512, 513, 127, 128, 129, 64, 1, 2, 600}

// genLongSpec builds LONG history k on one value: goroutine 0 makes 300..1100
// calls one after the other, mostly accepts (a caller polling the value, or many
// matching solicitations claiming it one by one), with closes interleaved at
// varying points: none at all; one close after exactly b accepts for b of
// longBoundaries; a few closes at PRNG positions; a close first (all later
// accepts find the value closed). In half of the histories a second goroutine
// makes 1-3 free-running calls of its own.
func genLongSpec(rng *rand.Rand, k int) histSpec {
	h := histSpec{mode: "long"}
	total := 300 + rng.IntN(400)
	if k%5 == 4 {
		total = 700 + rng.IntN(400)
	}
	closeAfter := map[int]bool{} // number of accepts made so far -> close here
	switch k % 6 {
	case 0: // accepts only
	case 1, 2: // one close after exactly b accepts
		closeAfter[longBoundaries[(k/6+k%6*7)%len(longBoundaries)]] = true
	case 3: // closes at every multiple of 256 (and once of 128)
		closeAfter[256], closeAfter[512], closeAfter[768], closeAfter[1024] = true, true, true, true
		if rng.IntN(2) == 0 {
			closeAfter[128] = true
		}
	case 4: // a few closes at PRNG positions
		for c := 1 + rng.IntN(5); c > 0; c-- {
			closeAfter[1+rng.IntN(total)] = true
		}
	default: // close first, or right after the first accept, then a long tail
		closeAfter[rng.IntN(2)] = true
		if rng.IntN(2) == 0 {
			closeAfter[256+rng.IntN(3)] = true
		}
	}
	var l []opKind
	for acc := 0; acc <= total; acc++ {
		if closeAfter[acc] {
			l = append(l, opClose)
		}
		if acc < total {
			l = append(l, opAccept)
		}
	}
	h.ops = [][]opKind{l}
	if rng.IntN(2) == 0 {
		var o []opKind
		for c := 1 + rng.IntN(3); c > 0; c-- {
			if rng.IntN(2) == 0 {
				o = append(o, opClose)
			} else {
				o = append(o, opAccept)
			}
		}
		h.ops = append(h.ops, o)
	}
	return h
}

// partLong: long single-value histories (see genLongSpec); same sequential
// model, same oracle.
func partLong(r *vf.Run) {
	rng := r.Rand("c31-long-hist")
	n := r.N(120, 4000)
	verifhook.SetPoint(hookName, nil)
	t0 := time.Now() // evidence only
	defer func() { r.Extra("long_history_phase_s", time.Since(t0).Seconds()) }()
	for i := 0; i < n; i++ {
		spec := genLongSpec(rng, i)
		if rng.IntN(25) == 0 {
			spec.erred = true
		}
		if rng.IntN(4) == 0 {
			spec.fault = 1 + rng.IntN(g10sol.NumCloseFaults-1)
			spec.remoteGone = spec.fault == g10sol.CloseErrRemoteGone
		}
		if i%16 == 0 {
			r.Begin(fmt.Sprintf("long history %d: %s", i, spec))
		}
		ops, closes, inconclusive := runHistory(spec, nil)
		if inconclusive != "" {
			r.Inconclusive(inconclusive + " :: " + spec.String())
			r.Case("h|"+spec.String(), false)
			continue
		}
		maxAcc := 0
		for _, l := range spec.ops {
			a := 0
			for _, k := range l {
				if k == opAccept {
					a++
				}
			}
			maxAcc = max(maxAcc, a)
		}
		r.Count("long_histories_accept_calls_beyond_the_256th_on_one_value", max(0, maxAcc-256))
		if len(spec.ops) > 1 {
			r.Count("long_histories_with_a_second_goroutine", 1)
		}
		evalHistory(r, spec, ops, closes, i == 1)
	}
}

// compressTokens writes a token list, collapsing consecutive repetitions of a
// two-token pattern: (g0:a( g0:)already)x254.
func compressTokens(tok []string) string {
	var b strings.Builder
	for i := 0; i < len(tok); {
		if i+1 < len(tok) {
			reps := 1
			for i+2*reps+1 < len(tok) && tok[i+2*reps] == tok[i] && tok[i+2*reps+1] == tok[i+1] {
				reps++
			}
			if reps >= 3 {
				fmt.Fprintf(&b, "(%s %s)x%d ", tok[i], tok[i+1], reps)
				i += 2 * reps
				continue
			}
		}
		b.WriteString(tok[i])
		b.WriteByte(' ')
		i++
	}
	return b.String()
}

// runHistory executes one history on a fresh value.
func runHistory(spec histSpec, gc *gateCtl) (ops []porcupine.Operation, closes int, inconclusive string) {
	a, bEnd := g10sol.NewFakeStreamPair(1)
	a.Fault = spec.fault
	if spec.remoteGone {
		bEnd.Close()
	}
	if spec.mode == "closegate" {
		a.CloseGate = make(chan struct{})
		a.CloseEntered = make(chan struct{}, 1)
	}
	ms := &g10sol.FakeMountedStream{Strm: a, Proto: "solicit:test"}
	var val link_solicit.SolicitMountedStream
	if spec.erred {
		val = link_solicit.NewSolicitMountedStreamWithErr(errSeed)
	} else {
		val = link_solicit.NewSolicitMountedStream(ms)
	}
	closer, _ := val.(interface{ Close() bool })
	if closer == nil {
		return nil, 0, "value has no Close method"
	}
	var clock atomic.Int64
	var mu sync.Mutex
	do := func(g int, k opKind) {
		var o out
		call := clock.Add(1)
		if k == opAccept {
			got, already, err := val.AcceptMountedStream()
			if got != nil {
				if got == ms {
					o.Stream = true
				} else {
					o.Wrong = true
				}
			}
			o.Already, o.Err = already, err != nil
		} else {
			o.Closed = closer.Close()
		}
		ret := clock.Add(1)
		mu.Lock()
		ops = append(ops, porcupine.Operation{ClientId: g, Input: k, Call: call, Output: o, Return: ret})
		mu.Unlock()
	}
	var wg sync.WaitGroup
	if spec.mode == "gated" {
		victimDone := make(chan struct{})
		go func() {
			defer close(victimDone)
			for i, k := range spec.ops[0] {
				if i == spec.pre {
					gc.armed.Store(true)
				}
				do(0, k)
			}
		}()
		// wait until the victim is parked in the gap (or finished without reaching it)
		parked := false
		select {
		case <-gc.reached:
			parked = true
		case <-victimDone:
			gc.armed.Store(false)
		case <-time.After(30 * time.Second):
			return nil, 0, "watchdog: victim neither reached the hook nor finished"
		}
		for g := 1; g < len(spec.ops); g++ {
			wg.Add(1)
			go func(g int) {
				defer wg.Done()
				for _, k := range spec.ops[g] {
					do(g, k)
				}
			}(g)
		}
		wg.Wait()
		if parked {
			close(gc.release)
		}
		<-victimDone
		gc.armed.Store(false)
	} else {
		start := make(chan struct{})
		var finished atomic.Int32
		for g := range spec.ops {
			wg.Add(1)
			go func(g int) {
				defer wg.Done()
				defer finished.Add(1)
				<-start
				for _, k := range spec.ops[g] {
					do(g, k)
				}
			}(g)
		}
		close(start)
		if spec.mode == "closegate" {
			// One Close call of the value is parked INSIDE the underlying stream's
			// Close (slow close). Let the other goroutines run until they have all
			// finished or nothing moves any more (they wait for the value), then let
			// the stream's Close return. Schedule shaping only: no verdict depends
			// on how long this takes.
			allDone := make(chan struct{})
			go func() { wg.Wait(); close(allDone) }()
			select {
			case <-a.CloseEntered:
				last, stable := clock.Load(), 0
				for it := 0; it < 4000 && stable < 60 && int(finished.Load()) < len(spec.ops)-1; it++ {
					if it < 20 {
						runtime.Gosched()
					} else {
						time.Sleep(20 * time.Microsecond)
					}
					if c := clock.Load(); c != last {
						last, stable = c, 0
					} else {
						stable++
					}
				}
			case <-allDone:
			case <-time.After(30 * time.Second):
				close(a.CloseGate)
				<-allDone
				return nil, 0, "watchdog: no Close reached the stream and the history did not finish"
			}
			close(a.CloseGate)
			<-allDone
		} else {
			wg.Wait()
		}
	}
	return ops, a.Closes(), ""
}

func evalHistory(r *vf.Run, spec histSpec, ops []porcupine.Operation, closes int, sample bool) {
	// observed interleaving: order of call / return events
	type ev struct {
		t int64
		s string
	}
	var evs []ev
	nAcc, nClose, streams, closedTrue, errs := 0, 0, 0, 0, 0
	for _, o := range ops {
		k, res := o.Input.(opKind), o.Output.(out)
		evs = append(evs, ev{o.Call, fmt.Sprintf("g%d:%s(", o.ClientId, k.String()[:1])}, ev{o.Return, fmt.Sprintf("g%d:)%s", o.ClientId, res)})
		if k == opAccept {
			nAcc++
			if res.Stream {
				streams++
			}
			if res.Err {
				errs++
			}
		} else {
			nClose++
			if res.Closed {
				closedTrue++
			}
		}
	}
	sort.Slice(evs, func(i, j int) bool { return evs[i].t < evs[j].t })
	var sb strings.Builder
	for _, e := range evs {
		sb.WriteString(e.s)
		sb.WriteByte(' ')
	}
	inter := sb.String()
	concurrent := false
	for i := range ops {
		if len(ops) > 100 && ops[i].ClientId == 0 {
			continue // long history: goroutine 0 holds the long list; compare the others against all
		}
		for j := range ops {
			if i != j && ops[i].ClientId != ops[j].ClientId && ops[i].Call < ops[j].Return && ops[j].Call < ops[i].Return {
				concurrent = true
			}
		}
	}
	nt := nAcc > 0 && nClose > 0 && len(spec.ops) >= 2
	r.Case("h|"+spec.String()+"|"+inter, nt)
	r.Distinct("interleavings", inter)
	r.Distinct("history_specs", spec.String())
	r.Count("histories_"+spec.mode, 1)
	r.Count("accept_calls", nAcc)
	r.Count("close_calls", nClose)
	r.Count("accepts_returning_stream", streams)
	r.Count("accepts_returning_error", errs)
	r.Count("closes_returning_true", closedTrue)
	if concurrent {
		r.Count("histories_with_overlapping_calls", 1)
	}
	if sample {
		obs := inter
		if len(evs) > 64 {
			tok := make([]string, len(evs))
			for i, e := range evs {
				tok[i] = e.s
			}
			obs = compressTokens(tok)
		}
		r.Sample(map[string]any{"kind": "history", "spec": spec.String(), "observed": obs, "stream_close_calls": closes})
	}

	init := stOpen
	if spec.erred {
		init = stClosed
	}
	faulty := spec.fault != g10sol.CloseOK
	if faulty {
		r.Count("histories_with_faulty_stream_"+g10sol.CloseFaultNames[spec.fault], 1)
		if nClose > closedTrue {
			r.Count("close_calls_returning_false_on_faulty_stream", nClose-closedTrue)
		}
	}
	res, _ := porcupine.CheckOperationsVerbose(model(init, faulty), ops, 20*time.Second)
	shown := inter
	if len(evs) > 64 {
		tok := make([]string, len(evs))
		for i, e := range evs {
			tok[i] = e.s
		}
		shown = compressTokens(tok)
	}
	wit := map[string]any{"spec": spec.String(), "observed_call_return_order": shown, "stream_close_calls": closes, "underlying_stream_close_behaviour": g10sol.CloseFaultNames[spec.fault]}
	switch res {
	case porcupine.Unknown:
		r.Inconclusive("porcupine timed out :: " + spec.String())
	case porcupine.Illegal:
		cls := "other"
		switch {
		case streams > 1:
			cls = "two-owners"
		case streams == 1 && closedTrue > 0:
			cls = "stream-returned-although-closed"
		case closedTrue > 1 && streams == 0:
			cls = "close-results"
		case streams == 1 && nClose > 0 && closes > 0 && faulty:
			cls = "stream-returned-after-close-call/stream-close-failed"
		}
		if spec.mode == "long" {
			cls += "/long-history"
		}
		r.Violation("history/not-linearizable/"+cls,
			"concurrent accept/close calls on one solicitation value have no sequential explanation: a closed value returned the stream to an accepting caller, or a stream got two owners",
			wit)
	}
	if streams > 0 && closes > 0 {
		r.Violation("history/accepted-stream-closed", "the stream was handed to an accepting caller and was also closed by the solicitation value", wit)
	}
	if spec.erred && (streams > 0 || closedTrue > 0) {
		r.Violation("history/errored-value-active", "an errored solicitation value returned a stream or reported closing one", wit)
	}
}
