// C05, direct-call histories on a bare stream (conn) transport.
//
// The controller scenarios reach the transport only through DialPeer and reset
// the connections of an address when it is re-bound. Here the harness calls the
// transport's two dial entry points itself - Transport.DialPeer(peer, A) and
// Transport.HandleConn(dial=true, conn, A, peer) - in enumerated and PRNG
// histories over one address A whose service changes between X, Y and nobody
// while BOTH endpoints stay alive (a re-binding does not reset anything: the
// link made while Y served A stays up when X serves A, as with a websocket
// style address served by alternating back-ends).
package c05

import (
	"context"
	"errors"
	"fmt"
	"io"
	"net"
	"os"
	"strings"
	"sync"
	"time"

	"github.com/aperturerobotics/bifrost/link"
	"github.com/aperturerobotics/bifrost/peer"
	"github.com/aperturerobotics/bifrost/transport/common/conn"
	transport_quic "github.com/aperturerobotics/bifrost/transport/common/quic"
	"github.com/sirupsen/logrus"
	"verifharness/g5net"
	"verifharness/keys"
	"verifharness/vf"
)

// directHistory: ops separated by blanks.
//
//	sX sY sN   A is served by X / Y / nobody from now on (nothing is reset)
//	dX dY d_   Transport.DialPeer(ctx, X / Y / "", A)
//	hX hY h_   Transport.HandleConn(ctx, true, conn to whoever serves A, A, X / Y / "")
//
// after the last op: every link a successful op returned is closed, A is
// served by X and DialPeer(X, A) is called (the later request for X).
type directHistory []string

func (h directHistory) String() string { return "direct[" + strings.Join(h, " ") + "]" }

type directEnv struct {
	r     *vf.Run
	label string
	ctx   context.Context
	d     *g5net.StreamRemote
	peers map[byte]*g5net.StreamRemote

	mu      sync.Mutex
	serving byte // 'X', 'Y', 'N'
	hist    []string
	// requested: peer ids some dial op asked for so far ("" = any)
	requested map[peer.ID]bool
	// returned: links handed to the harness by successful ops
	returned []link.Link
	pipes    []io.Closer
}

func (e *directEnv) logf(f string, a ...any) {
	e.mu.Lock()
	e.hist = append(e.hist, fmt.Sprintf(f, a...))
	e.mu.Unlock()
}

func (e *directEnv) witness(extra map[string]any) map[string]any {
	e.mu.Lock()
	defer e.mu.Unlock()
	w := map[string]any{"history": e.label, "steps": append([]string(nil), e.hist...),
		"X": e.peers['X'].ID.ID.String(), "Y": e.peers['Y'].ID.ID.String(), "events_at_dialing_node": evStrings(e.d.Rec)}
	for k, v := range extra {
		w[k] = v
	}
	return w
}

func (e *directEnv) name(id peer.ID) string {
	switch id {
	case "":
		return "any"
	case e.peers['X'].ID.ID:
		return "X"
	case e.peers['Y'].ID.ID:
		return "Y"
	case e.d.ID.ID:
		return "D"
	}
	return id.String()
}

// dial is the dialing node's address dial function: a fresh pipe to whoever serves the address now.
func (e *directEnv) dial(ctx context.Context, addr string) (io.ReadWriteCloser, net.Addr, error) {
	e.mu.Lock()
	who := e.serving
	e.mu.Unlock()
	e.r.Count("direct_address_dials", 1)
	if addr != addrA || who == 'N' {
		return nil, nil, errors.New("direct net: connection refused: " + addr)
	}
	a := e.connect(who)
	return a, g5net.Addr(addr), nil
}

// connect opens a pipe whose far end is handled (listen side, any peer) by the given peer.
func (e *directEnv) connect(who byte) *g5net.PipeEnd {
	a, b := g5net.NewPipe()
	p := e.peers[who]
	e.mu.Lock()
	e.pipes = append(e.pipes, a, b)
	e.mu.Unlock()
	go func() { _, _ = p.Tpt.HandleConn(e.ctx, false, b, g5net.Addr("D-home"), "") }()
	return a
}

// barrier: no dialer routine of this history is running (a finished dialer is
// still registered for its address until its goroutine returns).
func (e *directEnv) barrier() bool {
	ok, _ := wait(func() bool { return g5net.GoroutineCount(e.label, "(*Dialer).Execute") == 0 }, nil)
	return ok
}

func isCtxErr(err error) bool {
	return errors.Is(err, context.Canceled) || errors.Is(err, context.DeadlineExceeded)
}

// judge one dial op's result. how = "DialPeer" / "HandleConn".
func (e *directEnv) judge(how string, req peer.ID, lnk link.Link, err error, who byte) (complete bool) {
	if err != nil {
		e.logf("%s(%s, A) while %c serves A: error: %v", how, e.name(req), who, err)
		e.r.Count("direct_"+how+"_errors", 1)
		return !isCtxErr(err)
	}
	e.r.Count("direct_"+how+"_successes", 1)
	if lnk == nil {
		// DialPeer: "already connected to the address with that peer"
		e.logf("%s(%s, A) while %c serves A: success without a new link", how, e.name(req), who)
		e.mu.Lock()
		had := false
		for _, l := range e.returned {
			if l.GetRemotePeer() == req {
				had = true
			}
		}
		e.mu.Unlock()
		if !had && req != "" {
			e.r.Violation("direct:success-without-link:"+how, fmt.Sprintf("%s for %s at A reported success without a link although no link to %s was ever established there", how, e.name(req), e.name(req)), e.witness(nil))
		}
		return true
	}
	got := lnk.GetRemotePeer()
	e.logf("%s(%s, A) while %c serves A: success, link names %s", how, e.name(req), who, e.name(got))
	e.mu.Lock()
	e.returned = append(e.returned, lnk)
	e.mu.Unlock()
	if req != "" && got != req {
		e.r.Violation("direct:wrong-peer:"+how, fmt.Sprintf("%s for peer %s at address A reported success with a link whose remote peer is %s (A was served by %c)", how, e.name(req), e.name(got), who), e.witness(map[string]any{"requested": req.String(), "link_remote_peer": got.String()}))
	} else {
		e.r.Count("direct_success_links_naming_requested_peer", 1)
	}
	return true
}

func (e *directEnv) reqID(c byte) peer.ID {
	if c == '_' {
		return ""
	}
	return e.peers[c].ID.ID
}

func (e *directEnv) op(op string) (complete bool) {
	e.mu.Lock()
	who := e.serving
	e.mu.Unlock()
	switch op[0] {
	case 's':
		e.mu.Lock()
		e.serving = op[1]
		e.mu.Unlock()
		e.logf("A is now served by %c (earlier connections stay up)", op[1])
		return true
	case 'd':
		req := e.reqID(op[1])
		if !e.barrier() {
			return false
		}
		e.mu.Lock()
		e.requested[req] = true
		e.mu.Unlock()
		dctx, cancel := context.WithTimeout(e.ctx, watchdog)
		defer cancel()
		lnk, _, err := e.d.Tpt.DialPeer(dctx, req, addrA)
		return e.judge("DialPeer", req, lnk, err, who)
	case 'h':
		if who == 'N' {
			return true // nothing to connect to
		}
		req := e.reqID(op[1])
		e.mu.Lock()
		e.requested[req] = true
		e.mu.Unlock()
		c := e.connect(who)
		dctx, cancel := context.WithTimeout(e.ctx, watchdog)
		defer cancel()
		// A refused handshake leaves the dial side parked: quic-go's single-use transport
		// waits for its read loop, which ends only when the connection is closed (the
		// packet conn has no read deadline). The harness hangs up, as the remote would,
		// once it sees that state (goroutine state, no timing).
		type hres struct {
			l   *conn.Link
			err error
		}
		ch := make(chan hres, 1)
		go func() {
			l, err := e.d.Tpt.HandleConn(dctx, true, c, g5net.Addr(addrA), req)
			ch <- hres{l, err}
		}()
		var res hres
		got := func() bool {
			select {
			case res = <-ch:
				return true
			default:
				return false
			}
		}
		ok, stopped := wait(got, func() bool {
			return g5net.GoroutineCount(e.label, "doDial.func1", "quic-go.(*Transport).Close") > 0
		})
		if stopped {
			e.logf("the handshake failed at the dialing node; the harness hangs up the connection")
			e.r.Count("direct_hangups_after_failed_handshake", 1)
			_ = c.Close()
			ok, _ = wait(got, nil)
		}
		if !ok {
			return false
		}
		var lnk link.Link
		if res.l != nil {
			lnk = res.l
		}
		err := res.err
		if err != nil {
			_ = c.Close()
		}
		return e.judge("HandleConn", req, lnk, err, who)
	}
	panic("bad op " + op)
}

// lostReported: the handler of the dialing node got the loss report of l.
func lostReported(rec *g5net.Recorder, l link.Link) bool {
	evs, _ := rec.Events()
	for _, ev := range evs {
		if !ev.Established && ev.Link == l {
			return true
		}
	}
	return false
}

// final: the later request for X once X serves A, and the reports the handler got.
func (e *directEnv) final() (complete bool) {
	if !e.barrier() {
		return false
	}
	e.mu.Lock()
	ret := append([]link.Link(nil), e.returned...)
	e.mu.Unlock()
	for _, l := range ret {
		_ = l.Close()
	}
	if ok, _ := wait(func() bool {
		for _, l := range ret {
			if !lostReported(e.d.Rec, l) {
				return false
			}
		}
		return true
	}, nil); !ok {
		e.r.Inconclusive(e.label + ": closed links were not reported lost")
		return false
	}
	e.logf("all %d links returned by successful requests were closed by the harness and reported lost", len(ret))
	e.mu.Lock()
	e.serving = 'X'
	e.requested[e.peers['X'].ID.ID] = true
	e.mu.Unlock()
	e.logf("A is now served by X (Y still runs); later request: DialPeer(X, A)")
	X := e.peers['X'].ID.ID
	var errs []string
	satisfied := false
	for i := 0; i < 3 && !satisfied; i++ {
		if !e.barrier() {
			return false
		}
		dctx, cancel := context.WithTimeout(e.ctx, watchdog)
		lnk, _, err := e.d.Tpt.DialPeer(dctx, X, addrA)
		cancel()
		if err != nil {
			if isCtxErr(err) {
				e.r.Inconclusive(e.label + ": final DialPeer timed out")
				return false
			}
			e.logf("final DialPeer(X, A) attempt %d: error: %v", i+1, err)
			errs = append(errs, err.Error())
			continue
		}
		if !e.judge("DialPeer", X, lnk, err, 'X') {
			return false
		}
		satisfied = lnk != nil && lnk.GetRemotePeer() == X
		if lnk == nil {
			break
		}
	}
	if satisfied {
		e.r.Count("direct_later_request_for_X_satisfied", 1)
	} else {
		e.r.Violation("direct:later-request-unsatisfied", "X serves address A, every link the earlier requests yielded is closed and no dial is in flight, but DialPeer(X, A) keeps failing: "+strings.Join(errs, " | "), e.witness(map[string]any{"errors": errs}))
	}
	// quiescence: no dialer routine, the established report of the last link arrived
	if !e.barrier() {
		return false
	}
	if satisfied {
		if ok, _ := wait(func() bool { return estFrom(e.d.Rec, X) > 0 }, nil); !ok {
			e.r.Inconclusive(e.label + ": link to X never reported to the handler")
			return false
		}
	}
	// every link reported established to the dialing node's handler (it accepts no
	// inbound connection) must be permitted by a request: a refused dial leaves none
	evs, _ := e.d.Rec.Events()
	e.mu.Lock()
	defer e.mu.Unlock()
	for _, ev := range evs {
		if !ev.Established {
			continue
		}
		e.r.Count("direct_established_reports", 1)
		p := ev.Link.GetRemotePeer()
		if !e.requested[""] && !e.requested[p] {
			e.mu.Unlock()
			e.r.Violation("direct:unrequested-link-established", fmt.Sprintf("the transport reported an established link with %s at A although every request was for another peer (the dial that %s answered was refused)", e.name(p), e.name(p)), e.witness(nil))
			e.mu.Lock()
		}
	}
	return true
}

func directOpts() *conn.Opts {
	// long idle time-out: links end only when somebody closes them
	return &conn.Opts{Quic: &transport_quic.Opts{MaxIdleTimeoutDur: "10m"}}
}

func runDirect(r *vf.Run, h directHistory, pool []*keys.Identity) {
	t0 := time.Now()
	label := h.String()
	defer func() { fmt.Printf("scenario %-60s %6.2fs\n", label, time.Since(t0).Seconds()) }() // diagnostics only
	ctx, cancel := context.WithCancel(context.Background())
	defer cancel()
	r.Begin(label)
	g5net.WithLabel(ctx, label, func(ctx context.Context) {
		lg := logrus.New()
		lg.SetOutput(io.Discard)
		lg.SetLevel(logrus.WarnLevel)
		if os.Getenv("VERIF_C05_LOG") != "" {
			lg.SetOutput(os.Stderr)
			lg.SetLevel(logrus.DebugLevel)
		}
		le := logrus.NewEntry(lg).WithField("case", label)
		e := &directEnv{r: r, label: label, ctx: ctx, serving: 'N', requested: map[peer.ID]bool{}, peers: map[byte]*g5net.StreamRemote{}}
		x, err1 := g5net.StartStreamNode(ctx, le, "X-home", pool[1], directOpts(), nil)
		y, err2 := g5net.StartStreamNode(ctx, le, "Y-home", pool[2], directOpts(), nil)
		if err1 != nil || err2 != nil {
			r.Inconclusive(fmt.Sprintf("setup: %v %v", err1, err2))
			return
		}
		e.peers['X'], e.peers['Y'] = x, y
		d, err := g5net.StartStreamNode(ctx, le, "D-home", pool[0], directOpts(), e.dial)
		if err != nil {
			r.Inconclusive("setup: " + err.Error())
			return
		}
		e.d = d
		defer func() {
			e.mu.Lock()
			ps := e.pipes
			e.mu.Unlock()
			for _, p := range ps {
				_ = p.Close()
			}
		}()
		complete := true
		for _, op := range h {
			t1 := time.Now()
			ok := e.op(op)
			if d := time.Since(t1); d > time.Second {
				fmt.Printf("slow-op %s %s %.2fs\n", label, op, d.Seconds()) // diagnostics only
			}
			if !ok {
				complete = false
				break
			}
		}
		if complete {
			t1 := time.Now()
			complete = e.final()
			if d := time.Since(t1); d > time.Second {
				fmt.Printf("slow-op %s final %.2fs\n", label, d.Seconds()) // diagnostics only
			}
		}
		if !complete {
			r.Inconclusive(label + ": a step did not complete (watchdog)")
		}
		// shape of the history for the evidence: which entry points, did an impostor answer a request for X
		shape := ""
		for _, op := range h {
			shape += op[:1]
		}
		r.Distinct("direct_history_shapes", shape)
		r.Case(label, complete)
		r.Sample(map[string]any{"scenario": label, "complete": complete})
	})
}

// directHistories: the fixed core (every entry point x who serves x who is
// asked for, once after a link with the other peer was made at A and once after
// the other peer answered a refused dial) plus PRNG histories.
func directHistories(r *vf.Run, n int) []directHistory {
	var hs []directHistory
	seen := map[string]bool{}
	add := func(ops ...string) {
		h := directHistory(ops)
		if !seen[h.String()] {
			seen[h.String()] = true
			hs = append(hs, h)
		}
	}
	for _, first := range []string{"d", "h"} {
		for _, second := range []string{"d", "h"} {
			// A linked with Y on request, then served by X and X requested
			add("sY", first+"Y", "sX", second+"X")
			add("sY", first+"_", "sX", second+"X")
			// Y answers the request for X (refused), then X serves A
			add("sY", first+"X", "sX", second+"X")
			add("sX", first+"X", "sY", second+"X")
		}
		add("sY", first+"X")
		add("sY", first+"X", first+"X", "sN", first+"X")
		add("sX", first+"Y", "sY", first+"X", "sX", first+"Y")
	}
	rng := r.Rand("c05-direct")
	for len(hs) < n {
		l := 3 + rng.IntN(5)
		var ops []string
		serving := byte('N')
		for len(ops) < l {
			switch k := rng.IntN(5); {
			case k == 0 || len(ops) == 0:
				c := "XYN"[rng.IntN(3)]
				if c == serving {
					continue
				}
				serving = c
				ops = append(ops, "s"+string(c))
			case k <= 2:
				ops = append(ops, "d"+string("XXY_"[rng.IntN(4)]))
			default:
				if serving == 'N' {
					continue
				}
				ops = append(ops, "h"+string("XXY_"[rng.IntN(4)]))
			}
		}
		add(ops...)
	}
	return hs
}
