package c05

// Two families of histories on top of the service-sequence scenarios:
//
// giveUp: the dialer's back-off carries max_elapsed_time. The request for X is
// made and held while the impostor / nobody serves A, until the controller's
// link dialer is SEEN ending without a link (hook tc.linkdialer.result - never
// a sleep). Then X serves A and a NEW request is made. The property's last
// clause is about exactly that request: it must be satisfied with a link to X
// (or the machinery must really be dialing); a dialer that ended earlier must
// not keep later requests from dialing.
//
// 'I' phases (address take-over): the impostor Y takes A over and opens a
// session TO the local node from A - while the node's link to X at A may still
// be registered. Afterwards the service changes again; once X serves A an
// outstanding request for X must be satisfied.

import (
	"context"
	"fmt"
	"strconv"
	"strings"
	"sync"
	"sync/atomic"
	"time"

	"github.com/aperturerobotics/bifrost/link"
	"github.com/aperturerobotics/bifrost/peer"
	"github.com/aperturerobotics/bifrost/tptaddr"
	"github.com/aperturerobotics/bifrost/transport/common/dialer"
	"github.com/aperturerobotics/controllerbus/directive"
	"github.com/aperturerobotics/util/backoff"
	"verifharness/g5net"
)

// backoffFor builds the dialer back-off of a scenario (see scenario.bo).
func backoffFor(bo string) *backoff.Backoff {
	switch {
	case bo == "":
		return &backoff.Backoff{BackoffKind: backoff.BackoffKind_BackoffKind_CONSTANT, Constant: &backoff.Constant{Interval: 5}}
	case bo == "exp":
		return &backoff.Backoff{BackoffKind: backoff.BackoffKind_BackoffKind_EXPONENTIAL, Exponential: &backoff.Exponential{InitialInterval: 5, Multiplier: 1.5, MaxInterval: 40}}
	case bo == "exp-default-kind": // kind left at its zero value: documented to mean exponential
		return &backoff.Backoff{Exponential: &backoff.Exponential{InitialInterval: 5, Multiplier: 1.5, MaxInterval: 40}}
	case strings.HasPrefix(bo, "exp-max"):
		ms, err := strconv.Atoi(bo[len("exp-max"):])
		if err != nil || ms <= 0 {
			panic("bad back-off spec " + bo)
		}
		return &backoff.Backoff{BackoffKind: backoff.BackoffKind_BackoffKind_EXPONENTIAL, Exponential: &backoff.Exponential{InitialInterval: 5, Multiplier: 1.5, MaxInterval: 40, MaxElapsedTime: uint32(ms)}}
	}
	panic("unknown back-off spec " + bo)
}

// ctrlLog: what the hooks saw of one controller.
type ctrlLog struct {
	mu       sync.Mutex
	results  []dialResult // tc.linkdialer.result, in order
	digested []link.Link  // tc.established: links the controller finished digesting
}

type dialResult struct {
	link bool
	err  string
}

var ctrlLogs sync.Map // *transport_controller.Controller -> *ctrlLog

func (c *ctrlLog) result(lnk, err any) {
	d := dialResult{}
	if l, ok := lnk.(link.Link); ok && l != nil {
		d.link = true
	}
	if e, ok := err.(error); ok && e != nil {
		d.err = e.Error()
	}
	c.mu.Lock()
	c.results = append(c.results, d)
	c.mu.Unlock()
}

func (c *ctrlLog) digestedLink(l link.Link) {
	c.mu.Lock()
	c.digested = append(c.digested, l)
	c.mu.Unlock()
}

func (d dialResult) ended() bool { return !d.link && d.err != context.Canceled.Error() }

// endedCount: how many times a link dialer of the controller ended without a link (and was not merely cancelled).
func (c *ctrlLog) endedCount() int {
	c.mu.Lock()
	defer c.mu.Unlock()
	n := 0
	for _, d := range c.results {
		if d.ended() {
			n++
		}
	}
	return n
}

// gaveUp: the latest result of a link dialer is "ended without a link".
func (c *ctrlLog) gaveUp() (bool, string) {
	c.mu.Lock()
	defer c.mu.Unlock()
	if len(c.results) == 0 {
		return false, ""
	}
	d := c.results[len(c.results)-1]
	return d.ended(), d.err
}

func (c *ctrlLog) digestedNaming(p peer.ID) int {
	c.mu.Lock()
	defer c.mu.Unlock()
	n := 0
	for _, l := range c.digested {
		if l.GetRemotePeer() == p {
			n++
		}
	}
	return n
}

func (c *ctrlLog) resultStrings() []string {
	c.mu.Lock()
	defer c.mu.Unlock()
	out := make([]string, 0, len(c.results))
	for _, d := range c.results {
		out = append(out, fmt.Sprintf("link=%v err=%q", d.link, d.err))
	}
	return out
}

// sharedUUIDs counts link UUIDs that the local transport gave to links of different remote peers.
func sharedUUIDs(rec *g5net.Recorder) int {
	evs, _ := rec.Events()
	by := map[uint64]map[peer.ID]bool{}
	for _, e := range evs {
		if !e.Established {
			continue
		}
		u := e.Link.GetUUID()
		if by[u] == nil {
			by[u] = map[peer.ID]bool{}
		}
		by[u][e.Link.GetRemotePeer()] = true
	}
	n := 0
	for _, m := range by {
		if len(m) > 1 {
			n++
		}
	}
	return n
}

// Inbound implements fabric.
func (f *dgramFabric) Inbound(ctx context.Context, l *g5net.Local) <-chan error {
	res := make(chan error, 1)
	home := l.EP.LocalAddr().String()
	f.n.Via(f.y.EP, home, addrA)
	go func() {
		dctx, cancel := context.WithTimeout(ctx, watchdog)
		defer cancel()
		// a dead link of an earlier take-over that Y's transport has not yet dropped would make DialPeer a no-op ("already connected")
		if ok, _ := wait(func() bool { _, have := f.y.Tpt.LookupLinkWithAddr(home); return !have || dctx.Err() != nil }, nil); !ok {
			res <- fmt.Errorf("harness: the impostor's transport never dropped its old link with %s", home)
			return
		}
		lnk, _, err := f.y.Tpt.DialPeer(dctx, l.ID.ID, home)
		if err == nil && lnk == nil {
			err = fmt.Errorf("harness: the impostor's DialPeer was a no-op")
		}
		res <- err
	}()
	return res
}

// Inbound implements fabric.
func (f *streamFabric) Inbound(ctx context.Context, l *g5net.Local) <-chan error {
	tpt, err := l.Ctrl.GetTransport(ctx)
	st, ok := tpt.(*g5net.StreamTpt)
	if err != nil || !ok {
		res := make(chan error, 1)
		res <- fmt.Errorf("harness: local stream transport not available: %v", err)
		return res
	}
	return f.n.Inbound(ctx, addrA, f.y, st.Transport, "L-home")
}

// takeover runs an 'I' phase.
func (u *run) takeover(ctx context.Context, i int) bool {
	r := u.r
	X, Y := u.x.ID.ID, u.y.ID.ID
	hadX := u.linksTo(X) > 0
	if u.sc.lossLate {
		u.l.Rec.HoldLost(true)
		u.logf("loss reports to the controller are kept back from now on")
	}
	defer u.l.Rec.HoldLost(false)
	d0 := u.clog.digestedNaming(Y)
	u.setServer('I')
	r.Count("phases_served_by_I", 1)
	u.logf("the impostor opens a session to L from A (link to X registered at L: %v)", hadX)
	res := u.fab.Inbound(ctx, u.l)
	var ierr error
	if ok, _ := wait(func() bool {
		if u.clog.digestedNaming(Y) > d0 {
			return true
		}
		select {
		case ierr = <-res:
			return ierr != nil
		default:
			return false
		}
	}, nil); !ok {
		r.Inconclusive(fmt.Sprintf("%s phase %d: the controller never digested the impostor's session from A", u.sc, i+1))
		return false
	}
	if ierr != nil && u.clog.digestedNaming(Y) == d0 {
		r.Inconclusive(fmt.Sprintf("%s phase %d: the impostor could not open its session to L: %v", u.sc, i+1, ierr))
		return false
	}
	u.logf("the controller digested the impostor's link from A (loss reports kept back meanwhile: %d)", u.l.Rec.LostHeld())
	r.Count("impostor_sessions_from_A_digested_by_controller", 1)
	if hadX {
		r.Count("impostor_sessions_from_A_while_link_to_X_registered", 1)
	}
	if u.sc.lossLate {
		r.Count("loss_reports_delivered_after_the_new_link", u.l.Rec.LostHeld())
	}
	u.l.Rec.HoldLost(false)
	// the old link to X (if any) was replaced at the address: its loss has to be digested before the next phase asks anything
	if ok, _ := wait(func() bool { return u.linksTo(X) == 0 }, nil); !ok {
		r.Inconclusive(fmt.Sprintf("%s phase %d: the replaced link to X never went away", u.sc, i+1))
		return false
	}
	return true
}

// laterRequest makes a NEW request of kind sc.later for X at A; done reports whether it was satisfied.
func (u *run) laterRequest(ctx context.Context) (done *atomic.Bool, release func()) {
	done = &atomic.Bool{}
	release = func() {}
	X := u.x.ID.ID
	switch u.sc.later {
	case mDialTptAddr:
		u.logf("later request: DialTptAddr(L, X, switch|A) directive")
		u.r.Count("later_requests_DialTptAddr", 1)
		o := &dialer.DialerOpts{Address: g5net.TransportType + "|" + u.opts.GetAddress()}
		_, ref, err := u.l.TB.Bus.AddDirective(tptaddr.NewDialTptAddr(o, u.l.ID.ID, X),
			directive.NewCallbackHandler(func(av directive.AttachedValue) {
				lnk, _ := av.GetValue().(link.Link)
				u.onValue("DialTptAddr", lnk)
				done.Store(true)
			}, nil, nil))
		if err != nil {
			u.r.Inconclusive("AddDirective(DialTptAddr, later): " + err.Error())
			return
		}
		release = ref.Release
	default:
		u.logf("later request: Controller.DialPeerAddr(X, A)")
		u.r.Count("later_requests_DialPeerAddr", 1)
		cctx, cancel := context.WithCancel(ctx)
		release = cancel
		go func() {
			lnk, err := u.l.Ctrl.DialPeerAddr(cctx, X, &dialer.DialerOpts{Address: u.opts.GetAddress()})
			if err != nil {
				return
			}
			u.onValue("DialPeerAddr", lnk)
			done.Store(true)
		}()
	}
	return
}

// dialerRoutineAtRest: the hook tc.linkdialer.result fires INSIDE the keyed
// routine of the link dialer, a few instructions before the routine returns and
// is marked as exited. A request that arrives in between finds a routine that
// "still runs" and is not restarted when it exits a moment later (observed on
// the unchanged tree when the harness reacted to the hook at once). That window
// is a race of its own and not the subject of these scenarios: the later request
// is made once no goroutine of the scenario is inside the link dialer routine or
// its keyed wrapper any more (goroutine state, no timing).
func (u *run) dialerRoutineAtRest() bool {
	var last time.Time
	ok, _ := wait(func() bool {
		if time.Since(last) < 30*time.Millisecond { // goroutine profiles stop the world
			return false
		}
		defer func() { last = time.Now() }()
		return g5net.GoroutineCount(u.label, "transport/controller.(*linkDialer).executeLinkDialer") == 0 &&
			g5net.GoroutineCount(u.label, "util/keyed.(*runningRoutine") == 0
	}, nil)
	return ok
}

// finalAfterGiveUp runs the last phase (X serves A) of a giveUp scenario.
func (u *run) finalAfterGiveUp(ctx context.Context, i int) bool {
	r := u.r
	X := u.x.ID.ID
	var why string
	if ok, _ := wait(func() bool {
		var g bool
		g, why = u.clog.gaveUp()
		return g
	}, nil); !ok {
		r.Inconclusive(fmt.Sprintf("%s: the link dialer never gave up although its back-off has max_elapsed_time (results: %v)", u.sc, u.clog.resultStrings()))
		return false
	}
	u.logf("the (X, A) link dialer ended without a link (error %q); the request is still held", why)
	r.Count("link_dialers_seen_giving_up", 1)
	if u.linksTo(X) > 0 {
		r.Inconclusive(fmt.Sprintf("%s: a link to X exists although X does not serve A", u.sc))
		return false
	}
	u.setServer('X')
	r.Count("phases_served_by_X", 1)
	for attempt := 0; attempt < 6; attempt++ {
		if !u.dialerRoutineAtRest() {
			r.Inconclusive(fmt.Sprintf("%s: the link dialer routine that gave up never came to rest", u.sc))
			return false
		}
		e0 := u.clog.endedCount()
		done, release := u.laterRequest(ctx)
		var dump []string
		ok, stuck := wait(func() bool { return u.linksTo(X) > 0 && done.Load() }, u.stuckDetector(&dump))
		if ok {
			release()
			r.Count("links_to_X_established", 1)
			r.Count("later_requests_satisfied_after_dialer_gave_up", 1)
			return true
		}
		if !stuck {
			release()
			r.Inconclusive(fmt.Sprintf("%s: later request after the dialer gave up: links_to_X=%d satisfied=%v after watchdog", u.sc, u.linksTo(X), done.Load()))
			return false
		}
		if u.clog.endedCount() > e0 {
			// the dialer ran again for the new request and gave up once more (its max_elapsed_time is short): ask again
			release()
			u.logf("the link dialer ran for the later request and gave up again; asking once more")
			r.Count("later_requests_repeated_because_dialer_gave_up_again", 1)
			continue
		}
		if len(dump) > 40 {
			dump = dump[:40]
		}
		u.logf("stuck: a new request for X was made after X became reachable, but no link dialer ran for it")
		r.Violation("later-request-after-dialer-gave-up-never-dialed:"+u.sc.m.String()+"->"+u.sc.later.String()+":"+u.sc.tpt,
			fmt.Sprintf("the dialer for X at A gave up (back-off max_elapsed_time) while X was not reachable and the request was still held; then X served A and a NEW request (%s) for X at A was made: no link dialer ran for it (no result after the request), nothing dials A, no link to X exists - the later request cannot be satisfied although X is reachable (scenario %s)", u.sc.later, u.sc),
			u.witness(map[string]any{"goroutines_of_case": dump, "link_dialer_results": u.clog.resultStrings()}))
		release()
		return true
	}
	r.Inconclusive(fmt.Sprintf("%s: the link dialer kept giving up although X serves A", u.sc))
	return false
}
