// C05: dialing peer X at an address yields a link to X or keeps retrying.
//
// A real transport controller (testbed bus) with a real pconn transport over
// an in-memory datagram switch is asked for a link to X at service address A
// while the harness decides who serves A: X itself, an impostor Y (another
// real transport with its own valid key), or nobody.
package c05

import (
	"context"
	"encoding/json"
	"fmt"
	"io"
	"os"
	"strconv"
	"strings"
	"sync"
	"sync/atomic"
	"testing"
	"time"

	"github.com/aperturerobotics/bifrost/link"
	"github.com/aperturerobotics/bifrost/peer"
	"github.com/aperturerobotics/bifrost/tptaddr"
	"github.com/aperturerobotics/bifrost/transport/common/dialer"
	transport_quic "github.com/aperturerobotics/bifrost/transport/common/quic"
	"github.com/aperturerobotics/bifrost/util/verifhook"
	"github.com/aperturerobotics/controllerbus/directive"
	"github.com/sirupsen/logrus"
	"verifharness/g5net"
	"verifharness/keys"
	"verifharness/vf"
)

const (
	addrA    = "A"
	watchdog = 40 * time.Second
)

type method int

const (
	mDialPeerAddr method = iota
	mDialTptAddr
	mEstablishLink
)

func (m method) String() string {
	return [...]string{"DialPeerAddr", "DialTptAddr", "EstablishLinkStaticPeerMap"}[m]
}

type scenario struct {
	tpt string // "pconn" (datagram switch) or "conn" (stream transport over pipes)
	m   method
	seq string // service sequence of A over {X,Y,N}
	// concurrent: a second request (DialPeerAddr for Y at A) competes for the same address
	concurrent bool
	// eager: as soon as a request was satisfied the same request is made once
	// more while the link is still up (a dial request for an already connected peer)
	eager bool
	// raceLoss: (hook) the link dialer is held right after it obtained its dial
	// result, the link is lost meanwhile, then the dialer is let go
	raceLoss bool
	// linkedY: before X is requested, a request for Y at A is made and satisfied
	// (seq starts with Y serving A); X is requested while that link is up
	linkedY bool
	// overlap: peer constraint ("any" | "Y" | "X") of a FIRST dial of A that the
	// network holds in flight while the request for X is made; the network lets
	// go once the request for X has joined it; seq[0] says who answers then
	overlap string
	// alias: the address string used in every dial request: another spelling of A
	// (registered host name, other letter case, trailing dot) that the network
	// resolves to A; the sessions' remote address string is the canonical "A"
	alias string
	// bo: the back-off options of the dialer ("" = constant 5 ms, "exp" =
	// exponential 5 ms x 1.5 up to 40 ms without end, "exp-max<ms>" = the same
	// with max_elapsed_time: the dialer gives up)
	bo string
	// giveUp: (needs a bo with max_elapsed_time) the request is made and HELD while
	// X does not serve A until the dialer is seen giving up (hook
	// tc.linkdialer.result: it ended without a link); then X serves A and a NEW,
	// later request of kind `later` is made (see giveup_takeover_test.go)
	giveUp bool
	later  method
	// lossLate: in an 'I' phase (the impostor takes A over and opens a session to
	// L from A) the controller gets the loss reports only after it digested the
	// impostor's link
	lossLate bool
}

// aliasSpellings: spellings of address A accepted by the harness' networks ("host-a" is a registered host name).
var aliasSpellings = []string{"host-a", "a", "A.", "HOST-A."}

func (s scenario) String() string {
	c := ""
	if s.concurrent {
		c = "+concurrentY"
	}
	if s.eager {
		c += "+rerequestWhileLinked"
	}
	if s.raceLoss {
		c += "+linkLostBeforeDialerRecordedIt"
	}
	if s.linkedY {
		c += "+requestedWhileLinkedToY"
	}
	if s.overlap != "" {
		c += "+joinsInflightDialFor:" + s.overlap
	}
	if s.alias != "" {
		c += "+dialedAs:" + s.alias
	}
	if s.bo != "" {
		c += "+backoff:" + s.bo
	}
	if s.giveUp {
		c += "+laterRequestAfterDialerGaveUp:" + s.later.String()
	}
	if s.lossLate {
		c += "+lossSeenAfterNewLink"
	}
	return fmt.Sprintf("%s/%s/%s%s", s.tpt, s.m, s.seq, c)
}

// seqs returns all service sequences of length 1..n without equal neighbours
// (equal neighbours are the same history as the shorter sequence).
func seqs(n int) []string {
	var out []string
	var rec func(p string)
	rec = func(p string) {
		if len(p) > 0 {
			out = append(out, p)
		}
		if len(p) == n {
			return
		}
		for _, c := range "XYN" {
			if len(p) > 0 && p[len(p)-1] == byte(c) {
				continue
			}
			rec(p + string(c))
		}
	}
	rec("")
	return out
}

// frames that mean "somebody is still working on a dial / on registering its result"
var dialFrames = []string{
	"transport/common/dialer.(*Dialer).Execute",
	"transport/controller.(*linkDialer).executeLinkDialer",
	"transport/common/quic.(*Dialer).Execute",
	"transport/common/quic.(*Transport).HandleSession",
	"transport/common/quic.(*Transport).DialPeer",
	"HandleLinkEstablished",
}

func dialGoroutines(label string) (labelled, unlabelled int) {
	has := func(blk string) bool {
		for _, f := range dialFrames {
			if strings.Contains(blk, f) {
				return true
			}
		}
		return false
	}
	all, mine := g5net.GoroutinesAll(label)
	for _, b := range mine {
		if has(b) {
			labelled++
		}
	}
	for _, b := range all {
		if !strings.Contains(b, `"g5case":`) && has(b) {
			unlabelled++
		}
	}
	return
}

// fabric is the network under the scenario: who serves A, and how much dial
// traffic went towards A (datagrams resp. connection attempts) / found nobody.
type fabric interface {
	Serve(who byte)
	Sent() int64
	Dropped() int64
	// Hold keeps dial traffic towards A back (neither delivered nor refused) until Release; Held counts it.
	Hold()
	Held() int64
	Release()
	// Alias registers a host name that resolves to A
	Alias(name string)
	// Inbound: the impostor Y (which must be serving A) opens a session TO the local node; the node sees it coming from A
	Inbound(ctx context.Context, l *g5net.Local) <-chan error
}

type peerEnd struct {
	ID  *keys.Identity
	Rec *g5net.Recorder
}

type dgramFabric struct {
	n    *g5net.SwitchNet
	x, y *g5net.Remote
}

func (f *dgramFabric) Serve(who byte) {
	switch who {
	case 'X':
		f.n.Serve(addrA, f.x.EP)
	case 'Y', 'I':
		f.n.Serve(addrA, f.y.EP)
	default:
		f.n.Serve(addrA, nil)
	}
}
func (f *dgramFabric) Sent() int64    { return f.n.Sent(addrA) }
func (f *dgramFabric) Dropped() int64 { return f.n.Dropped(addrA) }
func (f *dgramFabric) Hold()          { f.n.Hold(addrA) }
func (f *dgramFabric) Held() int64    { return f.n.Held(addrA) }
func (f *dgramFabric) Release()       { f.n.Release(addrA) }
func (f *dgramFabric) Alias(a string) { f.n.Alias(a, addrA) }

type streamFabric struct {
	n    *g5net.StreamNet
	x, y *g5net.StreamRemote
}

func (f *streamFabric) Serve(who byte) {
	switch who {
	case 'X':
		f.n.Serve(addrA, f.x)
	case 'Y', 'I':
		f.n.Serve(addrA, f.y)
	default:
		f.n.Serve(addrA, nil)
	}
}
func (f *streamFabric) Sent() int64    { return f.n.Dials() }
func (f *streamFabric) Dropped() int64 { return f.n.Refused() }
func (f *streamFabric) Hold()          { f.n.Hold(addrA) }
func (f *streamFabric) Held() int64    { return f.n.Held(addrA) }
func (f *streamFabric) Release()       { f.n.Release(addrA) }
func (f *streamFabric) Alias(a string) { f.n.Alias(a, addrA) }

// gate holds the link dialer of one controller at the hook event
// "tc.linkdialer.result" (dial result obtained, not yet recorded).
type gate struct {
	hits    atomic.Int64
	release chan struct{}
	once    sync.Once
}

func (g *gate) open() { g.once.Do(func() { close(g.release) }) }

var gates sync.Map // *transport_controller.Controller -> *gate

func installHook() {
	verifhook.SetEvent("tc.established", func(args ...any) {
		if len(args) < 2 {
			return
		}
		if cl, ok := ctrlLogs.Load(args[0]); ok {
			if lnk, ok := args[1].(link.Link); ok && lnk != nil {
				cl.(*ctrlLog).digestedLink(lnk)
			}
		}
	})
	verifhook.SetEvent("tc.linkdialer.result", func(args ...any) {
		if len(args) >= 3 {
			if cl, ok := ctrlLogs.Load(args[0]); ok {
				cl.(*ctrlLog).result(args[1], args[2])
			}
		}
		if len(args) < 2 || args[1] == nil {
			return
		}
		if lnk, ok := args[1].(link.Link); !ok || lnk == nil {
			return
		}
		if g, ok := gates.Load(args[0]); ok {
			g.(*gate).hits.Add(1)
			<-g.(*gate).release
		}
	})
}

type value struct {
	Src      string `json:"source"`
	Remote   string `json:"link_remote_peer"`
	Phase    int    `json:"phase"`
	ServedBy string `json:"address_served_by_when_reported"`
	EverX    bool   `json:"x_ever_served_address_before"`
}

type run struct {
	r     *vf.Run
	sc    scenario
	label string
	fab   fabric
	l     *g5net.Local
	x, y  peerEnd
	opts  *dialer.DialerOpts

	mu       sync.Mutex
	phase    int
	server   byte
	everX    bool
	values   []value
	pending  bool // a DialPeerAddr call / DialTptAddr directive without a result is outstanding
	dialErrs []string
	relDir   func()
	history  []string
	lastLink link.Link // link of the latest success value (DialPeerAddr / DialTptAddr)
	t0       time.Time // diagnostics only
	dlog     *dialLog  // failed dial attempts of the (X, A) dialer as logged by the code under test
	clog     *ctrlLog  // results of the controller's link dialers / links it digested (hooks)
}

// dialLog is a logrus hook counting the "dialer errored" entries of the dialer
// for one peer: an observation that a dial attempt was made and failed (used
// only to decide when a phase has been exercised, never for a verdict).
type dialLog struct {
	peer          string
	failed, fatal atomic.Int64
	lastErr       atomic.Value // string: error of the latest failed attempt (witness only)
}

func (d *dialLog) Levels() []logrus.Level { return []logrus.Level{logrus.WarnLevel} }

func (d *dialLog) Fire(e *logrus.Entry) error {
	if p, _ := e.Data["dial-peer-id"].(string); p != d.peer {
		return nil
	}
	if err, ok := e.Data[logrus.ErrorKey].(error); ok && err != nil {
		d.lastErr.Store(err.Error())
	}
	switch e.Message {
	case "dialer errored":
		d.failed.Add(1)
	case "dialer errored fatally":
		d.fatal.Add(1)
	}
	return nil
}

func (u *run) logf(f string, a ...any) {
	u.mu.Lock()
	u.history = append(u.history, fmt.Sprintf(f, a...))
	u.mu.Unlock()
	if os.Getenv("VERIF_C05_HIST") != "" { // diagnostics only
		fmt.Printf("HIST %s %8.3f %s\n", u.label, time.Since(u.t0).Seconds(), fmt.Sprintf(f, a...))
	}
}

func (u *run) witness(extra map[string]any) map[string]any {
	u.mu.Lock()
	defer u.mu.Unlock()
	w := map[string]any{
		"scenario": u.sc.String(), "service_sequence": u.sc.seq, "request": u.sc.m.String(),
		"peer_X": u.x.ID.ID.String(), "impostor_Y": u.y.ID.ID.String(), "local_L": u.l.ID.ID.String(),
		"address": addrA, "address_string_dialed": u.opts.GetAddress(), "values": append([]value(nil), u.values...), "history": append([]string(nil), u.history...),
		"dial_traffic_to_A": u.fab.Sent(),
		"link_events_at_L":  evStrings(u.l.Rec), "link_events_at_X": evStrings(u.x.Rec), "link_events_at_Y": evStrings(u.y.Rec),
		"link_uuids_shared_by_links_of_different_remote_peers_at_L": sharedUUIDs(u.l.Rec),
	}
	if u.clog != nil {
		w["link_dialer_results"] = u.clog.resultStrings()
	}
	for k, v := range extra {
		w[k] = v
	}
	return w
}

// onValue judges a success value reported for "dial X at A".
func (u *run) onValue(src string, lnk link.Link) {
	var remote peer.ID
	if lnk != nil {
		remote = lnk.GetRemotePeer()
	}
	u.mu.Lock()
	v := value{Src: src, Remote: remote.String(), Phase: u.phase, ServedBy: string(u.server), EverX: u.everX}
	u.values = append(u.values, v)
	u.lastLink = lnk
	u.history = append(u.history, fmt.Sprintf("value from %s: link remote=%s (phase %d, A served by %c)", src, remote.String(), u.phase, u.server))
	u.mu.Unlock()
	u.r.Count("success_values_"+src, 1)
	switch {
	case lnk == nil:
		u.r.Violation("nil-link-success:"+src+":"+u.sc.tpt, "dial of X at A reported success without a link", u.witness(nil))
	case remote != u.x.ID.ID:
		who := "an unknown peer"
		if remote == u.y.ID.ID {
			who = "the impostor Y"
		}
		u.r.Violation("wrong-peer:"+src+":"+u.sc.tpt,
			fmt.Sprintf("%s for peer X at address A reported success with a link whose authenticated remote peer is %s (scenario %s)", src, who, u.sc),
			u.witness(nil))
	case !v.EverX:
		u.r.Violation("success-while-x-never-reachable:"+src+":"+u.sc.tpt,
			fmt.Sprintf("%s for X at A reported a link naming X although X never served A (scenario %s)", src, u.sc), u.witness(nil))
	default:
		u.r.Count("success_values_naming_X", 1)
	}
}

func (u *run) linksTo(id peer.ID) int { return len(u.l.Ctrl.GetPeerLinks(id)) }

func (u *run) valueCount() int { u.mu.Lock(); defer u.mu.Unlock(); return len(u.values) }

// settled: the link of the latest success value has been digested by the
// controller (reported to it and either registered or already lost again). A
// success value is handed out slightly before the controller registers the
// link; the ordinary scenarios make their *later* request only after that.
func (u *run) settled() bool {
	u.mu.Lock()
	ll := u.lastLink
	u.mu.Unlock()
	if ll == nil {
		return true
	}
	evs, _ := u.l.Rec.Events()
	est, lost := false, false
	for _, e := range evs {
		if e.Link == ll {
			if e.Established {
				est = true
			} else {
				lost = true
			}
		}
	}
	return est && (lost || u.linksTo(u.x.ID.ID) > 0)
}

// ensureRequest makes sure a request "link to X at A" is outstanding.
func (u *run) ensureRequest(ctx context.Context) { u.request(ctx, false) }

func (u *run) request(ctx context.Context, force bool) {
	if !force && !u.settled() {
		return
	}
	u.mu.Lock()
	if u.pending {
		u.mu.Unlock()
		return
	}
	switch u.sc.m {
	case mDialPeerAddr:
		u.pending = true
		u.history = append(u.history, "request: Controller.DialPeerAddr(X, A)")
		u.mu.Unlock()
		u.r.Count("requests_DialPeerAddr", 1)
		go func() {
			lnk, err := u.l.Ctrl.DialPeerAddr(ctx, u.x.ID.ID, u.opts)
			if err != nil {
				u.mu.Lock()
				u.pending = false
				u.dialErrs = append(u.dialErrs, err.Error())
				u.mu.Unlock()
				return
			}
			u.onValue("DialPeerAddr", lnk)
			u.mu.Lock()
			u.pending = false
			u.mu.Unlock()
		}()
	case mDialTptAddr:
		u.pending = true
		old := u.relDir
		u.relDir = nil
		u.history = append(u.history, "request: DialTptAddr(L, X, switch|A) directive")
		u.mu.Unlock()
		if old != nil {
			old()
		}
		u.r.Count("requests_DialTptAddr", 1)
		o := u.opts.CloneVT()
		o.Address = g5net.TransportType + "|" + u.opts.GetAddress()
		var once sync.Once
		_, ref, err := u.l.TB.Bus.AddDirective(tptaddr.NewDialTptAddr(o, u.l.ID.ID, u.x.ID.ID),
			directive.NewCallbackHandler(func(av directive.AttachedValue) {
				lnk, _ := av.GetValue().(link.Link)
				u.onValue("DialTptAddr", lnk)
				once.Do(func() { u.mu.Lock(); u.pending = false; u.mu.Unlock() })
			}, nil, nil))
		if err != nil {
			u.r.Inconclusive("AddDirective(DialTptAddr): " + err.Error())
			return
		}
		u.mu.Lock()
		u.relDir = ref.Release
		u.mu.Unlock()
	case mEstablishLink:
		if u.relDir != nil {
			u.mu.Unlock()
			return
		}
		u.history = append(u.history, "request: EstablishLinkWithPeer(\"\", X) directive, static peer map X->A")
		u.relDir = func() {}
		u.mu.Unlock()
		u.r.Count("requests_EstablishLink", 1)
		_, ref, err := u.l.TB.Bus.AddDirective(link.NewEstablishLinkWithPeer("", u.x.ID.ID),
			directive.NewCallbackHandler(func(av directive.AttachedValue) {
				ml, _ := av.GetValue().(link.MountedLink)
				u.onMounted("EstablishLinkWithPeer", ml)
			}, nil, nil))
		if err != nil {
			u.r.Inconclusive("AddDirective(EstablishLink): " + err.Error())
			return
		}
		u.mu.Lock()
		u.relDir = ref.Release
		u.mu.Unlock()
	}
}

// onMounted judges a value of an EstablishLinkWithPeer("", X) directive.
func (u *run) onMounted(src string, ml link.MountedLink) {
	var remote peer.ID
	if ml != nil {
		remote = ml.GetRemotePeer()
	}
	u.mu.Lock()
	v := value{Src: src, Remote: remote.String(), Phase: u.phase, ServedBy: string(u.server), EverX: u.everX}
	u.values = append(u.values, v)
	u.history = append(u.history, fmt.Sprintf("value from %s: mounted link remote=%s (phase %d, A served by %c)", src, remote.String(), u.phase, u.server))
	u.mu.Unlock()
	u.r.Count("establish_link_values", 1)
	switch {
	case ml == nil || remote != u.x.ID.ID:
		u.r.Violation("wrong-peer:"+src+":"+u.sc.tpt,
			fmt.Sprintf("EstablishLinkWithPeer for X yielded a link whose remote peer is %s (scenario %s)", remote.String(), u.sc), u.witness(nil))
	case !v.EverX:
		u.r.Violation("success-while-x-never-reachable:"+src+":"+u.sc.tpt,
			fmt.Sprintf("EstablishLinkWithPeer for X yielded a link naming X although X never served A (scenario %s)", u.sc), u.witness(nil))
	default:
		u.r.Count("success_values_naming_X", 1)
	}
}

// wait polls cond until true (returns true) or the watchdog expires (false).
// tick, when not nil, is called on every ~100 ms observation point and may end
// the wait early by returning true (used by the stuck-state detector).
func wait(cond func() bool, tick func() bool) (ok bool, stopped bool) {
	start := time.Now()
	lastTick := start
	for {
		if cond() {
			return true, false
		}
		now := time.Now()
		if tick != nil && now.Sub(lastTick) >= 100*time.Millisecond {
			lastTick = now
			if tick() {
				return false, true
			}
		}
		if now.Sub(start) > watchdog {
			return false, false
		}
		time.Sleep(2 * time.Millisecond)
	}
}

// stuckDetector returns a tick function for wait(): it reports true when, on
// 5 consecutive observation points (>= 100 ms apart), no link to X exists, no
// goroutine of this scenario (and no unlabelled goroutine) is inside a dial
// routine or registering a dial result, and no datagram was sent towards A.
func (u *run) stuckDetector(dump *[]string) func() bool {
	stuckObs, quiet, lastSent := 0, 0, int64(-1)
	X := u.x.ID.ID
	return func() bool {
		if u.linksTo(X) > 0 {
			stuckObs, quiet = 0, 0
			return false
		}
		s := u.fab.Sent()
		if s != lastSent {
			// dial traffic is still flowing towards A: not stuck
			lastSent, stuckObs, quiet = s, 0, 0
			return false
		}
		// goroutine profiles stop the world: only look once the traffic counter
		// has been silent for 10 observation points in a row
		if quiet++; quiet < 10 {
			return false
		}
		lab, unlab := dialGoroutines(u.label)
		u.r.Count("stuck_detector_observations", 1)
		if lab == 0 && unlab == 0 {
			stuckObs++
		} else {
			stuckObs = 0
		}
		if stuckObs >= 5 && u.linksTo(X) == 0 {
			_, *dump = g5net.GoroutinesAll(u.label)
			return true
		}
		return false
	}
}

// liveLinkAtL: some link at L may be alive: a link reported established to L's
// handler without a loss report, or a link the transport holds for the address
// (canonical or dialed spelling) whose loss has not been reported. While such a
// link exists "already connected" is a legitimate reason not to dial.
func (u *run) liveLinkAtL(ctx context.Context) bool {
	lost := map[link.Link]bool{}
	evs, _ := u.l.Rec.Events()
	for _, e := range evs {
		if !e.Established {
			lost[e.Link] = true
		}
	}
	for _, e := range evs {
		if e.Established && !lost[e.Link] {
			return true
		}
	}
	tpt, err := u.l.Ctrl.GetTransport(ctx)
	if err != nil {
		return true
	}
	lk, ok := tpt.(interface {
		LookupLinkWithAddr(string) (*transport_quic.Link, bool)
	})
	if !ok {
		return true
	}
	for _, a := range []string{addrA, u.opts.GetAddress()} {
		if l, ok := lk.LookupLinkWithAddr(a); ok && l != nil && !lost[link.Link(l)] {
			return true
		}
	}
	return false
}

// noDial is the finding of noDialDetector.
type noDial struct {
	fired    bool
	failures int64 // failed dial attempts for X counted while nothing went towards A
	lastErr  string
	dump     []string
}

// maxSilentFailures: the largest number of failed attempts seen in a window without traffic and live link (evidence only).
var maxSilentFailures atomic.Int64

const (
	noDialK       = 25 // failed dial attempts for X per window
	noDialWindows = 3  // consecutive windows
)

// noDialDetector returns a tick function for wait(): a progress oracle in
// logical steps. "Keeps retrying" has to mean real dial attempts: it fires when
// the dialer for X reported noDialK failed attempts ("dialer errored", logged by
// the code under test once per attempt) in each of noDialWindows consecutive
// windows while NOT ONE unit of dial traffic (datagram resp. connection attempt)
// went towards A in the harness' network, no link of L was alive (see
// liveLinkAtL) at the start and at the end of any window and, at the end of
// every window, no goroutine was inside the transport's per-address dialer. On the unchanged tree every attempt that is not
// refused because of a live link either waits for an in-flight dialer or starts
// one, which calls the dial function (>= 1 datagram / connection attempt).
func (u *run) noDialDetector(ctx context.Context, res *noDial) func() bool {
	have, windows := false, 0
	var baseSent, baseFailed, firstFailed int64
	// (re)start: a window may only start at an observation point at which no link
	// of L is alive (failed attempts made while a link held the address are
	// legitimate and must not be counted). Order: traffic, liveness, failures -
	// a link that comes alive later needs a handshake, i.e. traffic after baseSent.
	restart := func() {
		windows = 0
		baseSent = u.fab.Sent()
		if u.liveLinkAtL(ctx) {
			have = false
			return
		}
		baseFailed = u.dlog.failed.Load()
		firstFailed = baseFailed
		have = true
	}
	return func() bool {
		// window end: failures first, traffic second (at the start the other way round)
		fNow := u.dlog.failed.Load()
		sNow := u.fab.Sent()
		if !have || sNow != baseSent || u.liveLinkAtL(ctx) {
			restart()
			return false
		}
		for {
			m := maxSilentFailures.Load()
			if fNow-baseFailed <= m || maxSilentFailures.CompareAndSwap(m, fNow-baseFailed) {
				break
			}
		}
		if fNow-baseFailed < noDialK {
			return false
		}
		// a window is full; nobody may be inside the per-address dialer (a labelled or an unlabelled goroutine)
		all, _ := g5net.GoroutinesAll(u.label)
		for _, b := range all {
			if strings.Contains(b, "transport/common/quic.(*Dialer).Execute") && (strings.Contains(b, `"g5case":"`+u.label+`"`) || !strings.Contains(b, `"g5case":`)) {
				restart()
				return false
			}
		}
		u.r.Count("no_dial_detector_windows", 1)
		if u.fab.Sent() != baseSent || u.liveLinkAtL(ctx) {
			restart()
			return false
		}
		windows++
		if windows < noDialWindows {
			baseFailed = fNow // next window; the traffic baseline stays
			return false
		}
		res.fired, res.failures = true, fNow-firstFailed
		res.lastErr, _ = u.dlog.lastErr.Load().(string)
		_, res.dump = g5net.GoroutinesAll(u.label)
		if len(res.dump) > 40 {
			res.dump = res.dump[:40]
		}
		return true
	}
}

// either combines tick functions.
func either(ts ...func() bool) func() bool {
	return func() bool {
		for _, t := range ts {
			if t() {
				return true
			}
		}
		return false
	}
}

func (u *run) setServer(p byte) {
	u.mu.Lock()
	u.phase++
	u.server = p
	if p == 'X' {
		u.everX = true
	}
	ph := u.phase
	u.mu.Unlock()
	u.logf("phase %d: address A now served by %c", ph, p)
	u.fab.Serve(p)
}

func evStrings(rec *g5net.Recorder) []string {
	evs, _ := rec.Events()
	out := make([]string, 0, len(evs))
	for _, e := range evs {
		k := "lost"
		if e.Established {
			k = "established"
		}
		out = append(out, fmt.Sprintf("%s remote=%s uuid=%d", k, e.Link.GetRemotePeer().String(), e.Link.GetUUID()))
	}
	return out
}

func estFrom(rec *g5net.Recorder, id peer.ID) int {
	evs, _ := rec.Events()
	n := 0
	for _, e := range evs {
		if e.Established && e.Link.GetRemotePeer() == id {
			n++
		}
	}
	return n
}

// dialerBarrier returns once the (X, A) link dialer has recorded its result
// (Controller.DialPeerAddr on the same key returns the recorded link). Used
// before the harness takes A away from X again, so that the ordinary scenarios
// do not depend on how fast the dialer goroutine is scheduled.
func (u *run) dialerBarrier(ctx context.Context) bool {
	bctx, cancel := context.WithTimeout(ctx, watchdog)
	defer cancel()
	lnk, err := u.l.Ctrl.DialPeerAddr(bctx, u.x.ID.ID, u.opts)
	if err != nil {
		return false
	}
	u.onValue("DialPeerAddr", lnk)
	return true
}

// executeRaceLoss: X serves A; the dialer obtains the link and is held before
// it records it; the link is lost; the dialer is released. The outstanding
// request must still be satisfied (X serves A again).
func (u *run) executeRaceLoss(ctx context.Context) (complete bool) {
	r := u.r
	X := u.x.ID.ID
	g := &gate{release: make(chan struct{})}
	gates.Store(u.l.Ctrl, g)
	defer gates.Delete(u.l.Ctrl)
	defer g.open()
	u.setServer('X')
	u.ensureRequest(ctx)
	if ok, _ := wait(func() bool { return g.hits.Load() >= 1 && u.linksTo(X) > 0 }, nil); !ok {
		r.Inconclusive(u.sc.String() + ": dialer never reached the hook with a registered link")
		return false
	}
	u.logf("link dialer holds its dial result (not recorded yet); controller has the link")
	u.setServer('N')
	if ok, _ := wait(func() bool { return u.linksTo(X) == 0 }, nil); !ok {
		r.Inconclusive(u.sc.String() + ": link to X did not go away")
		return false
	}
	u.logf("link to X lost; now the dialer is released")
	u.setServer('X')
	g.open()
	r.Count("link_lost_before_dialer_recorded_it", 1)
	var dump []string
	ok, stuck := wait(func() bool { return u.linksTo(X) > 0 }, u.stuckDetector(&dump))
	if stuck {
		if len(dump) > 40 {
			dump = dump[:40]
		}
		r.Violation("link-lost-before-dialer-recorded:"+u.sc.m.String()+":"+u.sc.tpt,
			fmt.Sprintf("the link to X was lost before the link dialer recorded it; afterwards X serves A and the request is outstanding, but nothing dials any more (scenario %s)", u.sc),
			u.witness(map[string]any{"goroutines_of_case": dump}))
		return true
	}
	if !ok {
		r.Inconclusive(u.sc.String() + ": no link to X after the dialer was released (watchdog)")
		return false
	}
	r.Count("links_to_X_established", 1)
	return true
}

// rawDial calls DialPeer of the controller's transport directly (the only way to dial without a peer constraint).
func (u *run) rawDial(ctx context.Context, p peer.ID) (link.Link, error) {
	tpt, err := u.l.Ctrl.GetTransport(ctx)
	if err != nil {
		return nil, err
	}
	td, ok := tpt.(dialer.TransportDialer)
	if !ok {
		return nil, dialer.ErrNotTransportDialer
	}
	lnk, _, err := td.DialPeer(ctx, p, u.opts.GetAddress())
	return lnk, err
}

// prelude runs phase 0 of the linkedY / overlap scenarios: another dial of A
// (for Y, for X, or unconstrained) comes FIRST; the request for X is made while
// that dial is still in flight (overlap; the harness' network holds the dial
// traffic and lets go once the request for X is parked behind it) resp. once
// its link to Y is up (linkedY). done = the observation point of phase 0 was
// reached here (a legitimate link to Y holds the address and the dialer for X
// failed against it); otherwise the ordinary phase logic goes on.
func (u *run) prelude(ctx context.Context) (done, ok bool) {
	r := u.r
	p := u.sc.seq[0]
	X, Y := u.x.ID.ID, u.y.ID.ID
	truth := X
	if p == 'Y' {
		truth = Y
	}
	first := u.sc.overlap
	if u.sc.linkedY {
		first = "Y"
	}
	if u.sc.overlap != "" {
		u.fab.Hold()
		u.logf("the network holds dial traffic towards A")
	}
	defer u.fab.Release()
	u.setServer(p)
	type res struct {
		lnk link.Link
		err error
	}
	fctx, fcancel := context.WithCancel(ctx)
	defer fcancel()
	firstCh := make(chan res, 1)
	u.logf("first request: dial of A requiring %q", first)
	r.Count("first_requests_"+first, 1)
	g5net.WithReqLabel(ctx, "first", func(lctx context.Context) {
		go func() {
			var rs res
			switch first {
			case "Y":
				rs.lnk, rs.err = u.l.Ctrl.DialPeerAddr(fctx, Y, u.opts)
			case "X":
				rs.lnk, rs.err = u.rawDial(fctx, X)
			default:
				rs.lnk, rs.err = u.rawDial(fctx, "")
			}
			firstCh <- rs
		}()
	})
	var fr *res
	pollFirst := func() bool {
		if fr != nil {
			return true
		}
		select {
		case v := <-firstCh:
			fr = &v
			return true
		default:
			return false
		}
	}
	if u.sc.overlap != "" {
		// in flight: dial traffic towards A is being held (the per-address dialer is registered before it sends anything)
		if ok, _ := wait(func() bool { return pollFirst() || u.fab.Held() >= 1 }, nil); !ok || fr != nil {
			r.Inconclusive(u.sc.String() + ": the first dial never got in flight")
			return false, false
		}
		u.logf("the first dial is in flight; now the request for X is made")
		u.request(ctx, true)
		// joined: two callers wait for the result of the per-address dialer.
		// Goroutine profiles stop the world: look at most every 40 ms.
		looks, joined := 0, false
		var lastLook time.Time
		if ok, _ := wait(func() bool {
			if pollFirst() {
				return true // the held dial gave up (handshake time-out under load): nothing left to join
			}
			if time.Since(lastLook) < 40*time.Millisecond {
				return false
			}
			looks++
			tl := time.Now()
			n := g5net.GoroutineCount(u.label, "transport/common/quic.(*Transport).DialPeer", ".Await")
			lastLook = time.Now()
			if os.Getenv("VERIF_C05_HIST") != "" { // diagnostics only
				fmt.Printf("HIST %s look %d took %.3fs n=%d\n", u.label, looks, lastLook.Sub(tl).Seconds(), n)
			}
			if n >= 2 {
				joined = true
				return true
			}
			// a dialer for X that does not wait (it fails at once and backs off): go on after a bounded number of looks
			return looks >= 25 && u.dlog.failed.Load()+u.dlog.fatal.Load() > 0
		}, nil); !ok {
			r.Inconclusive(u.sc.String() + ": the request for X never reached the in-flight dial")
			return false, false
		}
		if joined {
			u.logf("the dial for X is parked behind the in-flight dial; the network lets go, A is answered by %c", p)
			r.Count("requests_for_X_parked_behind_inflight_dial", 1)
		} else {
			u.logf("the dial for X was not seen waiting for the in-flight dial; the network lets go, A is answered by %c", p)
			r.Count("requests_for_X_not_seen_waiting_for_inflight_dial", 1)
		}
		u.fab.Release()
	}
	// result of the first request
	if first == "Y" && p != 'Y' {
		// cannot be satisfied while X serves A: withdraw it so that only the request for X keeps dialing
		fcancel()
	}
	if ok, _ := wait(pollFirst, nil); !ok {
		r.Inconclusive(u.sc.String() + ": the first request did not conclude")
		return false, false
	}
	if fr.err != nil {
		u.logf("first request failed: %v", fr.err)
		r.Count("first_requests_failed", 1)
		if u.sc.linkedY {
			r.Inconclusive(u.sc.String() + ": the request for Y was not satisfied although Y serves A: " + fr.err.Error())
			return false, false
		}
		return false, true
	}
	if first == "X" {
		u.onValue("Transport.DialPeer", fr.lnk)
	}
	if fr.lnk == nil {
		u.logf("first request reported success without a link")
		return false, true
	}
	got := fr.lnk.GetRemotePeer()
	u.logf("first request succeeded: link names %s", got.String())
	r.Count("first_requests_succeeded", 1)
	if got != truth || (first == "Y" && got != Y) {
		r.Violation("wrong-peer:first-request-"+first+":"+u.sc.tpt,
			fmt.Sprintf("a dial of A requiring %q, answered by %c, reported success with a link naming %s (scenario %s)", first, p, got.String(), u.sc), u.witness(nil))
		return false, true
	}
	if p != 'Y' {
		return false, true
	}
	// a legitimate link to Y now holds address A
	if ok, _ := wait(func() bool { return u.linksTo(Y) > 0 }, nil); !ok {
		r.Inconclusive(u.sc.String() + ": the controller never registered the link to Y")
		return false, false
	}
	c0 := u.dlog.failed.Load()
	if u.sc.linkedY {
		u.logf("link to Y is up; now the request for X is made")
		u.request(ctx, true)
	}
	// observation point: the dialer for X failed (at least twice: the first failure may stem from the joined dial) while Y held the address, or gave up
	polls := 0
	if ok, _ := wait(func() bool {
		polls++
		return u.dlog.failed.Load() >= c0+2 || u.dlog.fatal.Load() > 0 || u.valueCount() > 0 || polls >= 2000
	}, nil); !ok {
		r.Inconclusive(u.sc.String() + ": no dial attempt for X observed while Y held the address")
		return false, false
	}
	u.logf("the dialer for X failed %d times while Y held the address (gave up for good: %v)", u.dlog.failed.Load()-c0, u.dlog.fatal.Load() > 0)
	r.Count("dial_attempts_for_X_failed_while_linked_to_Y", int(u.dlog.failed.Load()-c0))
	r.Count("phases_served_by_Y", 1)
	r.Count("requests_for_X_made_while_address_linked_to_Y", 1)
	return true, true
}

// execute runs the scenario; returns whether every phase reached its observation point.
func (u *run) execute(ctx context.Context) (complete bool) {
	if u.sc.raceLoss {
		return u.executeRaceLoss(ctx)
	}
	r := u.r
	X := u.x.ID.ID
	for i := 0; i < len(u.sc.seq); i++ {
		p := u.sc.seq[i]
		if i == 0 && (u.sc.linkedY || u.sc.overlap != "") {
			done, ok := u.prelude(ctx)
			if !ok {
				return false
			}
			if done {
				continue
			}
		} else if p == 'I' {
			if !u.takeover(ctx, i) {
				return false
			}
			continue
		} else if u.sc.giveUp && i == len(u.sc.seq)-1 {
			return u.finalAfterGiveUp(ctx, i)
		} else {
			u.setServer(p)
		}
		r.Count("phases_served_by_"+string(p), 1)
		if p != 'X' {
			// settle: the link to X made in an earlier phase has to die first (idle time-out);
			// a *later* request is one made when no link to X exists.
			if ok, _ := wait(func() bool { return u.linksTo(X) == 0 }, nil); !ok {
				r.Inconclusive(fmt.Sprintf("%s phase %d: old link to X did not go away", u.sc, i+1))
				return false
			}
		}
		if u.linksTo(X) == 0 {
			u.ensureRequest(ctx)
		}
		sent0, drop0, v0 := u.fab.Sent(), u.fab.Dropped(), u.valueCount()
		yEst0 := estFrom(u.y.Rec, u.l.ID.ID)
		switch p {
		case 'N':
			var dump []string
			var nd noDial
			ok, stopped := wait(func() bool {
				if g, _ := u.clog.gaveUp(); g && u.sc.giveUp {
					return true
				}
				return u.valueCount() > v0 || u.fab.Dropped()-drop0 >= 2
			}, either(u.stuckDetector(&dump), u.noDialDetector(ctx, &nd)))
			if stopped && nd.fired {
				// not judged here (X is not reachable); the obligation is checked when X serves A again
				u.logf("phase %d: the dialer for X keeps failing (%d attempts, last error %q) but nothing goes towards A", i+1, nd.failures, nd.lastErr)
				r.Count("phases_left_because_retries_did_not_dial", 1)
				continue
			}
			if stopped {
				// not judged here (X is not reachable); the obligation is checked when X serves A again
				u.logf("phase %d: a request is outstanding but nothing dials A any more", i+1)
				r.Count("phases_left_because_dialing_had_stopped", 1)
				continue
			}
			if !ok {
				r.Inconclusive(fmt.Sprintf("%s phase %d (nobody serves A): no further dial datagrams observed", u.sc, i+1))
				return false
			}
			r.Count("datagrams_to_A_dropped_nobody_serving", int(u.fab.Dropped()-drop0))
		case 'Y':
			var dump []string
			var nd noDial
			ok, stopped := wait(func() bool {
				if u.valueCount() > v0 {
					return true
				}
				if g, _ := u.clog.gaveUp(); g && u.sc.giveUp {
					return true
				}
				if estFrom(u.y.Rec, u.l.ID.ID)-yEst0 >= 2 {
					return true // the impostor completed two handshakes with L: the first result was digested
				}
				if u.sc.m == mEstablishLink && u.linksTo(u.y.ID.ID) > 0 {
					return true
				}
				return u.fab.Sent()-sent0 >= 30
			}, either(u.stuckDetector(&dump), u.noDialDetector(ctx, &nd)))
			if stopped && nd.fired {
				u.logf("phase %d: the dialer for X keeps failing (%d attempts, last error %q) but nothing goes towards A", i+1, nd.failures, nd.lastErr)
				r.Count("phases_left_because_retries_did_not_dial", 1)
				continue
			}
			if stopped {
				u.logf("phase %d: a request is outstanding but nothing dials A any more", i+1)
				r.Count("phases_left_because_dialing_had_stopped", 1)
				continue
			}
			if !ok {
				r.Inconclusive(fmt.Sprintf("%s phase %d (impostor serves A): impostor never answered", u.sc, i+1))
				return false
			}
			r.Count("impostor_handshakes_completed", estFrom(u.y.Rec, u.l.ID.ID)-yEst0)
			r.Count("datagrams_to_A_while_impostor_serving", int(u.fab.Sent()-sent0))
		case 'X':
			// obligation: the request is satisfied with a link to X.
			var lastDump []string
			var nd noDial
			ok, stuck := wait(func() bool {
				u.mu.Lock()
				pend := u.pending
				u.mu.Unlock()
				if u.linksTo(X) == 0 {
					u.ensureRequest(ctx) // no-op while a request is outstanding
					return false
				}
				return !pend
			}, either(u.stuckDetector(&lastDump), u.noDialDetector(ctx, &nd)))
			if stuck {
				u.mu.Lock()
				outstanding := u.pending || u.sc.m == mEstablishLink
				u.mu.Unlock()
				if outstanding && nd.fired {
					u.logf("the dialer for X keeps failing (%d attempts, last error %q) but nothing goes towards A although X serves it", nd.failures, nd.lastErr)
					r.Count("no_dial_detector_fired_while_X_serves", 1)
					r.Violation("request-for-x-retried-without-dialing:"+u.sc.m.String()+":"+u.sc.tpt,
						fmt.Sprintf("A is served by X and a request for X at A is outstanding; the dialer for X reports one failed attempt after the other (%d, last error %q) but not a single datagram / connection attempt goes towards A any more, no link of L is alive and nobody is inside the transport's dialer: the retries never reach the network, X is never noticed (scenario %s)", nd.failures, nd.lastErr, u.sc),
						u.witness(map[string]any{"failed_dial_attempts_without_traffic": nd.failures, "last_dial_error": nd.lastErr, "goroutines_of_case": nd.dump}))
					return true
				}
				if !outstanding {
					// the harness itself has not (re-)issued the request: nothing to blame the code for
					r.Inconclusive(fmt.Sprintf("%s phase %d: no request outstanding while waiting for a link to X", u.sc, i+1))
					return false
				}
				if len(lastDump) > 40 {
					lastDump = lastDump[:40]
				}
				u.logf("stuck: no link to X, no goroutine dialing, no datagrams towards A any more")
				r.Violation("request-for-x-never-retried:"+u.sc.m.String()+":"+u.sc.tpt,
					fmt.Sprintf("A is served by X and a request for X at A is outstanding, but nothing dials any more and no link to X exists (scenario %s)", u.sc),
					u.witness(map[string]any{"goroutines_of_case": lastDump}))
				return true
			}
			if !ok {
				u.mu.Lock()
				pend := u.pending
				u.mu.Unlock()
				r.Inconclusive(fmt.Sprintf("%s phase %d (X serves A): links_to_X=%d request_pending=%v after watchdog", u.sc, i+1, u.linksTo(X), pend))
				// diagnostics only
				_, mine := g5net.GoroutinesAll(u.label)
				w, _ := json.MarshalIndent(u.witness(map[string]any{"goroutines_of_case": mine}), "", " ")
				fmt.Printf("WATCHDOG-DIAGNOSTICS %s\n", w)
				return false
			}
			r.Count("links_to_X_established", 1)
			if u.sc.m == mEstablishLink && !u.dialerBarrier(ctx) {
				r.Inconclusive(fmt.Sprintf("%s phase %d: link dialer did not record its result", u.sc, i+1))
				return false
			}
			if u.sc.eager && u.sc.m != mEstablishLink {
				u.logf("re-request while the link to X is up")
				r.Count("requests_made_while_already_linked", 1)
				u.request(ctx, true)
			}
			if i > 0 {
				r.Count("links_to_X_established_after_address_change", 1)
				if strings.Contains(u.sc.seq[:i], "Y") {
					r.Count("links_to_X_established_after_impostor_answered", 1)
				}
			}
			// a later, passive request for a link to X is satisfied as well
			got := make(chan peer.ID, 4)
			_, ref, err := u.l.TB.Bus.AddDirective(link.NewEstablishLinkWithPeer(u.l.ID.ID, X),
				directive.NewCallbackHandler(func(av directive.AttachedValue) {
					if ml, ok := av.GetValue().(link.MountedLink); ok {
						select {
						case got <- ml.GetRemotePeer():
						default:
						}
					}
				}, nil, nil))
			if err == nil {
				var rp peer.ID
				ok, _ := wait(func() bool {
					select {
					case rp = <-got:
						return true
					default:
						return false
					}
				}, nil)
				ref.Release()
				if !ok {
					r.Inconclusive(fmt.Sprintf("%s phase %d: EstablishLinkWithPeer(L, X) produced no value although a link to X exists", u.sc, i+1))
				} else if rp != X {
					r.Violation("wrong-peer:EstablishLinkWithPeer:"+u.sc.tpt, "EstablishLinkWithPeer(L, X) yielded a link to "+rp.String(), u.witness(nil))
				} else {
					r.Count("later_establish_link_requests_satisfied", 1)
				}
			}
		}
	}
	return true
}

func runScenario(r *vf.Run, sc scenario, pool []*keys.Identity) {
	t0 := time.Now()
	defer func() { fmt.Printf("scenario %-60s %6.2fs\n", sc.String(), time.Since(t0).Seconds()) }() // diagnostics only
	ctx, cancel := context.WithCancel(context.Background())
	defer cancel()
	label := sc.String()
	r.Begin(label)
	g5net.WithLabel(ctx, label, func(ctx context.Context) {
		dlog := &dialLog{peer: pool[1].ID.String()}
		lg := logrus.New()
		lg.SetOutput(io.Discard)
		lg.SetLevel(logrus.WarnLevel)
		if os.Getenv("VERIF_C05_LOG") != "" {
			lg.SetOutput(os.Stderr)
			lg.SetLevel(logrus.DebugLevel)
		}
		lg.AddHook(dlog)
		le := logrus.NewEntry(lg).WithField("case", label)
		u := &run{r: r, sc: sc, label: label, t0: t0, dlog: dlog, opts: &dialer.DialerOpts{Address: addrA, Backoff: backoffFor(sc.bo)}}
		if sc.alias != "" {
			u.opts.Address = sc.alias
		}
		var spm map[string]*dialer.DialerOpts
		if sc.m == mEstablishLink {
			spm = map[string]*dialer.DialerOpts{pool[1].ID.String(): u.opts}
		}
		var err error
		switch sc.tpt {
		case "conn":
			n := g5net.NewStreamNet()
			x, err1 := g5net.StartStreamRemote(ctx, le, "X-home", pool[1])
			y, err2 := g5net.StartStreamRemote(ctx, le, "Y-home", pool[2])
			if err1 != nil || err2 != nil {
				r.Inconclusive(fmt.Sprintf("setup: %v %v", err1, err2))
				return
			}
			u.fab, u.x, u.y = &streamFabric{n: n, x: x, y: y}, peerEnd{x.ID, x.Rec}, peerEnd{y.ID, y.Rec}
			u.l, err = g5net.StartLocalStream(ctx, le, n, "L-home", pool[0], spm)
		default:
			n := g5net.NewSwitchNet()
			x, err1 := g5net.StartRemote(ctx, le, n, "X-home", pool[1])
			y, err2 := g5net.StartRemote(ctx, le, n, "Y-home", pool[2])
			if err1 != nil || err2 != nil {
				r.Inconclusive(fmt.Sprintf("setup: %v %v", err1, err2))
				return
			}
			u.fab, u.x, u.y = &dgramFabric{n: n, x: x, y: y}, peerEnd{x.ID, x.Rec}, peerEnd{y.ID, y.Rec}
			u.l, err = g5net.StartLocal(ctx, le, n, "L-home", pool[0], spm)
		}
		if err != nil {
			r.Inconclusive("setup: " + err.Error())
			return
		}
		defer u.l.TB.Release()
		u.clog = &ctrlLog{}
		ctrlLogs.Store(u.l.Ctrl, u.clog)
		defer ctrlLogs.Delete(u.l.Ctrl)
		defer u.l.Rec.HoldLost(false)
		u.fab.Alias("host-a")
		if sc.concurrent {
			// competing request: Y is legitimately requested at the same address
			go func() {
				for ctx.Err() == nil {
					lnk, err := u.l.Ctrl.DialPeerAddr(ctx, u.y.ID.ID, u.opts)
					if err != nil {
						return
					}
					r.Count("competing_request_for_Y_results", 1)
					if lnk.GetRemotePeer() != u.y.ID.ID {
						r.Violation("wrong-peer:DialPeerAddr:"+u.sc.tpt, "competing DialPeerAddr for Y at A returned a link to "+lnk.GetRemotePeer().String(), u.witness(nil))
					}
					// wait until that link is gone before asking again
					if ok, _ := wait(func() bool { return ctx.Err() != nil || len(u.l.Ctrl.GetPeerLinks(u.y.ID.ID)) == 0 }, nil); !ok {
						return
					}
				}
			}()
		}
		complete := u.execute(ctx)
		u.mu.Lock()
		rel := u.relDir
		nv := len(u.values)
		u.mu.Unlock()
		if rel != nil {
			rel()
		}
		r.Count("dial_traffic_units_to_A_"+sc.tpt, int(u.fab.Sent()))
		if n := sharedUUIDs(u.l.Rec); n > 0 {
			// sanity only (that is C06's subject): counted, never a C05 verdict by itself
			r.Count("link_uuids_shared_by_links_of_different_remote_peers", n)
		}
		r.Count("links_reported_to_L_handler", u.l.Rec.EstablishedCount())
		r.Case(label, complete)
		r.Distinct("service_sequences", sc.seq)
		r.Sample(map[string]any{"scenario": label, "values_reported": nv, "dial_traffic_to_A": u.fab.Sent(), "complete": complete})
	})
}

func TestCheck(t *testing.T) {
	r := vf.Start(t, "C05", vf.FaultEnumeration)
	defer r.Finish()
	r0 := ("scenario = (request kind in {Controller.DialPeerAddr, DialTptAddr directive, EstablishLinkWithPeer with a static peer map}) x (service sequence of address A over {X, impostor Y, nobody}, all sequences of length <= 3 without equal neighbours; thorough: plus 120 PRNG sequences of length 4-6) [+ variants in which a request for Y at A is satisfied first and X is requested while that link holds the address, + variants in which a first dial of A (unconstrained / requiring Y / requiring X, made through the controller resp. the transport's DialPeer) is held in flight by the harness' network while the request for X is made and released once the dial for X is parked behind it (goroutine state) with X resp. Y answering, + variants with a competing request for Y at the same address, + variants that repeat the request while the link to X is still up, + (hook tc.linkdialer.result) the link is lost while the link dialer is held between obtaining and recording its result, + variants in which every request spells the address differently from the remote address string its sessions report (a registered host name, another letter case, a trailing dot: the harness' networks resolve all of them to A), so that the link is dialed, lost and dialed again by the alias while X, the impostor or nobody serves it, + back-off options as a dimension: exponential instead of constant back-off (kind given / left at its zero value) on ordinary scenarios, and give-up scenarios (held request kind x later request kind x sequences in which X does not serve A first) whose exponential back-off carries max_elapsed_time in {1, 60, 150, 400} ms: the request is made and held while the impostor / nobody serves A until the controller's link dialer is SEEN ending without a link (hook tc.linkdialer.result, never a sleep) and its routine has come to rest (goroutine state), then X serves A and a NEW request of the later kind (DialPeerAddr call / DialTptAddr directive; never a directive the bus would merge into the held one) is made, + address take-over phases 'I' in the service sequence (XIX, XINX, IX, NIX; thorough also XIXIX, YXIX): the impostor takes A over and opens a session TO the local node which the node sees coming from A (datagram switch: NAT-style mapping; stream network: an incoming connection from A) while the node's link to X at A is still registered resp. before any request was made, with the loss reports reaching the controller only after it digested the impostor's link (the harness' handler tap keeps them back; hook tc.established tells when) or in the order the transport happens to deliver; afterwards nobody / X serves A]. Real transport controller + real pconn/quic transports over an in-memory datagram switch, resp. real conn (stream) transports over in-memory pipes, whose service table the harness rebinds between phases. A phase is left only when its observation point was reached (impostor completed handshakes / datagrams to A were dropped / link to X exists and the request returned); a scenario is non-trivial when all its phases reached it. Oracle (ground truth = the harness' service table): every success value of the request names X and appears only after X served A; while X serves A and a request is outstanding a link to X is eventually there -- refuted by a stuck state (no link to X, no goroutine in any dial routine on 5 consecutive observation points after the traffic counter towards A has been silent for 10), or by retries that never reach the network (progress oracle in logical steps: 3 consecutive windows of 25 failed dial attempts each reported by the dialer for X while not one datagram / connection attempt went towards A in the harness' network, no link of L was alive at the start or the end of a window and no goroutine was inside the transport's per-address dialer at the end of a window); in phases where X does not serve A the same two detectors only end the phase; after a dialer gave up the obligation is on the NEW request made once X serves A: it is satisfied with a link to X, or - stuck state reached - a link dialer must at least have run for it (a further 'ended without a link' result after the request: then the request is repeated, at most 6 times), else the later request can never be satisfied; links of different remote peers sharing one link UUID at the local transport are counted (sanity, C06's subject) but are no verdict of their own; a watchdog expiry is only inconclusive.")
	r.SetRule(r0 + " Direct-call histories (bare stream transport, no controller; re-binding A resets NOTHING: X's and Y's endpoints both stay alive and links made under an earlier binding stay up): sequences of {A served by X / Y / nobody, Transport.DialPeer(X / Y / any, A), Transport.HandleConn(dial=true, connection to whoever serves A, A, X / Y / any)} - a fixed core (each entry point x each entry point, after A was linked with Y on request / without constraint, after Y resp. X answered a request for the other peer) plus PRNG histories of 3-7 ops; oracle: a successful call returns a link naming the requested peer (or, for DialPeer's 'already connected', a link to that peer was returned before); after the history every link a successful call returned is closed and reported lost, X serves A, no dialer routine runs: DialPeer(X, A) must then succeed with a link to X (3 attempts, each after the dialer routines are at rest); every link reported established to the dialing node's handler must name a peer some request asked for (or a request without constraint exists): a refused dial leaves no established report.")
	r.Assume("the link's reported remote peer is authentic (that is C03)")
	r.Assume("goroutines of a scenario are found by an inherited pprof label; dial goroutines without label make the stuck detector abstain")

	installHook()
	defer verifhook.SetEvent("tc.linkdialer.result", nil)
	defer verifhook.SetEvent("tc.established", nil)
	rng := r.Rand("c05")
	pool := keys.Pool(rng, 3)
	var scs []scenario
	for _, m := range []method{mDialPeerAddr, mDialTptAddr, mEstablishLink} {
		for _, s := range seqs(3) {
			scs = append(scs, scenario{tpt: "pconn", m: m, seq: s})
		}
		// the stream transport shares the dial path: a reduced set (quick), the full set (thorough)
		cs := []string{"Y", "YX", "XYX", "NYX"}
		if !r.Quick() {
			cs = seqs(3)
		}
		for _, s := range cs {
			scs = append(scs, scenario{tpt: "conn", m: m, seq: s})
		}
	}
	for _, tp := range []string{"pconn", "conn"} {
		conc, eag := []string{"YX", "NYX", "YNX"}, []string{"XNX", "XYX"}
		if tp == "conn" && r.Quick() {
			conc, eag = conc[:1], eag[1:]
		}
		for _, s := range conc {
			scs = append(scs, scenario{tpt: tp, m: mDialPeerAddr, seq: s, concurrent: true})
			scs = append(scs, scenario{tpt: tp, m: mEstablishLink, seq: s, concurrent: true})
		}
		for _, s := range eag {
			scs = append(scs, scenario{tpt: tp, m: mDialPeerAddr, seq: s, eager: true})
			scs = append(scs, scenario{tpt: tp, m: mDialTptAddr, seq: s, eager: true})
		}
	}
	for _, tp := range []string{"pconn", "conn"} {
		scs = append(scs, scenario{tpt: tp, m: mEstablishLink, seq: "X", raceLoss: true})
	}
	// the address is first legitimately linked to Y, X is requested while that link is up, then the service changes
	// a first dial of A (unconstrained / for Y / for X) is held in flight while X is requested (the request joins it)
	for _, tp := range []string{"pconn", "conn"} {
		reduced := tp == "conn" && r.Quick()
		ly, ov := []string{"YX", "YNX"}, []string{"X", "YX"}
		if reduced {
			ly = ly[:1]
		}
		if !r.Quick() {
			ly, ov = append(ly, "YXYX", "YNYX"), append(ov, "YNX", "XYX")
		}
		for _, m := range []method{mDialPeerAddr, mDialTptAddr, mEstablishLink} {
			for _, s := range ly {
				scs = append(scs, scenario{tpt: tp, m: m, seq: s, linkedY: true})
			}
			for _, f := range []string{"any", "Y", "X"} {
				for _, s := range ov {
					if r.Quick() && m != mDialPeerAddr && (f == "X" || s != "YX" || (reduced && (m != mEstablishLink || f != "any"))) {
						continue
					}
					scs = append(scs, scenario{tpt: tp, m: m, seq: s, overlap: f})
				}
			}
		}
	}
	// the address is dialed under another spelling than the one its sessions report as their remote address
	// (registered host name / other letter case / trailing dot): link up, link lost, dialed again by the alias
	// while X, the impostor or nobody serves it
	{
		k := 0
		spell := func() string { k++; return aliasSpellings[k%len(aliasSpellings)] }
		for _, tp := range []string{"pconn", "conn"} {
			for _, m := range []method{mDialPeerAddr, mDialTptAddr, mEstablishLink} {
				ss := []string{"XNX", "XYX"}
				if tp == "conn" && r.Quick() {
					ss = []string{[]string{"XNX", "XYX", "XYX"}[m]}
					if m == mDialTptAddr {
						continue
					}
				}
				if !r.Quick() {
					ss = nil
					for _, q := range seqs(3) {
						if strings.Contains(q[:len(q)-1], "X") {
							ss = append(ss, q)
						}
					}
					ss = append(ss, "XNYX", "XYNX", "YXNX")
				}
				for _, q := range ss {
					scs = append(scs, scenario{tpt: tp, m: m, seq: q, alias: spell()})
				}
			}
			scs = append(scs, scenario{tpt: tp, m: mDialPeerAddr, seq: "YX", linkedY: true, alias: spell()})
			scs = append(scs, scenario{tpt: tp, m: mDialPeerAddr, seq: "XNX", eager: true, alias: spell()})
			if tp == "pconn" || !r.Quick() {
				scs = append(scs, scenario{tpt: tp, m: mDialPeerAddr, seq: "XNYX", alias: spell()})
				scs = append(scs, scenario{tpt: tp, m: mEstablishLink, seq: "YNX", linkedY: true, alias: spell()})
				scs = append(scs, scenario{tpt: tp, m: mDialTptAddr, seq: "YX", overlap: "any", alias: spell()})
			}
		}
	}
	// back-off options as a dimension of ordinary scenarios (exponential instead of constant)
	scs = append(scs,
		scenario{tpt: "pconn", m: mDialPeerAddr, seq: "YX", bo: "exp"},
		scenario{tpt: "pconn", m: mDialTptAddr, seq: "NYX", bo: "exp"},
		scenario{tpt: "pconn", m: mEstablishLink, seq: "XYX", bo: "exp-default-kind"},
		scenario{tpt: "pconn", m: mDialPeerAddr, seq: "XNX", bo: "exp-default-kind"},
		scenario{tpt: "conn", m: mEstablishLink, seq: "YX", bo: "exp"})
	// the dialer's back-off has max_elapsed_time: the held request's dialer gives up while the impostor /
	// nobody serves A (observed by hook), then X serves A and a NEW request of another or the same kind is made
	{
		k := 0
		maxes := []string{"exp-max60", "exp-max150", "exp-max400", "exp-max1"}
		bo := func() string { k++; return maxes[k%len(maxes)] }
		for _, tp := range []string{"pconn", "conn"} {
			for _, m := range []method{mEstablishLink, mDialPeerAddr, mDialTptAddr} {
				for _, lt := range []method{mDialPeerAddr, mDialTptAddr} {
					if m == mDialTptAddr && lt == mDialTptAddr {
						continue // an equivalent directive is merged into the held one: not a new request
					}
					pre := []string{"YX"}
					if !r.Quick() {
						pre = []string{"YX", "NX", "XYX", "YNX", "NYX", "XNX"}
					} else if tp == "conn" && (m == mDialPeerAddr || lt == mDialTptAddr) {
						continue
					}
					for _, q := range pre {
						scs = append(scs, scenario{tpt: tp, m: m, seq: q, bo: bo(), giveUp: true, later: lt})
					}
				}
			}
		}
		if r.Quick() {
			scs = append(scs,
				scenario{tpt: "pconn", m: mEstablishLink, seq: "NX", bo: bo(), giveUp: true, later: mDialPeerAddr},
				scenario{tpt: "pconn", m: mDialPeerAddr, seq: "XYX", bo: bo(), giveUp: true, later: mDialTptAddr},
				scenario{tpt: "pconn", m: mEstablishLink, seq: "XYX", bo: bo(), giveUp: true, later: mDialTptAddr},
				scenario{tpt: "pconn", m: mEstablishLink, seq: "YNX", bo: bo(), giveUp: true, later: mDialPeerAddr})
		}
	}
	// address take-over ('I'): the impostor takes A over and opens a session TO the local node from A - while
	// the node's link to X at A is still registered (after an X phase) or before any request was made; the
	// controller gets the loss of the replaced link after it digested the impostor's link (loss reports kept
	// back by the harness' handler tap) or in the order the transport happens to deliver
	for _, tp := range []string{"pconn", "conn"} {
		for _, m := range []method{mEstablishLink, mDialPeerAddr, mDialTptAddr} {
			for _, late := range []bool{true, false} {
				if tp == "conn" && r.Quick() && (m == mDialTptAddr || late != (m == mEstablishLink)) {
					continue
				}
				scs = append(scs, scenario{tpt: tp, m: m, seq: "XIX", lossLate: late})
				if !r.Quick() {
					scs = append(scs, scenario{tpt: tp, m: m, seq: "XINX", lossLate: late}, scenario{tpt: tp, m: m, seq: "XIXIX", lossLate: late}, scenario{tpt: tp, m: m, seq: "YXIX", lossLate: late})
				}
			}
		}
		if tp == "pconn" || !r.Quick() {
			scs = append(scs,
				scenario{tpt: tp, m: mEstablishLink, seq: "XINX", lossLate: true},
				scenario{tpt: tp, m: mEstablishLink, seq: "IX"},
				scenario{tpt: tp, m: mDialPeerAddr, seq: "NIX", lossLate: true},
				scenario{tpt: tp, m: mEstablishLink, seq: "XIX", lossLate: true, bo: "exp"})
		}
	}
	if !r.Quick() {
		seen := map[string]bool{}
		// there are only 24 + 48 + 96 = 168 sequences of length 4..6 without equal neighbours
		for len(seen) < 120 {
			l := 4 + rng.IntN(3)
			b := make([]byte, 0, l)
			for len(b) < l {
				c := "XYN"[rng.IntN(3)]
				if len(b) > 0 && b[len(b)-1] == c {
					continue
				}
				b = append(b, c)
			}
			if seen[string(b)] {
				continue
			}
			seen[string(b)] = true
			sc := scenario{tpt: []string{"pconn", "pconn", "conn"}[rng.IntN(3)], m: method(rng.IntN(3)), seq: string(b), concurrent: rng.IntN(4) == 0, eager: rng.IntN(4) == 0}
			switch k := rng.IntN(6); {
			case k == 0 && b[0] == 'Y' && !sc.concurrent:
				sc.linkedY = true
			case k == 1 && b[0] != 'N' && !sc.concurrent:
				sc.overlap = []string{"any", "Y", "X"}[rng.IntN(3)]
			}
			if rng.IntN(3) == 0 {
				sc.alias = aliasSpellings[rng.IntN(len(aliasSpellings))]
			}
			scs = append(scs, sc)
		}
	}
	// development knobs (not used by bin/check): run only matching scenarios, repeatedly
	if only := os.Getenv("VERIF_C05_ONLY"); only != "" {
		var sel []scenario
		rep, _ := strconv.Atoi(os.Getenv("VERIF_C05_REPEAT"))
		for _, sc := range scs {
			if strings.Contains(sc.String(), only) {
				for i := 0; i <= rep; i++ {
					sel = append(sel, sc)
				}
			}
		}
		scs = sel
	}
	r.Extra("scenarios", len(scs))
	// direct-call histories on a bare stream transport (direct_test.go)
	dhs := directHistories(r, r.N(40, 400))
	if only := os.Getenv("VERIF_C05_ONLY"); only != "" {
		var sel []directHistory
		for _, h := range dhs {
			if strings.Contains(h.String(), only) {
				sel = append(sel, h)
			}
		}
		dhs = sel
	}
	r.Extra("direct_histories", len(dhs))

	par := 16
	sem := make(chan struct{}, par)
	var wg sync.WaitGroup
	for _, h := range dhs {
		wg.Add(1)
		sem <- struct{}{}
		go func(h directHistory) {
			defer wg.Done()
			defer func() { <-sem }()
			runDirect(r, h, pool)
		}(h)
	}
	for _, sc := range scs {
		wg.Add(1)
		sem <- struct{}{}
		go func(sc scenario) {
			defer wg.Done()
			defer func() { <-sem }()
			runScenario(r, sc, pool)
		}(sc)
	}
	wg.Wait()
	r.Extra("no_dial_detector_max_failed_attempts_seen_in_a_silent_window", maxSilentFailures.Load())
	r.Extra("no_dial_detector_threshold_failed_attempts", noDialK*noDialWindows)
}
