// C04, gated part: CONCURRENT lookups for different target peers on one
// transport controller, with value handlers that block.
//
// One real transport controller, 2-3 remote peers with 2-4 fake links each,
// EstablishLinkWithPeer requests for those peers. In every round the harness
// parks one value callback of one request at a gate (g6link.Gate): the
// resolver that is answering that request is then inside its emit call (no
// lock of the controller held) with part of its answer still to be emitted.
// While it is parked the harness makes the OTHER lookups of the controller run
// (link events, which wake every resolver of the controller; new requests for
// other peers) and waits, by condition, until the other requests have been
// answered (or everything is observed parked); only then the gate is opened,
// the next gate being armed first, so that the rest of the held answer is
// emitted after the other lookups ran. Oracle unchanged: every value ever
// yielded for (S, D) is a harness link with remote == D (local == S).
package c04

import (
	"context"
	"fmt"
	"strings"
	"sync"
	"sync/atomic"

	"github.com/aperturerobotics/bifrost/peer"

	"verifharness/g6link"
	"verifharness/keys"
	"verifharness/vf"
)

const (
	gEst = iota
	gLost
	gWatch   // add a request (from the harness goroutine, no gate)
	gRelease // release a request that is not held
)

type gOp struct {
	kind int
	li   int // link index (gEst / gLost)
	src  int // gWatch: 0 = empty, 1 = the local identity, 2 = a non-local identity
	dst  int // gWatch: target peer index
	wi   int // gRelease: watch index (modulo)
}

func (o gOp) String() string {
	switch o.kind {
	case gEst:
		return fmt.Sprintf("E%d", o.li)
	case gLost:
		return fmt.Sprintf("L%d", o.li)
	case gWatch:
		return fmt.Sprintf("W(%d>D%d)", o.src, o.dst)
	default:
		return fmt.Sprintf("R%d", o.wi)
	}
}

func gOpsString(ops []gOp) string {
	var parts []string
	for _, o := range ops {
		parts = append(parts, o.String())
	}
	return strings.Join(parts, " ")
}

// gRound: which request is held, what is done to make it call back, what is
// done while it is held.
type gRound struct {
	// newWatch: the held request is a NEW one (added in this round from a
	// goroutine of its own, gate armed before it exists): its first answer is
	// the whole list of links its peer has at that moment.
	newWatch bool
	src, dst int  // newWatch: the request
	hold     int  // !newWatch: index (modulo) into the live requests
	anyCb    bool // hold the next callback of any kind (else the next value-added one)
	trig     []gOp
	during   []gOp
}

func (ro gRound) String() string {
	h := fmt.Sprintf("hold#%d", ro.hold)
	if ro.newWatch {
		h = fmt.Sprintf("hold-new W(%d>D%d)", ro.src, ro.dst)
	}
	if ro.anyCb {
		h += "[any]"
	}
	return fmt.Sprintf("%s after {%s} during {%s}", h, gOpsString(ro.trig), gOpsString(ro.during))
}

type gLink struct{ uuid, remote int } // remote: target peer index 0..2

type gcaseSpec struct {
	id     int
	npeers int
	links  []gLink
	pre    []gOp
	rounds []gRound
}

func (cs *gcaseSpec) sig() string {
	var sb strings.Builder
	sb.WriteString("gated|")
	for _, l := range cs.links {
		fmt.Fprintf(&sb, "u%dD%d,", l.uuid, l.remote)
	}
	sb.WriteString("|" + gOpsString(cs.pre))
	for _, ro := range cs.rounds {
		sb.WriteString("|" + ro.String())
	}
	return sb.String()
}

func genGCase(rng interface{ IntN(int) int }, id int) *gcaseSpec {
	cs := &gcaseSpec{id: id, npeers: 2 + rng.IntN(2)}
	uuid := 0
	byPeer := make([][]int, cs.npeers)
	for p := 0; p < cs.npeers; p++ {
		for k := 2 + rng.IntN(3); k > 0; k-- {
			uuid++
			byPeer[p] = append(byPeer[p], len(cs.links))
			cs.links = append(cs.links, gLink{uuid: uuid, remote: p})
		}
	}
	if rng.IntN(4) == 0 {
		// one more link sharing the uuid of a link of another peer (replacement)
		o := cs.links[rng.IntN(len(cs.links))]
		p := (o.remote + 1) % cs.npeers
		byPeer[p] = append(byPeer[p], len(cs.links))
		cs.links = append(cs.links, gLink{uuid: o.uuid, remote: p})
	}
	nl := len(cs.links)
	srcOf := func() int {
		switch x := rng.IntN(10); {
		case x < 5:
			return 0
		case x < 9:
			return 1
		default:
			return 2
		}
	}
	linkOp := func(p int) gOp {
		o := gOp{kind: gEst, li: rng.IntN(nl)}
		if p >= 0 {
			o.li = byPeer[p][rng.IntN(len(byPeer[p]))]
		}
		if rng.IntN(4) == 0 {
			o.kind = gLost
		}
		return o
	}
	// prologue: most links up, a request for most peers
	for i := range cs.links {
		if rng.IntN(3) != 0 {
			cs.pre = append(cs.pre, gOp{kind: gEst, li: i})
		}
	}
	for p := 0; p < cs.npeers; p++ {
		if rng.IntN(4) != 0 {
			cs.pre = append(cs.pre, gOp{kind: gWatch, src: srcOf() % 2, dst: p})
		}
	}
	for k := 2 + rng.IntN(4); k > 0; k-- {
		ro := gRound{hold: rng.IntN(8), anyCb: rng.IntN(4) == 0}
		tp := rng.IntN(cs.npeers) // the peer whose request is meant to be held
		if rng.IntN(3) == 0 {
			ro.newWatch, ro.src, ro.dst = true, srcOf()%2, tp
			if rng.IntN(2) == 0 {
				ro.trig = append(ro.trig, gOp{kind: gEst, li: byPeer[tp][rng.IntN(len(byPeer[tp]))]})
			}
		} else {
			for j := 1 + rng.IntN(3); j > 0; j-- {
				if rng.IntN(4) == 0 {
					ro.trig = append(ro.trig, linkOp(-1))
				} else {
					ro.trig = append(ro.trig, linkOp(tp))
				}
			}
		}
		for j := 1 + rng.IntN(4); j > 0; j-- {
			switch x := rng.IntN(10); {
			case x < 6:
				// a link event: wakes every lookup of the controller
				ro.during = append(ro.during, linkOp(rng.IntN(cs.npeers)))
			case x < 9:
				ro.during = append(ro.during, gOp{kind: gWatch, src: srcOf(), dst: (tp + 1 + rng.IntN(cs.npeers-1)) % cs.npeers})
			default:
				ro.during = append(ro.during, gOp{kind: gRelease, wi: rng.IntN(8)})
			}
		}
		cs.rounds = append(cs.rounds, ro)
	}
	return cs
}

type gRun struct {
	r       *vf.Run
	cs      *gcaseSpec
	w       *g6link.World
	n       *g6link.Node
	local   peer.ID
	targets []peer.ID
	alien   peer.ID
	links   []*g6link.Link
	model   *g6link.RefTable
	watches []*g6link.Watch // every request ever added
	failed  bool
}

func (c *gRun) violation(key, what string) {
	c.failed = true
	var ls []string
	for i, l := range c.links {
		ls = append(ls, fmt.Sprintf("%d:%s", i, l))
	}
	var rs []string
	for _, ro := range c.cs.rounds {
		rs = append(rs, ro.String())
	}
	var tg []string
	for i, t := range c.targets {
		tg = append(tg, fmt.Sprintf("D%d=%s", i, g6link.Short(t)))
	}
	c.r.Violation(key, what, map[string]any{"case": fmt.Sprintf("gated %d", c.cs.id), "local": g6link.Short(c.local), "targets": tg, "links": ls,
		"prologue": gOpsString(c.cs.pre), "rounds(the request held; operations before the hold; operations while its value callback is parked)": rs})
}

func (c *gRun) srcPeer(s int) peer.ID {
	switch s {
	case 0:
		return ""
	case 1:
		return c.local
	default:
		return c.alien
	}
}

func (c *gRun) expected(wa *g6link.Watch) []*g6link.Link {
	if wa.Src != "" && wa.Src != c.local {
		return nil
	}
	return c.model.PeerLinks(wa.Dst)
}

// pending: the reference table holds a link for the request that it has not
// been given yet (any: or the other way round).
func (c *gRun) pending(wa *g6link.Watch, any bool) bool {
	got, _ := wa.Current()
	want := c.expected(wa)
	if any {
		return !g6link.SameSet(got, want)
	}
	for _, l := range want {
		found := false
		for _, x := range got {
			if x == l {
				found = true
			}
		}
		if !found {
			return true
		}
	}
	return false
}

func (c *gRun) progress() int64 {
	p := int64(c.n.Seq())
	for _, wa := range c.watches {
		p += wa.Callbacks()
	}
	return p
}

// linkEvent delivers one handler call and waits for its hook; false = inconclusive.
func (c *gRun) linkEvent(o gOp) bool {
	l := c.links[o.li]
	at := c.n.Seq()
	if o.kind == gLost {
		c.n.Lost(l)
	} else {
		c.n.Est(l)
	}
	if res, _ := g6link.Settle(func() bool { return c.n.Seq() > at }, c.progress); res != g6link.Reached {
		c.r.Inconclusive(fmt.Sprintf("gated case %d: handler call never reached its hook", c.cs.id))
		return false
	}
	ev := c.n.Events(at)[0]
	if ev.Link == nil {
		c.r.Inconclusive("hook event for a foreign link")
		return false
	}
	c.model.ApplyEvent(ev)
	c.r.Count("gated_hook_events_"+ev.Kind, 1)
	return true
}

func (c *gRun) live(except *g6link.Watch) []*g6link.Watch {
	var out []*g6link.Watch
	for _, wa := range c.watches {
		if wa != except && !wa.Released() {
			out = append(out, wa)
		}
	}
	return out
}

// do runs one operation from the harness goroutine; held is the request whose callback is parked (or nil).
func (c *gRun) do(o gOp, held *g6link.Watch) bool {
	switch o.kind {
	case gEst, gLost:
		return c.linkEvent(o)
	case gWatch:
		src, dst := c.srcPeer(o.src), c.targets[o.dst]
		if held != nil && held.Src == src && held.Dst == dst {
			// the same directive instance: its callbacks queue behind the parked one
			c.r.Count("gated_requests_skipped_same_directive_as_the_held_one", 1)
			return true
		}
		wa, err := c.w.NewWatch(src, dst)
		if err != nil {
			c.r.Inconclusive("AddDirective failed: " + err.Error())
			return false
		}
		c.watches = append(c.watches, wa)
		c.r.Count("gated_requests_added", 1)
	case gRelease:
		if lv := c.live(held); len(lv) > 1 {
			lv[o.wi%len(lv)].Release()
			c.r.Count("gated_requests_released", 1)
		}
	}
	return true
}

func runGatedCase(r *vf.Run, pool []*keys.Identity, cs *gcaseSpec) {
	g6link.RunCase(func() {
		c := &gRun{r: r, cs: cs, local: pool[0].ID, alien: pool[4].ID}
		for i := 0; i < cs.npeers; i++ {
			c.targets = append(c.targets, pool[1+i].ID)
		}
		w, err := g6link.NewWorld(context.Background(), pool[:1])
		if err != nil {
			r.Inconclusive("cannot build world: " + err.Error())
			return
		}
		c.w, c.n = w, w.Nodes[0]
		c.model = g6link.NewRefTable(c.local)
		for i, ls := range cs.links {
			c.links = append(c.links, c.n.NewLink(fmt.Sprintf("g%d", i), uint64(ls.uuid), c.targets[ls.remote]))
		}
		var gates []*g6link.Gate
		var adds sync.WaitGroup
		var addErr atomic.Value
		defer func() {
			for _, g := range gates {
				g.Open()
			}
			adds.Wait()
			for _, wa := range c.watches {
				wa.Release()
			}
			w.Close()
			for _, l := range c.links {
				l.Close()
				l.Forget()
			}
		}()
		ok := true
		for _, o := range cs.pre {
			if ok = c.do(o, nil); !ok {
				return
			}
		}
		heldRounds, lookupsDuringHold, midAnswer := 0, 0, 0
		var cur *g6link.Gate // gate armed for the current round (armed before the previous one was opened)
		var curW *g6link.Watch
		arm := func(ro gRound) {
			if ro.newWatch {
				wa := w.PrepareWatch(c.srcPeer(ro.src), c.targets[ro.dst])
				curW, cur = wa, wa.Arm(!ro.anyCb)
				gates = append(gates, cur)
				c.watches = append(c.watches, wa)
				r.Count("gated_requests_added_with_gate_armed", 1)
				adds.Add(1)
				go func() {
					defer adds.Done()
					if err := wa.Add(); err != nil {
						addErr.Store(err.Error())
					}
				}()
				return
			}
			lv := c.live(nil)
			if len(lv) == 0 {
				curW, cur = nil, nil
				return
			}
			curW = lv[ro.hold%len(lv)]
			cur = curW.Arm(!ro.anyCb)
			gates = append(gates, cur)
		}
		var prev *g6link.Gate
		for ri, ro := range cs.rounds {
			// arm this round's gate, then let the previous round's callback go:
			// what it still has to emit is emitted after the lookups that ran meanwhile
			arm(ro)
			if prev != nil {
				prev.Open()
				prev = nil
			}
			for _, o := range ro.trig {
				if ok = c.do(o, nil); !ok {
					return
				}
			}
			if cur == nil {
				continue
			}
			g, wa := cur, curW
			// wait until the request calls back, or has nothing to call back about
			res, _ := g6link.Settle(func() bool { return g.Entered() || !c.pending(wa, ro.anyCb) }, c.progress)
			if res == g6link.Undecided {
				r.Inconclusive(fmt.Sprintf("gated case %d round %d: watchdog expired waiting for the value callback", cs.id, ri))
				return
			}
			if !g.Entered() {
				g.Open() // disarm
				r.Count("gated_rounds_without_a_callback_to_hold", 1)
				for _, o := range ro.during {
					if ok = c.do(o, nil); !ok {
						return
					}
				}
				continue
			}
			heldRounds++
			r.Count("gated_rounds_with_a_value_callback_held", 1)
			if c.pending(wa, false) {
				// the answer being emitted has more links to come after the parked one
				midAnswer++
				r.Count("gated_rounds_held_with_more_of_the_answer_still_to_be_emitted", 1)
			}
			for _, o := range ro.during {
				if ok = c.do(o, wa); !ok {
					return
				}
				if o.kind != gRelease {
					lookupsDuringHold++
				}
			}
			// the OTHER requests must have been answered (or nothing runs any more) before the gate opens
			others := func() bool {
				for _, x := range c.live(wa) {
					if x.Src == wa.Src && x.Dst == wa.Dst {
						continue // same directive instance: queued behind the parked callback
					}
					got, unk := x.Current()
					if unk != 0 || !g6link.SameSet(got, c.expected(x)) {
						return false
					}
				}
				return true
			}
			switch res, _ := g6link.Settle(others, c.progress); res {
			case g6link.Reached:
				r.Count("gated_rounds_other_requests_answered_while_held", 1)
			case g6link.Stuck:
				r.Count("gated_rounds_other_requests_parked_unanswered_while_held", 1)
			default:
				r.Inconclusive(fmt.Sprintf("gated case %d round %d: watchdog expired waiting for the other lookups", cs.id, ri))
				return
			}
			prev = g
		}
		if prev != nil {
			prev.Open()
		}
		for _, g := range gates {
			g.Open()
		}
		// settle: every live request holds what the reference table holds (completeness is C06's business: only counted)
		allOK := func() bool {
			for _, x := range c.live(nil) {
				got, unk := x.Current()
				if unk != 0 || !g6link.SameSet(got, c.expected(x)) {
					return false
				}
			}
			return true
		}
		switch res, _ := g6link.Settle(allOK, c.progress); res {
		case g6link.Reached:
			r.Count("gated_settled_points", 1)
		case g6link.Stuck:
			r.Count("gated_settled_with_value_sets_differing_from_reference(C06)", 1)
		default:
			r.Inconclusive(fmt.Sprintf("gated case %d: watchdog expired before the system settled", cs.id))
		}
		if e, _ := addErr.Load().(string); e != "" {
			r.Inconclusive("AddDirective failed: " + e)
		}
		// judge every value ever yielded
		nvals := 0
		for _, wa := range c.watches {
			req := fmt.Sprintf("EstablishLinkWithPeer(%q -> %s)", g6link.Short(wa.Src), g6link.Short(wa.Dst))
			if wa.Src == "" {
				req = fmt.Sprintf("EstablishLinkWithPeer(any -> %s)", g6link.Short(wa.Dst))
			}
			for _, e := range wa.Log() {
				if !e.Added {
					r.Count("values_removed", 1)
					continue
				}
				nvals++
				r.Count("values_added", 1)
				f := e.Link
				switch {
				case f == nil:
					c.violation("value/unknown-link", req+" yielded a value that is not a link delivered by the harness")
				case f.Remote == f.Local || e.Remote == e.Local:
					c.violation("value/self-link-yielded", req+" yielded the self link "+f.String())
				case f.Remote != wa.Dst || e.Remote != wa.Dst:
					c.violation("value/wrong-remote-peer", fmt.Sprintf("%s yielded %s (value reports remote %s)", req, f, g6link.Short(e.Remote)))
				case wa.Src != "" && (f.Local != wa.Src || e.Local != wa.Src):
					c.violation("value/wrong-local-peer", fmt.Sprintf("%s yielded %s (value reports local %s)", req, f, g6link.Short(e.Local)))
				case e.Local != f.Local || e.UUID != f.UUID:
					c.violation("value/misreports-link", fmt.Sprintf("%s: value for %s reports local %s uuid %d", req, f, g6link.Short(e.Local), e.UUID))
				case !c.model.EverPresentUpTo(1<<30, f):
					c.violation("value/never-established", fmt.Sprintf("%s yielded %s which the controller never accepted as established", req, f))
				}
			}
		}
		r.Count("gated_lookups_triggered_while_a_value_callback_was_held", lookupsDuringHold)
		r.Case(cs.sig(), !c.failed && heldRounds >= 1 && lookupsDuringHold >= 1 && nvals >= 2)
		if !c.failed && midAnswer >= 1 && gatedSamples.Add(1) <= 2 {
			var rs []string
			for _, ro := range cs.rounds {
				rs = append(rs, ro.String())
			}
			r.Sample(map[string]any{"case": fmt.Sprintf("gated %d", cs.id), "links(uuid,target)": fmt.Sprint(cs.links), "prologue": gOpsString(cs.pre), "rounds": rs, "rounds_with_callback_held": heldRounds, "held_mid_answer": midAnswer, "values_yielded": nvals})
		}
	})
}

var gatedSamples atomic.Int64
