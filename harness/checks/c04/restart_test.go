// C04, controller restarts: the SAME transport Controller instance is executed
// again after its Execute ended (the fake transport failed, the execution
// context was cancelled, the constructor failed in between), the way the
// controllerbus loader re-executes a failed controller, with links up at the
// moment of the exit and, for a controller configured with an empty peer id,
// with the local peer on the bus replaced in between. Requests made before,
// while and after the restarts are judged as in the main cases; in addition a
// request added after an execution is known to be over must never be given a
// link of that (or an earlier) execution.
package c04

import (
	"context"
	"errors"
	"fmt"
	"runtime"
	"strings"
	"sync"
	"time"

	"github.com/aperturerobotics/bifrost/peer"

	"verifharness/g6link"
	"verifharness/keys"
	"verifharness/vf"
)

const (
	rEst = iota
	rLost
	rWatch
	rRelease
	rRestart
	// rPending: a request added WHILE the node's execution ends and the next one
	// begins (the AddDirective call is held by a park handler of the harness
	// between asking the handlers and attaching their resolvers): the resolver of
	// the ended execution's handler is attached after that handler was removed,
	// so the request stays pending with it across every later restart.
	rPending
)

// peer table of a restart case:
//
//	0 ""    1 L0, 2 L1 (identities node 0 may take)    3 L2 (node 1)    4..6 remote identities
//	7 the identity node 0 has (had last) when the operation runs    8 the same for node 1
const (
	pCur0 = 7
	pCur1 = 8
	pSelf = -1 // link slots only: the incarnation's own identity
)

type rop struct {
	kind      int
	node      int
	slot      int
	src, dst  int
	wi        int
	cancel    bool // restart: end the execution by cancelling its context instead of a transport error
	swap      bool // restart of a node without configured peer id: replace the local peer on the bus first
	ctorFails int  // restart: the next constructor calls fail (executions that end before they have a transport)
	yield     bool
}

func (o rop) String() string {
	switch o.kind {
	case rEst:
		return fmt.Sprintf("E%d.%d", o.node, o.slot)
	case rLost:
		return fmt.Sprintf("L%d.%d", o.node, o.slot)
	case rWatch:
		return fmt.Sprintf("W(%d>%d)", o.src, o.dst)
	case rRelease:
		return fmt.Sprintf("R%d", o.wi)
	case rPending:
		x := "e"
		if o.cancel {
			x = "c"
		}
		if o.ctorFails > 0 {
			x += fmt.Sprintf("+ctorfail%d", o.ctorFails)
		}
		return fmt.Sprintf("P(%d>%d over X%d%s)", o.src, o.dst, o.node, x)
	default:
		s := fmt.Sprintf("X%d", o.node)
		if o.cancel {
			s += "c"
		} else {
			s += "e"
		}
		if o.swap {
			s += "+swap"
		}
		if o.ctorFails > 0 {
			s += fmt.Sprintf("+ctorfail%d", o.ctorFails)
		}
		return s
	}
}

type rslot struct {
	uuid   int
	remote int // peer table index, or pSelf
}

type rcaseSpec struct {
	id        int
	floating  bool // node 0 is configured with an empty peer id
	nodes     int  // 1 or 2
	viaLoader [2]bool
	first     int // 1 or 2: which of L0 / L1 runs on the bus first
	slots     [2][]rslot
	prologue  []rop
	scripts   [][]rop
	epilogue  []rop
}

func ropsString(ops []rop) string {
	var sb strings.Builder
	for _, o := range ops {
		sb.WriteString(o.String())
		sb.WriteByte(' ')
	}
	return strings.TrimSpace(sb.String())
}

func (cs *rcaseSpec) sig() string {
	var sb strings.Builder
	fmt.Fprintf(&sb, "restart float=%v nodes=%d loader=%v first=%d slots=%v|%s", cs.floating, cs.nodes, cs.viaLoader, cs.first, cs.slots, ropsString(cs.prologue))
	for _, s := range cs.scripts {
		sb.WriteString("|" + ropsString(s))
	}
	sb.WriteString("|" + ropsString(cs.epilogue))
	return sb.String()
}

func genRWatch(rng interface{ IntN(int) int }, nodes int) rop {
	o := rop{kind: rWatch}
	switch y := rng.IntN(20); {
	case y < 7:
		o.src = 0
	case y < 13:
		o.src = pCur0
	case y < 15 && nodes > 1:
		o.src = pCur1
	case y < 18:
		o.src = 1 + rng.IntN(3) // a local identity, current or not
	default:
		o.src = 4 + rng.IntN(3) // never a local identity
	}
	if rng.IntN(8) == 0 {
		o.dst = 1 + rng.IntN(3)
	} else {
		o.dst = 4 + rng.IntN(3)
	}
	return o
}

func genRCase(rng interface{ IntN(int) int }, id int) *rcaseSpec {
	cs := &rcaseSpec{id: id, floating: rng.IntN(10) < 7, nodes: 1 + rng.IntN(2), first: 1 + rng.IntN(2)}
	for ni := 0; ni < 2; ni++ {
		cs.viaLoader[ni] = rng.IntN(4) == 0
		for s := 0; s < 6; s++ {
			sl := rslot{uuid: 1 + rng.IntN(3)}
			switch {
			case s < 4:
				sl.remote = 4 + rng.IntN(3)
			case s == 4:
				sl.remote = pSelf
			default:
				sl.remote = 1 + rng.IntN(3)
			}
			cs.slots[ni] = append(cs.slots[ni], sl)
		}
	}
	// prologue (sequential): links come up, a few requests exist
	for ni := 0; ni < cs.nodes; ni++ {
		for k := 1 + rng.IntN(3); k > 0; k-- {
			cs.prologue = append(cs.prologue, rop{kind: rEst, node: ni, slot: rng.IntN(6)})
		}
	}
	for k := rng.IntN(3); k > 0; k-- {
		cs.prologue = append(cs.prologue, genRWatch(rng, cs.nodes))
	}
	// concurrent phase
	g := 1 + rng.IntN(2)
	cs.scripts = make([][]rop, g)
	nops := 10 + rng.IntN(16)
	restarts := 0
	for i := 0; i < nops; i++ {
		o := rop{node: rng.IntN(cs.nodes), slot: rng.IntN(6), wi: rng.IntN(8), yield: rng.IntN(3) == 0}
		switch x := rng.IntN(100); {
		case x < 36:
			o.kind = rEst
		case x < 44:
			o.kind = rLost
		case x < 74:
			w := genRWatch(rng, cs.nodes)
			w.yield = o.yield
			o = w
		case x < 79:
			o.kind = rRelease
		default:
			o.kind = rRestart
		}
		if i == nops/2 && restarts == 0 {
			o = rop{kind: rRestart, node: rng.IntN(cs.nodes)}
		}
		if o.kind == rRestart {
			restarts++
			if rng.IntN(3) == 0 {
				o.node = 0
			}
			o.cancel = rng.IntN(3) == 0
			o.swap = o.node == 0 && cs.floating && rng.IntN(3) != 0
			if rng.IntN(6) == 0 {
				o.ctorFails = 1 + rng.IntN(2)
			}
		}
		k := rng.IntN(g)
		cs.scripts[k] = append(cs.scripts[k], o)
	}
	// epilogue (sequential): after the restarts new links come up and requests are made
	for ni := 0; ni < cs.nodes; ni++ {
		for k := rng.IntN(3); k > 0; k-- {
			cs.epilogue = append(cs.epilogue, rop{kind: rEst, node: ni, slot: rng.IntN(6)})
		}
	}
	for d := 4; d <= 6; d++ {
		if rng.IntN(4) != 0 {
			cs.epilogue = append(cs.epilogue, rop{kind: rWatch, src: 0, dst: d})
		}
		if rng.IntN(3) != 0 {
			cs.epilogue = append(cs.epilogue, rop{kind: rWatch, src: pCur0, dst: d})
		}
		if cs.nodes > 1 && rng.IntN(3) == 0 {
			cs.epilogue = append(cs.epilogue, rop{kind: rWatch, src: pCur1, dst: d})
		}
	}
	return cs
}

// addPendingPlan turns a case with a floating node 0 into one of the "request
// for the former identity pending across an identity change" class: at the
// start a request (identity of node 0 at that moment -> remote d) is added
// while the execution of node 0 ends and is replaced by one with the SAME
// identity (1 in 2 with a link to another remote peer up, which the exit drops); the
// generated history runs unchanged in between; at the end node 0 is restarted
// twice with the local peer on the bus replaced each time, and in each of the
// two executions (at least one of which has another identity than the one
// the request names) a link to d comes up. Oracle unchanged.
func addPendingPlan(rng interface{ IntN(int) int }, cs *rcaseSpec) {
	if !cs.floating {
		return
	}
	zs := rng.IntN(4)
	d := cs.slots[0][zs].remote
	var pre []rop
	// (a link to d itself must not be up yet: the controller holds a request
	// (own identity -> d) for every link it has, which the new request would
	// merely join without any handler being asked)
	if o := (zs + 1) % 4; rng.IntN(2) == 0 && cs.slots[0][o].remote != d {
		pre = append(pre, rop{kind: rEst, node: 0, slot: o})
	}
	z := rop{kind: rPending, node: 0, src: pCur0, dst: d, cancel: rng.IntN(3) == 0}
	if rng.IntN(6) == 0 {
		z.ctorFails = 1
	}
	pre = append(pre, z)
	if rng.IntN(3) == 0 { // the link comes up again in the new execution (same identity: a right value)
		pre = append(pre, rop{kind: rEst, node: 0, slot: zs})
	}
	cs.prologue = append(pre, cs.prologue...)
	var tail []rop
	for k := 0; k < 2; k++ {
		tail = append(tail, rop{kind: rRestart, node: 0, swap: true, cancel: rng.IntN(3) == 0}, rop{kind: rEst, node: 0, slot: zs})
		if rng.IntN(3) == 0 {
			tail = append(tail, rop{kind: rEst, node: 0, slot: rng.IntN(4)})
		}
	}
	cs.epilogue = append(tail, cs.epilogue...)
}

// rlinkMeta is what the harness knows about a fake link of a restart case.
type rlinkMeta struct {
	node int
	k    int // constructor index of the execution the link belongs to
	slot int
}

type rwatch struct {
	wa     *g6link.Watch
	op     rop
	minInc []int // per node: executions known to be over before the directive was added
	// calm[n]: the same execution of node n was up, and not asked to end, before
	// and after the AddDirective call (the call did not overlap an exit of the node)
	calm  []bool
	phase string
}

type rcaseRun struct {
	r     *vf.Run
	cs    *rcaseSpec
	w     *g6link.RWorld
	pool  []*keys.Identity
	table []peer.ID // indices 0..6

	mu      sync.Mutex
	links   map[[3]int]*g6link.Link // (node, k, slot)
	meta    map[*g6link.Link]*rlinkMeta
	all     []*g6link.Link
	watches []*rwatch
	swapMu  sync.Mutex
	onBus   int // 1 or 2: which of L0 / L1 the harness runs on the bus (guarded by swapMu)
	failed  bool
	incon   string

	restarts, idChanges int
}

func (c *rcaseRun) inconclusive(what string) {
	c.mu.Lock()
	if c.incon == "" {
		c.incon = what
	}
	c.mu.Unlock()
}

// lastIdentity returns the identity node ni has, or had last.
func (c *rcaseRun) lastIdentity(ni int) peer.ID {
	if ni >= len(c.w.RNodes) {
		return c.table[3]
	}
	incs := c.w.RNodes[ni].Incarnations()
	for i := len(incs) - 1; i >= 0; i-- {
		if !incs[i].CtorFailed {
			return incs[i].ID
		}
	}
	return c.table[1+ni]
}

func (c *rcaseRun) pid(idx int) peer.ID {
	switch idx {
	case pCur0:
		return c.lastIdentity(0)
	case pCur1:
		return c.lastIdentity(1)
	}
	return c.table[idx]
}

// linkFor returns the fake link standing for a slot in an incarnation.
func (c *rcaseRun) linkFor(ni int, inc *g6link.Incarnation, slot int, create bool) *g6link.Link {
	c.mu.Lock()
	defer c.mu.Unlock()
	key := [3]int{ni, inc.K, slot}
	if l := c.links[key]; l != nil || !create {
		return l
	}
	sl := c.cs.slots[ni][slot]
	remote := inc.ID
	if sl.remote != pSelf {
		remote = c.table[sl.remote]
	}
	l := inc.NewLink(fmt.Sprintf("n%dx%ds%d", ni, inc.K, slot), uint64(sl.uuid), remote)
	c.links[key] = l
	c.meta[l] = &rlinkMeta{node: ni, k: inc.K, slot: slot}
	c.all = append(c.all, l)
	return l
}

func (c *rcaseRun) describe() map[string]any {
	w := map[string]any{"case": c.cs.id, "spec": c.cs.sig(),
		"legend":     "E<node>.<slot> / L<node>.<slot>: the transport of the node's current execution reports the link of that slot established / lost; W(src>dst): add EstablishLinkWithPeer (peer table: 0 empty, 1 L0, 2 L1, 3 L2, 4-6 remote identities, 7 / 8 the identity node 0 / 1 has at that moment); R: release; X<node>e / X<node>c: the node's execution ends by a transport error / by cancelling its context and the same Controller instance is executed again (+swap: the local peer on the bus is replaced first, +ctorfailN: the next N executions end in the constructor)",
		"peer_table": map[string]string{"1": g6link.Short(c.table[1]), "2": g6link.Short(c.table[2]), "3": g6link.Short(c.table[3]), "4": g6link.Short(c.table[4]), "5": g6link.Short(c.table[5]), "6": g6link.Short(c.table[6])}}
	var ex []string
	for ni, n := range c.w.RNodes {
		cfg := "empty (uses the peer found on the bus)"
		if n.Cfg != "" {
			cfg = g6link.Short(n.Cfg)
		}
		ex = append(ex, fmt.Sprintf("node %d: configured peer id %s, executed by the real loader: %v", ni, cfg, n.ViaLoader))
		for _, inc := range n.Incarnations() {
			ex = append(ex, fmt.Sprintf("node %d execution %d: identity %s constructor failed: %v", ni, inc.K, g6link.Short(inc.ID), inc.CtorFailed))
		}
	}
	w["executions"] = ex
	c.mu.Lock()
	var ls []string
	for _, l := range c.all {
		m := c.meta[l]
		ls = append(ls, fmt.Sprintf("%s: node %d execution %d slot %d closes=%d", l, m.node, m.k, m.slot, l.Closes()))
	}
	c.mu.Unlock()
	w["links"] = ls
	return w
}

func (c *rcaseRun) violation(key, what string, extra map[string]any) {
	c.mu.Lock()
	c.failed = true
	c.mu.Unlock()
	w := c.describe()
	for k, v := range extra {
		w[k] = v
	}
	c.r.Violation(key, what, w)
}

func (c *rcaseRun) runOps(ops []rop, phase string) {
	var mine []*rwatch
	for _, o := range ops {
		switch o.kind {
		case rEst, rLost:
			n := c.w.RNodes[o.node]
			inc := n.Cur()
			if inc == nil {
				c.r.Count("restart_link_event_skipped_no_execution_up", 1)
				break
			}
			l := c.linkFor(o.node, inc, o.slot, o.kind == rEst)
			if l == nil {
				break
			}
			ok := false
			if o.kind == rEst {
				ok = inc.Est(l)
			} else {
				ok = inc.Lost(l)
			}
			if ok {
				c.r.Count("restart_handler_calls", 1)
			} else {
				c.r.Count("restart_link_event_skipped_execution_over", 1)
			}
		case rWatch:
			rw := &rwatch{op: o, phase: phase}
			// read BEFORE the directive is added
			var before []*g6link.Incarnation
			for _, n := range c.w.RNodes {
				rw.minInc = append(rw.minInc, n.Exits())
				if inc := n.Cur(); inc.Stable() {
					before = append(before, inc)
				} else {
					before = append(before, nil)
				}
			}
			wa, err := c.w.NewWatch(c.pid(o.src), c.pid(o.dst))
			if err != nil {
				c.inconclusive("AddDirective failed: " + err.Error())
				break
			}
			for ni, n := range c.w.RNodes {
				inc := n.Cur()
				rw.calm = append(rw.calm, before[ni] != nil && inc == before[ni] && inc.Stable())
			}
			rw.wa = wa
			c.mu.Lock()
			c.watches = append(c.watches, rw)
			c.mu.Unlock()
			mine = append(mine, rw)
			c.r.Count("restart_directives_added", 1)
			for _, m := range rw.minInc {
				if m > 0 {
					c.r.Count("restart_directives_added_after_an_execution_ended", 1)
					break
				}
			}
		case rRelease:
			if len(mine) > 0 {
				k := o.wi % len(mine)
				mine[k].wa.Release()
				mine = append(mine[:k], mine[k+1:]...)
			}
		case rRestart:
			if !c.doRestart(o) {
				return
			}
		case rPending:
			if !c.doPending(o, phase) {
				return
			}
		}
		if o.yield {
			runtime.Gosched()
		}
	}
}

// doRestart ends the current execution of the node and waits for the next one
// (false: the case cannot go on, an inconclusive was recorded).
func (c *rcaseRun) doRestart(o rop) bool {
	n := c.w.RNodes[o.node]
	inc := n.Cur()
	if inc == nil {
		c.r.Count("restart_skipped_already_restarting", 1)
		return true
	}
	if o.swap && n.Cfg == "" {
		c.swapMu.Lock()
		old := c.onBus
		c.onBus = 3 - old
		c.w.RemovePeer(c.table[old])
		err := c.w.AddPeer(c.pool[3-old-1])
		c.swapMu.Unlock()
		if err != nil {
			c.inconclusive("cannot add peer controller: " + err.Error())
			return false
		}
		c.r.Count("restart_local_peer_on_the_bus_replaced", 1)
	}
	if o.ctorFails > 0 {
		n.FailNextCtor(o.ctorFails)
	}
	up := 0
	if snap := n.Ctrl.VerifSnapshotLinks(); snap != nil {
		up = len(snap.Links) // statistics only
	}
	if o.cancel {
		inc.CancelExec()
		c.r.Count("restart_exits_by_context_cancel", 1)
	} else {
		inc.Fail(errors.New("verif: listener failed"))
		c.r.Count("restart_exits_by_transport_error", 1)
	}
	ctx, cancel := context.WithTimeout(c.w.Ctx, g6link.Watchdog)
	next, err := n.WaitUp(ctx, inc.K+1)
	cancel()
	if err != nil {
		c.inconclusive(fmt.Sprintf("node %d did not come up again after its execution %d ended: %v", o.node, inc.K, err))
		return false
	}
	c.mu.Lock()
	c.restarts++
	if next.ID != inc.ID {
		c.idChanges++
	}
	c.mu.Unlock()
	c.r.Count("restart_restarts", 1)
	if up > 0 {
		c.r.Count("restart_restarts_with_links_up_at_the_exit", 1)
	}
	if next.ID != inc.ID {
		c.r.Count("restart_restarts_with_identity_change", 1)
	}
	if n.ViaLoader {
		c.r.Count("restart_restarts_by_the_real_loader", 1)
	}
	return true
}

// doPending: see rPending.
func (c *rcaseRun) doPending(o rop, phase string) bool {
	n := c.w.RNodes[o.node]
	if inc := n.Cur(); !inc.Stable() {
		c.r.Count("restart_pending_request_skipped_node_not_up", 1)
		return true
	}
	src, dst := c.pid(o.src), c.pid(o.dst)
	rw := &rwatch{op: o, phase: phase}
	for _, nn := range c.w.RNodes {
		rw.minInc = append(rw.minInc, nn.Exits())
		rw.calm = append(rw.calm, false)
	}
	ph, err := c.w.AddParkHandler(src, dst)
	if err != nil {
		c.inconclusive("cannot add the park handler: " + err.Error())
		return false
	}
	defer ph.Remove()
	ph.Arm()
	type res struct {
		wa  *g6link.Watch
		err error
	}
	done := make(chan res, 1)
	go func() {
		wa, err := c.w.NewWatch(src, dst)
		done <- res{wa, err}
	}()
	var got *res
	wd := time.NewTimer(g6link.Watchdog)
	defer wd.Stop()
	select {
	case <-ph.Entered():
		c.r.Count("restart_requests_held_between_handler_call_and_resolver_attach", 1)
		ro := o
		ro.kind, ro.swap = rRestart, false
		if !c.doRestart(ro) {
			ph.Open()
			<-done
			return false
		}
	case x := <-done:
		// an equivalent directive existed: no handler was asked
		got = &x
		c.r.Count("restart_pending_request_joined_an_existing_directive", 1)
	case <-wd.C:
		c.inconclusive("the AddDirective call never reached the park handler")
		ph.Open()
		<-done
		return false
	}
	ph.Open()
	if got == nil {
		x := <-done
		got = &x
	}
	if got.err != nil {
		c.inconclusive("AddDirective failed: " + got.err.Error())
		return true
	}
	rw.wa = got.wa
	c.mu.Lock()
	c.watches = append(c.watches, rw)
	c.mu.Unlock()
	c.r.Count("restart_directives_added", 1)
	c.r.Count("restart_directives_added_while_an_execution_ended_and_the_next_began", 1)
	return true
}

func runRestartCase(r *vf.Run, pool []*keys.Identity, cs *rcaseSpec) {
	g6link.RunCase(func() {
		c := &rcaseRun{r: r, cs: cs, pool: pool, links: map[[3]int]*g6link.Link{}, meta: map[*g6link.Link]*rlinkMeta{}, onBus: cs.first}
		c.table = []peer.ID{"", pool[0].ID, pool[1].ID, pool[2].ID, pool[3].ID, pool[4].ID, pool[5].ID}
		w, err := g6link.NewRWorld(context.Background())
		if err != nil {
			r.Inconclusive("cannot build world: " + err.Error())
			return
		}
		c.w = w
		// with every value: which execution of each node is the current one when the callback runs
		w.ValueHook = func(e *g6link.ValEvent) {
			ks := make([]int, 0, 2)
			for _, n := range w.RNodes {
				if inc := n.Cur(); inc != nil {
					ks = append(ks, inc.K)
				} else {
					ks = append(ks, -1)
				}
			}
			e.Aux = ks
		}
		defer func() {
			w.Close()
			c.mu.Lock()
			for _, l := range c.all {
				l.Close()
				l.Forget()
			}
			c.mu.Unlock()
		}()
		if err := w.AddPeer(pool[cs.first-1]); err != nil {
			r.Inconclusive("cannot add peer controller: " + err.Error())
			return
		}
		cfg0 := peer.ID("")
		if !cs.floating {
			cfg0 = pool[cs.first-1].ID
		}
		w.AddRNode(cfg0, cs.viaLoader[0])
		if cs.nodes > 1 {
			if err := w.AddPeer(pool[2]); err != nil {
				r.Inconclusive("cannot add peer controller: " + err.Error())
				return
			}
			w.AddRNode(pool[2].ID, cs.viaLoader[1])
		}
		for ni, n := range w.RNodes {
			if err := n.Start(); err != nil {
				r.Inconclusive("cannot start node: " + err.Error())
				return
			}
			ctx, cancel := context.WithTimeout(w.Ctx, g6link.Watchdog)
			_, err := n.WaitUp(ctx, 0)
			cancel()
			if err != nil {
				r.Inconclusive(fmt.Sprintf("node %d did not come up: %v", ni, err))
				return
			}
		}

		c.runOps(cs.prologue, "prologue")
		var wg sync.WaitGroup
		start := make(chan struct{})
		for _, s := range cs.scripts {
			wg.Add(1)
			go func(s []rop) {
				defer wg.Done()
				<-start
				c.runOps(s, "concurrent")
			}(s)
		}
		close(start)
		wg.Wait()
		for ni, n := range w.RNodes {
			// (a restart skipped by one goroutine may still be in progress in the other: it is over now)
			ctx, cancel := context.WithTimeout(w.Ctx, g6link.Watchdog)
			_, err := n.WaitUp(ctx, 0)
			cancel()
			if err != nil {
				c.inconclusive(fmt.Sprintf("node %d is not up at the end of the scripts: %v", ni, err))
			}
		}
		c.mu.Lock()
		incon := c.incon
		c.mu.Unlock()
		if incon == "" {
			c.runOps(cs.epilogue, "epilogue")
		}

		c.mu.Lock()
		watches := append([]*rwatch(nil), c.watches...)
		c.mu.Unlock()
		progress := func() int64 {
			p := int64(0)
			for _, n := range w.Nodes {
				p += int64(n.Seq())
			}
			for _, rw := range watches {
				p += rw.wa.Callbacks()
			}
			return p
		}
		allApplied := func() bool {
			for _, n := range w.Nodes {
				if !n.AllApplied() {
					return false
				}
			}
			return true
		}
		complete := false
		if res, _ := g6link.Settle(allApplied, progress); res == g6link.Reached {
			complete = true
			// what the current executions hold, by the reference table (replayed
			// from the hook log of the links of the current execution); used only to
			// know when everything that will be yielded has been yielded
			type cur struct {
				id peer.ID
				t  *g6link.RefTable
			}
			var curs []cur
			for ni, n := range w.RNodes {
				inc := n.Cur()
				if inc == nil {
					continue
				}
				t := g6link.NewRefTable(inc.ID)
				for _, ev := range n.Events(0) {
					c.mu.Lock()
					m := c.meta[ev.Link]
					c.mu.Unlock()
					if ev.Link != nil && m != nil && m.node == ni && m.k == inc.K {
						t.ApplyEvent(ev)
					}
				}
				curs = append(curs, cur{inc.ID, t})
			}
			cond := func() bool {
				for _, rw := range watches {
					if rw.wa.Released() {
						continue
					}
					got, _ := rw.wa.Current()
					have := map[*g6link.Link]bool{}
					for _, l := range got {
						have[l] = true
					}
					for _, cu := range curs {
						if rw.wa.Src != "" && rw.wa.Src != cu.id {
							continue
						}
						for _, l := range cu.t.PeerLinks(rw.wa.Dst) {
							if !have[l] {
								return false
							}
						}
					}
				}
				return true
			}
			switch res, _ := g6link.Settle(cond, progress); res {
			case g6link.Undecided:
				c.inconclusive("watchdog expired before the established links were yielded")
			case g6link.Stuck:
				// completeness is property C06's business
				r.Count("restart_settled_with_established_links_not_yielded(C06)", 1)
			}
		} else {
			c.inconclusive("handler calls never reached their hooks")
		}
		for _, n := range w.RNodes {
			if b := n.Broken(); b != "" {
				c.inconclusive(b)
				complete = false
			}
		}

		// ---- judge every value ever yielded
		firstEst := map[*g6link.Link]int{} // seq of the first Est event applied while the controller was running
		if complete {
			for _, n := range w.Nodes {
				for _, ev := range n.Events(0) {
					if ev.Link != nil && ev.Kind == g6link.KindEst && !ev.Down() {
						if _, ok := firstEst[ev.Link]; !ok {
							firstEst[ev.Link] = ev.Seq
						}
					}
				}
			}
		}
		nvals, nafter, nafterUp := 0, 0, 0
		// values that are links of an ended execution: decided below, in a quiescent state
		type staleCand struct {
			rw   *rwatch
			e    g6link.ValEvent
			what string
		}
		var cands []staleCand
		curAt := func(e g6link.ValEvent, ni int) int {
			if ks, ok := e.Aux.([]int); ok && ni < len(ks) {
				return ks[ni]
			}
			return -2
		}
		// identities a node had in its executions
		hadIdentity := func(ni, beforeK int, id peer.ID) bool {
			for _, inc := range w.RNodes[ni].Incarnations() {
				if inc.K < beforeK && !inc.CtorFailed && inc.ID == id {
					return true
				}
			}
			return false
		}
		for _, rw := range watches {
			wa := rw.wa
			req := fmt.Sprintf("EstablishLinkWithPeer(%q -> %s)", g6link.Short(wa.Src), g6link.Short(wa.Dst))
			if wa.Src == "" {
				req = fmt.Sprintf("EstablishLinkWithPeer(any -> %s)", g6link.Short(wa.Dst))
			}
			req += fmt.Sprintf(" [op %s of the %s; executions known to be over when it was added, per node: %v; added while the node's execution was up and not ending, per node: %v]", rw.op, rw.phase, rw.minInc, rw.calm)
			maxK := make([]int, len(w.RNodes))
			for i := range maxK {
				maxK[i] = -1
			}
			for _, e := range wa.Log() {
				if !e.Added {
					r.Count("restart_values_removed", 1)
					continue
				}
				nvals++
				r.Count("restart_values_added", 1)
				f := e.Link
				c.mu.Lock()
				m := c.meta[f]
				c.mu.Unlock()
				switch {
				case f == nil || m == nil:
					c.violation("value/unknown-link", req+" yielded a value that is not a link delivered by the harness", nil)
					continue
				case f.Remote == f.Local || e.Remote == e.Local:
					c.violation("value/self-link-yielded", req+" yielded the self link "+f.String(), nil)
				case f.Remote != wa.Dst || e.Remote != wa.Dst:
					c.violation("value/wrong-remote-peer", fmt.Sprintf("%s yielded %s (value reports remote %s)", req, f, g6link.Short(e.Remote)), nil)
				case wa.Src != "" && (f.Local != wa.Src || e.Local != wa.Src) && e.Local == f.Local && curAt(e, m.node) == m.k && hadIdentity(m.node, m.k, wa.Src):
					// a separate key for one history class: the request names an identity the
					// controller had in an earlier execution and is given a link of the
					// execution that is running when the value appears, which has another identity
					c.violation("value/wrong-local-peer/request-for-a-former-identity-given-a-link-of-the-running-execution", fmt.Sprintf("%s yielded %s (value reports local %s), a link of execution %d of node %d, the execution running when the value appeared; the requested source was the node's identity in an earlier execution", req, f, g6link.Short(e.Local), m.k, m.node), nil)
				case wa.Src != "" && (f.Local != wa.Src || e.Local != wa.Src):
					c.violation("value/wrong-local-peer", fmt.Sprintf("%s yielded %s (value reports local %s), a link of execution %d of node %d", req, f, g6link.Short(e.Local), m.k, m.node), nil)
				case e.Local != f.Local || e.UUID != f.UUID:
					c.violation("value/misreports-link", fmt.Sprintf("%s: value for %s reports local %s uuid %d", req, f, g6link.Short(e.Local), e.UUID), nil)
				case m.k < rw.minInc[m.node]:
					// the directive was added after ExecuteController of that execution had
					// returned: the controller's exit handler had dropped (and closed) every
					// link, the bus had removed the controller's resolvers with their values
					cands = append(cands, staleCand{rw, e, fmt.Sprintf("%s yielded %s, a link of execution %d of node %d, which had ended (its links closed by the controller) before the request was made", req, f, m.k, m.node)})
				case m.k < maxK[m.node]:
					// values of one directive are delivered in the order they were added:
					// resolvers of a later execution only exist after those of the earlier
					// one were removed
					cands = append(cands, staleCand{rw, e, fmt.Sprintf("%s yielded %s, a link of execution %d of node %d, after it had yielded a link of execution %d", req, f, m.k, m.node, maxK[m.node])})
				case complete:
					if s, ok := firstEst[f]; !ok || s > e.SeqAt[m.node] {
						c.violation("value/never-established", fmt.Sprintf("%s yielded %s which the controller had not accepted as established when the value appeared (after %d events)", req, f, e.SeqAt[m.node]), nil)
					}
				}
				if m.k > maxK[m.node] {
					maxK[m.node] = m.k
				}
				if rw.minInc[m.node] > 0 {
					nafter++
					r.Count("restart_values_for_directives_added_after_an_execution_ended", 1)
					if wa.Src == "" {
						r.Count("restart_values_for_directives_added_after_an_execution_ended_empty_source", 1)
					}
				}
				if m.k > 0 {
					nafterUp++
					r.Count("restart_values_that_are_links_of_a_re-execution", 1)
				}
			}
		}
		if len(cands) > 0 {
			// A resolver that the bus attached while the controller's handler was
			// being removed (AddDirective racing with the removal) is never removed
			// and may hold a link of the ended execution until it has seen the exit:
			// such a value is transient. The verdict is taken in a quiescent state:
			// the value is still attached while every goroutine of the system is
			// parked, i.e. nothing will ever remove it.
			attached := func(sc staleCand) bool {
				if sc.rw.wa.Released() {
					return false
				}
				for _, v := range sc.rw.wa.CurrentValues() {
					if v.ValID == sc.e.ValID {
						return true
					}
				}
				return false
			}
			res, dump := g6link.Settle(func() bool {
				for _, sc := range cands {
					if attached(sc) {
						return false
					}
				}
				return true
			}, progress)
			switch res {
			case g6link.Reached:
				r.Count("restart_values_of_an_ended_execution_seen_transiently_not_flagged", len(cands))
			case g6link.Undecided:
				c.inconclusive("watchdog expired while deciding whether a link of an ended execution stays attached")
			default:
				for _, sc := range cands {
					if attached(sc) {
						c.violation("value/link-of-an-ended-execution", sc.what+"; the value is still attached in a quiescent state (every goroutine of the system parked)", map[string]any{"goroutines": g6link.TrimDump(dump)})
					}
				}
			}
		}
		c.mu.Lock()
		failed, incon, restarts, idc := c.failed, c.incon, c.restarts, c.idChanges
		c.mu.Unlock()
		if incon != "" {
			r.Inconclusive(fmt.Sprintf("restart case %d: %s", cs.id, incon))
		}
		nontrivial := !failed && incon == "" && restarts >= 1 && nafter >= 1
		r.Case(cs.sig(), nontrivial)
		r.Count("restart_cases", 1)
		if nontrivial {
			r.Count("restart_cases_nontrivial", 1)
		}
		for _, rw := range watches {
			if !rw.wa.Released() {
				rw.wa.Release()
			}
		}
		if nontrivial && idc >= 1 && nafterUp >= 1 {
			var ex []string
			for ni, n := range w.RNodes {
				for _, inc := range n.Incarnations() {
					ex = append(ex, fmt.Sprintf("node %d execution %d identity %s ctorFailed=%v", ni, inc.K, g6link.Short(inc.ID), inc.CtorFailed))
				}
			}
			r.Sample(map[string]any{"restart_case": cs.id, "spec": cs.sig(), "executions": ex, "values_yielded": nvals, "values_for_requests_made_after_an_exit": nafter})
		}
	})
}
