// C04: link lookups return only links between the requested peers.
//
// Two real transport controllers (two local identities) on one real
// controller bus, fake transports whose real handlers are driven by the
// harness with fake links to three remote identities, to the other local
// identity and to the local identity itself (self links), with shared uuids.
// EstablishLinkWithPeer(S, D) directives with empty / matching / other-local /
// non-local sources are added and released while links come and go, from 1-3
// goroutines. Every value ever yielded and every stream delivered or opened is
// judged against what the harness knows about the fake link it belongs to.
package c04

import (
	"context"
	"fmt"
	"os"
	"runtime"
	"strings"
	"sync"
	"testing"

	"github.com/aperturerobotics/bifrost/peer"
	"github.com/aperturerobotics/bifrost/protocol"
	"github.com/aperturerobotics/bifrost/stream"

	"verifharness/g6link"
	"verifharness/keys"
	"verifharness/vf"
)

const (
	opEst = iota
	opLost
	opWatch
	opRelease
	opInject
	opOpen
)

type op struct {
	kind     int
	li       int // link index
	src, dst int // peer table index: 0 = "", 1,2 = local identities, 3..5 = remote identities
	wi       int
	yield    bool
}

func (o op) String() string {
	switch o.kind {
	case opEst:
		return fmt.Sprintf("E%d", o.li)
	case opLost:
		return fmt.Sprintf("L%d", o.li)
	case opWatch:
		return fmt.Sprintf("W(%d>%d)", o.src, o.dst)
	case opRelease:
		return fmt.Sprintf("R%d", o.wi)
	case opInject:
		return fmt.Sprintf("I%d", o.li)
	default:
		return fmt.Sprintf("O%d", o.wi)
	}
}

type linkSpec struct {
	node   int // 0 or 1
	uuid   int
	remote int // peer table index 1..5
}

// earlyOp is a handler call the fake transport makes while the controller is
// still starting up: from a goroutine of its own started inside the
// constructor callback (the call may block until the controller is up).
type earlyOp struct {
	lost   bool
	li     int
	yields int // runtime.Gosched calls of the goroutine before the handler call
}

type caseSpec struct {
	id      int
	links   []linkSpec
	scripts [][]op
	// start-up phase (empty in about half of the cases)
	early        [2][]earlyOp // per node
	ctorYields   [2]int       // runtime.Gosched calls of the constructor after starting the goroutines, before it returns
	earlyWatches []op         // directives added before the transport controllers exist
}

func (cs *caseSpec) sig() string {
	var sb strings.Builder
	for _, l := range cs.links {
		fmt.Fprintf(&sb, "n%du%dr%d,", l.node, l.uuid, l.remote)
	}
	for _, s := range cs.scripts {
		sb.WriteString("|")
		for _, o := range s {
			sb.WriteString(o.String())
			sb.WriteByte(' ')
		}
	}
	sb.WriteString(cs.earlyString())
	return sb.String()
}

// earlyString renders the start-up phase ("" if there is none).
func (cs *caseSpec) earlyString() string {
	if len(cs.early[0])+len(cs.early[1])+len(cs.earlyWatches) == 0 {
		return ""
	}
	var sb strings.Builder
	sb.WriteString("|startup:")
	for _, o := range cs.earlyWatches {
		sb.WriteString(" " + o.String())
	}
	for ni := range cs.early {
		if len(cs.early[ni]) == 0 {
			continue
		}
		fmt.Fprintf(&sb, " ctor%d[", ni)
		for _, e := range cs.early[ni] {
			k := "E"
			if e.lost {
				k = "L"
			}
			fmt.Fprintf(&sb, "%s%d~%d ", k, e.li, e.yields)
		}
		fmt.Fprintf(&sb, "then yield %d]", cs.ctorYields[ni])
	}
	return sb.String()
}

func genWatch(rng interface{ IntN(int) int }, o *op) {
	o.kind = opWatch
	switch y := rng.IntN(10); {
	case y < 4:
		o.src = 0
	case y < 8:
		o.src = 1 + rng.IntN(2)
	default:
		o.src = 3 + rng.IntN(3) // a source that is not a local identity
	}
	o.dst = 1 + rng.IntN(5)
	if rng.IntN(40) == 0 {
		o.dst = 0 // invalid: empty target
	}
}

func genCase(rng interface{ IntN(int) int }, id int) *caseSpec {
	cs := &caseSpec{id: id}
	nl := 5 + rng.IntN(6)
	for i := 0; i < nl; i++ {
		ls := linkSpec{node: rng.IntN(2), uuid: 1 + rng.IntN(4)}
		switch x := rng.IntN(20); {
		case x < 3:
			ls.remote = 1 + ls.node // self link
		case x < 6:
			ls.remote = 2 - ls.node // the other local identity
		default:
			ls.remote = 3 + rng.IntN(3)
		}
		cs.links = append(cs.links, ls)
	}
	if rng.IntN(2) == 0 {
		// start-up phase: the transports report link events from inside their
		// constructors, directives exist before the controllers do
		for node := 0; node < 2; node++ {
			if rng.IntN(3) == 0 {
				continue
			}
			if rng.IntN(2) == 0 {
				cs.links = append(cs.links, linkSpec{node: node, uuid: 1 + rng.IntN(4), remote: 1 + node}) // a self link
			}
			var mine, selfs []int
			for i, l := range cs.links {
				if l.node == node {
					mine = append(mine, i)
					if l.remote == 1+node {
						selfs = append(selfs, i)
					}
				}
			}
			if len(mine) == 0 {
				continue
			}
			for k := 1 + rng.IntN(4); k > 0; k-- {
				e := earlyOp{lost: rng.IntN(6) == 0, li: mine[rng.IntN(len(mine))], yields: rng.IntN(4)}
				if len(selfs) > 0 && rng.IntN(2) == 0 {
					e.li = selfs[rng.IntN(len(selfs))]
				}
				cs.early[node] = append(cs.early[node], e)
			}
			cs.ctorYields[node] = []int{0, 0, 1, 3, 10, 50}[rng.IntN(6)]
		}
		for k := rng.IntN(4); k > 0; k-- {
			var o op
			genWatch(rng, &o)
			if rng.IntN(2) == 0 {
				o.dst = 1 + rng.IntN(2) // a local identity: the request a self link would answer
			}
			cs.earlyWatches = append(cs.earlyWatches, o)
		}
		nl = len(cs.links)
	}
	g := 1 + rng.IntN(3)
	cs.scripts = make([][]op, g)
	nops := 20 + rng.IntN(25)
	for i := 0; i < nops; i++ {
		o := op{li: rng.IntN(nl), wi: rng.IntN(8), yield: rng.IntN(3) == 0}
		switch x := rng.IntN(100); {
		case x < 34:
			o.kind = opEst
		case x < 50:
			o.kind = opLost
		case x < 68:
			genWatch(rng, &o)
		case x < 73:
			o.kind = opRelease
		case x < 88:
			o.kind = opInject
		default:
			o.kind = opOpen
		}
		k := rng.IntN(g)
		cs.scripts[k] = append(cs.scripts[k], o)
	}
	return cs
}

type openRec struct {
	wa   *g6link.Watch
	val  g6link.ValEvent
	pid  protocol.ID
	err  error
	peer peer.ID
	lRem peer.ID
	lLoc peer.ID
	link *g6link.Link
	seen bool // header with pid arrived at the far end of a stream opened on val.Link
}

type caseRun struct {
	r     *vf.Run
	cs    *caseSpec
	w     *g6link.World
	sc    *g6link.StreamCatcher
	peers []peer.ID // peer table
	links []*g6link.Link

	mu       sync.Mutex
	watches  []*g6link.Watch // all watches ever added
	injected map[protocol.ID]*g6link.Link
	injOK    map[protocol.ID]bool
	opens    []openRec
	failed   bool
}

func (c *caseRun) violation(key, what string, extra map[string]any) {
	c.mu.Lock()
	c.failed = true
	c.mu.Unlock()
	var ls []string
	for i, l := range c.links {
		ls = append(ls, fmt.Sprintf("%d:%s", i, l))
	}
	var ss []string
	for _, s := range c.cs.scripts {
		var sb strings.Builder
		for _, o := range s {
			sb.WriteString(o.String() + " ")
		}
		ss = append(ss, sb.String())
	}
	w := map[string]any{"case": c.cs.id, "links": ls, "scripts": ss, "startup_phase(watches before the controllers exist; per node: handler calls from goroutines started inside the transport constructor)": c.cs.earlyString(),
		"peer_table": map[string]string{"1": g6link.Short(c.peers[1]) + " (local, node 0)", "2": g6link.Short(c.peers[2]) + " (local, node 1)", "3": g6link.Short(c.peers[3]), "4": g6link.Short(c.peers[4]), "5": g6link.Short(c.peers[5])}}
	for k, v := range extra {
		w[k] = v
	}
	c.r.Violation(key, what, w)
}

func (c *caseRun) nodeOf(l *g6link.Link) int {
	if l.Local == c.peers[2] {
		return 1
	}
	return 0
}

// addWatch adds the EstablishLinkWithPeer directive of a watch op (nil if the bus refused it).
func (c *caseRun) addWatch(o op) *g6link.Watch {
	wa, err := c.w.NewWatch(c.peers[o.src], c.peers[o.dst])
	if err != nil {
		c.r.Count("directive_rejected", 1)
		if o.dst != 0 {
			c.r.Inconclusive("AddDirective failed: " + err.Error())
		}
		return nil
	}
	if o.dst == 0 {
		// an empty target is invalid; whatever happens, no value may ever be yielded (checked with the others)
		c.r.Count("directive_empty_target_accepted", 1)
	}
	c.mu.Lock()
	c.watches = append(c.watches, wa)
	c.mu.Unlock()
	c.r.Count("directives_added", 1)
	return wa
}

func (c *caseRun) runScript(gi int, s []op) {
	var mine []*g6link.Watch
	for oi, o := range s {
		switch o.kind {
		case opEst:
			l := c.links[o.li]
			c.w.Nodes[c.nodeOf(l)].Est(l)
		case opLost:
			l := c.links[o.li]
			c.w.Nodes[c.nodeOf(l)].Lost(l)
		case opWatch:
			wa := c.addWatch(o)
			if wa == nil {
				continue
			}
			mine = append(mine, wa)
		case opRelease:
			if len(mine) > 0 {
				k := o.wi % len(mine)
				mine[k].Release()
				mine = append(mine[:k], mine[k+1:]...)
				c.r.Count("directives_released", 1)
			}
		case opInject:
			l := c.links[o.li]
			pid := protocol.ID(fmt.Sprintf("verif/c04/%d/%d/%d", c.cs.id, gi, oi))
			s, _ := g6link.IncomingStream(pid)
			c.mu.Lock()
			c.injected[pid] = l
			c.mu.Unlock()
			if l.Inject(s) {
				c.r.Count("streams_injected", 1)
				c.mu.Lock()
				c.injOK[pid] = true
				c.mu.Unlock()
			}
		case opOpen:
			if len(mine) == 0 {
				continue
			}
			// prefer a directive of this goroutine that currently has a value
			var wa *g6link.Watch
			var vals []g6link.ValEvent
			for k := 0; k < len(mine) && len(vals) == 0; k++ {
				wa = mine[(o.wi+k)%len(mine)]
				vals = wa.CurrentValues()
			}
			if len(vals) == 0 {
				c.r.Count("open_without_value", 1)
				continue
			}
			v := vals[o.li%len(vals)]
			pid := protocol.ID(fmt.Sprintf("verif/c04/%d/%d/%d/out", c.cs.id, gi, oi))
			rec := openRec{wa: wa, val: v, pid: pid}
			ms, err := v.ML.OpenMountedStream(c.w.Ctx, pid, stream.OpenOpts{})
			rec.err = err
			if err == nil && ms != nil {
				rec.peer = ms.GetPeerID()
				if ml := ms.GetLink(); ml != nil {
					rec.lRem, rec.lLoc = ml.GetRemotePeer(), ml.GetLocalPeer()
					rec.link = g6link.LookupSerial(ml.GetRemoteTransportUUID())
				}
				if v.Link != nil {
					for _, far := range v.Link.Opened() {
						if strings.Contains(string(far.Buffered()), string(pid)) {
							rec.seen = true
						}
					}
				}
				_ = ms.GetStream().Close()
			}
			c.mu.Lock()
			c.opens = append(c.opens, rec)
			c.mu.Unlock()
		}
		if o.yield {
			runtime.Gosched()
		}
	}
}

func runCase(r *vf.Run, pool []*keys.Identity, cs *caseSpec) {
	g6link.RunCase(func() {
		c := &caseRun{r: r, cs: cs, injected: map[protocol.ID]*g6link.Link{}, injOK: map[protocol.ID]bool{}}
		c.peers = []peer.ID{"", pool[0].ID, pool[1].ID, pool[2].ID, pool[3].ID, pool[4].ID}
		var earlyWG sync.WaitGroup
		w, err := g6link.NewWorldOpts(context.Background(), pool[:2], &g6link.WorldOpts{
			PreStart: func(w *g6link.World) {
				c.w = w
				for i, ls := range cs.links {
					c.links = append(c.links, w.Nodes[ls.node].NewLink(fmt.Sprintf("k%d", i), uint64(ls.uuid), c.peers[ls.remote]))
				}
				// requests that exist before the transport controllers do
				for _, o := range cs.earlyWatches {
					if c.addWatch(o) != nil {
						r.Count("startup_directives_added_before_the_controllers", 1)
					}
				}
			},
			InCtor: func(n *g6link.Node) {
				// we are inside the constructor callback, in the controller's
				// Execute: the transport "is already listening" and reports
				// link events, each from a goroutine of its own
				ni := 0
				if n.Ident.ID == c.peers[2] {
					ni = 1
				}
				for _, e := range cs.early[ni] {
					if e.lost {
						n.LostAsync(c.links[e.li], e.yields, &earlyWG)
						r.Count("startup_lost_calls_from_inside_the_constructor", 1)
					} else {
						n.EstAsync(c.links[e.li], e.yields, &earlyWG)
						r.Count("startup_est_calls_from_inside_the_constructor", 1)
						if c.links[e.li].Remote == c.links[e.li].Local {
							r.Count("startup_est_calls_from_inside_the_constructor_self_link", 1)
						}
					}
				}
				for i := 0; i < cs.ctorYields[ni]; i++ {
					runtime.Gosched()
				}
			},
		})
		defer func() {
			for _, l := range c.links {
				l.Close()
				l.Forget()
			}
		}()
		if err != nil {
			earlyWG.Wait()
			r.Inconclusive("cannot build world: " + err.Error())
			return
		}
		defer w.Close()
		sc, err := w.AddStreamCatcher()
		if err != nil {
			r.Inconclusive("cannot add stream catcher: " + err.Error())
			return
		}
		c.sc = sc

		start := make(chan struct{})
		var wg sync.WaitGroup
		for gi, s := range cs.scripts {
			wg.Add(1)
			go func(gi int, s []op) {
				defer wg.Done()
				<-start
				c.runScript(gi, s)
			}(gi, s)
		}
		close(start)
		wg.Wait()
		// the start-up calls return once the controller has its transport (it has: NewWorldOpts waited for it)
		earlyWG.Wait()

		progress := func() int64 {
			p := sc.Count()
			for _, n := range w.Nodes {
				p += int64(n.Seq())
			}
			c.mu.Lock()
			for _, wa := range c.watches {
				p += wa.Callbacks()
			}
			c.mu.Unlock()
			return p
		}
		// judge compares everything observed with the harness's ground truth.
		// models == nil (the hook log is incomplete, so no reference table can
		// be replayed): only the clauses that need no table are judged.
		judge := func(models []*g6link.RefTable) (nvals, ndel, nopen int) {
			c.mu.Lock()
			watches := append([]*g6link.Watch(nil), c.watches...)
			c.mu.Unlock()
			// (a) every value ever yielded
			for _, wa := range watches {
				for _, e := range wa.Log() {
					if !e.Added {
						r.Count("values_removed", 1)
						continue
					}
					nvals++
					r.Count("values_added", 1)
					req := fmt.Sprintf("EstablishLinkWithPeer(%q -> %s)", g6link.Short(wa.Src), g6link.Short(wa.Dst))
					if wa.Src == "" {
						req = fmt.Sprintf("EstablishLinkWithPeer(any -> %s)", g6link.Short(wa.Dst))
						r.Count("values_for_empty_source", 1)
					}
					f := e.Link
					switch {
					case f == nil:
						c.violation("value/unknown-link", req+" yielded a value that is not a link delivered by the harness", nil)
					case f.Remote == f.Local || e.Remote == e.Local:
						c.violation("value/self-link-yielded", req+" yielded the self link "+f.String(), nil)
					case f.Remote != wa.Dst || e.Remote != wa.Dst:
						c.violation("value/wrong-remote-peer", fmt.Sprintf("%s yielded %s (value reports remote %s)", req, f, g6link.Short(e.Remote)), nil)
					case wa.Src != "" && (f.Local != wa.Src || e.Local != wa.Src):
						c.violation("value/wrong-local-peer", fmt.Sprintf("%s yielded %s (value reports local %s)", req, f, g6link.Short(e.Local)), nil)
					case e.Local != f.Local || e.UUID != f.UUID:
						c.violation("value/misreports-link", fmt.Sprintf("%s: value for %s reports local %s uuid %d", req, f, g6link.Short(e.Local), e.UUID), nil)
					case models == nil:
					default:
						ni := c.nodeOf(f)
						// (a link reported during start-up and applied while the controller was not
						// running is refused by this controller; C04 does not demand that, so a
						// controller that keeps such a link is not flagged here)
						if !models[ni].EverPresentUpTo(e.SeqAt[ni], f) && !models[ni].WasRefusedDown(f) {
							c.violation("value/never-established", fmt.Sprintf("%s yielded %s which the controller had not accepted as established when the value appeared (after %d events)", req, f, e.SeqAt[ni]), nil)
						}
					}
				}
			}
			// (d) incoming streams
			c.mu.Lock()
			inj := c.injected
			opens := c.opens
			c.mu.Unlock()
			for _, d := range sc.Delivered() {
				l := inj[d.Proto]
				ndel++
				r.Count("streams_delivered", 1)
				switch {
				case l == nil || d.DirProto != d.Proto:
					c.violation("stream/unknown-protocol", fmt.Sprintf("a stream with protocol %q (directive %q) was delivered that the harness never injected", d.Proto, d.DirProto), nil)
				case d.PeerID != l.Remote:
					c.violation("stream/wrong-peer", fmt.Sprintf("stream injected on %s reports peer %s", l, g6link.Short(d.PeerID)), nil)
				case d.DirRemote != l.Remote || d.DirLocal != l.Local:
					c.violation("stream/wrong-directive-peers", fmt.Sprintf("stream injected on %s was offered as HandleMountedStream(local %s, remote %s)", l, g6link.Short(d.DirLocal), g6link.Short(d.DirRemote)), nil)
				case d.Link != l || d.LinkRem != l.Remote || d.LinkLocal != l.Local:
					c.violation("stream/wrong-link", fmt.Sprintf("stream injected on %s reports link %v (%s -> %s)", l, d.Link, g6link.Short(d.LinkLocal), g6link.Short(d.LinkRem)), nil)
				case l.Remote == l.Local:
					c.violation("stream/from-self-link", fmt.Sprintf("a stream was delivered from the self link %s", l), nil)
				case models == nil:
				case !models[c.nodeOf(l)].EverPresentUpTo(1<<30, l) && !models[c.nodeOf(l)].WasRefusedDown(l):
					c.violation("stream/from-unestablished-link", fmt.Sprintf("a stream was delivered from %s which was never accepted as established", l), nil)
				}
			}
			// outgoing streams
			for _, o := range opens {
				if o.err != nil {
					r.Count("open_stream_errors", 1)
					continue
				}
				nopen++
				r.Count("streams_opened", 1)
				f := o.val.Link
				switch {
				case f == nil:
					// already reported as value/unknown-link
				case o.peer != f.Remote:
					c.violation("stream/wrong-peer", fmt.Sprintf("stream opened on %s reports peer %s", f, g6link.Short(o.peer)), nil)
				case o.link != f || o.lRem != f.Remote || o.lLoc != f.Local:
					c.violation("stream/wrong-link", fmt.Sprintf("stream opened on the value for %s reports link %v (%s -> %s)", f, o.link, g6link.Short(o.lLoc), g6link.Short(o.lRem)), nil)
				case !o.seen:
					c.violation("stream/opened-elsewhere", fmt.Sprintf("stream opened on the value for %s: the establish header for %q did not arrive on that link", f, o.pid), nil)
				case o.peer != o.wa.Dst:
					c.violation("stream/wrong-peer-for-request", fmt.Sprintf("stream opened through a value of %s reports peer %s", o.wa, g6link.Short(o.peer)), nil)
				}
			}
			return
		}
		res, _ := g6link.Settle(func() bool { return w.Nodes[0].AllApplied() && w.Nodes[1].AllApplied() }, progress)
		if res != g6link.Reached {
			// no reference table without a complete hook log; what was
			// yielded and delivered is still judged against the ground truth
			judge(nil)
			r.Inconclusive(fmt.Sprintf("case %d: handler calls never reached their hooks", cs.id))
			r.Case(cs.sig(), false)
			return
		}
		// reference tables, replayed in hook order per node
		models := []*g6link.RefTable{g6link.NewRefTable(c.peers[1]), g6link.NewRefTable(c.peers[2])}
		for ni, n := range w.Nodes {
			for _, ev := range n.Events(0) {
				if ev.Link == nil {
					judge(nil)
					r.Inconclusive("hook event for a foreign link")
					return
				}
				models[ni].ApplyEvent(ev)
				r.Count("hook_events_"+ev.Kind, 1)
				if ev.Down() {
					r.Count("hook_events_"+ev.Kind+"_applied_while_the_controller_was_not_running", 1)
				}
			}
		}
		expected := func(wa *g6link.Watch) []*g6link.Link {
			var out []*g6link.Link
			for ni := range w.Nodes {
				if wa.Src == "" || wa.Src == c.peers[1+ni] {
					out = append(out, models[ni].PeerLinks(wa.Dst)...)
				}
			}
			g6link.SortLinks(out)
			return out
		}
		selfClosed := func() *g6link.Link {
			for _, m := range models {
				for l, why := range m.MustClose {
					if strings.HasPrefix(why, "self") && l.Closes() < 1 {
						return l
					}
				}
			}
			return nil
		}
		deliverable := 0
		c.mu.Lock()
		for pid, l := range c.injected {
			if c.injOK[pid] && models[c.nodeOf(l)].Has(l) && l.Closes() == 0 {
				deliverable++
			}
		}
		watches := append([]*g6link.Watch(nil), c.watches...)
		c.mu.Unlock()
		setsOK := func() bool {
			for _, wa := range watches {
				if wa.Released() {
					continue
				}
				got, unk := wa.Current()
				if unk != 0 || !g6link.SameSet(got, expected(wa)) {
					return false
				}
			}
			return true
		}
		res, dump := g6link.Settle(func() bool {
			return selfClosed() == nil && setsOK() && int(sc.Count()) >= deliverable
		}, progress)
		switch res {
		case g6link.Undecided:
			judge(nil)
			r.Inconclusive(fmt.Sprintf("case %d: watchdog expired before the system settled", cs.id))
			r.Case(cs.sig(), false)
			return
		case g6link.Stuck:
			if l := selfClosed(); l != nil {
				c.violation("self-link-not-closed", fmt.Sprintf("settled (all controller goroutines parked) but the self link %s was never closed", l), map[string]any{"goroutines": g6link.TrimDump(dump)})
			} else if !setsOK() {
				// table/value consistency is property C06's business
				r.Count("settled_with_value_sets_differing_from_reference(C06)", 1)
			} else {
				r.Count("settled_with_streams_undelivered", 1)
			}
		default:
			r.Count("settled_points", 1)
		}

		nvals, ndel, nopen := judge(models)
		nself := 0
		for _, m := range models {
			for _, why := range m.MustClose {
				if strings.HasPrefix(why, "self") {
					nself++
				}
			}
		}
		r.Count("self_links_reported_established", nself)
		c.mu.Lock()
		failed := c.failed
		c.mu.Unlock()
		r.Case(cs.sig(), !failed && nvals >= 1 && ndel+nopen >= 1)
		for _, wa := range watches {
			if !wa.Released() {
				wa.Release()
			}
		}
		if !failed && nvals >= 2 && ndel >= 1 && nopen >= 1 {
			var ss []string
			for _, s := range cs.scripts {
				var sb strings.Builder
				for _, o := range s {
					sb.WriteString(o.String() + " ")
				}
				ss = append(ss, strings.TrimSpace(sb.String()))
			}
			r.Sample(map[string]any{"case": cs.id, "links(node,uuid,remote)": fmt.Sprint(cs.links), "scripts": ss, "values_yielded": nvals, "streams_delivered": ndel, "streams_opened": nopen})
		}
	})
}

func TestC04(t *testing.T) {
	r := vf.Start(t, "C04", vf.Exploration)
	defer r.Finish()
	r.SetRule("Each case: a fresh bus with two real transport controllers (local identities 1, 2), 5-10 fake links (node, uuid from 4 shared values, remote = one of 3 remote identities / the other local identity / the local identity itself), and a PRNG script of 20-44 operations split over 1-3 goroutines: Est(link), Lost(link), add EstablishLinkWithPeer(S, D) with S in {empty, local 1, local 2, a non-local identity} and D in {any of the 5 identities, rarely empty}, release a directive, inject an incoming stream (complete establish header) into a link, open a stream through a currently attached value. About half of the cases have a start-up phase in addition: 0-3 directives are added before the transport controllers exist, and the fake transport of a node reports 1-4 link events (Est / Lost of its links, self links preferred, one more self link added to the case half of the time) from inside the constructor callback the controller invokes while starting, each from a goroutine of its own after 0-3 yields (the calls may block until the controller is up), the constructor yielding 0-50 times before it returns; whether such a call is applied before or after the controller got its peer id is left to the scheduler and recorded from the hook snapshot (a link reported established while the controller is not running is refused: it must be closed and is never in the reference table). A case is non-trivial when at least one value was yielded and at least one stream was delivered or opened; distinct = distinct (links, scripts). Oracle (harness ground truth, values mapped back to the fake link by a serial carried in GetRemoteTransportUUID): every value ever yielded for (S, D) is a harness link with remote == D, local == S when S is given, remote != local, that the controller had accepted as established before the value appeared; a self link reported as established has Close called (judged in a settled state) and never yields values or streams; every delivered / opened stream reports its link's remote peer, the HandleMountedStream directive carries the link's local and remote peers, and an opened stream's header arrives on the very link the value stands for. When a handler call never reaches its hook (no reference table can be replayed) the case is inconclusive, but the clauses that need no table (remote / local / self / stream peers) are still judged. RESTART CASES (restart_test.go, quick 240 / thorough 3000, same oracle plus one clause): one or two real transport controllers that are EXECUTED AGAIN on the same Controller instance whenever Execute returned, by a harness loop calling bus.ExecuteController like the controllerbus loader does, or (1 in 4 nodes) by the real loader with a zero backoff; node 0 is configured with an empty peer id in 7 of 10 cases (it takes the peer found on the bus; the harness runs one of two candidate peer controllers and swaps them before 2 of 3 restarts of that node), node 1 (half of the cases) has a fixed peer id. The harness learns the identity of each execution from the private key handed to the transport constructor; fake links belong to one execution (local peer = its identity; slots: 4 links to 3 remote identities with uuids from 3 shared values, a self link, a link to a local identity) and are only reported through that execution's handler. Script: a sequential prologue (1-3 links up per node, 0-2 requests), 10-25 operations over 1-2 goroutines (link established / lost in the current execution, add EstablishLinkWithPeer(S, D) with S in {empty, the identity node 0 / node 1 has at that moment, any of the 3 local identities, a remote identity}, release, RESTART of a node: the fake transport's Execute returns an error (2/3) or the execution context is cancelled (1/3), optionally 1-2 following executions fail in the constructor; link reports race with the exit and are applied before the next constructor returns), at least one restart per case, and a sequential epilogue (0-2 links up per node, requests from the empty source and from the current identities to the remote identities). Half of the cases with a floating node 0 are in addition of the class REQUEST FOR THE FORMER IDENTITY PENDING ACROSS AN IDENTITY CHANGE: the prologue begins with a request (identity node 0 has at that moment -> a remote peer d of one of its link slots; 1 in 2 after a link to another remote peer came up) whose AddDirective call a harness handler on the bus (added after the controller's, hence asked after it; the bus asks the handlers with its mutex released) holds between the handlers having been asked and their resolvers being attached, while node 0's execution ends (error or cancel, 1 in 6 followed by a failing constructor) and the next one with the SAME identity comes up (conditions, no durations); the call is then let go, so the resolver the ended execution's handler returned is attached after that handler was removed and stays for good; the generated history runs in between; the epilogue begins with two restarts of node 0, the local peer on the bus replaced before each, a link to d (1 in 3 another one too) reported in each of the two executions, at least one of which has another identity than the request names. A restart case is non-trivial when at least one restart completed and at least one value was yielded to a request added after an execution had ended. Extra clause: a request added after bus.ExecuteController of execution k of a node had returned (the controller's exit handler has dropped and closed every link of that execution and the bus has removed the controller's resolvers and their values) must never be given a link of an execution <= k of that node, and within the value history of one directive (callbacks are delivered in the order the values were added) a link of an execution <= k never appears after a link of an execution > k. GATED CASES (gate_test.go, quick 300 / thorough 4000, same value oracle): CONCURRENT lookups for different target peers on ONE transport controller with value handlers that block: 2-3 target peers with 2-4 links each (distinct uuids; 1 case in 4 has one more link sharing a uuid with a link of another peer), a prologue (2 of 3 links up, a request from the empty or the local source for 3 of 4 peers), then 2-5 rounds. In a round the harness arms a gate on one request (an existing one, or 1 in 3 a NEW request added from a goroutine of its own, whose first answer is the whole list of its peer's links; 1 in 4 gates hold a callback of any kind, else the next value-added callback), performs 1-3 link events (3 of 4 on the held request's peer) and waits (condition) until the callback is parked at the gate or the request has nothing left to be told; the resolver answering the request is then parked inside its emit call, no controller lock held, possibly with more links of its answer still to emit. While it is parked, 1-4 operations make the OTHER lookups of the controller run (a link event wakes every resolver of the controller; new requests for other peers from the empty / local / a non-local source; a release), each link event awaited at its hook, and the harness waits until every other live request holds exactly what the reference table holds for it (or all controller goroutines are observed parked); only then, after arming the next round's gate (often on the same request, so that the remainder of its answer is held again, link by link), the parked callback is let go. No duration decides anything. A gated case is non-trivial when a callback was held in at least one round, at least one lookup-triggering operation ran during a hold and at least two values were yielded.")
	r.Assume("a fake link's local peer is the peer of the transport that reports it")
	r.Assume("completeness (an established link IS yielded) and removal of values of lost links are not part of C04; they are checked by C06")
	pool := keys.Pool(r.Rand("c04-keys"), 5)
	rng := r.Rand("c04-cases")
	n := r.N(800, 10000)
	cases := make([]*caseSpec, n)
	for i := range cases {
		cases[i] = genCase(rng, i)
	}
	workers := runtime.GOMAXPROCS(0) / 2
	if workers < 2 {
		workers = 2
	}
	if workers > 8 {
		workers = 8
	}
	// controller restarts (restart_test.go)
	rpool := keys.Pool(r.Rand("c04-restart-keys"), 7)
	rrng := r.Rand("c04-restart-cases")
	rn := r.N(240, 3000)
	rcases := make([]*rcaseSpec, rn)
	for i := range rcases {
		rcases[i] = genRCase(rrng, i)
	}
	// 1 in 2 of the cases with a floating node 0: a request for the identity of
	// that moment is pending across later identity changes (addPendingPlan)
	prng := r.Rand("c04-restart-pending")
	for _, cs := range rcases {
		if prng.IntN(2) == 0 {
			addPendingPlan(prng, cs)
		}
	}
	// concurrent lookups with blocked value handlers (gate_test.go)
	grng := r.Rand("c04-gated-cases")
	gn := r.N(300, 4000)
	gcases := make([]*gcaseSpec, gn)
	for i := range gcases {
		gcases[i] = genGCase(grng, i)
	}
	if os.Getenv("VERIF_C04_ONLY") == "gated" { // debugging aid only
		cases, rcases = nil, nil
	}
	ch := make(chan func(), 16)
	var wg sync.WaitGroup
	for i := 0; i < workers; i++ {
		wg.Add(1)
		go func() {
			defer wg.Done()
			for job := range ch {
				if r.Violations() > 40 {
					continue
				}
				job()
			}
		}()
	}
	for i, cs := range cases {
		if i%50 == 0 {
			r.Begin(fmt.Sprintf("cases %d.. of %d", i, n))
		}
		cs := cs
		ch <- func() { runCase(r, pool, cs) }
	}
	for i, cs := range rcases {
		if i%50 == 0 {
			r.Begin(fmt.Sprintf("restart cases %d.. of %d", i, rn))
		}
		cs := cs
		ch <- func() { runRestartCase(r, rpool, cs) }
	}
	for i, cs := range gcases {
		if i%50 == 0 {
			r.Begin(fmt.Sprintf("gated cases %d.. of %d", i, gn))
		}
		cs := cs
		ch <- func() { runGatedCase(r, pool, cs) }
	}
	close(ch)
	wg.Wait()
}
