package sigsrv

import (
	"math/rand/v2"
	"strings"
)

// Third family of C20 programs. Two classes of submissions that only mean
// something because the harness streams are wire-faithful (requests are
// marshalled at Submit and decoded by the server side with UnmarshalVT into
// whatever object the server hands to Recv/RecvTo):
//
// (a) FIELD-PRESENCE sequences "wire:<first>><second>[/burst]": two consecutive
// requests on one stream that differ in which fields are present on the wire
// (proto3 omits zero values): the second request lacks the session_seqno, or
// parts of the SendMsg body (signature, data, sender, hash type, message seqno,
// everything), or the body altogether, directly after a complete, current
// first request (send / two sends / ack / clear). "/burst": the second request
// is submitted without waiting for quiescence after the first, so the first
// may still be pending in the server (the epoch cannot change in between: no
// call starts or ends).
//
// (b) ATTRIBUTION matrix "attr:<from>/<signer>/<pub>[/old]": claimed sender
// from_peer_id in {self = the submitting stream's identity, other = another
// client, x = an identity that is no client}, real signer in {self, other, x},
// pub_key field in {none, self, signer, other, x2, garbage}. "/old": the signed
// payload is that of a message the server accepted before on this call. The
// message is authentic iff from == self and signer == self, by construction.

var c20wireFirst = []string{"send", "send", "send2", "ack", "clear"}

var c20wireSecond = []string{
	"send-sess0", "send-sess0", "send-stale", "send-msgseq0",
	"send-nosig", "send-nodata", "send-nofrom", "send-nohash", "send-nosigdata",
	"send-empty", "send-seqonly", "send-emptysigned", "send-nil",
	"ack-sess0", "clear-sess0", "ack0-sess0", "empty-packet", "seqno-only",
}

var c20attrFrom = []string{"self", "self", "self", "other", "x"}
var c20attrSigner = []string{"self", "other", "x", "x"}
var c20attrPub = []string{"none", "self", "signer", "signer", "other", "x2", "garbage"}

func c20wireKind(rng *rand.Rand) string {
	k := "wire:" + c20wireFirst[rng.IntN(len(c20wireFirst))] + ">" + c20wireSecond[rng.IntN(len(c20wireSecond))]
	if rng.IntN(3) == 0 {
		k += "/burst"
	}
	return k
}

func c20attrKind(rng *rand.Rand) string {
	k := "attr:" + c20attrFrom[rng.IntN(len(c20attrFrom))] + "/" + c20attrSigner[rng.IntN(len(c20attrSigner))] + "/" + c20attrPub[rng.IntN(len(c20attrPub))]
	if rng.IntN(4) == 0 {
		k += "/old"
	}
	return k
}

// c20attrHonest: authentic by construction?
func c20attrHonest(kind string) bool {
	p := strings.Split(strings.TrimPrefix(kind, "attr:"), "/")
	return p[0] == "self" && p[1] == "self"
}

// genC20WireProg: 8-18 steps; at least one field-presence motif and one
// attribution step per program, surrounded by honest traffic on the same pair
// (so that something is forwarded and acked) and by the older hostile kinds.
func genC20WireProg(rng *rand.Rand) []c20op {
	l := 8 + rng.IntN(11)
	var prog []c20op
	need := []string{"wire", "attr"}
	for len(prog) < l || len(need) > 0 {
		o := c20randOp(rng)
		x := rng.IntN(100)
		if len(need) > 0 && (len(prog) >= 2 || rng.IntN(2) == 0) {
			if need[0] == "wire" {
				x = 0
			} else {
				x = 30
			}
			need = need[1:]
		}
		switch {
		case x < 30:
			o.kind = c20wireKind(rng)
			// a complete exchange first, so that acks / clears in the motif name real messages
			if rng.IntN(2) == 0 {
				pre := o
				pre.kind = "send"
				pre.x, pre.y = o.y, o.x
				prog = append(prog, pre)
			}
		case x < 60:
			o.kind = c20attrKind(rng)
			if rng.IntN(3) == 0 {
				// authentic traffic right before: the forgery follows an accepted message
				pre := o
				pre.kind = "send"
				prog = append(prog, pre)
				if rng.IntN(2) == 0 {
					rev := o
					rev.kind = "ack"
					rev.x, rev.y = o.y, o.x
					prog = append(prog, rev)
				}
			}
		case x < 85:
			o.kind = c20honestKinds[rng.IntN(len(c20honestKinds))]
		case x < 93:
			o.kind = c20badKinds[rng.IntN(len(c20badKinds))]
		default:
			o.kind = c20histKinds[rng.IntN(len(c20histKinds))]
		}
		prog = append(prog, o)
	}
	return prog
}
