package sigsrv

import (
	"fmt"
	"math/rand/v2"
	"strings"
	"testing"

	"verifharness/g7sig"
	"verifharness/keys"
	"verifharness/vf"
)

// C25 programs over 3 peers. Ops:
//
//	L<i>*<n>     start n Listen calls as peer i back to back (n = 1..3)
//	S<i><j>*<n>  start n Session calls i->j back to back
//	KL<i> / KS<i><j>   cancel the newest such call
//	OL<i> / OS<i><j>   cancel the oldest such call that is still running
//	H<i> / U<i>  hold / release the gate of peer i
//	TL<i> / TS<i><j>   stall the stream of the newest such call: its next Send
//	             blocks until R, even if the call is cancelled or replaced meanwhile
//	R            release every stalled stream
//	E            cancel every call, quiesce, check that no state is left
//	|            quiesce and evaluate the oracle
type c25case struct {
	ops []string
	seq bool
}

func (c c25case) String() string {
	m := "burst"
	if c.seq {
		m = "seq"
	}
	return m + ": " + strings.Join(c.ops, " ")
}

func TestC25(t *testing.T) {
	r := vf.Start(t, "C25", vf.Exploration)
	defer r.Finish()
	r.SetRule("case = PRNG program over 3 peers of listen/session starts (1-3 concurrent duplicates per key), cancellations of the newest / oldest running call of a key, gate hold/release, cancel-everything, executed one op at a time or in bursts with quiescence points; plus programs around calls that END LATE: a Listen / Session call is parked in a Send (SetPeer / ClearPeer / Opened / Closed frame) on a stalled stream that not even a cancellation wakes, is replaced and / or cancelled while parked, every other call keeping the relay state of that peer / pair alive ends (trackers released), the same keys register again on fresh state with 0-2 further replacements (in half of the programs exactly as many as the parked call had seen), and only then the stalled write completes; every step there is followed by a quiescent point. Oracle at every quiescent point with all gates open: per key (listen:X / session:X->Y) at most one call is running; a call the harness did not cancel has ended only with ErrUserpedListen / ErrUserpedSession, and only if another call of its key was started in the same or a later quiescence interval (every call started before a quiescent point has registered by then, so an older call cannot be the replacer: the newest call of a key never ends as replaced); if no call of the key was cancelled exactly one is running; a call seen running does not survive a call started after that quiescent point; when no call is running VerifStateSizes() == (0,0). Non-trivial = at least one call was started (every such case ends with all calls cancelled and a leftover check); distinct = program")
	rng := r.Rand("c25")
	pool := keys.Pool(rng, 3)
	n := r.N(400, 15000)
	var cases []c25case
	fixed := [][]string{
		{"L0*1", "|", "L0*1", "|", "E"},
		{"L0*1", "|", "S10*1", "|", "KS10", "|", "L0*1", "|", "E"},
		{"S01*1", "S10*1", "|", "S01*1", "|", "E"},
		{"L0*3", "|", "S10*3", "S01*2", "|", "E"},
		{"S01*1", "|", "KS01", "|"},
		{"L0*1", "S10*1", "|", "KL0", "|", "KS10", "|"},
	}
	for _, f := range fixed {
		cases = append(cases, c25case{ops: f, seq: false})
	}
	pair := func() (int, int) {
		i, j := rng.IntN(3), rng.IntN(3)
		if i == j {
			j = (j + 1) % 3
		}
		if rng.IntN(2) == 0 { // concentrate on few keys so that duplicates happen
			i, j = rng.IntN(2), 0
			if i == 0 {
				j = 1
			}
		}
		return i, j
	}
	for len(cases) < n {
		l := 4 + rng.IntN(14)
		seq := rng.IntN(3) == 0
		var ops []string
		held := map[int]bool{}
		for len(ops) < l {
			k := rng.IntN(100)
			switch {
			case k < 18:
				ops = append(ops, fmt.Sprintf("L%d*%d", rng.IntN(2), 1+rng.IntN(3)))
			case k < 45:
				i, j := pair()
				ops = append(ops, fmt.Sprintf("S%d%d*%d", i, j, 1+rng.IntN(3)))
			case k < 52:
				ops = append(ops, fmt.Sprintf("KL%d", rng.IntN(2)))
			case k < 56:
				ops = append(ops, fmt.Sprintf("OL%d", rng.IntN(2)))
			case k < 68:
				i, j := pair()
				ops = append(ops, fmt.Sprintf("KS%d%d", i, j))
			case k < 74:
				i, j := pair()
				ops = append(ops, fmt.Sprintf("OS%d%d", i, j))
			case k < 79:
				i := rng.IntN(3)
				if held[i] {
					ops = append(ops, fmt.Sprintf("U%d", i))
				} else {
					ops = append(ops, fmt.Sprintf("H%d", i))
				}
				held[i] = !held[i]
			case k < 83:
				ops = append(ops, "E")
				held = map[int]bool{}
			default:
				if !seq && len(ops) > 0 && ops[len(ops)-1] != "|" {
					ops = append(ops, "|")
				}
			}
		}
		cases = append(cases, c25case{ops: ops, seq: seq})
	}
	// calls that END LATE (see genC25Late)
	lrng := r.Rand("c25-late")
	for k := r.N(140, 4000); k > 0; k-- {
		cases = append(cases, c25case{ops: genC25Late(lrng), seq: false})
	}
	runParallel(len(cases), 16, func(i int) {
		if i%16 == 0 {
			r.Begin(fmt.Sprintf("batch around case %d: %s", i, cases[i]))
		}
		runC25(r, pool, i, cases[i])
	})
	quiesceEvidence(r)
}

func runC25(r *vf.Run, pool []*keys.Identity, idx int, c c25case) {
	w := newWorld(r, fmt.Sprintf("c25#%d[%s]", idx, c), pool)
	defer w.end()
	byKey := map[string][]*g7sig.Call{}
	check := func() bool {
		if !w.quiesce() {
			return false
		}
		// evidence only: calls parked in a Send on a stalled stream, and whether the
		// relay state their registration lived in has been released / re-created
		for _, cl := range w.h.Calls() {
			if !cl.AtStall() {
				continue
			}
			r.Count("c25_calls_parked_at_stalled_stream", 1)
			if cl.Killed() {
				r.Count("c25_parked_call_cancelled", 1)
			}
			others := 0
			for _, o := range byKey[callKeyShort(w, cl)] {
				if ret, _ := o.Returned(); o != cl && !ret {
					others++
				}
			}
			if cl.Listen {
				if ex, _, _ := w.h.Srv.VerifPeerState(cl.Src); !ex {
					r.Count("c25_parked_listen_while_peer_state_released", 1)
				} else if others > 0 {
					r.Count("c25_parked_listen_beside_running_listen", 1)
				}
			} else {
				if _, a, b := w.h.Srv.VerifSessionEpoch(cl.Src, cl.Dst); !a && !b {
					r.Count("c25_parked_session_while_session_state_released", 1)
				} else if others > 0 {
					r.Count("c25_parked_session_beside_running_session", 1)
				}
			}
		}
		w.checkUnique()
		w.checkNoLeftover()
		return true
	}
	pick := func(key string, oldest bool) *g7sig.Call {
		cs := byKey[key]
		if len(cs) == 0 {
			return nil
		}
		if !oldest {
			return cs[len(cs)-1]
		}
		for _, cl := range cs {
			if ret, _ := cl.Returned(); !ret && !cl.Killed() {
				return cl
			}
		}
		return nil
	}
	for _, op := range c.ops {
		switch {
		case op == "|":
			if !check() {
				r.Case(c.String(), false)
				return
			}
			continue
		case op == "E":
			w.h.ReleaseAll()
			for _, cl := range w.h.Calls() {
				if ret, _ := cl.Returned(); !ret {
					w.kill(cl)
				}
			}
			r.Count("op_cancel_all", 1)
			if !check() {
				r.Case(c.String(), false)
				return
			}
			continue
		case op[0] == 'L':
			i := int(op[1] - '0')
			n := int(op[3] - '0')
			for k := 0; k < n; k++ {
				byKey[op[:2]] = append(byKey[op[:2]], w.listen(i))
			}
			r.Count("op_listen_start", n)
			if n > 1 {
				r.Count("op_concurrent_duplicates", 1)
			}
		case op[0] == 'S':
			i, j := int(op[1]-'0'), int(op[2]-'0')
			n := int(op[4] - '0')
			for k := 0; k < n; k++ {
				byKey[op[:3]] = append(byKey[op[:3]], w.session(i, j))
			}
			r.Count("op_session_start", n)
			if n > 1 {
				r.Count("op_concurrent_duplicates", 1)
			}
		case op[0] == 'K' || op[0] == 'O':
			if cl := pick(op[1:], op[0] == 'O'); cl != nil {
				w.kill(cl)
				r.Count("op_cancel", 1)
			}
		case op[0] == 'T':
			if cl := pick(op[1:], false); cl != nil {
				if ret, _ := cl.Returned(); !ret {
					cl.Stall()
					w.logf("stall the stream of %s", w.cstr(cl))
					r.Count("op_stall_stream", 1)
				}
			}
		case op[0] == 'R':
			for _, cl := range w.h.Calls() {
				if cl.Stalled() {
					w.logf("stalled stream of %s resumes", w.cstr(cl))
					cl.Unstall()
					r.Count("op_unstall_stream", 1)
				}
			}
		case op[0] == 'H':
			w.h.Gate(pool[int(op[1]-'0')].String()).Hold()
			w.logf("hold gate of P%c", op[1])
			r.Count("op_gate_hold", 1)
		case op[0] == 'U':
			w.h.Gate(pool[int(op[1]-'0')].String()).Release()
			w.logf("release gate of P%c", op[1])
		}
		if c.seq {
			if !check() {
				r.Case(c.String(), false)
				return
			}
		}
	}
	w.h.ReleaseAll()
	w.logf("release gates")
	if !check() {
		r.Case(c.String(), false)
		return
	}
	// everything ends: no state may be left
	for _, cl := range w.h.Calls() {
		if ret, _ := cl.Returned(); !ret {
			w.kill(cl)
		}
	}
	if !check() {
		r.Case(c.String(), false)
		return
	}
	replaced := 0
	for _, cl := range w.h.Calls() {
		if _, err := cl.Returned(); err != nil && (err.Error() == "signaling: session can only be called once per peer" || err.Error() == "signaling: listen can only be called once per peer") {
			replaced++
		}
	}
	r.Count("calls_total", len(w.h.Calls()))
	r.Count("calls_ended_replaced", replaced)
	r.Case(c.String(), len(w.h.Calls()) > 0)
	if idx < 3 {
		r.Sample(map[string]any{"program": c.String(), "history": w.dump()})
	}
}

// callKeyShort maps a call to the program's key notation (L<i> / S<i><j>).
func callKeyShort(w *world, c *g7sig.Call) string {
	idx := func(pid string) int {
		for i, id := range w.ids {
			if id.String() == pid {
				return i
			}
		}
		return 9
	}
	if c.Listen {
		return fmt.Sprintf("L%d", idx(c.Src))
	}
	return fmt.Sprintf("S%d%d", idx(c.Src), idx(c.Dst))
}

// genC25Late generates programs around calls that END LATE: a Listen / Session
// call is parked in a Send on a stalled stream (the frame is a SetPeer /
// ClearPeer / Opened / Closed caused by another peer), is then replaced and / or
// cancelled while parked, every other call that keeps the relay state of that
// peer / pair alive ends (the trackers are released), the same keys are
// registered again on fresh state (with 0-2 further replacements, so that
// counters of the fresh state pass through the values the parked call saw), and
// only then the stalled write completes. Each step is followed by a quiescent
// point, so the order of registrations is known to the oracle.
func genC25Late(rng *rand.Rand) []string {
	var ops []string
	add := func(s ...string) { ops = append(ops, s...) }
	b := rng.IntN(2)
	c := 1 - b
	if rng.IntN(3) == 0 {
		c = 2
	}
	k0 := rng.IntN(3) // replacements the parked call has seen before it registered
	j := k0           // replacements on the fresh state before the parked call ends
	if rng.IntN(2) == 0 {
		j = rng.IntN(3)
	}
	if rng.IntN(5) < 3 {
		// a Listen call ends late
		L, S := fmt.Sprintf("L%d", b), fmt.Sprintf("S%d%d", c, b)
		pre := rng.IntN(3) == 0 // a wanting session exists before: the stalled frame is its ClearPeer
		if pre && rng.IntN(2) == 0 {
			add(S+"*1", "|")
			pre = false
			add("K"+S, "|")
		}
		for i := 0; i <= k0; i++ {
			add(L+"*1", "|")
		}
		if pre {
			add(S+"*1", "|")
		}
		add("T" + L)
		if pre {
			add("K" + S)
		} else {
			add(S + "*1")
		}
		add("|")
		switch rng.IntN(5) {
		case 0, 1, 2:
			add(L+"*1", "|") // replaced while parked
		case 3:
			add(L+"*1", "|", "O"+L, "|") // replaced, then its client goes away too
		case 4:
			add("O"+L, "|") // only cancelled: it keeps its registration until the write completes
		}
		// everything else that keeps the state of peer b alive ends
		add("K"+L, "K"+S, "|")
		// the same keys register again on fresh state
		for i := 0; i <= j; i++ {
			add(L+"*1", "|")
		}
		if rng.IntN(2) == 0 {
			add(S+"*1", "|")
		}
	} else {
		// a Session call ends late
		A, B := fmt.Sprintf("S%d%d", b, c), fmt.Sprintf("S%d%d", c, b)
		if rng.IntN(3) == 0 {
			add(fmt.Sprintf("L%d*1", c), "|") // the destination also listens
		}
		pre := rng.IntN(3) == 0 // the partner is attached before: the stalled frame is Closed
		if pre {
			add(B+"*1", "|")
		}
		for i := 0; i <= k0; i++ {
			add(A+"*1", "|")
		}
		add("T" + A)
		if pre {
			add("K" + B)
		} else {
			add(B + "*1")
		}
		add("|")
		switch rng.IntN(5) {
		case 0, 1, 2:
			add(A+"*1", "|")
		case 3:
			add(A+"*1", "|", "O"+A, "|")
		case 4:
			add("O"+A, "|")
		}
		add("K"+A, "K"+B, "|")
		for i := 0; i <= j; i++ {
			if rng.IntN(2) == 0 {
				add(A+"*1", "|")
			} else {
				add(A+"*1", B+"*1", "|")
			}
		}
		if rng.IntN(2) == 0 {
			add(B+"*1", "|")
		}
	}
	add("R", "|")
	switch rng.IntN(3) {
	case 0:
		add("E")
	case 1:
		add(fmt.Sprintf("L%d*1", b), "|")
	}
	return ops
}
