package sigsrv

import (
	"fmt"
	"math/rand/v2"
	"strings"
	"testing"

	"verifharness/g7sig"
	"verifharness/keys"
	"verifharness/vf"
)

// C25 programs over 3 peers. Ops:
//
//	L<i>*<n>     start n Listen calls as peer i back to back (n = 1..3)
//	S<i><j>*<n>  start n Session calls i->j back to back
//	KL<i> / KS<i><j>   cancel the newest such call
//	OL<i> / OS<i><j>   cancel the oldest such call that is still running
//	H<i> / U<i>  hold / release the gate of peer i
//	TL<i> / TS<i><j>   stall the stream of the newest such call: its next Send
//	             blocks until R, even if the call is cancelled or replaced meanwhile
//	R            release every stalled stream
//	E            cancel every call, quiesce, check that no state is left
//	|            quiesce and evaluate the oracle
type c25case struct {
	ops []string
	seq bool
}

func (c c25case) String() string {
	m := "burst"
	if c.seq {
		m = "seq"
	}
	return m + ": " + strings.Join(c.ops, " ")
}

func TestC25(t *testing.T) {
	r := vf.Start(t, "C25", vf.Exploration)
	defer r.Finish()
	r.SetRule("case = PRNG program over 3 peers of listen/session starts (1-3 concurrent duplicates per key), cancellations of the newest / oldest running call of a key, gate hold/release, cancel-everything, executed one op at a time or in bursts with quiescence points; plus programs around calls that END LATE: a Listen / Session call is parked in a Send (SetPeer / ClearPeer / Opened / Closed frame) on a stalled stream that not even a cancellation wakes, is replaced and / or cancelled while parked, every other call keeping the relay state of that peer / pair alive ends (trackers released), the same keys register again on fresh state with 0-2 further replacements (in half of the programs exactly as many as the parked call had seen), and only then the stalled write completes; every step there is followed by a quiescent point. Oracle at every quiescent point with all gates open: per key (listen:X / session:X->Y) at most one call is running; a call the harness did not cancel has ended only with ErrUserpedListen / ErrUserpedSession, and only if another call of its key was started in the same or a later quiescence interval (every call started before a quiescent point has registered by then, so an older call cannot be the replacer: the newest call of a key never ends as replaced); if no call of the key was cancelled exactly one is running; a call seen running does not survive a call started after that quiescent point; when no call is running VerifStateSizes() == (0,0). Further families: replacement of a Session call (either end, 1-2 newer calls) while a message is pending at the relay / relayed but not acknowledged / acknowledged with the ack on its way (ops M = honest message, A = ack of the last delivery); duplicate calls on streams that cancel themselves at a chosen point of the call's start-up (op X). Non-trivial = at least one call was started (every such case ends with all calls cancelled and a leftover check); distinct = program")
	rng := r.Rand("c25")
	pool := keys.Pool(rng, 3)
	n := r.N(400, 15000)
	var cases []c25case
	fixed := [][]string{
		{"L0*1", "|", "L0*1", "|", "E"},
		{"L0*1", "|", "S10*1", "|", "KS10", "|", "L0*1", "|", "E"},
		{"S01*1", "S10*1", "|", "S01*1", "|", "E"},
		{"L0*3", "|", "S10*3", "S01*2", "|", "E"},
		{"S01*1", "|", "KS01", "|"},
		{"L0*1", "S10*1", "|", "KL0", "|", "KS10", "|"},
	}
	for _, f := range fixed {
		cases = append(cases, c25case{ops: f, seq: false})
	}
	pair := func() (int, int) {
		i, j := rng.IntN(3), rng.IntN(3)
		if i == j {
			j = (j + 1) % 3
		}
		if rng.IntN(2) == 0 { // concentrate on few keys so that duplicates happen
			i, j = rng.IntN(2), 0
			if i == 0 {
				j = 1
			}
		}
		return i, j
	}
	for len(cases) < n {
		l := 4 + rng.IntN(14)
		seq := rng.IntN(3) == 0
		var ops []string
		held := map[int]bool{}
		for len(ops) < l {
			k := rng.IntN(100)
			switch {
			case k < 18:
				ops = append(ops, fmt.Sprintf("L%d*%d", rng.IntN(2), 1+rng.IntN(3)))
			case k < 45:
				i, j := pair()
				ops = append(ops, fmt.Sprintf("S%d%d*%d", i, j, 1+rng.IntN(3)))
			case k < 52:
				ops = append(ops, fmt.Sprintf("KL%d", rng.IntN(2)))
			case k < 56:
				ops = append(ops, fmt.Sprintf("OL%d", rng.IntN(2)))
			case k < 68:
				i, j := pair()
				ops = append(ops, fmt.Sprintf("KS%d%d", i, j))
			case k < 74:
				i, j := pair()
				ops = append(ops, fmt.Sprintf("OS%d%d", i, j))
			case k < 79:
				i := rng.IntN(3)
				if held[i] {
					ops = append(ops, fmt.Sprintf("U%d", i))
				} else {
					ops = append(ops, fmt.Sprintf("H%d", i))
				}
				held[i] = !held[i]
			case k < 83:
				ops = append(ops, "E")
				held = map[int]bool{}
			default:
				if !seq && len(ops) > 0 && ops[len(ops)-1] != "|" {
					ops = append(ops, "|")
				}
			}
		}
		cases = append(cases, c25case{ops: ops, seq: seq})
	}
	// calls that END LATE (see genC25Late)
	lrng := r.Rand("c25-late")
	for k := r.N(140, 4000); k > 0; k-- {
		cases = append(cases, c25case{ops: genC25Late(lrng), seq: false})
	}
	// replacement while a message is in flight; streams dying during start-up
	mrng := r.Rand("c25-msg")
	for k := r.N(160, 4000); k > 0; k-- {
		cases = append(cases, c25case{ops: genC25Msg(mrng), seq: false})
	}
	for k := r.N(80, 2000); k > 0; k-- {
		cases = append(cases, c25case{ops: genC25Dying(mrng), seq: mrng.IntN(3) == 0})
	}
	runParallel(len(cases), 16, func(i int) {
		if i%16 == 0 {
			r.Begin(fmt.Sprintf("batch around case %d: %s", i, cases[i]))
		}
		runC25(r, pool, i, cases[i])
	})
	quiesceEvidence(r)
}

func runC25(r *vf.Run, pool []*keys.Identity, idx int, c c25case) {
	w := newWorld(r, fmt.Sprintf("c25#%d[%s]", idx, c), pool)
	defer w.end()
	byKey := map[string][]*g7sig.Call{}
	nMsg := 0
	check := func() bool {
		if !w.quiesce() {
			return false
		}
		// evidence only: calls parked in a Send on a stalled stream, and whether the
		// relay state their registration lived in has been released / re-created
		for _, cl := range w.h.Calls() {
			if !cl.AtStall() {
				continue
			}
			r.Count("c25_calls_parked_at_stalled_stream", 1)
			if cl.Killed() {
				r.Count("c25_parked_call_cancelled", 1)
			}
			others := 0
			for _, o := range byKey[callKeyShort(w, cl)] {
				if ret, _ := o.Returned(); o != cl && !ret {
					others++
				}
			}
			if cl.Listen {
				if ex, _, _ := w.h.Srv.VerifPeerState(cl.Src); !ex {
					r.Count("c25_parked_listen_while_peer_state_released", 1)
				} else if others > 0 {
					r.Count("c25_parked_listen_beside_running_listen", 1)
				}
			} else {
				if _, a, b := w.h.Srv.VerifSessionEpoch(cl.Src, cl.Dst); !a && !b {
					r.Count("c25_parked_session_while_session_state_released", 1)
				} else if others > 0 {
					r.Count("c25_parked_session_beside_running_session", 1)
				}
			}
		}
		w.checkUnique()
		w.checkNoLeftover()
		return true
	}
	pick := func(key string, oldest bool) *g7sig.Call {
		cs := byKey[key]
		if len(cs) == 0 {
			return nil
		}
		if !oldest {
			return cs[len(cs)-1]
		}
		for _, cl := range cs {
			if ret, _ := cl.Returned(); !ret && !cl.Killed() {
				return cl
			}
		}
		return nil
	}
	for _, op := range c.ops {
		switch {
		case op == "|":
			if !check() {
				r.Case(c.String(), false)
				return
			}
			continue
		case op == "E":
			w.h.ReleaseAll()
			for _, cl := range w.h.Calls() {
				if ret, _ := cl.Returned(); !ret {
					w.kill(cl)
				}
			}
			r.Count("op_cancel_all", 1)
			if !check() {
				r.Case(c.String(), false)
				return
			}
			continue
		case op[0] == 'L':
			i := int(op[1] - '0')
			n := int(op[3] - '0')
			for k := 0; k < n; k++ {
				byKey[op[:2]] = append(byKey[op[:2]], w.listen(i))
			}
			r.Count("op_listen_start", n)
			if n > 1 {
				r.Count("op_concurrent_duplicates", 1)
			}
		case op[0] == 'S':
			i, j := int(op[1]-'0'), int(op[2]-'0')
			n := int(op[4] - '0')
			for k := 0; k < n; k++ {
				byKey[op[:3]] = append(byKey[op[:3]], w.session(i, j))
			}
			r.Count("op_session_start", n)
			if n > 1 {
				r.Count("op_concurrent_duplicates", 1)
			}
		case op[0] == 'M':
			// honest message on the newest running call i->j, stamped with the current
			// epoch (programs put a quiescent point in front of M)
			i, j := int(op[1]-'0'), int(op[2]-'0')
			if cl := pick("S"+op[1:3], false); cl != nil {
				if ret, _ := cl.Returned(); !ret {
					e, _, _ := w.h.Srv.VerifSessionEpoch(pool[i].String(), pool[j].String())
					nMsg++
					m := g7sig.Honest(pool[i], []byte(fmt.Sprintf("%s|m%d", w.name, nMsg)), uint64(nMsg))
					cl.Submit(g7sig.ReqSend(e, m))
					w.logf("%s submits SendMsg(seq %d) session_seqno=%d", w.cstr(cl), nMsg, e)
					r.Count("op_send_msg", 1)
				}
			}
		case op[0] == 'A':
			// the client behind the newest running call i->j acknowledges the last
			// message delivered to it
			i, j := int(op[1]-'0'), int(op[2]-'0')
			if cl := pick("S"+op[1:3], false); cl != nil {
				if ret, _ := cl.Returned(); !ret {
					var seq uint64
					found := false
					for _, it := range cl.Outbox() {
						if it.Kind == "recv" {
							seq, found = it.U, true
						}
					}
					if found {
						e, _, _ := w.h.Srv.VerifSessionEpoch(pool[i].String(), pool[j].String())
						cl.Submit(g7sig.ReqAck(e, seq))
						w.logf("%s submits AckMsg(%d) session_seqno=%d", w.cstr(cl), seq, e)
						r.Count("op_ack_msg", 1)
					}
				}
			}
		case op[0] == 'X':
			// Session i->j on a stream that dies at point k of the call's start-up
			i, j := int(op[1]-'0'), int(op[2]-'0')
			at := g7sig.DiePoints[int(op[3]-'0')]
			cl := w.h.StartSessionDying(pool[i].ID, pool[j].String(), at)
			w.startGen[cl] = w.gen
			w.logf("start %s on a stream that dies at %s", w.cstr(cl), at)
			byKey["S"+op[1:3]] = append(byKey["S"+op[1:3]], cl)
			r.Count("op_session_start_dying_"+at, 1)
		case op[0] == 'K' || op[0] == 'O':
			if cl := pick(op[1:], op[0] == 'O'); cl != nil {
				w.kill(cl)
				r.Count("op_cancel", 1)
			}
		case op[0] == 'T':
			if cl := pick(op[1:], false); cl != nil {
				if ret, _ := cl.Returned(); !ret {
					cl.Stall()
					w.logf("stall the stream of %s", w.cstr(cl))
					r.Count("op_stall_stream", 1)
				}
			}
		case op[0] == 'R':
			for _, cl := range w.h.Calls() {
				if cl.Stalled() {
					w.logf("stalled stream of %s resumes", w.cstr(cl))
					cl.Unstall()
					r.Count("op_unstall_stream", 1)
				}
			}
		case op[0] == 'H':
			w.h.Gate(pool[int(op[1]-'0')].String()).Hold()
			w.logf("hold gate of P%c", op[1])
			r.Count("op_gate_hold", 1)
		case op[0] == 'U':
			w.h.Gate(pool[int(op[1]-'0')].String()).Release()
			w.logf("release gate of P%c", op[1])
		}
		if c.seq {
			if !check() {
				r.Case(c.String(), false)
				return
			}
		}
	}
	w.h.ReleaseAll()
	w.logf("release gates")
	if !check() {
		r.Case(c.String(), false)
		return
	}
	// everything ends: no state may be left
	for _, cl := range w.h.Calls() {
		if ret, _ := cl.Returned(); !ret {
			w.kill(cl)
		}
	}
	if !check() {
		r.Case(c.String(), false)
		return
	}
	replaced := 0
	for _, cl := range w.h.Calls() {
		if _, err := cl.Returned(); err != nil && (err.Error() == "signaling: session can only be called once per peer" || err.Error() == "signaling: listen can only be called once per peer") {
			replaced++
		}
	}
	r.Count("calls_total", len(w.h.Calls()))
	r.Count("calls_ended_replaced", replaced)
	r.Case(c.String(), len(w.h.Calls()) > 0)
	if idx < 3 {
		r.Sample(map[string]any{"program": c.String(), "history": w.dump()})
	}
}

// callKeyShort maps a call to the program's key notation (L<i> / S<i><j>).
func callKeyShort(w *world, c *g7sig.Call) string {
	idx := func(pid string) int {
		for i, id := range w.ids {
			if id.String() == pid {
				return i
			}
		}
		return 9
	}
	if c.Listen {
		return fmt.Sprintf("L%d", idx(c.Src))
	}
	return fmt.Sprintf("S%d%d", idx(c.Src), idx(c.Dst))
}

// genC25Late generates programs around calls that END LATE: a Listen / Session
// call is parked in a Send on a stalled stream (the frame is a SetPeer /
// ClearPeer / Opened / Closed caused by another peer), is then replaced and / or
// cancelled while parked, every other call that keeps the relay state of that
// peer / pair alive ends (the trackers are released), the same keys are
// registered again on fresh state (with 0-2 further replacements, so that
// counters of the fresh state pass through the values the parked call saw), and
// only then the stalled write completes. Each step is followed by a quiescent
// point, so the order of registrations is known to the oracle.
func genC25Late(rng *rand.Rand) []string {
	var ops []string
	add := func(s ...string) { ops = append(ops, s...) }
	b := rng.IntN(2)
	c := 1 - b
	if rng.IntN(3) == 0 {
		c = 2
	}
	k0 := rng.IntN(3) // replacements the parked call has seen before it registered
	j := k0           // replacements on the fresh state before the parked call ends
	if rng.IntN(2) == 0 {
		j = rng.IntN(3)
	}
	if rng.IntN(5) < 3 {
		// a Listen call ends late
		L, S := fmt.Sprintf("L%d", b), fmt.Sprintf("S%d%d", c, b)
		pre := rng.IntN(3) == 0 // a wanting session exists before: the stalled frame is its ClearPeer
		if pre && rng.IntN(2) == 0 {
			add(S+"*1", "|")
			pre = false
			add("K"+S, "|")
		}
		for i := 0; i <= k0; i++ {
			add(L+"*1", "|")
		}
		if pre {
			add(S+"*1", "|")
		}
		add("T" + L)
		if pre {
			add("K" + S)
		} else {
			add(S + "*1")
		}
		add("|")
		switch rng.IntN(5) {
		case 0, 1, 2:
			add(L+"*1", "|") // replaced while parked
		case 3:
			add(L+"*1", "|", "O"+L, "|") // replaced, then its client goes away too
		case 4:
			add("O"+L, "|") // only cancelled: it keeps its registration until the write completes
		}
		// everything else that keeps the state of peer b alive ends
		add("K"+L, "K"+S, "|")
		// the same keys register again on fresh state
		for i := 0; i <= j; i++ {
			add(L+"*1", "|")
		}
		if rng.IntN(2) == 0 {
			add(S+"*1", "|")
		}
	} else {
		// a Session call ends late
		A, B := fmt.Sprintf("S%d%d", b, c), fmt.Sprintf("S%d%d", c, b)
		if rng.IntN(3) == 0 {
			add(fmt.Sprintf("L%d*1", c), "|") // the destination also listens
		}
		pre := rng.IntN(3) == 0 // the partner is attached before: the stalled frame is Closed
		if pre {
			add(B+"*1", "|")
		}
		for i := 0; i <= k0; i++ {
			add(A+"*1", "|")
		}
		add("T" + A)
		if pre {
			add("K" + B)
		} else {
			add(B + "*1")
		}
		add("|")
		switch rng.IntN(5) {
		case 0, 1, 2:
			add(A+"*1", "|")
		case 3:
			add(A+"*1", "|", "O"+A, "|")
		case 4:
			add("O"+A, "|")
		}
		add("K"+A, "K"+B, "|")
		for i := 0; i <= j; i++ {
			if rng.IntN(2) == 0 {
				add(A+"*1", "|")
			} else {
				add(A+"*1", B+"*1", "|")
			}
		}
		if rng.IntN(2) == 0 {
			add(B+"*1", "|")
		}
	}
	add("R", "|")
	switch rng.IntN(3) {
	case 0:
		add("E")
	case 1:
		add(fmt.Sprintf("L%d*1", b), "|")
	}
	return ops
}

// genC25Msg generates programs in which a Session call is REPLACED (same ordered
// pair, 1-2 newer calls) while a message is in flight on the session: submitted
// and still pending at the relay (the receiver's write loop is parked in the
// Send of an earlier frame at a held gate), relayed to the receiver but not yet
// acknowledged, or acknowledged with the ack on its way back; the replaced call
// is the receiver's or the sender's, messages may flow in both directions.
// Ops: M<i><j> = honest message on the newest call i->j, A<i><j> = that call's
// client acknowledges the last message delivered to it. Oracle unchanged.
func genC25Msg(rng *rand.Rand) []string {
	var ops []string
	add := func(s ...string) { ops = append(ops, s...) }
	a := rng.IntN(3)
	b := (a + 1 + rng.IntN(2)) % 3
	A, B := fmt.Sprintf("S%d%d", a, b), fmt.Sprintf("S%d%d", b, a)
	Mab, Mba := fmt.Sprintf("M%d%d", a, b), fmt.Sprintf("M%d%d", b, a)
	Aba, Aab := fmt.Sprintf("A%d%d", b, a), fmt.Sprintf("A%d%d", a, b)
	if rng.IntN(4) == 0 {
		add(fmt.Sprintf("L%d*1", b))
	}
	add(A+"*1", B+"*1", "|")
	for round := 1 + rng.IntN(3); round > 0; round-- {
		held := false
		// earlier, completed traffic
		for k := rng.IntN(2); k > 0; k-- {
			add(Mab, "|", Aba, "|")
		}
		switch rng.IntN(6) {
		case 0, 1:
			// relayed to b, not acknowledged
			add(Mab, "|")
		case 2:
			// pending at the relay: b's write loop is parked in the Send of the first
			// message, the second one waits
			add(fmt.Sprintf("H%d", b), Mab, "|", Mab, "|")
			held = true
		case 3:
			// b's write loop parked with the first message marked as transmitted
			add(fmt.Sprintf("H%d", b), Mab, "|")
			held = true
		case 4:
			// in flight in both directions
			add(Mab, Mba, "|")
		case 5:
			// acknowledged, the ack is on its way back to a
			add(Mab, "|", fmt.Sprintf("H%d", a), Aba, "|")
			held = true
		}
		// the replacement
		n := 1 + rng.IntN(2)
		switch rng.IntN(5) {
		case 0, 1, 2:
			add(fmt.Sprintf("%s*%d", B, n), "|") // the receiver's call
		case 3:
			add(fmt.Sprintf("%s*%d", A, n), "|") // the sender's call
		case 4:
			add(fmt.Sprintf("%s*%d", B, n), fmt.Sprintf("%s*1", A), "|")
		}
		if held {
			add(fmt.Sprintf("U%d", a), fmt.Sprintf("U%d", b), "|")
		}
		switch rng.IntN(4) {
		case 0:
			add(Aba, "|") // the new call's client has nothing to acknowledge, or does
		case 1:
			add(Mab, "|", Aba, Aab, "|")
		case 2:
			add("K"+B, "|", B+"*1", "|")
		}
	}
	if rng.IntN(2) == 0 {
		add("E")
	}
	return ops
}

// genC25Dying: duplicate / replaced calls whose stream dies at a chosen point of
// the call's start-up (g7sig.DiePoints); X<i><j><k>. The leftover clause sees a
// registration that is never undone.
func genC25Dying(rng *rand.Rand) []string {
	var ops []string
	a := rng.IntN(3)
	b := (a + 1 + rng.IntN(2)) % 3
	l := 3 + rng.IntN(7)
	for len(ops) < l {
		i, j := a, b
		if rng.IntN(3) == 0 {
			i, j = b, a
		}
		switch k := rng.IntN(100); {
		case k < 45:
			ops = append(ops, fmt.Sprintf("X%d%d%d", i, j, rng.IntN(len(g7sig.DiePoints))))
		case k < 65:
			ops = append(ops, fmt.Sprintf("S%d%d*%d", i, j, 1+rng.IntN(2)))
		case k < 75:
			ops = append(ops, fmt.Sprintf("KS%d%d", i, j))
		case k < 82:
			ops = append(ops, fmt.Sprintf("L%d*1", j))
		case k < 88:
			ops = append(ops, "E")
		default:
			if len(ops) > 0 && ops[len(ops)-1] != "|" {
				ops = append(ops, "|")
			}
		}
	}
	return ops
}
