package sigsrv

import (
	"fmt"
	"strings"
	"testing"

	"verifharness/g7sig"
	"verifharness/keys"
	"verifharness/vf"
)

// c22case is one attach/detach/usurp program over two peers plus a gate.
//
// ops: aX attach X (X not attached) | dX detach (kill X's newest call) |
// rX re-attach X while its older call is still registered (usurp) |
// sX X sends an honest message for the epoch it was last told | tX the same
// for an older epoch (stale) | kX X acks the last message it received |
// cX X clears the last message it sent.
// gate: who (-1 none, 0 A, 1 B) is armed before op index `at` and released
// after the last op: every Send to that peer blocks, which parks the server's
// write loop for that peer between two of its critical sections.
type c22case struct {
	ops  []string
	who  int
	at   int
	kind string
}

func (c c22case) String() string {
	g := "none"
	if c.who >= 0 {
		g = fmt.Sprintf("%c@%d", 'A'+c.who, c.at)
	}
	return strings.Join(c.ops, " ") + " gate=" + g
}

// enumPrograms enumerates every legal attach/detach/usurp program of length
// 1..maxLen (legal: attach only when detached, detach/usurp only when attached).
func enumPrograms(maxLen int) [][]string {
	var out [][]string
	var rec func(prog []string, att [2]bool)
	rec = func(prog []string, att [2]bool) {
		if len(prog) > 0 {
			out = append(out, append([]string(nil), prog...))
		}
		if len(prog) == maxLen {
			return
		}
		for x := 0; x < 2; x++ {
			n := string(rune('A' + x))
			if !att[x] {
				a2 := att
				a2[x] = true
				rec(append(prog, "a"+n), a2)
			} else {
				a2 := att
				a2[x] = false
				rec(append(prog, "d"+n), a2)
				rec(append(prog, "r"+n), att)
			}
		}
	}
	rec(nil, [2]bool{})
	return out
}

func TestC22(t *testing.T) {
	r := vf.Start(t, "C22", vf.FaultEnumeration)
	defer r.Finish()
	r.SetRule("case = program over two peers A,B of ops {attach, detach, re-attach while the older call is still registered} (thorough: ALL legal programs of length<=6, which includes all of length<=5; quick: PRNG sample of 400 from the length<=5 space) x gate {none, A's write loop held, B's write loop held} x gate position (armed before op i, released at the end); plus PRNG programs with sends/stale sends/acks/clears sprinkled in (one op at a time), plus PRNG burst programs (ops issued back to back so that the server goroutines run concurrently under the race detector; quiescence only at '|' marks). Otherwise after every op the instance is brought to (condition-based) quiescence. Oracle at each quiescent point for every call whose peer is not gated: both attached => last Opened/Closed item is Opened(e), e = VerifSessionEpoch; alone => last such item is not Opened; epoch strictly increases over every attach/detach of a current call while the session exists; per outbox a RecvMsg(m) directly follows (no Opened/Closed between) Opened(x), x = session_seqno m was submitted with. Non-trivial = at least one Opened observed; distinct = program+gate")
	r.Assume("the epoch compared against is read from the server under its own mutex (VerifSessionEpoch); the harness streams are the ground truth for what each peer was told")

	rng := r.Rand("c22")
	pool := keys.Pool(rng, 2)
	// make index 0 / 1 independent of the key order in the session key
	var cases []c22case
	maxLen := 5
	if !r.Quick() {
		maxLen = 6
	}
	progs := enumPrograms(maxLen)
	var full []c22case
	for _, p := range progs {
		full = append(full, c22case{ops: p, who: -1, kind: "enum"})
		for who := 0; who < 2; who++ {
			for at := 0; at < len(p); at++ {
				full = append(full, c22case{ops: p, who: who, at: at, kind: "enum"})
			}
		}
	}
	r.Extra("enumerated_space", map[string]any{"max_len": maxLen, "programs": len(progs), "programs_x_gates": len(full)})
	if r.Quick() {
		n := 400
		perm := rng.Perm(len(full))
		for _, i := range perm[:n] {
			cases = append(cases, full[i])
		}
	} else {
		cases = full
		r.SetExhaustive(true)
	}
	// PRNG programs with messages
	nm := r.N(200, 4000)
	for i := 0; i < nm; i++ {
		l := 4 + rng.IntN(9)
		att := [2]bool{}
		var ops []string
		for len(ops) < l {
			x := rng.IntN(2)
			n := string(rune('A' + x))
			if !att[x] {
				ops = append(ops, "a"+n)
				att[x] = true
				continue
			}
			switch k := rng.IntN(10); {
			case k < 1:
				ops = append(ops, "d"+n)
				att[x] = false
			case k < 3:
				ops = append(ops, "r"+n)
			case k < 6:
				ops = append(ops, "s"+n)
			case k < 7:
				ops = append(ops, "t"+n)
			case k < 9:
				ops = append(ops, "k"+n)
			default:
				ops = append(ops, "c"+n)
			}
		}
		c := c22case{ops: ops, who: rng.IntN(3) - 1, kind: "msg"}
		if c.who >= 0 {
			c.at = rng.IntN(len(ops))
		}
		cases = append(cases, c)
	}

	// burst programs: ops are issued back to back (no quiescence in between, so
	// the server's goroutines really run concurrently); "|" = quiesce and check
	nb := r.N(200, 4000)
	for i := 0; i < nb; i++ {
		l := 4 + rng.IntN(8)
		att := [2]bool{}
		var ops []string
		for len(ops) < l {
			if len(ops) > 0 && ops[len(ops)-1] != "|" && rng.IntN(4) == 0 {
				ops = append(ops, "|")
				continue
			}
			x := rng.IntN(2)
			n := string(rune('A' + x))
			if !att[x] {
				ops = append(ops, "a"+n)
				att[x] = true
				continue
			}
			switch k := rng.IntN(10); {
			case k < 3:
				ops = append(ops, "d"+n)
				att[x] = false
			case k < 6:
				ops = append(ops, "r"+n)
			default:
				ops = append(ops, "s"+n)
			}
		}
		cases = append(cases, c22case{ops: ops, who: -1, kind: "burst"})
	}

	runParallel(len(cases), 16, func(i int) {
		c := cases[i]
		if i%16 == 0 {
			r.Begin(fmt.Sprintf("batch around case %d: %s", i, c))
		}
		runC22(r, pool, i, c)
	})
	quiesceEvidence(r)
}

func runC22(r *vf.Run, pool []*keys.Identity, idx int, c c22case) {
	w := newWorld(r, fmt.Sprintf("c22#%d[%s]", idx, c), pool)
	defer w.end()
	a, b := pool[0].String(), pool[1].String()
	pid := []string{a, b}
	newest := [2]*g7sig.Call{}
	att := [2]bool{}
	var prevEpoch uint64
	sawOpened := false
	lastSent := [2]uint64{}

	burst := c.kind == "burst"
	check := func(final bool) {
		var cur [2]*g7sig.Call
		for x := 0; x < 2; x++ {
			if att[x] {
				cur[x] = newest[x]
			}
			if burst {
				// calls raced for registration: the current one is whichever
				// is still running (C25 demands there is exactly one)
				cur[x] = nil
				var live []*g7sig.Call
				for _, cl := range w.liveSessions(pid[x], pid[1-x]) {
					if !cl.Killed() {
						live = append(live, cl)
					}
				}
				if len(live) > 1 {
					r.Count("c22_skipped_duplicate_calls", 1)
					return
				}
				if len(live) == 1 {
					cur[x] = live[0]
				}
			}
		}
		w.checkAnnounce([2]string{a, b}, cur)
		if final {
			w.checkRecvEpochs()
		}
	}
	for i, op := range c.ops {
		if c.who >= 0 && i == c.at {
			w.h.Gate(pid[c.who]).Hold()
			w.logf("hold gate of %s", w.nick(pid[c.who]))
		}
		if op == "|" {
			if !w.quiesce() {
				r.Case(c.String(), false)
				return
			}
			check(false)
			continue
		}
		x := int(op[1] - 'A')
		y := 1 - x
		hadSession := att[0] || att[1]
		epochShouldAdvance := false
		switch op[0] {
		case 'a', 'r':
			newest[x] = w.session(x, y)
			att[x] = true
			epochShouldAdvance = hadSession
			r.Count("op_attach", 1)
		case 'd':
			w.kill(newest[x])
			att[x] = false
			epochShouldAdvance = true
			r.Count("op_detach", 1)
		case 's', 't':
			cl := newest[x]
			kind, e := cl.LastOpen()
			if kind != "opened" {
				e = 0
			}
			if op[0] == 't' {
				if e == 0 {
					continue
				}
				e--
			}
			w.nPayload++
			w.msgSeq[pid[x]]++
			m := g7sig.Honest(pool[x], []byte(fmt.Sprintf("%s|m%d", w.name, w.nPayload)), w.msgSeq[pid[x]])
			lastSent[x] = m.Seqno
			clk := cl.Submit(g7sig.ReqSend(e, m))
			w.subs[string(m.GetSignedMsg().GetData())] = append(w.subs[string(m.GetSignedMsg().GetData())], &subRec{call: cl, clock: clk, sessSeqno: e, msg: m, honest: true, class: "honest"})
			w.logf("%s submits SendMsg(seq %d) session_seqno=%d", w.cstr(cl), m.Seqno, e)
			r.Count("op_send", 1)
		case 'k':
			cl := newest[x]
			var seq uint64
			found := false
			for _, it := range cl.Outbox() {
				if it.Kind == "recv" {
					seq, found = it.U, true
				}
			}
			if !found {
				continue
			}
			_, e := cl.LastOpen()
			cl.Submit(g7sig.ReqAck(e, seq))
			w.logf("%s submits AckMsg(%d) session_seqno=%d", w.cstr(cl), seq, e)
			r.Count("op_ack", 1)
		case 'c':
			if lastSent[x] == 0 {
				continue
			}
			cl := newest[x]
			_, e := cl.LastOpen()
			cl.Submit(g7sig.ReqClear(e, lastSent[x]))
			w.logf("%s submits ClearMsg(%d) session_seqno=%d", w.cstr(cl), lastSent[x], e)
			r.Count("op_clear", 1)
		}
		if burst {
			continue
		}
		if !w.quiesce() {
			r.Case(c.String(), false)
			return
		}
		e, ha, hb := w.h.Srv.VerifSessionEpoch(a, b)
		if ha != att[0] || hb != att[1] {
			r.Count("c22_model_hook_attachment_mismatch", 1)
		}
		if epochShouldAdvance && (att[0] || att[1]) {
			r.Count("c22_epoch_advance_checks", 1)
			if e <= prevEpoch {
				w.violate("Session/epoch-not-advanced", fmt.Sprintf("op %q changed who is attached but the epoch stayed %d (was %d)", op, e, prevEpoch))
			}
		}
		prevEpoch = e
		if !(att[0] || att[1]) {
			prevEpoch = 0
		}
		r.Distinct("quiescent_states", fmt.Sprint(att, e, w.gated(a), w.gated(b), lastKinds(w)))
		check(false)
	}
	if c.who >= 0 || burst {
		w.h.ReleaseAll()
		w.logf("release gates")
		if !w.quiesce() {
			r.Case(c.String(), false)
			return
		}
	}
	check(true)
	for _, cl := range w.h.Calls() {
		for _, it := range cl.Outbox() {
			r.Count("seen_"+it.Kind, 1)
			if it.Kind == "opened" {
				sawOpened = true
			}
		}
	}
	r.Case(c.String(), sawOpened)
	if idx < 4 {
		r.Sample(map[string]any{"program": c.String(), "history": w.dump()})
	}
}

func lastKinds(w *world) string {
	var s []string
	for _, c := range w.h.Calls() {
		if ret, _ := c.Returned(); ret {
			continue
		}
		k, v := c.LastOpen()
		s = append(s, fmt.Sprintf("%s:%s%d", w.nick(c.Src), k, v))
	}
	return strings.Join(s, ",")
}
