package sigsrv

import (
	"fmt"
	"os"
	"strings"
	"testing"

	"verifharness/g7sig"
	"verifharness/keys"
	"verifharness/vf"
)

// C24 programs. Peers 0..3; peers 0 and 1 may listen, every peer may open a
// session towards any other. Ops:
//
//	L<i>+   start Listen as peer i (a second one while the first is running = usurp)
//	L<i>-   cancel the newest Listen of peer i
//	S<i><j>+ start Session i->j (re-open / usurp if one is running)
//	S<i><j>- cancel the newest Session i->j
//	H<i> / U<i>  hold / release the gate of peer i (all Sends to i block)
//	|       bring the instance to quiescence and evaluate the oracle
type c24case struct {
	ops []string
	seq bool // quiesce + check after every op
}

func (c c24case) String() string {
	m := "burst"
	if c.seq {
		m = "seq"
	}
	return m + ": " + strings.Join(c.ops, " ")
}

func TestC24(t *testing.T) {
	r := vf.Start(t, "C24", vf.Exploration)
	defer r.Finish()
	r.SetRule("case = PRNG program over 4 peers (two of them listeners; mostly 3 peers towards listener P0) of listen start/stop/usurp, session open/close/re-open (usurp), gate hold/release on the listener's stream, executed either one op at a time or in bursts (ops issued back to back, server goroutines run concurrently) with quiescence points '|'. Oracle at every quiescent point where the listener's gate is open, for every running Listen call of L: replay(outbox: SetPeer adds, ClearPeer removes) == {P : a session call P->L is running}. Ground truth = the harness' own record of which calls are running. Further families (c24burst_test.go): programs with session calls on streams that cancel themselves at a chosen point of the call's start-up; burst worlds (one listener, 3 peers, hundreds of short bursts of concurrent open / re-open / close / reconnect from separate goroutines, each burst judged before the next: verdict-free poll for view == running calls, else quiescence + the same oracle). Non-trivial = a listener check with a non-empty expected set or a Set/Clear item was observed; distinct = program / burst world")
	r.Assume("a session call counts as holding an open session request from the moment the server consumed its Init until the call returns (cancelled by the harness or ended by the server)")
	rng := r.Rand("c24")
	pool := keys.Pool(rng, 4)
	n := r.N(400, 15000)
	cases := make([]c24case, 0, n+8)
	// fixed scenarios from the property text: reconnect after the previous session ended
	fixed := [][]string{
		{"L0+", "|", "S10+", "|", "S10-", "|", "S10+", "|"},
		{"L0+", "|", "S10+", "|", "S10-", "|", "S20+", "|", "S10+", "|"},
		{"S10+", "|", "L0+", "|", "S10-", "|", "S10+", "S20+", "|"},
		{"L0+", "|", "S10+", "S20+", "S30+", "|", "S10-", "S20-", "S30-", "|", "S30+", "|"},
		{"L0+", "|", "S10+", "|", "S10+", "|", "S10-", "|", "S10+", "|"},
		{"L0+", "|", "S10+", "|", "L0+", "|", "S10-", "|", "S20+", "|"},
		{"L0+", "|", "H0", "S10+", "S10-", "S10+", "|", "U0", "|"},
	}
	for _, f := range fixed {
		cases = append(cases, c24case{ops: f})
	}
	for len(cases) < n {
		l := 5 + rng.IntN(14)
		seq := rng.IntN(3) == 0
		var ops []string
		held := map[int]bool{}
		for len(ops) < l {
			k := rng.IntN(100)
			switch {
			case k < 12:
				i := 0
				if rng.IntN(5) == 0 {
					i = 1
				}
				ops = append(ops, fmt.Sprintf("L%d+", i))
			case k < 18:
				i := 0
				if rng.IntN(5) == 0 {
					i = 1
				}
				ops = append(ops, fmt.Sprintf("L%d-", i))
			case k < 52:
				i, j := 1+rng.IntN(3), 0
				if rng.IntN(5) == 0 {
					i, j = rng.IntN(4), rng.IntN(4)
					if i == j {
						j = (j + 1) % 4
					}
				}
				ops = append(ops, fmt.Sprintf("S%d%d+", i, j))
			case k < 78:
				i, j := 1+rng.IntN(3), 0
				if rng.IntN(5) == 0 {
					i, j = rng.IntN(4), rng.IntN(4)
					if i == j {
						j = (j + 1) % 4
					}
				}
				ops = append(ops, fmt.Sprintf("S%d%d-", i, j))
			case k < 83:
				i := rng.IntN(2)
				if held[i] {
					ops = append(ops, fmt.Sprintf("U%d", i))
				} else {
					ops = append(ops, fmt.Sprintf("H%d", i))
				}
				held[i] = !held[i]
			default:
				if !seq && len(ops) > 0 && ops[len(ops)-1] != "|" {
					ops = append(ops, "|")
				}
			}
		}
		cases = append(cases, c24case{ops: ops, seq: seq})
	}
	// streams that die at a chosen point of the call's start-up (c24burst_test.go)
	nOrd := len(cases)
	drng := r.Rand("c24-dying")
	for k := r.N(160, 4000); k > 0; k-- {
		cases = append(cases, genC24Dying(drng))
	}
	only := os.Getenv("VERIF_C24_ONLY") // prog,dying,burst (debugging only)
	if only == "" || strings.Contains(only, "prog") || strings.Contains(only, "dying") {
		runParallel(len(cases), 16, func(i int) {
			if only != "" && ((i < nOrd && !strings.Contains(only, "prog")) || (i >= nOrd && !strings.Contains(only, "dying"))) {
				return
			}
			if i%16 == 0 {
				r.Begin(fmt.Sprintf("batch around case %d: %s", i, cases[i]))
			}
			runC24(r, pool, i, cases[i])
		})
	}
	if only == "" || strings.Contains(only, "burst") {
		runC24BurstFamily(r, pool)
	}
	quiesceEvidence(r)
}

func runC24(r *vf.Run, pool []*keys.Identity, idx int, c c24case) {
	w := newWorld(r, fmt.Sprintf("c24#%d[%s]", idx, c), pool)
	defer w.end()
	newestL := map[int]*g7sig.Call{}
	newestS := map[[2]int]*g7sig.Call{}
	nontrivial := false
	var dying []*g7sig.Call
	check := func() bool {
		if !w.quiesce() {
			return false
		}
		for i := 0; i < 2; i++ {
			w.checkListeners(pool[i].String())
		}
		return true
	}
	for _, op := range c.ops {
		switch {
		case op == "|":
			if !check() {
				r.Case(c.String(), false)
				return
			}
			continue
		case op[0] == 'L' && op[2] == '+':
			i := int(op[1] - '0')
			newestL[i] = w.listen(i)
			r.Count("op_listen_start", 1)
		case op[0] == 'L':
			i := int(op[1] - '0')
			if cl := newestL[i]; cl != nil {
				w.kill(cl)
				r.Count("op_listen_stop", 1)
			}
		case op[0] == 'S' && op[3] == '+':
			k := [2]int{int(op[1] - '0'), int(op[2] - '0')}
			newestS[k] = w.session(k[0], k[1])
			r.Count("op_session_open", 1)
		case op[0] == 'S':
			k := [2]int{int(op[1] - '0'), int(op[2] - '0')}
			if cl := newestS[k]; cl != nil {
				w.kill(cl)
				r.Count("op_session_close", 1)
			}
		case op[0] == 'X':
			k := [2]int{int(op[1] - '0'), int(op[2] - '0')}
			at := g7sig.DiePoints[int(op[3]-'0')]
			cl := w.h.StartSessionDying(pool[k[0]].ID, pool[k[1]].String(), at)
			w.startGen[cl] = w.gen
			w.logf("start %s on a stream that dies at %s", w.cstr(cl), at)
			newestS[k] = cl
			dying = append(dying, cl)
			r.Count("op_session_open_dying_"+at, 1)
		case op[0] == 'H':
			w.h.Gate(pool[int(op[1]-'0')].String()).Hold()
			w.logf("hold gate of P%c", op[1])
			r.Count("op_gate_hold", 1)
		case op[0] == 'U':
			w.h.Gate(pool[int(op[1]-'0')].String()).Release()
			w.logf("release gate of P%c", op[1])
		}
		if c.seq {
			if !check() {
				r.Case(c.String(), false)
				return
			}
		}
	}
	w.h.ReleaseAll()
	w.logf("release gates")
	if !check() {
		r.Case(c.String(), false)
		return
	}
	for _, cl := range w.h.Calls() {
		if !cl.Listen {
			continue
		}
		for _, it := range cl.Outbox() {
			r.Count("seen_"+it.Kind, 1)
			nontrivial = true
		}
	}
	for _, cl := range dying {
		if cl.Died() {
			r.Count("dying_stream_died_at_"+cl.DieAt(), 1)
		} else {
			r.Count("dying_stream_never_reached_"+cl.DieAt(), 1)
		}
	}
	r.Case(c.String(), nontrivial)
	if idx < 3 {
		r.Sample(map[string]any{"program": c.String(), "history": w.dump()})
	}
}
