package sigsrv

import (
	"crypto/sha256"
	"fmt"
	"math/rand/v2"
	"os"
	"strings"
	"sync"
	"testing"
	"time"

	"github.com/aperturerobotics/bifrost/peer"
	signaling "github.com/aperturerobotics/bifrost/signaling/rpc"
	"verifharness/g7sig"
	"verifharness/keys"
	"verifharness/vf"
)

// c20op is one step of a C20 program: kind on the session call x->y (z = a third
// / other identity used by the forgery kinds).
type c20op struct {
	kind    string
	x, y, z int
	n       int
}

func (o c20op) String() string { return fmt.Sprintf("%s(%d->%d,z%d,n%d)", o.kind, o.x, o.y, o.z, o.n) }

var c20honestKinds = []string{"send", "send", "send", "ack", "ack", "clear", "attach", "detach"}
var c20badKinds = []string{"stale", "future", "foreign", "replay", "badsig", "tamper-data", "tamper-sig", "unsigned", "emptysig", "hash0", "otherctx", "nilmsg", "emptydata",
	"ack-unsol", "ack-dup", "clear-unsol", "init-again", "nilbody", "future-alone", "ack-future-alone", "clear-future-alone",
	"preinit-send", "preinit-ack", "preinit-seqno", "preinit-self", "preinit-badid", "preinit-empty"}

// c20histKinds: HISTORY-dependent submissions, derived from a message the
// server already verified and accepted from the same client: "hist:<kind>"
// (g7sig.DeriveKinds, never authentic) and exact replays of the own message
// (authentic: they may be forwarded).
var c20histKinds = func() []string {
	ks := []string{"hist-replay", "hist-replay-newseq"}
	for _, k := range g7sig.DeriveKinds {
		ks = append(ks, "hist:"+k)
	}
	return ks
}()

func c20randOp(rng *rand.Rand) c20op {
	o := c20op{x: rng.IntN(3), n: rng.IntN(1 << 16)}
	o.y = (o.x + 1 + rng.IntN(2)) % 3
	o.z = 3 - o.x - o.y
	if rng.IntN(3) == 0 {
		o.z = o.y
	}
	return o
}

// genC20HistProg generates a program in which forged submissions are derived
// from messages the server accepted earlier on the same stream / session /
// from the same client. Motif: honest send on x->y, then (immediately / after
// the partner acked it / after the partner or the sender re-attached / after
// an exact replay / after further honest sends / after unrelated steps) a
// variant of an accepted message on x->y.
func genC20HistProg(rng *rand.Rand) []c20op {
	l := 8 + rng.IntN(13)
	var prog []c20op
	hist := func(o c20op) c20op {
		o.kind = c20histKinds[2+rng.IntN(len(c20histKinds)-2)]
		o.n = rng.IntN(1 << 16)
		return o
	}
	motif := func() {
		o := c20randOp(rng)
		o.kind = "send"
		prog = append(prog, o)
		rev := o
		rev.x, rev.y = o.y, o.x
		mid := rng.IntN(14)
		switch mid {
		case 0, 1, 2, 3, 4:
		case 5:
			rev.kind = "ack"
			prog = append(prog, rev)
		case 6:
			rev.kind = "attach" // partner re-attaches: epoch changes, the sender's call stays
			prog = append(prog, rev)
		case 7:
			rev.kind = "detach"
			prog = append(prog, rev)
		case 8:
			a := o
			a.kind = "attach" // the sender replaces its own call
			prog = append(prog, a)
		case 9:
			a := o
			a.kind = []string{"hist-replay", "hist-replay-newseq"}[rng.IntN(2)]
			a.n = rng.IntN(1 << 16) &^ (3 << 4) // replay of the latest message on this call
			prog = append(prog, a)
		case 10:
			for k := 1 + rng.IntN(2); k > 0; k-- {
				a := o
				a.kind = "send"
				prog = append(prog, a)
				if rng.IntN(2) == 0 {
					rev.kind = "ack"
					prog = append(prog, rev)
				}
			}
		case 11:
			a := o
			a.kind = []string{"clear", "stale", "ack-unsol", "clear-unsol"}[rng.IntN(4)]
			a.n = rng.IntN(1 << 16)
			prog = append(prog, a)
		case 12:
			for k := 1 + rng.IntN(3); k > 0; k-- {
				a := c20randOp(rng)
				a.kind = c20honestKinds[rng.IntN(len(c20honestKinds))]
				prog = append(prog, a)
			}
		case 13:
			rev.kind = "send" // traffic in the other direction
			prog = append(prog, rev)
		}
		h := hist(o)
		if mid <= 4 || mid == 9 {
			h.n &^= 3 << 4 // scope: this call (the variant follows its source directly)
		}
		if mid <= 4 && rng.IntN(3) > 0 {
			h.n &^= 3 << 6 // source: the latest accepted message
		}
		prog = append(prog, h)
	}
	at := rng.IntN(4)
	for len(prog) < l {
		if at >= 0 && len(prog) >= at {
			motif()
			at = -1
			continue
		}
		o := c20randOp(rng)
		switch x := rng.IntN(100); {
		case x < 45:
			o.kind = c20honestKinds[rng.IntN(len(c20honestKinds))]
		case x < 60:
			o.kind = c20badKinds[rng.IntN(len(c20badKinds))]
		case x < 85:
			o.kind = c20histKinds[rng.IntN(len(c20histKinds))]
		default:
			motif()
			continue
		}
		prog = append(prog, o)
	}
	return prog
}

func TestC20(t *testing.T) {
	r := vf.Start(t, "C20", vf.Exploration)
	defer r.Finish()
	r.SetRule("case = PRNG program of 8-24 steps over 3 authenticated clients (each may turn malicious): honest sends/acks/clears/re-attach/detach mixed with: stale and future session_seqno, message signed by another client (authentic but not this stream's identity), replay of another client's valid message, claimed-self but signed with another key, tampered data/signature, missing/empty signature, hash type 0, other signing context, nil/empty message, unsolicited and duplicate acks, unsolicited clears, second Init, empty body, and calls whose first request is not a valid Init (non-Init, seqno!=0, self, bad id, empty id). A second family of programs (8-20+ steps) adds HISTORY-dependent forgeries: submissions derived from a message the server already verified and accepted from the same client (its signature bytes + sender with a new / bit-flipped / appended / truncated payload, another hash type, a pub_key field of another client or of itself plus a new payload, re-attributed to another client; the payload under the signature of another accepted message and vice versa; the payload re-signed by another key or under another context; extended signature), source = latest / previous-but-one / third-latest accepted message of this call, of any earlier call x->y or of any call of x, submitted immediately after the source, after the partner acked it, after the partner or the sender re-attached (new epoch / new call), after an exact replay of the own message (authentic, may be forwarded), after further honest sends or unrelated steps; every such program holds at least one original->variant motif. A third family (8-18+ steps) relies on the harness streams being WIRE-FAITHFUL (every request is marshalled at submission and decoded by the server side with UnmarshalVT into whatever object the server passes to Recv/RecvTo, without Reset; every response is marshalled at Send and the outbox keeps the decoded copy): (a) field-presence sequences first>second on one stream, first = complete current send / two sends / ack / clear, second = a request lacking fields on the wire: session_seqno 0 (an older epoch) on a send / ack / clear, message seqno 0, SendMsg without signature / data / sender / hash type / signature bytes, empty / seqno-only / nil SendMsg, zero-length packet, seqno without body; with and without quiescence in between; (b) the attribution matrix claimed from_peer_id {stream identity, other client, non-client X} x real signer {stream identity, other client, X} x pub_key field {absent, stream identity, signer, other client, X2, garbage}, over a fresh payload or the payload of a message accepted earlier on the call: authentic iff from = signer = stream identity. A fourth family (8-16+ steps) uses BOUNDARY VALUES of every number the server compares: honest messages whose session_seqno is ahead of the epoch e by 1, 2, 3, 2^31, 2^32, 2^63-1, 2^63, 2^63+1 or equals 2^32, 2^63, MaxUint64-1, MaxUint64 (also in the first family; each must end the call with an error), acks / clears stamped with those values (must have no effect), honest messages whose own seqno is 0, 1, 2^31-1 .. 2^63+1, MaxUint64-1, MaxUint64, and acks by the receiver / clears by the sender that name a near miss of the delivered seqno s (s+-1, s+-2^32, bit 63 or 31 flipped, low 32 bits, sign-extended low 32 bits, ^s, s<<32, s>>32, 0, MaxUint64), before and after the exact ack. A fifth family (9-16+ steps) restarts clients as FRESH INCARNATIONS (same identity, message seqnos start at 1 again), taking over while the previous call is still registered or after the old stream died, while the partner holds an un-acknowledged message with the same seqno of the previous incarnation and its ack is IN FLIGHT: issued in answer to the old delivery with the epoch the partner had been told, it reaches the server before / after the new incarnation's message with the same seqno was submitted / delivered / acknowledged. In these five families the instance is quiescent before every submission (bursts: no call starts or ends in between), so the epoch at submission is exact. A sixth family submits an honest LARGE message (128 KiB .. 1 MiB quick / 2 MiB thorough, sized at start so that verifying it takes >= 1 ms quick / 2 ms thorough here) for the current epoch and changes the epoch WHILE the server works on it: as soon as the server's Recv took the request (or at once), after 0-400 scheduler yields, the partner re-attaches (old call still registered; the new call usually already parked in its first Recv) / re-attaches twice / detaches and attaches / detaches, or the sender re-attaches; quiescence only before the submission and after the change; non-trivial there = the change was observed to complete before the server took the next request of the sender. Oracle: every RecvMsg in the outbox of a call Q->P equals (byte for byte) a message that the harness submitted earlier on a call P->Q, that is honest (signed by P = stream identity under the signaling context, valid hash) and whose session_seqno == epoch at submission, and no message is forwarded more often than such a copy was submitted; in the recipient's outbox the RecvMsg directly follows (no Opened/Closed in between) Opened(x) with x = the session_seqno it was submitted with (no message submitted in one epoch is delivered in another); future seqno => the call ends with an error; AckMsg(s) to P only if P's message s was delivered to Q and Q acked it afterwards with the then-current session_seqno (at most once per delivery), or an in-flight ack that answered the delivery of a message of that same call reached the server (an ack that answered a message of a previous call of the peer explains nothing); ClearMsg(s) to Q only if s was delivered to Q and P cleared it afterwards with the current session_seqno; a call with an invalid first request ends with an error and leaves VerifStateSizes unchanged. Non-trivial = at least one honest message forwarded and at least one hostile step executed; distinct = program")
	r.Assume("honest messages are built with signaling.NewSessionMsg; honest/forged is known by construction, never inferred from the server's reaction")
	rng := r.Rand("c20")
	pool := keys.Pool(rng, 3)
	n0 := r.N(300, 5000)
	nh := r.N(240, 3000)
	nw := r.N(160, 3000)
	nb := r.N(70, 1000)
	ni := r.N(90, 1200)
	n := n0 + nh + nw + nb + ni
	progs := make([][]c20op, n)
	brng := r.Rand("c20-boundary")
	for i := n0 + nh + nw; i < n0+nh+nw+nb; i++ {
		progs[i] = genC20BndProg(brng)
	}
	irng := r.Rand("c20-incarnation")
	for i := n0 + nh + nw + nb; i < n; i++ {
		progs[i] = genC20IncProg(irng)
	}
	hrng := r.Rand("c20-history")
	for i := n0; i < n0+nh; i++ {
		progs[i] = genC20HistProg(hrng)
	}
	wrng := r.Rand("c20-wire")
	for i := n0 + nh; i < n0+nh+nw; i++ {
		progs[i] = genC20WireProg(wrng)
	}
	extra := keys.Pool(r.Rand("c20-nonclients"), 2)
	for i := 0; i < n0; i++ {
		l := 8 + rng.IntN(17)
		for k := 0; k < l; k++ {
			o := c20op{x: rng.IntN(3), n: rng.IntN(1 << 16)}
			o.y = (o.x + 1 + rng.IntN(2)) % 3
			o.z = 3 - o.x - o.y
			if rng.IntN(3) == 0 {
				o.z = o.y
			}
			if rng.IntN(100) < 55 {
				o.kind = c20honestKinds[rng.IntN(len(c20honestKinds))]
			} else {
				o.kind = c20badKinds[rng.IntN(len(c20badKinds))]
			}
			progs[i] = append(progs[i], o)
		}
	}
	// VERIF_C20_ONLY=base,hist,wire,bnd,inc,race restricts the families (debugging only)
	only := os.Getenv("VERIF_C20_ONLY")
	fam := func(i int) string {
		switch {
		case i < n0:
			return "base"
		case i < n0+nh:
			return "hist"
		case i < n0+nh+nw:
			return "wire"
		case i < n0+nh+nw+nb:
			return "bnd"
		}
		return "inc"
	}
	famT := map[string]float64{}
	var famMu sync.Mutex
	runParallel(n, 16, func(i int) {
		if only != "" && !strings.Contains(only, fam(i)) {
			return
		}
		if i%16 == 0 {
			r.Begin(fmt.Sprintf("batch around case %d: %v", i, progs[i]))
		}
		t0 := time.Now()
		runC20(r, pool, extra, i, progs[i])
		famMu.Lock()
		famT[fam(i)] += time.Since(t0).Seconds()
		famMu.Unlock()
	})
	if only == "" || strings.Contains(only, "race") {
		t0 := time.Now()
		runC20RaceFamily(r, pool)
		famT["race(wall)"] = time.Since(t0).Seconds()
	}
	r.Extra("worker_seconds_per_family", famT) // cost accounting only
	quiesceEvidence(r)
}

type c20state struct {
	w        *world
	cur      map[[2]int]*g7sig.Call
	// authentic messages submitted so far, in order: per call, per directed pair
	// "src|dst" and per sender (the sources of the history-dependent forgeries)
	histCall map[*g7sig.Call][]*signaling.SessionMsg
	histPair map[string][]*signaling.SessionMsg
	histSrc  map[string][]*signaling.SessionMsg
	lastSent map[[2]int]uint64 // last honest message seqno submitted on x->y
	acked    map[[2]int][]uint64
	unsol    uint64
	inflight map[[2]int]*pendAck // acks issued by the client behind x->y and not yet on the wire
}

// pendAck is an acknowledgement a client has issued (in answer to the delivery
// of a message that call answers submitted, stamped with the epoch the client
// had been told) but that has not reached the server yet.
type pendAck struct {
	q         *g7sig.Call
	seq, sess uint64
	issue     int64
	answers   *g7sig.Call
}

func (s *c20state) live(x, y int) *g7sig.Call {
	c := s.cur[[2]int{x, y}]
	if c == nil {
		return nil
	}
	if ret, _ := c.Returned(); ret {
		return nil
	}
	return c
}

// ensure makes both directions of the pair attached (honest Init) and quiescent.
func (s *c20state) ensure(x, y int) bool {
	started := false
	for _, k := range [][2]int{{x, y}, {y, x}} {
		if s.live(k[0], k[1]) == nil {
			s.cur[k] = s.w.session(k[0], k[1])
			started = true
		}
	}
	if started {
		return s.w.quiesce()
	}
	return true
}

func runC20(r *vf.Run, pool, extra []*keys.Identity, idx int, prog []c20op) {
	var ps []string
	for _, o := range prog {
		ps = append(ps, o.String())
	}
	sig := strings.Join(ps, " ")
	w := newWorld(r, fmt.Sprintf("c20#%d", idx), pool)
	defer w.end()
	s := &c20state{w: w, cur: map[[2]int]*g7sig.Call{}, histCall: map[*g7sig.Call][]*signaling.SessionMsg{}, histPair: map[string][]*signaling.SessionMsg{}, histSrc: map[string][]*signaling.SessionMsg{}, lastSent: map[[2]int]uint64{}, acked: map[[2]int][]uint64{}, unsol: 1 << 40, inflight: map[[2]int]*pendAck{}}
	hostile := 0
	pidS := func(i int) string { return pool[i].String() }
	nextSeq := func(x int) uint64 { w.msgSeq[pidS(x)]++; return w.msgSeq[pidS(x)] }
	payload := func() []byte { w.nPayload++; return []byte(fmt.Sprintf("%s|m%d", w.name, w.nPayload)) }
	submitMsg := func(c *g7sig.Call, sess uint64, epoch uint64, m *signaling.SessionMsg, honest bool, class string) {
		clk := c.Submit(g7sig.ReqSend(sess, m))
		key := string(m.GetSignedMsg().GetData())
		w.subs[key] = append(w.subs[key], &subRec{call: c, clock: clk, sessSeqno: sess, epochAt: epoch, epochOK: true, msg: m.CloneVT(), honest: honest, class: class})
		w.logf("%s submits SendMsg[%s](seq %d) session_seqno=%d (epoch %d)", w.cstr(c), class, m.GetSeqno(), sess, epoch)
		cc := class
		if i := strings.IndexByte(cc, ':'); i >= 0 {
			cc = cc[:i]
		}
		r.Count("submitted_"+cc, 1)
		if honest && !strings.HasPrefix(class, "honest-replay") {
			// distinct originals only: a replay is the same envelope again
			cp := m.CloneVT()
			s.histCall[c] = append(s.histCall[c], cp)
			s.histPair[c.Src+"|"+c.Dst] = append(s.histPair[c.Src+"|"+c.Dst], cp)
			s.histSrc[c.Src] = append(s.histSrc[c.Src], cp)
		}
	}
	for _, o := range prog {
		x, y, z := o.x, o.y, o.z
		k := [2]int{x, y}
		if strings.HasPrefix(o.kind, "preinit-") {
			hostile++
			p0, s0 := w.h.Srv.VerifStateSizes()
			var first *signaling.SessionRequest
			switch o.kind {
			case "preinit-send":
				first = g7sig.ReqSend(0, g7sig.Honest(pool[x], payload(), nextSeq(x)))
			case "preinit-ack":
				first = g7sig.ReqAck(0, 1)
			case "preinit-seqno":
				first = g7sig.ReqInit(1+uint64(o.n%3), pidS(y))
			case "preinit-self":
				first = g7sig.ReqInit(0, pidS(x))
			case "preinit-badid":
				first = g7sig.ReqInit(0, "not-a-peer-id")
			case "preinit-empty":
				first = g7sig.ReqInit(0, "")
			}
			c := w.h.StartSession(pool[x].ID, "")
			w.startGen[c] = w.gen
			c.Submit(first)
			w.logf("start %s with first request %s", w.cstr(c), o.kind)
			r.Count("op_"+o.kind, 1)
			if !w.quiesce() {
				r.Case(sig, false)
				return
			}
			ret, err := c.Returned()
			if !ret || err == nil {
				w.violate("init/"+o.kind+"-accepted", fmt.Sprintf("%s: first request %s did not end the call with an error (returned=%v err=%v)", w.cstr(c), o.kind, ret, err))
				c.Kill()
				if !w.quiesce() {
					r.Case(sig, false)
					return
				}
			} else {
				r.Count("bad_first_request_rejected", 1)
			}
			if p1, s1 := w.h.Srv.VerifStateSizes(); p1 != p0 || s1 != s0 {
				w.violate("init/"+o.kind+"-left-state", fmt.Sprintf("rejected first request changed the server state: peers %d->%d sessions %d->%d", p0, p1, s0, s1))
			}
			continue
		}
		if o.kind == "attach" {
			s.cur[k] = w.session(x, y)
			r.Count("op_attach", 1)
			if !w.quiesce() {
				r.Case(sig, false)
				return
			}
			continue
		}
		if o.kind == "reincarnate" || o.kind == "restart" {
			// a FRESH incarnation of client x (same identity, e.g. a restarted process):
			// its message seqnos start at 1 again. reincarnate: the old call is still
			// registered (takeover); restart: the old stream dies first
			if o.kind == "restart" {
				if c := s.live(x, y); c != nil {
					w.kill(c)
					if o.n&1 == 0 && !w.quiesce() {
						r.Case(sig, false)
						return
					}
				}
			} else if s.live(x, y) != nil {
				r.Count("takeover_while_old_call_registered", 1)
			}
			s.cur[k] = w.session(x, y)
			w.msgSeq[pidS(x)] = 0
			for kk := range s.lastSent {
				if kk[0] == x {
					delete(s.lastSent, kk)
				}
			}
			w.logf("%s is a fresh incarnation of %s: message seqnos restart at 1", w.cstr(s.cur[k]), w.nick(pidS(x)))
			r.Count("op_"+o.kind, 1)
			if !w.quiesce() {
				r.Case(sig, false)
				return
			}
			continue
		}
		if o.kind == "detach" {
			if c := s.live(x, y); c != nil {
				w.kill(c)
				r.Count("op_detach", 1)
				if !w.quiesce() {
					r.Case(sig, false)
					return
				}
			}
			continue
		}
		if strings.HasSuffix(o.kind, "-alone") {
			// a request stamped with a FUTURE session_seqno submitted while the partner
			// of the session is NOT attached. Attachment state of the pair first:
			//   never    both ends gone (relay state of the pair released), x attaches alone
			//   left     both attached, then the partner's call ends
			//   left-re  as left, then x attaches again (its own call replaced)
			//   as-is    whatever the program left, minus the partner
			hostile++
			kr := [2]int{y, x}
			mode := []string{"never", "left", "left-re", "as-is"}[(o.n>>8)%4]
			q := func() bool {
				if !w.quiesce() {
					r.Case(sig, false)
					return false
				}
				return true
			}
			switch mode {
			case "never":
				n := 0
				for _, kk := range [][2]int{k, kr} {
					if cc := s.live(kk[0], kk[1]); cc != nil {
						w.kill(cc)
						n++
					}
				}
				if n > 0 && !q() {
					return
				}
			case "left", "left-re":
				if !s.ensure(x, y) {
					r.Case(sig, false)
					return
				}
			}
			if cc := s.live(y, x); cc != nil {
				w.kill(cc)
				if !q() {
					return
				}
			}
			if s.live(x, y) == nil || mode == "left-re" {
				s.cur[k] = w.session(x, y)
				if !q() {
					return
				}
			}
			c := s.live(x, y)
			if c == nil {
				continue
			}
			e, _, attB := w.h.Srv.VerifSessionEpoch(pidS(x), pidS(y))
			_ = attB
			fut, name := c20future(e, o.n)
			r.Count("op_"+o.kind, 1)
			r.Distinct("c20_future_while_partner_absent", o.kind+"/"+mode+"/"+name)
			switch o.kind {
			case "future-alone":
				m := g7sig.Honest(pool[x], payload(), nextSeq(x))
				submitMsg(c, fut, e, m, true, "honest-future-epoch")
			case "ack-future-alone":
				s.unsol++
				w.submitAck(c, fut, e, s.unsol)
			case "clear-future-alone":
				seq := s.lastSent[k]
				if seq == 0 {
					s.unsol++
					seq = s.unsol
				}
				w.submitClear(c, fut, e, seq)
			}
			if !q() {
				return
			}
			if o.kind == "future-alone" {
				// "messages for a session epoch newer than the server's are rejected":
				// demanded for SendMsg (DESIGN 8); acks / clears only must have no effect
				ret, err := c.Returned()
				if !ret || err == nil {
					w.violate("seqno/future-not-rejected", fmt.Sprintf("%s sent a correctly signed message with session_seqno %d (%s) > epoch %d while its partner was not attached (%s) but the call did not end with an error (returned=%v err=%v)", w.cstr(c), fut, name, e, mode, ret, err))
				} else {
					r.Count("future_seqno_rejected_while_partner_absent", 1)
				}
			} else if ret, err := c.Returned(); ret && err != nil {
				r.Count("future_seqno_on_ack_or_clear_rejected_while_partner_absent", 1)
			} else {
				r.Count("future_seqno_on_ack_or_clear_ignored_while_partner_absent", 1)
			}
			continue
		}
		if !s.ensure(x, y) {
			r.Case(sig, false)
			return
		}
		c := s.live(x, y)
		if c == nil {
			continue
		}
		e, _, _ := w.h.Srv.VerifSessionEpoch(pidS(x), pidS(y))
		if !strings.HasPrefix(o.kind, "wire:") && !strings.HasPrefix(o.kind, "attr:") {
			r.Count("op_"+o.kind, 1) // the two matrix families are counted as Distinct cells instead
		}
		if strings.HasPrefix(o.kind, "wire:") {
			// field-presence sequence first>second on the stream c
			r.Count("op_wire", 1)
			spec := strings.TrimPrefix(o.kind, "wire:")
			burst := strings.HasSuffix(spec, "/burst")
			spec = strings.TrimSuffix(spec, "/burst")
			fs := strings.SplitN(spec, ">", 2)
			r.Distinct("c20_wire_first_x_second", spec)
			hostile++
			lastRecv := func() (uint64, bool) {
				var seq uint64
				found := false
				for _, it := range c.Outbox() {
					if it.Kind == "recv" {
						seq, found = it.U, true
					}
				}
				return seq, found
			}
			switch fs[0] {
			case "send", "send2":
				for i := 0; i < len(fs[0])-3; i++ {
					m := g7sig.Honest(pool[x], payload(), nextSeq(x))
					s.lastSent[k] = m.Seqno
					submitMsg(c, e, e, m, true, "honest")
				}
			case "ack":
				if seq, ok := lastRecv(); ok {
					w.submitAck(c, e, e, seq)
					s.acked[k] = append(s.acked[k], seq)
				} else {
					s.unsol++
					w.submitAck(c, e, e, s.unsol)
				}
			case "clear":
				if s.lastSent[k] != 0 {
					w.submitClear(c, e, e, s.lastSent[k])
				} else {
					s.unsol++
					w.submitClear(c, e, e, s.unsol)
				}
			}
			if burst {
				r.Count("c20_wire_burst", 1)
			} else {
				if !w.quiesce() {
					r.Case(sig, false)
					return
				}
				if c = s.live(x, y); c == nil {
					continue
				}
				e, _, _ = w.h.Srv.VerifSessionEpoch(pidS(x), pidS(y))
			}
			fresh := func() *signaling.SessionMsg { return g7sig.Honest(pool[x], payload(), nextSeq(x)) }
			switch fs[1] {
			case "send-sess0":
				submitMsg(c, 0, e, fresh(), true, "honest-stale-epoch")
			case "send-stale":
				submitMsg(c, uint64(o.n)%e, e, fresh(), true, "honest-stale-epoch")
			case "send-msgseq0":
				// authentic and current; only the message's own seqno is the zero value
				submitMsg(c, e, e, g7sig.Honest(pool[x], payload(), 0), true, "honest-msg-seqno-0")
			case "send-nosig":
				m := fresh()
				m.SignedMsg.Signature = nil
				submitMsg(c, e, e, m, false, "unsigned")
			case "send-nodata":
				m := fresh()
				m.SignedMsg.Data = nil
				submitMsg(c, e, e, m, false, "empty-data")
			case "send-nofrom":
				m := fresh()
				m.SignedMsg.FromPeerId = ""
				submitMsg(c, e, e, m, false, "no-sender")
			case "send-nohash":
				m := fresh()
				m.SignedMsg.Signature.HashType = 0
				submitMsg(c, e, e, m, false, "hash-type-0")
			case "send-nosigdata":
				m := fresh()
				m.SignedMsg.Signature.SigData = nil
				submitMsg(c, e, e, m, false, "empty-signature")
			case "send-empty":
				submitMsg(c, e, e, &signaling.SessionMsg{}, false, "empty-message")
			case "send-seqonly":
				submitMsg(c, e, e, &signaling.SessionMsg{Seqno: nextSeq(x)}, false, "empty-message")
			case "send-emptysigned":
				submitMsg(c, e, e, &signaling.SessionMsg{SignedMsg: &peer.SignedMsg{}, Seqno: nextSeq(x)}, false, "empty-message")
			case "send-nil":
				submitMsg(c, e, e, nil, false, "nil-message")
			case "ack-sess0":
				if seq, ok := lastRecv(); ok {
					w.submitAck(c, 0, e, seq)
				} else {
					s.unsol++
					w.submitAck(c, 0, e, s.unsol)
				}
			case "ack0-sess0":
				w.submitAck(c, 0, e, 0)
			case "clear-sess0":
				if s.lastSent[k] != 0 {
					w.submitClear(c, 0, e, s.lastSent[k])
				} else {
					w.submitClear(c, 0, e, 0)
				}
			case "empty-packet":
				c.SubmitWire(&signaling.SessionRequest{}, nil)
				w.logf("%s submits a zero-length packet", w.cstr(c))
			case "seqno-only":
				c.Submit(&signaling.SessionRequest{SessionSeqno: e})
				w.logf("%s submits a request with session_seqno=%d and no body", w.cstr(c), e)
			default:
				panic("unknown wire kind " + o.kind)
			}
			if !w.quiesce() {
				r.Case(sig, false)
				return
			}
			continue
		}
		if strings.HasPrefix(o.kind, "attr:") {
			// attribution matrix: claimed sender x real signer x pub_key field
			r.Count("op_attr", 1)
			p := strings.Split(strings.TrimPrefix(o.kind, "attr:"), "/")
			who := func(n string) *keys.Identity {
				switch n {
				case "self":
					return pool[x]
				case "other":
					return pool[z]
				case "x":
					return extra[0]
				case "x2":
					return extra[1]
				}
				panic("unknown identity " + n)
			}
			signer := who(p[1])
			var pub []byte
			switch p[2] {
			case "none":
			case "signer":
				pub = g7sig.PubKeyBytes(signer)
			case "garbage":
				pub = g7sig.PubKeyBytes(signer)
				switch o.n % 3 {
				case 0:
					pub = pub[:1+o.n%(len(pub)-1)]
				case 1:
					pub[0] ^= 0x7f
				case 2:
					pub = []byte{byte(o.n), byte(o.n >> 8)}
				}
			default:
				pub = g7sig.PubKeyBytes(who(p[2]))
			}
			data := payload()
			if len(p) > 3 && p[3] == "old" {
				if l := s.histCall[c]; len(l) > 0 {
					data = append([]byte(nil), l[len(l)-1].GetSignedMsg().GetData()...)
					r.Count("c20_attr_over_accepted_payload", 1)
				}
			}
			honest := c20attrHonest(o.kind)
			m := g7sig.Attributed(who(p[0]).String(), signer, pub, data, nextSeq(x))
			cell := strings.Join(p[:3], "/")
			r.Distinct("c20_attr_from_x_signer_x_pubkey", cell)
			if honest {
				submitMsg(c, e, e, m, true, "honest-attr:"+cell)
			} else {
				hostile++
				submitMsg(c, e, e, m, false, "forged-attr:"+cell)
				if p[0] == "self" && p[2] == "signer" {
					r.Count("c20_attr_claims_self_foreign_signer_with_its_pubkey", 1)
				}
			}
			if !w.quiesce() {
				r.Case(sig, false)
				return
			}
			continue
		}
		if strings.HasPrefix(o.kind, "hist") {
			// a submission derived from a message the server accepted earlier from x:
			// scope (bits 4-5 of n) = this call / any call x->y / any call of x;
			// source (bits 6-7) = latest, previous-but-one, third-latest of that scope
			hostile++
			scope := []string{"call", "call", "pair", "sender"}[(o.n>>4)&3]
			pick := func() []*signaling.SessionMsg {
				switch scope {
				case "pair":
					if l := s.histPair[c.Src+"|"+c.Dst]; len(l) > 0 {
						return l
					}
				case "sender":
					if l := s.histSrc[c.Src]; len(l) > 0 {
						return l
					}
				}
				scope = "call"
				return s.histCall[c]
			}
			list := pick()
			if len(list) == 0 {
				// nothing accepted yet: first an honest message on this call
				m := g7sig.Honest(pool[x], payload(), nextSeq(x))
				s.lastSent[k] = m.Seqno
				submitMsg(c, e, e, m, true, "honest")
				if !w.quiesce() {
					r.Case(sig, false)
					return
				}
				if c = s.live(x, y); c == nil {
					continue
				}
				list = s.histCall[c]
			}
			back := 1 + (o.n>>6)&3%3
			if back > len(list) {
				back = len(list)
			}
			i := len(list) - back
			h, h2 := list[i], list[i]
			if i > 0 {
				h2 = list[i-1]
			} else if i+1 < len(list) {
				h2 = list[i+1]
			}
			seq := h.Seqno
			if (o.n>>3)&1 == 1 {
				seq = nextSeq(x)
			}
			dist := len(s.histCall[c]) // authentic messages on this call since (and including) the source
			r.Distinct("c20_hist_kind_x_scope_x_back", fmt.Sprintf("%s/%s/back%d", o.kind, scope, back))
			switch o.kind {
			case "hist-replay":
				submitMsg(c, e, e, h.CloneVT(), true, "honest-replay-of-own")
			case "hist-replay-newseq":
				m := h.CloneVT()
				m.Seqno = nextSeq(x)
				submitMsg(c, e, e, m, true, "honest-replay-of-own-new-seqno")
			default:
				m := g7sig.Derive(o.kind[5:], h, h2, pool[x], pool[z], payload(), seq, o.n)
				submitMsg(c, e, e, m, false, "derived/"+o.kind[5:])
				r.Count("derived_from_accepted_submitted", 1)
				if scope == "call" && dist > 0 {
					r.Count("derived_from_accepted_on_same_call", 1)
				}
			}
			if !w.quiesce() {
				r.Case(sig, false)
				return
			}
			continue
		}
		switch o.kind {
		case "send":
			m := g7sig.Honest(pool[x], payload(), nextSeq(x))
			s.lastSent[k] = m.Seqno
			submitMsg(c, e, e, m, true, "honest")
		case "stale":
			hostile++
			m := g7sig.Honest(pool[x], payload(), nextSeq(x))
			submitMsg(c, uint64(o.n)%e, e, m, true, "honest-stale-epoch")
		case "future":
			hostile++
			m := g7sig.Honest(pool[x], payload(), nextSeq(x))
			fut, name := c20future(e, o.n)
			r.Distinct("c20_future_session_seqno", name)
			submitMsg(c, fut, e, m, true, "honest-future-epoch")
		case "foreign":
			hostile++
			m := g7sig.Honest(pool[z], payload(), nextSeq(x))
			submitMsg(c, e, e, m, false, "foreign-signed")
		case "replay":
			hostile++
			// a valid message another client really sent earlier, if any; else a fresh one of z
			var m *signaling.SessionMsg
			var best int64
			for _, recs := range w.subs {
				for _, rec := range recs {
					if rec.honest && rec.call.Src != pidS(x) && (m == nil || rec.clock < best) {
						m, best = rec.msg.CloneVT(), rec.clock
					}
				}
			}
			if m == nil {
				m = g7sig.Honest(pool[z], payload(), nextSeq(x))
			}
			submitMsg(c, e, e, m, false, "replay-of-other-client")
		case "badsig":
			hostile++
			m := g7sig.Honest(pool[z], payload(), nextSeq(x))
			m.SignedMsg.FromPeerId = peer.IDB58Encode(pool[x].ID)
			if z == x {
				m.SignedMsg.Signature.SigData[0] ^= 1
			}
			submitMsg(c, e, e, m, false, "claims-self-signed-by-other")
		case "tamper-data":
			hostile++
			m := g7sig.Honest(pool[x], payload(), nextSeq(x))
			m.SignedMsg.Data[o.n%len(m.SignedMsg.Data)] ^= 0x20
			submitMsg(c, e, e, m, false, "tampered-data")
		case "tamper-sig":
			hostile++
			m := g7sig.Honest(pool[x], payload(), nextSeq(x))
			sd := m.SignedMsg.Signature.SigData
			sd[o.n%len(sd)] ^= 1 << (o.n % 8)
			submitMsg(c, e, e, m, false, "tampered-signature")
		case "unsigned":
			hostile++
			m := g7sig.Honest(pool[x], payload(), nextSeq(x))
			m.SignedMsg.Signature = nil
			submitMsg(c, e, e, m, false, "unsigned")
		case "emptysig":
			hostile++
			m := g7sig.Honest(pool[x], payload(), nextSeq(x))
			m.SignedMsg.Signature.SigData = nil
			submitMsg(c, e, e, m, false, "empty-signature")
		case "hash0":
			hostile++
			m := g7sig.Honest(pool[x], payload(), nextSeq(x))
			m.SignedMsg.Signature.HashType = 0
			submitMsg(c, e, e, m, false, "hash-type-0")
		case "otherctx":
			hostile++
			m := g7sig.OtherContext(pool[x], payload(), nextSeq(x))
			submitMsg(c, e, e, m, false, "other-signing-context")
		case "nilmsg":
			hostile++
			submitMsg(c, e, e, nil, false, "nil-message")
		case "emptydata":
			hostile++
			m := g7sig.Honest(pool[x], payload(), nextSeq(x))
			m.SignedMsg.Data = nil
			submitMsg(c, e, e, m, false, "empty-data")
		case "send-bigseq":
			// authentic and current; the message's own seqno is a boundary value
			seq, name := c20bigSeq(o.n)
			m := g7sig.Honest(pool[x], payload(), seq)
			s.lastSent[k] = m.Seqno
			r.Distinct("c20_message_seqno_boundary", name)
			submitMsg(c, e, e, m, true, "honest")
		case "ack-near", "ack-future":
			hostile++
			var seq uint64
			found := false
			for _, it := range c.Outbox() {
				if it.Kind == "recv" {
					seq, found = it.U, true
				}
			}
			if o.kind == "ack-future" {
				if !found {
					s.unsol++
					seq = s.unsol
				}
				fut, name := c20future(e, o.n)
				r.Distinct("c20_future_session_seqno_on_ack", name)
				w.submitAck(c, fut, e, seq) // not for the current epoch: explains nothing
				break
			}
			if !found {
				seq, _ = c20bigSeq(o.n >> 4)
			}
			near, name := c20near(seq, o.n)
			r.Distinct("c20_near_miss_ack", name)
			if found {
				r.Count("near_miss_acks_of_a_delivered_message", 1)
			}
			w.submitAck(c, e, e, near)
		case "clear-near", "clear-future":
			hostile++
			seq := s.lastSent[k]
			if o.kind == "clear-future" {
				fut, name := c20future(e, o.n)
				r.Distinct("c20_future_session_seqno_on_clear", name)
				w.submitClear(c, fut, e, seq)
				break
			}
			if seq == 0 {
				seq, _ = c20bigSeq(o.n >> 4)
			}
			near, name := c20near(seq, o.n)
			r.Distinct("c20_near_miss_clear", name)
			w.submitClear(c, e, e, near)
		case "ack-issue":
			// the client behind c answers the latest delivery with an ack that stays in
			// flight (ack-land puts it on the wire later)
			var last *g7sig.Item
			for _, it := range c.Outbox() {
				if it.Kind == "recv" {
					cp := it
					last = &cp
				}
			}
			kind, told := c.LastOpen()
			if last == nil || kind != "opened" {
				continue
			}
			var ans *g7sig.Call
			var best int64 = -1
			for _, rec := range w.subs[string(last.Msg.GetSignedMsg().GetData())] {
				if rec.call.Src == c.Dst && rec.call.Dst == c.Src && rec.clock < last.Clock && rec.clock > best {
					ans, best = rec.call, rec.clock
				}
			}
			if ans == nil {
				continue
			}
			s.inflight[k] = &pendAck{q: c, seq: last.U, sess: told, issue: w.h.Tick(), answers: ans}
			w.logf("%s issues AckMsg(%d) session_seqno=%d in answer to the message of %s; it stays in flight", w.cstr(c), last.U, told, w.cstr(ans))
			r.Count("late_acks_issued", 1)
			continue
		case "ack-land":
			p := s.inflight[k]
			delete(s.inflight, k)
			if p == nil {
				continue
			}
			if ret, _ := p.q.Returned(); ret || p.q.Killed() {
				r.Count("late_acks_lost_with_their_stream", 1)
				continue
			}
			hostile++
			clk := p.q.Submit(g7sig.ReqAck(p.sess, p.seq))
			if w.lateAcks[p.q] == nil {
				w.lateAcks[p.q] = map[uint64][]lateAck{}
			}
			w.lateAcks[p.q][p.seq] = append(w.lateAcks[p.q][p.seq], lateAck{issue: p.issue, submit: clk, answers: p.answers})
			w.logf("the in-flight AckMsg(%d) session_seqno=%d of %s reaches the server (epoch %d)", p.seq, p.sess, w.cstr(p.q), e)
			r.Count("late_acks_landed", 1)
			if ret, _ := p.answers.Returned(); ret || s.cur[[2]int{y, x}] != p.answers {
				r.Count("late_acks_landed_after_sender_was_replaced", 1)
				for _, it := range p.q.Outbox() {
					if it.Kind == "recv" && it.U == p.seq && it.Clock > p.issue {
						r.Count("late_acks_landed_after_new_incarnation_delivered_same_seqno", 1)
						break
					}
				}
			}
		case "ack":
			var seq uint64
			found := false
			for _, it := range c.Outbox() {
				if it.Kind == "recv" {
					seq, found = it.U, true
				}
			}
			if !found {
				continue
			}
			w.submitAck(c, e, e, seq)
			s.acked[k] = append(s.acked[k], seq)
		case "ack-unsol":
			hostile++
			s.unsol++
			w.submitAck(c, e, e, s.unsol)
		case "ack-dup":
			hostile++
			if len(s.acked[k]) == 0 {
				s.unsol++
				w.submitAck(c, e, e, s.unsol)
			} else {
				w.submitAck(c, e, e, s.acked[k][o.n%len(s.acked[k])])
			}
		case "clear":
			if s.lastSent[k] == 0 {
				continue
			}
			w.submitClear(c, e, e, s.lastSent[k])
		case "clear-unsol":
			hostile++
			s.unsol++
			w.submitClear(c, e, e, s.unsol)
		case "init-again":
			hostile++
			c.Submit(g7sig.ReqInit(e, pidS(y)))
			w.logf("%s submits a second Init", w.cstr(c))
		case "nilbody":
			hostile++
			c.Submit(&signaling.SessionRequest{SessionSeqno: e})
			w.logf("%s submits a request without body", w.cstr(c))
		}
		if !w.quiesce() {
			r.Case(sig, false)
			return
		}
		if o.kind == "future" {
			ret, err := c.Returned()
			if !ret || err == nil {
				fut, name := c20future(e, o.n)
				w.violate("seqno/future-not-rejected", fmt.Sprintf("%s sent a correctly signed message with session_seqno %d (%s) > epoch %d but the call did not end with an error (returned=%v err=%v)", w.cstr(c), fut, name, e, ret, err))
			} else {
				r.Count("future_seqno_rejected", 1)
			}
		}
	}
	fw := w.checkForward()
	r.Count("forwarded_honest", fw)
	r.Case(sig, fw > 0 && hostile > 0)
	if idx < 3 {
		r.Sample(map[string]any{"program": sig, "history": w.dump()})
	}
}

// submitAck submits AckMsg(seq) with session_seqno sess while the server's
// epoch is epoch. Only an ack for the CURRENT epoch can explain an AckMsg the
// server later sends to the partner: a request for an older epoch must have no
// effect.
func (w *world) submitAck(c *g7sig.Call, sess, epoch, seq uint64) {
	clk := c.Submit(g7sig.ReqAck(sess, seq))
	if sess == epoch {
		if w.acksSub[c] == nil {
			w.acksSub[c] = map[uint64][]int64{}
		}
		w.acksSub[c][seq] = append(w.acksSub[c][seq], clk)
	} else {
		w.r.Count("acks_submitted_for_older_epoch", 1)
	}
	w.logf("%s submits AckMsg(%d) session_seqno=%d (epoch %d)", w.cstr(c), seq, sess, epoch)
	w.r.Count("acks_submitted", 1)
}

// submitClear: as submitAck, for ClearMsg.
func (w *world) submitClear(c *g7sig.Call, sess, epoch, seq uint64) {
	clk := c.Submit(g7sig.ReqClear(sess, seq))
	if sess == epoch {
		if w.clearSub[c] == nil {
			w.clearSub[c] = map[uint64][]int64{}
		}
		w.clearSub[c][seq] = append(w.clearSub[c][seq], clk)
	} else {
		w.r.Count("clears_submitted_for_older_epoch", 1)
	}
	w.logf("%s submits ClearMsg(%d) session_seqno=%d (epoch %d)", w.cstr(c), seq, sess, epoch)
	w.r.Count("clears_submitted", 1)
}

// checkForward validates every RecvMsg / AckMsg / ClearMsg the server emitted
// against the harness' ground truth. Returns the number of honest messages
// forwarded correctly.
func (w *world) checkForward() (forwardedOK int) {
	calls := w.h.Calls()
	// every forward needs its OWN submission: per directed pair and exact message
	// bytes, the server may not forward more often than an authentic copy was
	// submitted for the then-current epoch (a pending message is handed to the
	// partner's stream at most once)
	type fkey struct{ src, dst, enc string }
	enc := func(m *signaling.SessionMsg) string {
		if d := m.GetSignedMsg().GetData(); len(d) > 64<<10 {
			// large payloads: everything but the payload, plus its digest
			h := sha256.Sum256(d)
			sm := m.GetSignedMsg()
			cp := &signaling.SessionMsg{Seqno: m.GetSeqno(), SignedMsg: &peer.SignedMsg{FromPeerId: sm.GetFromPeerId(), Signature: sm.GetSignature(), Data: h[:]}}
			b, _ := cp.MarshalVT()
			return fmt.Sprintf("large:%d:%s", len(d), b)
		}
		b, _ := m.MarshalVT()
		return string(b)
	}
	nSub, nFwd := map[fkey]int{}, map[fkey]int{}
	for _, recs := range w.subs {
		for _, rec := range recs {
			if rec.honest && rec.sessSeqno == rec.epochAt {
				nSub[fkey{rec.call.Src, rec.call.Dst, enc(rec.msg)}]++
			}
		}
	}
	for _, c := range calls {
		if c.Listen {
			continue
		}
		for _, it := range c.Outbox() {
			if it.Kind == "recv" {
				nFwd[fkey{c.Dst, c.Src, enc(it.Msg)}]++
			}
		}
	}
	for k, f := range nFwd {
		if sub := nSub[k]; sub > 0 && f > sub {
			w.violate("forward/more-often-than-submitted", fmt.Sprintf("%s->%s: one message was forwarded %d times but an authentic copy for the current epoch was submitted only %d time(s)", w.nick(k.src), w.nick(k.dst), f, sub))
		} else if sub > 0 {
			w.r.Count("c20_forward_multiplicity_checked", 1)
		}
	}
	for _, c := range calls {
		if c.Listen {
			continue
		}
		out := c.Outbox()
		for i, it := range out {
			switch it.Kind {
			case "recv":
				w.r.Count("c20_recv_checked", 1)
				recs := w.subs[string(it.Msg.GetSignedMsg().GetData())]
				if len(recs) == 0 {
					w.violate("forward/unknown-message", fmt.Sprintf("%s received a message (seq %d) nobody submitted", w.cstr(c), it.U))
					continue
				}
				var onSess, honest, epochOK, same, inEpoch bool
				cls := ""
				// the announcement this RecvMsg directly follows in the outbox
				annKind, annVal := "", uint64(0)
				for _, it2 := range out[:i] {
					if it2.Kind == "opened" || it2.Kind == "closed" {
						annKind, annVal = it2.Kind, it2.U
					}
				}
				var subFor []uint64
				for _, rec := range recs {
					if rec.call.Src != c.Dst || rec.call.Dst != c.Src || rec.clock >= it.Clock {
						continue
					}
					onSess = true
					cls = rec.class
					if !rec.honest {
						continue
					}
					honest = true
					if rec.sessSeqno != rec.epochAt {
						continue
					}
					epochOK = true
					if rec.msg.EqualVT(it.Msg) {
						same = true
					}
					subFor = append(subFor, rec.sessSeqno)
					if annKind == "opened" && annVal == rec.sessSeqno {
						inEpoch = true
					}
				}
				switch {
				case !onSess:
					w.violate("forward/wrong-recipient", fmt.Sprintf("%s received message seq %d that was submitted only on %s", w.cstr(c), it.U, w.cstr(recs[0].call)))
				case !honest:
					w.violate("forward/dishonest/"+cls, fmt.Sprintf("%s received a %s message (seq %d)", w.cstr(c), cls, it.U))
				case !epochOK:
					w.violate("forward/wrong-epoch", fmt.Sprintf("%s received message seq %d that was submitted for another epoch (%s)", w.cstr(c), it.U, cls))
				case !same:
					w.violate("forward/altered", fmt.Sprintf("%s received message seq %d altered by the relay", w.cstr(c), it.U))
				case !inEpoch:
					// "no message submitted in one epoch is delivered in a later epoch": the
					// recipient is in the epoch it was last told
					w.violate("forward/in-other-epoch", fmt.Sprintf("%s received message seq %d (%d bytes) submitted for epoch %v while the last announcement on its stream was %s(%d)", w.cstr(c), it.U, len(it.Msg.GetSignedMsg().GetData()), subFor, annKind, annVal))
				default:
					w.r.Count("c20_recv_under_its_epoch", 1)
					forwardedOK++
				}
			case "ack":
				// c = P->Q was told "your message U was acked"
				w.r.Count("c20_ack_checked", 1)
				ok := false
				nAck := 0
				for _, it2 := range out[:i+1] {
					if it2.Kind == "ack" && it2.U == it.U {
						nAck++
					}
				}
				deliveries := 0
				for _, q := range calls {
					if q.Listen || q.Src != c.Dst || q.Dst != c.Src {
						continue
					}
					for _, qi := range q.Outbox() {
						if qi.Kind != "recv" || qi.U != it.U || qi.Clock >= it.Clock {
							continue
						}
						// delivered message must be one P submitted on c
						mine := false
						for _, rec := range w.subs[string(qi.Msg.GetSignedMsg().GetData())] {
							if rec.call == c {
								mine = true
							}
						}
						if !mine {
							continue
						}
						deliveries++
						for _, ak := range w.acksSub[q][it.U] {
							if ak > qi.Clock && ak < it.Clock {
								ok = true
							}
						}
					}
					// an ack that was in flight: it answers one particular delivery and can
					// only acknowledge a message of the call that submitted THAT message
					for _, la := range w.lateAcks[q][it.U] {
						if la.answers == c && la.submit < it.Clock {
							ok = true
						}
					}
				}
				if !ok || nAck > deliveries {
					note := ""
					for _, q := range calls {
						for _, la := range w.lateAcks[q][it.U] {
							if la.answers != c && la.submit < it.Clock {
								note = fmt.Sprintf("; an AckMsg(%d) of %s that had been in flight since it answered a message of %s (a previous call of that peer) reached the server before", it.U, w.cstr(q), w.cstr(la.answers))
							}
						}
					}
					w.violate("ack/unsolicited", fmt.Sprintf("%s was told AckMsg(%d) but the partner never acknowledged a delivery of that message on this call (deliveries=%d, acks told=%d)%s", w.cstr(c), it.U, deliveries, nAck, note))
				} else {
					w.r.Count("c20_ack_explained", 1)
				}
			case "clear":
				// c = Q->P was told "message U you received is withdrawn"
				w.r.Count("c20_clear_checked", 1)
				ok := false
				for _, it2 := range out[:i] {
					if it2.Kind != "recv" || it2.U != it.U {
						continue
					}
					for _, p := range calls {
						if p.Listen || p.Src != c.Dst || p.Dst != c.Src {
							continue
						}
						for _, ck := range w.clearSub[p][it.U] {
							if ck > it2.Clock && ck < it.Clock {
								ok = true
							}
						}
					}
				}
				if !ok {
					w.violate("clear/unsolicited", fmt.Sprintf("%s was told ClearMsg(%d) for a message that was not delivered to it and then cleared by its sender", w.cstr(c), it.U))
				} else {
					w.r.Count("c20_clear_explained", 1)
				}
			}
		}
	}
	return
}
