package sigsrv

import (
	"fmt"
	"math/rand/v2"
	"runtime"
	"sync"
	"time"

	"github.com/aperturerobotics/bifrost/hash"
	signaling "github.com/aperturerobotics/bifrost/signaling/rpc"
	"verifharness/g7sig"
	"verifharness/keys"
	"verifharness/vf"
)

// Sixth family of C20 cases: the session epoch changes WHILE the server is
// still working on a submitted message. An honest, correctly signed message
// with a LARGE payload (sized at start so that checking its signature takes
// measurably long on this machine) is submitted for the current epoch e; as
// soon as the server's Recv has taken the request (or right away), after a PRNG
// number of scheduler yields, the partner re-attaches (new call while the old
// one is still registered) / detaches and attaches again / detaches / re-attaches
// twice, or the sender itself re-attaches. Nothing is waited for in between; the
// instance is quiescent only before the submission and after the change. The
// message may be delivered to the partner's OLD attachment (under Opened(e)) or
// be dropped, never appear behind Opened(e') with e' != e.

type c20raceCase struct {
	x, y     int
	action   string // see c20raceActions
	wait     bool   // wait until the server's Recv has taken the big request
	yields   int
	deferred bool // the new call is already parked in its first Recv: its Init registers it at once
	warm     bool // a small message is delivered first (stays un-acknowledged), and the follow-up message is acknowledged
	big      int  // index of the prepared large message
}

func (c c20raceCase) String() string {
	return fmt.Sprintf("race %d->%d %s wait=%v yields=%d deferred=%v warm=%v big#%d", c.x, c.y, c.action, c.wait, c.yields, c.deferred, c.warm, c.big)
}

var c20raceActions = []string{"partner-reattach", "partner-reattach", "partner-reattach", "partner-detach-attach", "partner-detach-attach", "partner-detach", "partner-reattach-twice", "own-reattach"}

func genC20Race(rng *rand.Rand, nBig int) c20raceCase {
	c := c20raceCase{x: rng.IntN(3), action: c20raceActions[rng.IntN(len(c20raceActions))]}
	c.y = (c.x + 1 + rng.IntN(2)) % 3
	c.wait = rng.IntN(10) < 8
	switch rng.IntN(4) {
	case 0:
		c.yields = 0
	case 1:
		c.yields = rng.IntN(4)
	case 2:
		c.yields = rng.IntN(32)
	default:
		c.yields = rng.IntN(400)
	}
	c.deferred = rng.IntN(4) > 0
	c.warm = rng.IntN(3) == 0
	c.big = rng.IntN(nBig)
	return c
}

// c20big is a prepared large honest message (shared by all cases, never modified).
type c20big struct {
	sender int
	msg    *signaling.SessionMsg
	key    string   // its payload as a string (built once)
	wires  sync.Map // session_seqno -> marshalled SendMsg request (built once per epoch value)
}

var c20verifySink any

// c20calibrate picks the payload size: the smallest power of two between 128
// KiB and maxKiB for which verifying one honest message takes at least target.
// The clock only sizes the WORKLOAD; no verdict depends on it. (Payloads are
// zero pages behind a unique prefix: under the race detector every freshly
// written MiB costs far more than hashing it.)
func c20calibrate(id *keys.Identity, target time.Duration, maxKiB int) (size int, took, tookSmall time.Duration) {
	verify := func(m *signaling.SessionMsg) time.Duration {
		best := time.Duration(1 << 62)
		for k := 0; k < 3; k++ {
			t0 := time.Now()
			pk, pid, err := m.ExtractAndVerify()
			d := time.Since(t0)
			c20verifySink = []any{pk, pid, err}
			if err != nil {
				panic("calibration message does not verify: " + err.Error())
			}
			if d < best {
				best = d
			}
		}
		return best
	}
	tookSmall = verify(g7sig.Honest(id, []byte("calibration"), 1))
	for kib := 128; ; kib *= 2 {
		payload := make([]byte, kib<<10)
		copy(payload, "calibration")
		best := verify(g7sig.Honest(id, payload, 1))
		if best >= target || kib >= maxKiB {
			return kib << 10, best, tookSmall
		}
	}
}

func runC20RaceFamily(r *vf.Run, pool []*keys.Identity) {
	n := r.N(40, 160)
	maxKiB := r.N(1<<10, 2<<10)
	target := time.Duration(r.N(1000, 2000)) * time.Microsecond
	size, took, tookSmall := c20calibrate(pool[0], target, maxKiB)
	r.Extra("c20_race_payload", map[string]any{"bytes": size, "verification_of_one_large_message_ns": took.Nanoseconds(), "verification_of_a_small_message_ns": tookSmall.Nanoseconds(),
		"rule": fmt.Sprintf("smallest power of two (128 KiB .. %d KiB) whose signature verification takes >= %v in this binary on this machine (workload sizing only; under the race detector every freshly written MiB costs ~100x its hashing time here, hence the small quick-tier sizes)", maxKiB, target)})
	rng := r.Rand("c20-race")
	// two prepared messages per sender, with different hash types
	var bigs []*c20big
	for s := 0; s < 3; s++ {
		for k, ht := range []hash.HashType{hash.HashType_HashType_BLAKE3, hash.HashType_HashType_SHA256} {
			payload := make([]byte, size+k*4096+s)
			copy(payload, fmt.Sprintf("big|sender%d|%d|%d", s, k, rng.Uint64()))
			b := &c20big{sender: s, msg: g7sig.HonestHash(pool[s], ht, payload, uint64(1000+k))}
			b.key = string(payload)
			bigs = append(bigs, b)
		}
	}
	cases := make([]c20raceCase, n)
	for i := range cases {
		cases[i] = genC20Race(rng, 2)
	}
	var mu sync.Mutex
	overlapped := 0
	runParallel(n, 8, func(i int) {
		if i%8 == 0 {
			r.Begin(fmt.Sprintf("batch around race case %d: %s", i, cases[i]))
		}
		if runC20Race(r, pool, bigs, i, cases[i]) {
			mu.Lock()
			overlapped++
			mu.Unlock()
		}
	})
	r.Count("c20_race_cases_epoch_changed_while_message_in_work", overlapped)
}

// runC20Race runs one case; reports whether the epoch change was observed to
// complete while the server was still working on the big message.
func runC20Race(r *vf.Run, pool []*keys.Identity, bigs []*c20big, idx int, rc c20raceCase) (overlap bool) {
	sig := rc.String()
	w := newWorld(r, fmt.Sprintf("c20race#%d[%s]", idx, sig), pool)
	defer w.end()
	x, y := rc.x, rc.y
	px, py := pool[x].String(), pool[y].String()
	fail := func() bool { r.Case(sig, false); return false }
	small := func(c *g7sig.Call, e uint64) *signaling.SessionMsg {
		w.nPayload++
		w.msgSeq[px]++
		m := g7sig.Honest(pool[x], []byte(fmt.Sprintf("%s|m%d", w.name, w.nPayload)), w.msgSeq[px])
		clk := c.Submit(g7sig.ReqSend(e, m))
		key := string(m.GetSignedMsg().GetData())
		w.subs[key] = append(w.subs[key], &subRec{call: c, clock: clk, sessSeqno: e, epochAt: e, epochOK: true, msg: m.CloneVT(), honest: true, class: "honest"})
		w.logf("%s submits SendMsg[honest](seq %d) session_seqno=%d (epoch %d)", w.cstr(c), m.GetSeqno(), e, e)
		return m
	}
	ackLast := func(q *g7sig.Call, e uint64) {
		o := q.Outbox()
		for i := len(o) - 1; i >= 0; i-- {
			if o[i].Kind == "recv" {
				w.submitAck(q, e, e, o[i].U)
				return
			}
		}
	}
	c := w.session(x, y)
	q := w.session(y, x)
	if !w.quiesce() {
		return fail()
	}
	e, _, _ := w.h.Srv.VerifSessionEpoch(px, py)
	if rc.warm {
		small(c, e)
		if !w.quiesce() {
			return fail()
		}
	}
	// calls that will perform the change
	var fresh []*g7sig.Call
	nFresh := 1
	switch rc.action {
	case "partner-reattach-twice":
		nFresh = 2
	case "partner-detach":
		nFresh = 0
	}
	mk := func() *g7sig.Call {
		src, dst := y, x
		if rc.action == "own-reattach" {
			src, dst = x, y
		}
		if rc.deferred {
			nc := w.h.StartSessionDeferred(pool[src].ID, pool[dst].String())
			w.startGen[nc] = w.gen
			w.logf("start %s (its Init is still to come)", w.cstr(nc))
			return nc
		}
		return nil
	}
	for i := 0; i < nFresh; i++ {
		fresh = append(fresh, mk())
	}
	if rc.deferred && nFresh > 0 {
		if !w.quiesce() { // the deferred calls are parked in their first Recv
			return fail()
		}
	}
	// the big message, stamped with the current epoch
	var big *c20big
	for i := range bigs {
		if bigs[i].sender == x {
			if rc.big == 0 {
				big = bigs[i]
				break
			}
			rc.big--
		}
	}
	req := g7sig.ReqSend(e, big.msg)
	var wire []byte
	if v, ok := big.wires.Load(e); ok {
		wire = v.([]byte)
	} else {
		b, err := req.MarshalVT()
		if err != nil {
			panic(err)
		}
		v, _ := big.wires.LoadOrStore(e, b)
		wire = v.([]byte)
	}
	clk := c.SubmitShared(req, wire)
	key := big.key
	w.subs[key] = append(w.subs[key], &subRec{call: c, clock: clk, sessSeqno: e, epochAt: e, epochOK: true, msg: big.msg, honest: true, class: "honest-large"})
	w.logf("%s submits SendMsg[honest, %d bytes](seq %d) session_seqno=%d (epoch %d)", w.cstr(c), len(key), big.msg.GetSeqno(), e, e)
	r.Count("submitted_honest_large", 1)
	bigIdx := c.Submitted()
	// a request behind it that changes nothing: once the server takes it, it is done with the big one
	w.submitAck(c, e, e, 1<<41+uint64(idx))
	if rc.wait {
		start := time.Now()
		for c.Consumed() < bigIdx {
			if time.Since(start) > g7sig.Watchdog {
				w.inconcl = true
				r.Inconclusive(w.name + ": the server never took the large request")
				return fail()
			}
			runtime.Gosched()
		}
	}
	for i := 0; i < rc.yields; i++ {
		runtime.Gosched()
	}
	// the change, nothing awaited in between
	attach := func(i int) {
		if rc.deferred {
			fresh[i].SubmitInit()
			w.logf("%s sends its Init", w.cstr(fresh[i]))
			return
		}
		if rc.action == "own-reattach" {
			fresh[i] = w.session(x, y)
		} else {
			fresh[i] = w.session(y, x)
		}
	}
	switch rc.action {
	case "partner-reattach", "own-reattach":
		attach(0)
	case "partner-reattach-twice":
		attach(0)
		attach(1)
	case "partner-detach-attach":
		w.kill(q)
		attach(0)
	case "partner-detach":
		w.kill(q)
	}
	r.Count("c20_race_"+rc.action, 1)
	// evidence: did the change complete while the message was still in work?
	{
		start := time.Now()
		for {
			if e2, _, _ := w.h.Srv.VerifSessionEpoch(px, py); e2 != e {
				break
			}
			if time.Since(start) > g7sig.Watchdog {
				break
			}
			runtime.Gosched()
		}
		overlap = c.Consumed() <= bigIdx // the request behind the big one has not been taken yet
	}
	if !w.quiesce() {
		return fail()
	}
	if overlap {
		r.Count("c20_race_overlap_"+rc.action, 1)
	}
	// afterwards: both attached again, honest traffic in the new epoch
	curX, curY := c, q
	switch rc.action {
	case "own-reattach":
		curX = fresh[0]
	case "partner-detach":
		curY = w.session(y, x)
		if !w.quiesce() {
			return fail()
		}
	default:
		curY = fresh[len(fresh)-1]
	}
	if ret, _ := curX.Returned(); !ret {
		if ret, _ := curY.Returned(); !ret {
			e2, _, _ := w.h.Srv.VerifSessionEpoch(px, py)
			small(curX, e2)
			if !w.quiesce() {
				return fail()
			}
			if rc.warm {
				ackLast(curY, e2)
				if !w.quiesce() {
					return fail()
				}
			}
		}
	}
	fw := w.checkForward()
	r.Count("forwarded_honest", fw)
	delivered := false
	for _, cl := range w.h.Calls() {
		for _, it := range cl.Outbox() {
			if it.Kind == "recv" && len(it.Msg.GetSignedMsg().GetData()) >= 64<<10 {
				delivered = true
			}
		}
	}
	if delivered {
		r.Count("c20_race_large_message_delivered", 1)
	} else {
		r.Count("c20_race_large_message_dropped", 1)
	}
	r.Case(sig, fw > 0 && overlap)
	if idx < 2 {
		r.Sample(map[string]any{"case": sig, "history": w.dump(), "overlap": overlap})
	}
	return overlap
}
