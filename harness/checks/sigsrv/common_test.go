// Package sigsrv holds the monitors for the signaling relay SERVER:
// C20 (forwarding), C22 (epoch announcements), C24 (listener sets),
// C25 (uniqueness of calls, no leftover state). All four drive the real
// signaling_rpc_server.Server through the hand-written streams of g7sig.
package sigsrv

import (
	"errors"
	"fmt"
	"sort"
	"strings"
	"sync"

	signaling "github.com/aperturerobotics/bifrost/signaling/rpc"
	"verifharness/g7sig"
	"verifharness/keys"
	"verifharness/vf"
)

// subRec is what the harness knows about one SendMsg submission (ground truth).
type subRec struct {
	call      *g7sig.Call
	clock     int64
	sessSeqno uint64 // session_seqno field of the request
	epochAt   uint64 // server epoch (hook) at the quiescent point before submission
	epochOK   bool   // epochAt is meaningful (system was quiescent at submission)
	msg       *signaling.SessionMsg
	honest    bool   // signed by the stream identity under the signaling context, claimed sender = identity
	class     string // honest / foreign-signed / bad-sig / tampered / ...
}

// lateAck is an honest acknowledgement that was in flight for a while: the
// client behind call q issued it in answer to one delivery (of a message that
// call answers had submitted), stamped with the epoch it had been told then;
// the harness submitted it on q's stream later.
type lateAck struct {
	issue, submit int64
	answers       *g7sig.Call
}

// world is one server instance plus the harness-side ground truth of one case.
type world struct {
	r    *vf.Run
	name string
	h    *g7sig.Harness
	ids  []*keys.Identity
	log  []string
	gen  int // number of quiescent points reached (start generations)

	startGen map[*g7sig.Call]int
	seenLive map[*g7sig.Call]bool
	misbehav map[*g7sig.Call]string // calls on which the harness sent something illegal
	subs     map[string][]*subRec   // payload -> submissions
	nPayload int
	msgSeq   map[string]uint64 // per sender: message seqno counter
	acksSub  map[*g7sig.Call]map[uint64][]int64
	clearSub map[*g7sig.Call]map[uint64][]int64
	lateAcks map[*g7sig.Call]map[uint64][]lateAck // acks issued in answer to a delivery and submitted later
	viol     int
	inconcl  bool
}

func newWorld(r *vf.Run, name string, ids []*keys.Identity) *world {
	return &world{r: r, name: name, h: g7sig.New(), ids: ids,
		startGen: map[*g7sig.Call]int{}, seenLive: map[*g7sig.Call]bool{}, misbehav: map[*g7sig.Call]string{},
		subs: map[string][]*subRec{}, msgSeq: map[string]uint64{},
		acksSub: map[*g7sig.Call]map[uint64][]int64{}, clearSub: map[*g7sig.Call]map[uint64][]int64{},
		lateAcks: map[*g7sig.Call]map[uint64][]lateAck{}}
}

func (w *world) logf(f string, a ...any) { w.log = append(w.log, fmt.Sprintf(f, a...)) }

func (w *world) idOf(pid string) *keys.Identity {
	for _, i := range w.ids {
		if i.String() == pid {
			return i
		}
	}
	return nil
}

// nick gives a stable short name (P0, P1 ...) for witness readability.
func (w *world) nick(pid string) string {
	for i, id := range w.ids {
		if id.String() == pid {
			return fmt.Sprintf("P%d", i)
		}
	}
	return "?" + pid
}

func (w *world) cstr(c *g7sig.Call) string {
	if c.Listen {
		return fmt.Sprintf("#%d listen(%s)", c.Idx, w.nick(c.Src))
	}
	d := "-"
	if c.Dst != "" {
		d = w.nick(c.Dst)
	}
	return fmt.Sprintf("#%d session(%s->%s)", c.Idx, w.nick(c.Src), d)
}

func (w *world) session(src, dst int) *g7sig.Call {
	c := w.h.StartSession(w.ids[src].ID, w.ids[dst].String())
	w.startGen[c] = w.gen
	w.logf("start %s", w.cstr(c))
	return c
}

func (w *world) listen(src int) *g7sig.Call {
	c := w.h.StartListen(w.ids[src].ID)
	w.startGen[c] = w.gen
	w.logf("start %s", w.cstr(c))
	return c
}

func (w *world) kill(c *g7sig.Call) {
	w.logf("kill %s", w.cstr(c))
	c.Kill()
}

// quiesce waits for quiescence; on watchdog expiry the case is inconclusive.
func (w *world) quiesce() bool {
	ok, why := w.h.Quiesce()
	if !ok {
		w.inconcl = true
		w.r.Inconclusive(fmt.Sprintf("%s: no quiescence within the watchdog (%s); log=%v", w.name, why, w.log))
		return false
	}
	w.gen++
	for _, c := range w.h.Calls() {
		if ret, _ := c.Returned(); !ret {
			w.seenLive[c] = true
		}
	}
	w.logf("quiescent")
	return true
}

func (w *world) end() {
	if !w.h.EndAll() {
		w.inconcl = true
		w.r.Inconclusive(w.name + ": calls did not end within the watchdog")
	}
}

// unreturned session calls src->dst (by peer id strings) with an Init submitted.
func (w *world) liveSessions(src, dst string) []*g7sig.Call {
	var out []*g7sig.Call
	for _, c := range w.h.Calls() {
		if c.Listen || c.Src != src || c.Dst != dst {
			continue
		}
		if ret, _ := c.Returned(); !ret {
			out = append(out, c)
		}
	}
	return out
}

func (w *world) liveListens(src string) []*g7sig.Call {
	var out []*g7sig.Call
	for _, c := range w.h.Calls() {
		if !c.Listen || c.Src != src {
			continue
		}
		if ret, _ := c.Returned(); !ret {
			out = append(out, c)
		}
	}
	return out
}

func (w *world) gated(pid string) bool { return w.h.Gate(pid).Held() }

// dump renders the full observable history of the case for a witness.
func (w *world) dump() map[string]any {
	calls := []map[string]any{}
	for _, c := range w.h.Calls() {
		ret, err := c.Returned()
		es := ""
		if err != nil {
			es = err.Error()
		}
		calls = append(calls, map[string]any{"call": w.cstr(c), "outbox": w.outStrings(c), "returned": ret, "err": es, "killed": c.Killed(), "at_gate": c.AtGate()})
	}
	p, s := w.h.Srv.VerifStateSizes()
	return map[string]any{"case": w.name, "ops": w.log, "calls": calls, "server_peers": p, "server_sessions": s}
}

func (w *world) outStrings(c *g7sig.Call) []string {
	var r []string
	for _, it := range c.Outbox() {
		if it.Kind == "set" || it.Kind == "unset" {
			r = append(r, it.Kind+"("+w.nick(it.Peer)+")")
		} else {
			r = append(r, it.String())
		}
	}
	return r
}

func (w *world) violate(key, what string) {
	w.viol++
	d := w.dump()
	d["what"] = what
	w.r.Violation(key, w.name+": "+what, d)
}

// ---------------------------------------------------------------- C22 oracle

// checkAnnounce evaluates the C22 announcement clauses at a quiescent point.
// cur[i] is the newest registered, not cancelled session call of peer i towards
// the other peer (nil = detached): the harness' own ground truth, exact because
// C22 programs run one op at a time. Calls of a peer whose gate is armed are
// excluded (nothing can be told to them while the harness withholds delivery).
func (w *world) checkAnnounce(pids [2]string, cur [2]*g7sig.Call) {
	e, _, _ := w.h.Srv.VerifSessionEpoch(pids[0], pids[1])
	for x := 0; x < 2; x++ {
		c, partner := cur[x], cur[1-x]
		if c == nil {
			continue
		}
		if w.gated(pids[x]) {
			w.r.Count("c22_skipped_gated", 1)
			continue
		}
		if ret, err := c.Returned(); ret {
			// the current call ended on its own: not an announcement question
			w.r.Count("c22_current_call_ended_on_its_own", 1)
			_ = err
			continue
		}
		kind, val := c.LastOpen()
		w.r.Count("c22_announce_checks", 1)
		if partner != nil {
			switch {
			case kind == "":
				w.violate("Session/pair-attached/never-told", fmt.Sprintf("%s is attached together with its partner (epoch %d) but was never told anything", w.cstr(c), e))
			case kind == "closed":
				w.violate("Session/pair-attached/told-closed", fmt.Sprintf("%s: both peers attached (epoch %d) but the last announcement is Closed", w.cstr(c), e))
			case val != e:
				w.violate("Session/pair-attached/stale-epoch", fmt.Sprintf("%s: both peers attached, current epoch %d, last announcement Opened(%d)", w.cstr(c), e, val))
			default:
				w.r.Count("c22_told_current_epoch", 1)
			}
		} else {
			if kind == "opened" {
				w.violate("Session/alone/still-opened", fmt.Sprintf("%s: partner gone (epoch %d) but the last announcement is Opened(%d)", w.cstr(c), e, val))
			} else {
				w.r.Count("c22_alone_not_opened", 1)
			}
		}
	}
}

// checkRecvEpochs: per outbox order, a RecvMsg(m) is preceded by Opened(x), x =
// the session_seqno m was submitted with, with no Opened/Closed in between.
func (w *world) checkRecvEpochs() {
	for _, c := range w.h.Calls() {
		if c.Listen {
			continue
		}
		var kind string
		var val uint64
		for _, it := range c.Outbox() {
			switch it.Kind {
			case "opened", "closed":
				kind, val = it.Kind, it.U
			case "recv":
				recs := w.subs[string(it.Msg.GetSignedMsg().GetData())]
				if len(recs) == 0 {
					continue // C20's business
				}
				ok := false
				var xs []uint64
				for _, s := range recs {
					xs = append(xs, s.sessSeqno)
					if kind == "opened" && val == s.sessSeqno {
						ok = true
					}
				}
				w.r.Count("c22_recv_epoch_checks", 1)
				if !ok {
					w.violate("Session/recv-in-other-epoch", fmt.Sprintf("%s got RecvMsg(seq %d) submitted for epoch %v while its last announcement was %s(%d)", w.cstr(c), it.U, xs, kind, val))
				}
			}
		}
	}
}

// ---------------------------------------------------------------- C24 oracle

func replayListen(o []g7sig.Item) map[string]bool {
	s := map[string]bool{}
	for _, it := range o {
		switch it.Kind {
		case "set":
			s[it.Peer] = true
		case "unset":
			delete(s, it.Peer)
		}
	}
	return s
}

// checkListeners: at quiescence, every running Listen call of l has been told
// exactly the peers that hold a running session call towards l.
func (w *world) checkListeners(l string) {
	if w.h.AnyGateHeld() {
		// eventual clauses are evaluated only with every gate open: a replaced call
		// parked at a gate has not returned yet although the server dropped it
		w.r.Count("c24_skipped_gated", 1)
		return
	}
	want := map[string]bool{}
	for _, c := range w.h.Calls() {
		if c.Listen || c.Dst != l {
			continue
		}
		if ret, _ := c.Returned(); !ret {
			want[c.Src] = true
		}
	}
	for _, lc := range w.liveListens(l) {
		got := replayListen(lc.Outbox())
		w.r.Count("c24_listener_checks", 1)
		w.r.Distinct("c24_sets", fmt.Sprint(len(want), len(got)))
		var missing, extra []string
		for p := range want {
			if !got[p] {
				missing = append(missing, w.nick(p))
			}
		}
		for p := range got {
			if !want[p] {
				extra = append(extra, w.nick(p))
			}
		}
		sort.Strings(missing)
		sort.Strings(extra)
		if len(missing) > 0 {
			w.violate("Listen/missing-announcement", fmt.Sprintf("%s was not told about %v which hold(s) an open session request towards it", w.cstr(lc), missing))
		}
		if len(extra) > 0 {
			w.violate("Listen/stale-announcement", fmt.Sprintf("%s still believes %v want(s) a session, but no such session call is running", w.cstr(lc), extra))
		}
		if len(missing) == 0 && len(extra) == 0 && len(want) > 0 {
			w.r.Count("c24_nonempty_sets_matched", 1)
		}
	}
}

// ---------------------------------------------------------------- C25 oracle

func callKey(c *g7sig.Call) string {
	if c.Listen {
		return "L|" + c.Src
	}
	return "S|" + c.Src + "|" + c.Dst
}

// checkUnique: at quiescence with all gates open, per key at most one call is
// running; every call the harness did not end itself has ended with the
// replaced error; a call observed running does not survive a newer one.
func (w *world) checkUnique() {
	if w.h.AnyGateHeld() {
		return
	}
	by := map[string][]*g7sig.Call{}
	for _, c := range w.h.Calls() {
		if !c.Listen && c.Dst == "" {
			continue
		}
		by[callKey(c)] = append(by[callKey(c)], c)
	}
	for k, cs := range by {
		kind := "Session"
		userped := signaling.ErrUserpedSession
		if strings.HasPrefix(k, "L|") {
			kind, userped = "Listen", signaling.ErrUserpedListen
		}
		var live []*g7sig.Call
		anyKilled, anyMis := false, false
		for _, c := range cs {
			ret, err := c.Returned()
			if c.Killed() {
				anyKilled = true
			}
			if w.misbehav[c] != "" {
				anyMis = true
			}
			if !ret {
				live = append(live, c)
				continue
			}
			if c.Killed() || w.misbehav[c] != "" {
				continue
			}
			w.r.Count("c25_replaced_calls_checked", 1)
			if !errors.Is(err, userped) {
				w.violate(kind+"/ended-without-replaced-error", fmt.Sprintf("%s ended on its own with error %v (expected %q)", w.cstr(c), err, userped))
			} else {
				w.r.Count("c25_replaced_error_seen", 1)
				// "a newer call replaces the older one": a call may only end as replaced
				// if some other call of the key can have registered AFTER it. Every call
				// started before a quiescent point has registered by then, so a replacer
				// was started in the same or a later quiescence interval than c.
				newer := false
				for _, o := range cs {
					if o != c && w.startGen[o] >= w.startGen[c] {
						newer = true
					}
				}
				if !newer {
					w.violate(kind+"/newest-ended-as-replaced", fmt.Sprintf("%s ended with the replaced error although no call of its key was started after it registered (it is the newest call of the key)", w.cstr(c)))
				} else {
					w.r.Count("c25_replacer_exists", 1)
				}
			}
		}
		w.r.Count("c25_key_checks", 1)
		if len(live) > 1 {
			var ss []string
			for _, c := range live {
				ss = append(ss, w.cstr(c))
			}
			w.violate(kind+"/not-replaced", fmt.Sprintf("%d calls for one key are running at quiescence: %v", len(live), ss))
			continue
		}
		if len(live) == 0 && !anyKilled && !anyMis {
			w.violate(kind+"/no-survivor", fmt.Sprintf("all %d calls of key ended although none was cancelled", len(cs)))
		}
		if len(live) == 1 {
			s := live[0]
			for _, c := range cs {
				if c != s && w.startGen[c] > w.startGen[s] && w.seenLive[c] {
					w.violate(kind+"/older-survived", fmt.Sprintf("%s is still running although the newer %s registered later", w.cstr(s), w.cstr(c)))
				}
			}
		}
	}
}

// checkNoLeftover: no call is running => the server holds no state.
func (w *world) checkNoLeftover() {
	for _, c := range w.h.Calls() {
		if ret, _ := c.Returned(); !ret {
			return
		}
	}
	p, s := w.h.Srv.VerifStateSizes()
	w.r.Count("c25_leftover_checks", 1)
	if p != 0 {
		w.violate("leftover/peers", fmt.Sprintf("all calls ended, server still holds %d peer tracker(s)", p))
	}
	if s != 0 {
		w.violate("leftover/sessions", fmt.Sprintf("all calls ended, server still holds %d session tracker(s)", s))
	}
}

// ---------------------------------------------------------------- runner

// runParallel runs the cases on a bounded worker pool.
func runParallel(n, workers int, f func(i int)) {
	var wg sync.WaitGroup
	ch := make(chan int)
	for k := 0; k < workers; k++ {
		wg.Add(1)
		go func() {
			defer wg.Done()
			for i := range ch {
				f(i)
			}
		}()
	}
	for i := 0; i < n; i++ {
		ch <- i
	}
	close(ch)
	wg.Wait()
}

func quiesceEvidence(r *vf.Run) {
	r.Extra("quiescence", map[string]any{
		"waits": g7sig.Stats.Waits.Load(), "polls": g7sig.Stats.Polls.Load(), "stack_snapshots": g7sig.SnapshotsTaken(),
		"rule": "requests drained + all server goroutines of the instance parked in select/chan receive + #server calls in the stop-the-world stack snapshot == #unreturned calls + harness counters unchanged over 2 consecutive snapshots; watchdog => inconclusive",
	})
}
