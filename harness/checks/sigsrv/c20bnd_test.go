package sigsrv

import (
	"math"
	"math/rand/v2"
)

// Fourth and fifth family of C20 programs.
//
// (4) BOUNDARY VALUES of every number the server compares:
//   - "future": an honest, correctly signed message whose session_seqno is ahead
//     of the server's epoch e by 1, 2, 3, 2^31, 2^32, 2^63-1, 2^63, 2^63+1, or is
//     2^32, 2^63, MaxUint64-1, MaxUint64: each must end the call with an error;
//   - "send-bigseq": honest current messages whose OWN seqno is 0, 1, 2^31-1,
//     2^31, 2^32-1, 2^32, 2^32+1, 2^63-1, 2^63, 2^63+1, MaxUint64-1, MaxUint64;
//   - "ack-near" / "clear-near": acks by the receiver / clears by the sender that
//     name a NEAR MISS of the delivered / sent seqno s (s+-1, s+-2^32, s with bit
//     63 flipped, the low 32 bits of s, ^s, s<<32, s>>32, 0, MaxUint64): none of
//     them may be treated as matching the message (no AckMsg / ClearMsg results);
//   - "ack-future" / "clear-future": ack / clear stamped with a future
//     session_seqno (same table): must not have any effect on the partner.
//
//   - "future-alone" / "ack-future-alone" / "clear-future-alone": the same future
//     values submitted while the PARTNER of the session is not attached (never
//     attached since the pair's relay state was created, attached and left, left
//     and the own call replaced since): a message must end the call with an error
//     in every attachment state; acks / clears must have no effect.
//
// (5) FRESH INCARNATIONS: a client restarts (same identity, message seqnos start
// at 1 again) and opens its session again while its previous call is still
// registered on the server ("reincarnate" = takeover) or after its old stream
// died ("restart"), while the partner's client still holds an un-acknowledged
// message with the same seqno from the previous incarnation and an ack for it
// is IN FLIGHT ("ack-issue" ... "ack-land": issued in answer to the old delivery
// and stamped with the epoch the partner had been told then, it reaches the
// server before / after the new incarnation's first message was submitted /
// delivered / acknowledged). Oracle: an AckMsg(s) to a call is explained only by
// an ack that answers the delivery of a message THAT call submitted.

func c20future(e uint64, n int) (uint64, string) {
	t := []struct {
		v uint64
		n string
	}{
		{e + 1, "e+1"}, {e + 2, "e+2"}, {e + 3, "e+3"}, {e + 1<<31, "e+2^31"}, {e + 1<<32, "e+2^32"},
		{e + (1<<63 - 1), "e+2^63-1"}, {e + 1<<63, "e+2^63"}, {e + 1<<63 + 1, "e+2^63+1"},
		{1 << 32, "2^32"}, {1 << 63, "2^63"}, {math.MaxUint64 - 1, "max-1"}, {math.MaxUint64, "max"},
		{e + 1, "e+1"}, {e + 1<<63 + 1, "e+2^63+1"}, {math.MaxUint64, "max"},
	}
	if n < 0 {
		n = -n
	}
	x := t[n%len(t)]
	if x.v <= e { // cannot happen for the small epochs a program reaches
		return e + 1, "e+1"
	}
	return x.v, x.n
}

func c20bigSeq(n int) (uint64, string) {
	t := []struct {
		v uint64
		n string
	}{
		{0, "0"}, {1, "1"}, {1<<31 - 1, "2^31-1"}, {1 << 31, "2^31"}, {1<<32 - 1, "2^32-1"}, {1 << 32, "2^32"}, {1<<32 + 1, "2^32+1"},
		{1<<63 - 1, "2^63-1"}, {1 << 63, "2^63"}, {1<<63 + 1, "2^63+1"}, {math.MaxUint64 - 1, "max-1"}, {math.MaxUint64, "max"},
	}
	if n < 0 {
		n = -n
	}
	x := t[n%len(t)]
	return x.v, x.n
}

// c20near returns a value != s that a sloppy comparison might take for s.
func c20near(s uint64, n int) (uint64, string) {
	t := []struct {
		v uint64
		n string
	}{
		{s + 1, "s+1"}, {s - 1, "s-1"}, {s ^ (1 << 63), "s^2^63"}, {s + 1<<32, "s+2^32"}, {s - 1<<32, "s-2^32"},
		{uint64(uint32(s)), "low32(s)"}, {^s, "^s"}, {s << 32, "s<<32"}, {s >> 32, "s>>32"}, {0, "0"}, {math.MaxUint64, "max"},
		{s ^ (1 << 31), "s^2^31"}, {uint64(int64(int32(s))), "sext32(s)"},
	}
	if n < 0 {
		n = -n
	}
	for i := 0; i < len(t); i++ {
		x := t[(n+i)%len(t)]
		if x.v != s {
			return x.v, x.n
		}
	}
	return s + 1, "s+1"
}

func genC20BndProg(rng *rand.Rand) []c20op {
	l := 8 + rng.IntN(9)
	var prog []c20op
	for len(prog) < l {
		o := c20randOp(rng)
		rev := o
		rev.x, rev.y = o.y, o.x
		rn := func() int { return rng.IntN(1 << 16) }
		switch x := rng.IntN(100); {
		case x < 30:
			// a message with a boundary seqno, near-miss acks by the receiver, then (maybe) the exact ack
			o.kind = "send-bigseq"
			if rng.IntN(3) == 0 {
				o.kind = "send"
			}
			prog = append(prog, o)
			for k := 1 + rng.IntN(3); k > 0; k-- {
				rev.kind, rev.n = "ack-near", rn()
				prog = append(prog, rev)
			}
			if rng.IntN(2) == 0 {
				rev.kind = "ack"
				prog = append(prog, rev)
				if rng.IntN(2) == 0 {
					rev.kind, rev.n = "ack-near", rn() // after the exact ack, too
					prog = append(prog, rev)
				}
			}
		case x < 48:
			// near-miss clears by the sender, then (maybe) the exact clear
			o.kind = "send-bigseq"
			prog = append(prog, o)
			for k := 1 + rng.IntN(2); k > 0; k-- {
				o.kind, o.n = "clear-near", rn()
				prog = append(prog, o)
			}
			if rng.IntN(2) == 0 {
				o.kind = "clear"
				prog = append(prog, o)
			}
		case x < 68:
			o.kind = "future"
			if rng.IntN(3) == 0 {
				pre := o
				pre.kind = "send"
				prog = append(prog, pre)
			}
			// in half of the cases the partner is NOT attached (never / left / left and
			// own call replaced: o.n bits 8-9), and the request is a message, an ack or
			// a clear
			if rng.IntN(2) == 0 {
				o.kind = []string{"future-alone", "future-alone", "future-alone", "ack-future-alone", "clear-future-alone"}[rng.IntN(5)]
			}
			prog = append(prog, o)
		case x < 76:
			pre := o
			pre.kind = "send"
			prog = append(prog, pre)
			rev.kind, rev.n = "ack-future", rn()
			prog = append(prog, rev)
		case x < 82:
			pre := o
			pre.kind = "send"
			prog = append(prog, pre)
			o.kind = "clear-future"
			prog = append(prog, o)
		case x < 95:
			o.kind = c20honestKinds[rng.IntN(len(c20honestKinds))]
			prog = append(prog, o)
		default:
			o.kind = c20badKinds[rng.IntN(len(c20badKinds))]
			prog = append(prog, o)
		}
	}
	return prog
}

func genC20IncProg(rng *rand.Rand) []c20op {
	l := 9 + rng.IntN(8)
	var prog []c20op
	motif := func() {
		o := c20randOp(rng)
		rev := o
		rev.x, rev.y = o.y, o.x
		op := func(b c20op, kind string) {
			b.kind = kind
			b.n = rng.IntN(1 << 16)
			prog = append(prog, b)
		}
		take := func() {
			if rng.IntN(10) < 7 {
				op(o, "reincarnate")
			} else {
				op(o, "restart")
			}
		}
		if rng.IntN(3) == 0 {
			take() // the first incarnation's seqnos start at 1 as well
		}
		for k := rng.IntN(3); k > 0; k-- {
			op(o, "send")
			op(rev, "ack")
		}
		op(o, "send") // stays un-acknowledged at the partner
		if rng.IntN(6) > 0 {
			op(rev, "ack-issue")
		}
		take()
		switch rng.IntN(8) {
		case 0:
			op(rev, "ack-land")
			op(o, "send")
		case 1, 2:
			op(o, "send")
			op(rev, "ack-land")
		case 3:
			op(o, "send")
			op(rev, "ack-land")
			op(rev, "ack")
		case 4:
			op(o, "send")
			op(rev, "ack")
			op(rev, "ack-land")
		case 5:
			op(o, "send")
			op(o, "send")
			op(rev, "ack-land")
		case 6:
			take()
			op(o, "send")
			op(rev, "ack-land")
		case 7:
			op(o, "send")
			op(rev, "ack-issue") // the newer ack replaces the one in flight
			op(rev, "ack-land")
		}
		if rng.IntN(3) == 0 {
			op(o, "send")
			op(rev, "ack")
		}
	}
	motif()
	for len(prog) < l {
		o := c20randOp(rng)
		switch x := rng.IntN(100); {
		case x < 35:
			motif()
			continue
		case x < 80:
			o.kind = c20honestKinds[rng.IntN(len(c20honestKinds))]
		case x < 90:
			o.kind = []string{"ack-issue", "ack-land", "reincarnate", "restart"}[rng.IntN(4)]
		default:
			o.kind = c20badKinds[rng.IntN(len(c20badKinds))]
		}
		prog = append(prog, o)
	}
	return prog
}
