package sigsrv

import (
	"fmt"
	"math/rand/v2"
	"runtime"
	"strings"
	"sync"
	"time"

	"verifharness/g7sig"
	"verifharness/keys"
	"verifharness/vf"
)

// Two further families of C24 programs.
//
// (1) DYING STREAMS: op X<i><j><k> starts a Session i->j on a stream whose
// client disappears at point k of the call's start-up (g7sig.DiePoints: before
// the call starts, inside the first Recv before / as the Init is handed over,
// inside the second Recv, inside the first Send before / after the frame). The
// stream cancels its own context from inside Recv / Send, so the cancellation
// lands at a chosen step of the server's start-up sequence instead of "some time
// after the call has settled". Oracle unchanged: at quiescence the listener's
// view equals the set of peers with a RUNNING session call towards it.
//
// (2) BURSTS WITHOUT QUIESCENCE: one listener, three peers; a world runs many
// short bursts. In a burst every chosen peer opens (or re-opens = usurps) or
// closes its session towards the listener from its OWN goroutine, all released
// together, so that the changes reach the server back to back while the Listen
// loop is between two passes. After a burst the harness waits (cheap poll, no
// verdict) until the listener's replayed view equals the set of running session
// calls; if that does not happen soon the instance is brought to quiescence
// (stack-snapshot rule) and the ordinary oracle decides. A change the Listen loop
// never notices (lost wake-up) is thus visible as a view that differs from the
// running calls AT QUIESCENCE; it is masked by the next change, which is why the
// bursts are short and each is judged before the next one starts.

func genC24Dying(rng *rand.Rand) c24case {
	var ops []string
	seq := rng.IntN(3) == 0
	if rng.IntN(5) > 0 {
		ops = append(ops, "L0+")
		if rng.IntN(2) == 0 {
			ops = append(ops, "|")
		}
	}
	l := 4 + rng.IntN(8)
	for len(ops) < l {
		i := 1 + rng.IntN(3)
		switch k := rng.IntN(100); {
		case k < 45:
			ops = append(ops, fmt.Sprintf("X%d0%d", i, rng.IntN(len(g7sig.DiePoints))))
		case k < 58:
			ops = append(ops, fmt.Sprintf("S%d0+", i))
		case k < 68:
			ops = append(ops, fmt.Sprintf("S%d0-", i))
		case k < 82:
			// the listener opens its end of the pair: the dying call gets frames to send
			ops = append(ops, fmt.Sprintf("S0%d+", i))
		case k < 87:
			ops = append(ops, fmt.Sprintf("S0%d-", i))
		case k < 92:
			ops = append(ops, "L0+")
		default:
			if !seq && len(ops) > 0 && ops[len(ops)-1] != "|" {
				ops = append(ops, "|")
			}
		}
	}
	return c24case{ops: ops, seq: seq}
}

// c24burstSpec is one burst world: acts[b][p] is what peer p+1 does in burst b:
// 0 nothing, 1 toggle (open if it has no running call, else close all its calls),
// 2 open (re-open = usurp if a call is running), 3+n close and open again at once,
// then n times: close that call as soon as the relay has taken its Init and open again.
type c24burstSpec struct {
	acts [][3]byte
}

func (s c24burstSpec) String() string {
	var sb strings.Builder
	sb.WriteString("bursts:")
	for i, a := range s.acts {
		if i == 12 {
			fmt.Fprintf(&sb, " ...(%d bursts)", len(s.acts))
			break
		}
		fmt.Fprintf(&sb, " %d%d%d", a[0], a[1], a[2])
	}
	return sb.String()
}

func genC24Burst(rng *rand.Rand, n int) c24burstSpec {
	var s c24burstSpec
	for len(s.acts) < n {
		var a [3]byte
		k := 0
		for p := 0; p < 3; p++ {
			switch x := rng.IntN(10); {
			case x < 5:
				a[p] = 1
				k++
			case x < 7:
				a[p] = 2
				k++
			case x < 9:
				a[p] = 3 + byte(rng.IntN(3))
				k++
			}
		}
		if k < 2 {
			continue
		}
		s.acts = append(s.acts, a)
	}
	return s
}

func runC24BurstFamily(r *vf.Run, pool []*keys.Identity) {
	rng := r.Rand("c24-burst")
	worlds := r.N(32, 256)
	per := r.N(220, 600)
	specs := make([]c24burstSpec, worlds)
	for i := range specs {
		specs[i] = genC24Burst(rng, per)
	}
	runParallel(worlds, 16, func(i int) {
		if i%16 == 0 {
			r.Begin(fmt.Sprintf("burst worlds around %d: %s", i, specs[i]))
		}
		runC24Burst(r, pool, i, specs[i])
	})
}

func runC24Burst(r *vf.Run, pool []*keys.Identity, idx int, spec c24burstSpec) {
	w := newWorld(r, fmt.Sprintf("c24burst#%d[%s]", idx, spec), pool)
	defer w.end()
	w.h.InboxCap = 4
	L := pool[0].String()
	lc := w.listen(0)
	if !w.quiesce() {
		r.Case("burst-world", false)
		return
	}
	// running[p]: session calls of peer p towards L that may still be running
	// (pruned when seen returned); the harness' own record
	var running [4][]*g7sig.Call
	prune := func() {
		for p := range running {
			k := 0
			for _, c := range running[p] {
				if ret, _ := c.Returned(); !ret {
					running[p][k] = c
					k++
				}
			}
			running[p] = running[p][:k]
		}
	}
	live := func(p int) []*g7sig.Call {
		var out []*g7sig.Call
		for _, c := range running[p] {
			if !c.Killed() {
				out = append(out, c)
			}
		}
		return out
	}
	got, seen := map[string]bool{}, 0 // incremental replay of the listener's stream (poll only)
	// settled: cheap, verdict-free test whether the burst has been worked off
	settled := func(opened, killed []*g7sig.Call) bool {
		for _, c := range killed {
			if ret, _ := c.Returned(); !ret {
				return false
			}
		}
		for _, c := range opened {
			if c.Consumed() < 1 {
				return false
			}
		}
		prune()
		want := map[string]bool{}
		for p := range running {
			if len(running[p]) > 0 {
				want[running[p][0].Src] = true
			}
		}
		for _, it := range lc.OutboxFrom(seen) {
			seen++
			switch it.Kind {
			case "set":
				got[it.Peer] = true
			case "unset":
				delete(got, it.Peer)
			}
		}
		if len(got) != len(want) {
			return false
		}
		for p := range want {
			if !got[p] {
				return false
			}
		}
		return true
	}
	fast, slow := 0, 0
	// one persistent goroutine per peer issues that peer's part of every burst
	type cmd struct {
		start <-chan struct{}
		fs    []func()
		done  *sync.WaitGroup
	}
	var chs [4]chan cmd
	for p := 1; p <= 3; p++ {
		chs[p] = make(chan cmd)
		go func(ch chan cmd) {
			for c := range ch {
				<-c.start
				for _, f := range c.fs {
					f()
				}
				c.done.Done()
			}
		}(chs[p])
	}
	defer func() {
		for p := 1; p <= 3; p++ {
			close(chs[p])
		}
	}()
	for b, a := range spec.acts {
		var opened, killed []*g7sig.Call
		var desc []string
		start := make(chan struct{})
		var wg sync.WaitGroup
		for p := 1; p <= 3; p++ {
			act := a[p-1]
			if act == 0 {
				continue
			}
			lv := live(p)
			var fs []func()
			kill := func() {
				for _, c := range lv {
					c.Kill()
				}
			}
			mkOpen := func() func() {
				// the call is started ahead (parked in its first Recv): in the burst only
				// its Init travels
				c := w.h.StartSessionDeferred(pool[p].ID, L)
				w.startGen[c] = w.gen
				opened = append(opened, c)
				running[p] = append(running[p], c)
				return func() { c.SubmitInit() }
			}
			switch {
			case len(lv) == 0:
				fs = append(fs, mkOpen())
				desc = append(desc, fmt.Sprintf("P%d opens", p))
			case act == 1:
				fs = append(fs, kill)
				killed = append(killed, lv...)
				desc = append(desc, fmt.Sprintf("P%d closes", p))
			case act == 2:
				fs = append(fs, mkOpen())
				desc = append(desc, fmt.Sprintf("P%d re-opens", p))
			default:
				// reconnects back to back: close, open, (as soon as the relay has taken that
				// Init: close it, open again) x (act-3)
				fs = append(fs, kill, mkOpen())
				killed = append(killed, lv...)
				for k := byte(3); k < act; k++ {
					prev := opened[len(opened)-1]
					killed = append(killed, prev)
					fs = append(fs, func() {
						for i := 0; i < 1<<20 && prev.Consumed() < 1; i++ {
							runtime.Gosched() // waits for a condition; bounded, no verdict depends on it
						}
						prev.Kill()
					}, mkOpen())
				}
				desc = append(desc, fmt.Sprintf("P%d closes and opens again x%d", p, act-2))
			}
			wg.Add(1)
			chs[p] <- cmd{start: start, fs: fs, done: &wg}
		}
		close(start)
		wg.Wait()
		w.logf("burst %d: %s (concurrently)", b, strings.Join(desc, ", "))
		if len(w.log) > 60 {
			w.log = append([]string{"... (earlier bursts elided)"}, w.log[len(w.log)-40:]...)
		}
		ok := false
		for i := 0; i < 400 && !ok; i++ {
			if ok = settled(opened, killed); ok {
				break
			}
			if i < 200 {
				runtime.Gosched()
			} else {
				time.Sleep(50 * time.Microsecond) // pacing of a poll only, never a verdict
			}
		}
		if ok {
			fast++
			continue
		}
		slow++
		if !w.quiesce() {
			r.Case("burst-world", false)
			return
		}
		w.checkListeners(L)
		if w.viol > 0 {
			break
		}
	}
	if w.viol == 0 {
		if !w.quiesce() {
			r.Case("burst-world", false)
			return
		}
		w.checkListeners(L)
	}
	r.Count("c24_bursts", fast+slow)
	r.Count("c24_bursts_settled_by_poll", fast)
	r.Count("c24_bursts_judged_at_quiescence", slow)
	n := 0
	for _, it := range lc.Outbox() {
		r.Count("seen_"+it.Kind, 1)
		n++
	}
	r.Count("c24_burst_session_calls", len(w.h.Calls())-1)
	r.Case(fmt.Sprintf("burst-world %d: %s", idx, spec), n > 0)
}
