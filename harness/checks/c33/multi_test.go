package c33

import (
	"context"
	"fmt"
	"math/rand/v2"
	"strings"

	"github.com/aperturerobotics/bifrost/link"
	link_holdopen_controller "github.com/aperturerobotics/bifrost/link/hold-open"
	"github.com/aperturerobotics/controllerbus/directive"
	"verifharness/g10sol"
)

// Several EstablishLinkWithPeer requests (different peers) tracked by ONE
// hold-open controller instance: the controller keeps per-request bookkeeping
// in shared state, so what happens to one request (dispose) must not disturb
// another one. The oracle is the single-request oracle, per request.
//
// Delivery is faithful to controllerbus: a reference that was released no
// longer receives callbacks (directiveInstance.removeReferenceLocked drops it
// from the list the callbacks iterate over). A handler whose weak reference was
// released by the code under test is therefore not told about later links.

const (
	mvHandle  = 'H' // the controller's HandleDirective sees the request of peer p
	mvAdd     = 'A' // a fresh link value is attached to p's request
	mvRemove  = 'R' // the oldest live link value of p's request is withdrawn
	mvDispose = 'D' // p's request is disposed
)

type mev struct {
	k byte
	p int
}

func mevString(s []mev) string {
	var b strings.Builder
	for i, e := range s {
		if i > 0 {
			b.WriteByte(' ')
		}
		fmt.Fprintf(&b, "%c(p%d)", e.k, e.p)
	}
	return b.String()
}

type mpeer struct {
	di       *g10sol.FakeDI
	hd       directive.ReferenceHandler
	weak     *g10sol.FakeRef
	live     []int
	next     int
	disposed bool
	links    map[int]*g10sol.FakeMountedLink
}

// permutations of 0..k-1 in lexical order.
func permutations(k int) [][]int {
	var out [][]int
	var rec func(cur []int, used []bool)
	rec = func(cur []int, used []bool) {
		if len(cur) == k {
			out = append(out, append([]int(nil), cur...))
			return
		}
		for i := 0; i < k; i++ {
			if !used[i] {
				used[i] = true
				rec(append(cur, i), used)
				used[i] = false
			}
		}
	}
	rec(nil, make([]bool, k))
	return out
}

// genMulti builds the event list of one case: k requests, disposed in the
// given order; registration order is 0..k-1 but `late` of them are only handled
// after the first disposal (the cleanup list has been reshuffled by then);
// before the first and after every disposal every live request gets link
// adds / removes.
func genMulti(rng *rand.Rand, k int, order []int, late int) []mev {
	var s []mev
	lateFrom := k - late
	if lateFrom < 2 {
		lateFrom = min(2, k)
	}
	nlive := make([]int, k)
	reg := make([]bool, k)
	gone := make([]bool, k)
	churn := func() {
		for p := 0; p < k; p++ {
			if !reg[p] || gone[p] {
				continue
			}
			for n := 1 + rng.IntN(2); n > 0; n-- {
				if nlive[p] > 0 && rng.IntN(2) == 0 {
					s = append(s, mev{mvRemove, p})
					nlive[p]--
				} else if nlive[p] < 3 {
					s = append(s, mev{mvAdd, p})
					nlive[p]++
				}
			}
		}
	}
	for p := 0; p < lateFrom; p++ {
		s = append(s, mev{mvHandle, p})
		reg[p] = true
		if rng.IntN(2) == 0 {
			churn()
		}
	}
	churn()
	for i, p := range order {
		if !reg[p] {
			// a request that is not tracked yet cannot be disposed first: track it now
			s = append(s, mev{mvHandle, p})
			reg[p] = true
		}
		s = append(s, mev{mvDispose, p})
		gone[p] = true
		if i == 0 {
			for q := lateFrom; q < k; q++ {
				if !reg[q] {
					s = append(s, mev{mvHandle, q})
					reg[q] = true
				}
			}
		}
		churn()
		if rng.IntN(2) == 0 {
			churn()
		}
	}
	return s
}

// runMulti runs one multi-request case: events are delivered one at a time
// (gate open), everything settles after each, and the oracle is evaluated for
// EVERY tracked request at each of those quiescent points.
func (h *harness) runMulti(k int, seq []mev) caseResult {
	ctrl, err := link_holdopen_controller.NewController(nil, h.le)
	if err != nil {
		return caseResult{inconclusive: "NewController: " + err.Error()}
	}
	desc := fmt.Sprintf("%d requests on one controller: %s", k, mevString(seq))
	peers := make([]*mpeer, k)
	var log []string
	for step, e := range seq {
		ps := peers[e.p]
		what := fmt.Sprintf("after event %d %c(p%d)", step, e.k, e.p)
		switch e.k {
		case mvHandle:
			ps = &mpeer{links: map[int]*g10sol.FakeMountedLink{}}
			peers[e.p] = ps
			ps.di = g10sol.NewFakeDI(link.NewEstablishLinkWithPeer(h.src.ID, h.peers[e.p].ID))
			ps.di.Note(fmt.Sprintf("request-of-p%d", e.p))
			if _, err := ctrl.HandleDirective(context.Background(), ps.di); err != nil {
				return caseResult{inconclusive: "HandleDirective: " + err.Error()}
			}
			for _, ref := range ps.di.Refs() {
				if ref.Handler != nil {
					ps.weak, ps.hd = ref, ref.Handler
				}
			}
			if ps.hd == nil {
				return caseResult{inconclusive: "no reference handler on the directive"}
			}
		case mvAdd, mvRemove, mvDispose:
			if ps == nil || ps.disposed {
				continue
			}
			var f func()
			di, hd := ps.di, ps.hd
			switch e.k {
			case mvAdd:
				ps.next++
				n := ps.next
				ps.live = append(ps.live, n)
				ml := &g10sol.FakeMountedLink{UUID: uint64(1000 + 16*e.p + n), TptUUID: 7, Local: h.src.ID, Remote: h.peers[e.p].ID}
				ps.links[n] = ml
				v := directive.NewAttachedValue(uint32(n), link.MountedLink(ml))
				di.Note(fmt.Sprintf("add%d", n))
				f = func() { hd.HandleValueAdded(di, v) }
			case mvRemove:
				if len(ps.live) == 0 {
					continue
				}
				n := ps.live[0]
				ps.live = ps.live[1:]
				v := directive.NewAttachedValue(uint32(n), link.MountedLink(ps.links[n]))
				di.Note(fmt.Sprintf("remove%d", n))
				f = func() { hd.HandleValueRemoved(di, v) }
			case mvDispose:
				ps.disposed = true
				di.Note("dispose")
				f = func() { hd.HandleInstanceDisposed(di) }
			}
			if ps.weak.Releases() > 0 {
				// the code released the reference its handler is attached with:
				// controllerbus no longer calls that handler
				di.Note("not-delivered(handler-reference-released)")
				h.r.Count("multi_callbacks_not_delivered_handler_reference_released", 1)
			} else {
				h.deliver(f)
				h.r.Count("multi_callbacks_delivered", 1)
			}
		}
		if !h.settle(true, nil) {
			return caseResult{inconclusive: "watchdog waiting for quiescence " + what}
		}
		for q, qs := range peers {
			if qs == nil {
				continue
			}
			h.check(qs.di, fmt.Sprintf("%s, request of p%d", what, q), len(qs.live), qs.disposed, desc, "multi")
		}
	}
	for q, qs := range peers {
		if qs != nil {
			log = append(log, fmt.Sprintf("p%d:", q))
			log = append(log, qs.di.Log()...)
		}
	}
	return caseResult{log: log}
}
