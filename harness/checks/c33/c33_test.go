// C33: the hold-open controller holds a strong reference on a peer's
// EstablishLinkWithPeer directive exactly while links to the peer exist.
//
// The real link_holdopen_controller.Controller is driven through
// HandleDirective with a harness directive.Instance (g10sol.FakeDI) that
// records AddReference / Release and can park the asynchronous strong
// acquisition; the harness delivers value-added / -removed / -disposed
// callbacks itself. The oracle is evaluated only at quiescence.
package c33

import (
	"context"
	"fmt"
	"io"
	"math/rand/v2"
	"runtime"
	"strings"
	"sync"
	"sync/atomic"
	"testing"
	"time"

	"github.com/aperturerobotics/bifrost/link"
	link_holdopen_controller "github.com/aperturerobotics/bifrost/link/hold-open"
	"github.com/aperturerobotics/controllerbus/directive"
	"github.com/sirupsen/logrus"
	"verifharness/g10sol"
	"verifharness/keys"
	"verifharness/vf"
)

// event kinds of a scripted case
const (
	evAdd     = 'A' // value-added for a fresh link
	evRemove  = 'R' // value-removed for live link i
	evAcq     = 'Q' // let the oldest parked strong acquisition complete
	evDispose = 'D' // instance disposed
)

type ev struct {
	k    byte
	link int // 1-based link number for A / R
}

func (e ev) String() string {
	switch e.k {
	case evAdd, evRemove:
		return fmt.Sprintf("%c%d", e.k, e.link)
	}
	return string(e.k)
}

func seqString(s []ev) string {
	var b strings.Builder
	for i, e := range s {
		if i > 0 {
			b.WriteByte(' ')
		}
		b.WriteString(e.String())
	}
	return b.String()
}

// enumerate returns every event sequence of length <= maxLen over <= maxLinks
// links: links are added in order (symmetry), a link is removed at most once
// and only after it was added, dispose happens at most once and ends the
// callbacks (only acquisition completions may follow), an acquisition
// completion is only scheduled after the first add.
func enumerate(maxLen, maxLinks int) [][]ev {
	var out [][]ev
	var rec func(cur []ev, added int, live []bool, disposed bool, nQ int)
	rec = func(cur []ev, added int, live []bool, disposed bool, nQ int) {
		if len(cur) > 0 {
			out = append(out, append([]ev(nil), cur...))
		}
		if len(cur) == maxLen {
			return
		}
		if !disposed {
			if added < maxLinks {
				l2 := append(append([]bool(nil), live...), true)
				rec(append(cur, ev{evAdd, added + 1}), added+1, l2, false, nQ)
			}
			for i, lv := range live {
				if lv {
					l2 := append([]bool(nil), live...)
					l2[i] = false
					rec(append(cur, ev{evRemove, i + 1}), added, l2, false, nQ)
				}
			}
			if added > 0 {
				rec(append(cur, ev{k: evDispose}), added, live, true, nQ)
			}
		}
		// at most as many completions as adds (each add starts at most one acquisition)
		if added > 0 && nQ < added {
			rec(append(cur, ev{k: evAcq}), added, live, disposed, nQ+1)
		}
	}
	rec(nil, 0, nil, false, 0)
	return out
}

// uuidLayouts: which link values share a link uuid.
//
//	distinct  every value its own uuid
//	same      all values report one uuid (equal in everything but identity)
//	pairs     values 1,2 share a uuid, 3,4 the next, ...
//	first2    values 1 and 3 share a uuid, 2 has its own (non-adjacent twins)
var uuidLayouts = []string{"distinct", "same", "pairs", "first2"}

func layoutUUID(layout string, i int) uint64 {
	switch layout {
	case "same":
		return 41
	case "pairs":
		return uint64(100 + i/2)
	case "first2":
		if i%2 == 0 {
			return 200
		}
		return uint64(201 + i)
	}
	return uint64(i + 1)
}

type harness struct {
	r         *vf.Run
	le        *logrus.Entry
	baseline  g10sol.IDSet
	baseCount int
	work      chan func()
	delivID   int64
	issued    atomic.Int64
	done      atomic.Int64
	links     []*g10sol.FakeMountedLink            // layout "distinct"
	linkSets  map[string][]*g10sol.FakeMountedLink // per uuid layout
	layout    string                               // layout of the case being run
	src, dst  *keys.Identity
	peers     []*keys.Identity // target peers of the multi-request cases
	stackSnap atomic.Int64
}

func newHarness(r *vf.Run) *harness {
	l := logrus.New()
	l.SetOutput(io.Discard)
	l.SetLevel(logrus.PanicLevel)
	h := &harness{r: r, le: logrus.NewEntry(l), work: make(chan func())}
	rng := r.Rand("c33-keys")
	h.src, h.dst = keys.New(rng), keys.New(rng)
	for i := 0; i < 4; i++ {
		h.peers = append(h.peers, keys.New(rng))
	}
	// link VALUES are distinct objects in every layout; what differs is which of
	// them report the same link uuid (two transports of one type produce equal
	// webrtc link uuids; a re-built link is reported before the old value is
	// withdrawn). The property counts links = values, whatever they report.
	h.linkSets = map[string][]*g10sol.FakeMountedLink{}
	for _, lay := range uuidLayouts {
		for i := 0; i < 8; i++ {
			h.linkSets[lay] = append(h.linkSets[lay], &g10sol.FakeMountedLink{UUID: layoutUUID(lay, i), TptUUID: 7, Local: h.src.ID, Remote: h.dst.ID})
		}
	}
	h.links = h.linkSets["distinct"]
	h.layout = "distinct"
	idc := make(chan int64)
	go func() {
		idc <- g10sol.CurGoroutineID()
		for f := range h.work {
			f()
			h.done.Add(1)
		}
	}()
	h.delivID = <-idc
	h.baseline = g10sol.SnapshotIDs()
	h.baseCount = len(h.baseline)
	return h
}

// deliver hands one callback to the (single, serial) delivery goroutine: the
// real directive instance also delivers its callbacks one at a time.
func (h *harness) deliver(f func()) {
	h.issued.Add(1)
	h.work <- f
}

func (h *harness) delivIdle() bool { return h.issued.Load() == h.done.Load() }

func relevant(g g10sol.G) bool {
	return strings.Contains(g.Stack, "bifrost/link/hold-open") || strings.Contains(g.Stack, "verifharness/g10sol") || strings.Contains(g.Stack, "checks/c33")
}

func inGate(g g10sol.G) bool {
	return g.BaseState() == "chan receive" && strings.Contains(g.Stack, "g10sol.(*FakeDI).gateWait")
}

// settle waits until nothing can move without the harness: every goroutine
// created since the baseline is parked in the fake's gate or on a mutex, and
// the delivery goroutine has returned from its callback or is blocked on a
// mutex (the pinned code holds its mutex across AddReference). full = also no
// such goroutine is left at all and the delivery goroutine is idle.
//
// Fast path (no goroutine dump): the delivery goroutine is idle and the number
// of goroutines above the baseline equals the number of acquisitions parked in
// the fake's gate (full: zero). The dump is only needed when that does not
// become true quickly (goroutines blocked on a mutex).
func (h *harness) settle(full bool, di *g10sol.FakeDI) bool {
	iter := 0
	return g10sol.Poll(30*time.Second, func() bool {
		iter++
		idle := h.delivIdle()
		extras := runtime.NumGoroutine() - h.baseCount
		if idle {
			if full && extras == 0 {
				return true
			}
			if !full && extras == di.Pending() {
				return true
			}
		}
		if full && !idle {
			return false
		}
		if iter < 40 || iter%8 != 0 {
			return false
		}
		h.stackSnap.Add(1)
		for _, g := range g10sol.Goroutines() {
			if g.ID == h.delivID {
				if !idle && g.BaseState() != "sync.Mutex.Lock" && !inGate(g) {
					return false
				}
				continue
			}
			if _, ok := h.baseline[g.ID]; ok {
				continue
			}
			if !relevant(g) {
				continue
			}
			if full {
				return false
			}
			if !inGate(g) && g.BaseState() != "sync.Mutex.Lock" {
				return false
			}
		}
		return true
	})
}

type caseResult struct {
	inconclusive string
	log          []string
}

// newCase builds a controller and a directive instance and lets the controller
// handle it. preload > 0: the instance ALREADY carries link values 1..preload
// when the controller's handler attaches (the hold-open controller was loaded
// after the links were established); the fake replays them inside AddReference
// like controllerbus does. gate: strong acquisitions are parked from the start.
func (h *harness) newCase(preload int, gate bool) (*link_holdopen_controller.Controller, *g10sol.FakeDI, directive.ReferenceHandler, string) {
	ctrl, err := link_holdopen_controller.NewController(nil, h.le)
	if err != nil {
		return nil, nil, nil, "NewController: " + err.Error()
	}
	di := g10sol.NewFakeDI(link.NewEstablishLinkWithPeer(h.src.ID, h.dst.ID))
	di.SetGate(gate)
	if preload > 0 {
		var vals []directive.AttachedValue
		for l := 1; l <= preload; l++ {
			vals = append(vals, h.av(l))
		}
		di.SetPreload(vals...)
		di.Note(fmt.Sprintf("instance-carries-%d-links", preload))
		h.r.Count("links_replayed_at_attach", preload)
	}
	if _, err := ctrl.HandleDirective(context.Background(), di); err != nil {
		return nil, nil, nil, "HandleDirective: " + err.Error()
	}
	hs := di.Handlers()
	if len(hs) != 1 {
		return nil, nil, nil, fmt.Sprintf("expected one reference handler on the directive, found %d", len(hs))
	}
	return ctrl, di, hs[0], ""
}

func (h *harness) av(linkNo int) directive.AttachedValue {
	return directive.NewAttachedValue(uint32(linkNo), link.MountedLink(h.linkSets[h.layout][linkNo-1]))
}

// check evaluates the oracle at a quiescent point.
func (h *harness) check(di *g10sol.FakeDI, where string, live int, disposed bool, desc string, mode string) {
	out, total, dbl := di.StrongOutstanding()
	h.r.Count("oracle_evaluations", 1)
	if dbl > 0 {
		h.r.Count("references_released_more_than_once", dbl) // idempotent in controllerbus; not a violation
	}
	wit := func() map[string]any {
		return map[string]any{"mode": mode, "link_uuid_layout": h.layout, "events": desc, "checked": where, "live_links": live, "disposed": disposed,
			"strong_refs_outstanding": out, "strong_refs_acquired_total": total, "max_parallel_acquisitions": di.MaxPending(), "reference_log": di.Log()}
	}
	// input class of a failure, from the fake's own log: were two strong
	// references ever held at the same time, or was one acquired late?
	cause := "late-acquire"
	held := 0
	for _, l := range di.Log() {
		switch {
		case strings.HasPrefix(l, "acquired#"):
			held++
			if held > 1 {
				cause = "double-acquire"
			}
		case strings.HasPrefix(l, "release#"):
			held--
		}
	}
	if total == 0 {
		cause = "never-acquired"
	}
	switch {
	case disposed && out != 0:
		h.r.Violation("holdopen/ref-held-after-dispose/"+cause, "the directive instance was disposed but a strong reference is still outstanding at quiescence", wit())
	case !disposed && live == 0 && out != 0:
		h.r.Violation("holdopen/ref-leaked-after-last-removal/"+cause, "all links to the peer are gone but a strong reference is still outstanding at quiescence (the request can never expire)", wit())
	case !disposed && live > 0 && out == 0:
		h.r.Violation("holdopen/no-ref-while-links-exist", "links to the peer exist but no strong reference is held at quiescence", wit())
	}
}

// glue marks events seq[from:to] that are delivered back to back from the
// delivery goroutine, with no settling in between: goroutines the code spawned
// for the first of them have not been given a quiescence point before the next
// callback arrives (a link flap: last link withdrawn, replacement reported at
// once). to <= from: no group.
type glue struct{ from, to int }

func (g glue) has() bool { return g.to-g.from >= 2 }

func gluedString(seq []ev, g glue) string {
	if !g.has() {
		return seqString(seq)
	}
	var b strings.Builder
	for i, e := range seq {
		if i > 0 {
			b.WriteByte(' ')
		}
		if i == g.from {
			b.WriteByte('[')
		}
		b.WriteString(e.String())
		if i == g.to-1 {
			b.WriteByte(']')
		}
	}
	return b.String()
}

// runScripted runs one gate-controlled case. Events outside the glue group are
// each followed by settling; the events of the group are delivered as one unit.
//
// pre > 0: the first pre events (all adds) are not delivered as callbacks: the
// instance carries those links already when the handler attaches.
func (h *harness) runScripted(seq []ev, g glue, pre int) caseResult {
	_, di, hd, bad := h.newCase(pre, true)
	if bad != "" {
		return caseResult{inconclusive: bad}
	}
	desc := gluedString(seq, g)
	live := map[int]bool{}
	if pre > 0 {
		desc = "attach-with{" + seqString(seq[:pre]) + "} " + seqString(seq[pre:])
		for _, e := range seq[:pre] {
			live[e.link] = true
		}
		if !h.settle(false, di) {
			return caseResult{inconclusive: "watchdog while settling after attach " + desc, log: di.Log()}
		}
	}
	disposed := false
	forced := 0
	// unblock makes sure the previous callback has returned before the next one
	// is delivered (callbacks are serial); on code that holds its lock across the
	// acquisition this needs the parked acquisition to be completed first.
	unblock := func() bool {
		for !h.delivIdle() {
			if di.Pending() > 0 {
				di.Complete(0)
				di.Note("forced-complete")
				forced++
			}
			if !h.settle(false, di) {
				return false
			}
			if !h.delivIdle() && di.Pending() == 0 {
				// blocked on a lock nobody the harness controls holds: wait for it
				if !g10sol.Poll(30*time.Second, h.delivIdle) {
					return false
				}
			}
		}
		return true
	}
	// callback builds the call for a callback event and updates the model.
	callback := func(e ev) (string, func()) {
		switch e.k {
		case evAdd:
			live[e.link] = true
			v := h.av(e.link)
			return "add" + fmt.Sprint(e.link), func() { hd.HandleValueAdded(di, v) }
		case evRemove:
			delete(live, e.link)
			v := h.av(e.link)
			return "remove" + fmt.Sprint(e.link), func() { hd.HandleValueRemoved(di, v) }
		case evDispose:
			disposed = true
			return "dispose", func() { hd.HandleInstanceDisposed(di) }
		}
		return "", nil
	}
	for i := pre; i < len(seq); i++ {
		e := seq[i]
		if g.has() && i == g.from {
			// the whole group in one delivery: nothing settles inside
			if !unblock() {
				return caseResult{inconclusive: "watchdog while unblocking", log: di.Log()}
			}
			var calls []func()
			note := "glued:"
			var completed, nothing atomic.Int64
			for _, ge := range seq[g.from:g.to] {
				if ge.k == evAcq {
					note += " complete"
					calls = append(calls, func() {
						if di.Complete(0) {
							completed.Add(1)
						} else {
							nothing.Add(1)
						}
					})
					continue
				}
				n, f := callback(ge)
				note += " " + n
				calls = append(calls, f)
			}
			di.Note(note)
			h.deliver(func() {
				for _, c := range calls {
					c()
				}
			})
			if !h.settle(false, di) {
				return caseResult{inconclusive: "watchdog while settling after glued group " + desc, log: di.Log()}
			}
			h.r.Count("acquisitions_completed_by_script", int(completed.Load()))
			h.r.Count("completion_events_with_nothing_parked", int(nothing.Load()))
			h.r.Count("glued_groups_delivered", 1)
			i = g.to - 1
			continue
		}
		switch e.k {
		case evAdd, evRemove, evDispose:
			if !unblock() {
				return caseResult{inconclusive: "watchdog while unblocking", log: di.Log()}
			}
			n, f := callback(e)
			di.Note(n)
			h.deliver(f)
		case evAcq:
			if di.Complete(0) {
				di.Note("complete")
				h.r.Count("acquisitions_completed_by_script", 1)
			} else {
				h.r.Count("completion_events_with_nothing_parked", 1)
			}
		}
		if !h.settle(false, di) {
			return caseResult{inconclusive: "watchdog while settling after " + e.String(), log: di.Log()}
		}
	}
	h.r.Count("acquisitions_completed_by_force", forced)
	return h.finish(di, hd, live, disposed, desc, "scripted")
}

// finish opens all gates, evaluates the oracle, then drains (remove remaining
// links, dispose) with the oracle evaluated after each step.
func (h *harness) finish(di *g10sol.FakeDI, hd directive.ReferenceHandler, live map[int]bool, disposed bool, desc, mode string) caseResult {
	di.SetGate(false)
	di.Note("gates-open")
	if !h.settle(true, di) {
		return caseResult{inconclusive: "watchdog waiting for quiescence", log: di.Log()}
	}
	h.check(di, "end of script", len(live), disposed, desc, mode)
	if !disposed && len(live) > 0 {
		for l := 1; l <= len(h.links); l++ {
			if live[l] {
				v := h.av(l)
				di.Note("drain-remove" + fmt.Sprint(l))
				h.deliver(func() { hd.HandleValueRemoved(di, v) })
				delete(live, l)
			}
		}
		if !h.settle(true, di) {
			return caseResult{inconclusive: "watchdog waiting for quiescence (drain)", log: di.Log()}
		}
		h.check(di, "after removing the remaining links", 0, false, desc, mode)
	}
	if !disposed {
		di.Note("drain-dispose")
		h.deliver(func() { hd.HandleInstanceDisposed(di) })
		if !h.settle(true, di) {
			return caseResult{inconclusive: "watchdog waiting for quiescence (dispose)", log: di.Log()}
		}
		h.check(di, "after dispose", 0, true, desc, mode)
	}
	return caseResult{log: di.Log()}
}

// runRapid delivers the callbacks of seq back to back (no settling, no gate):
// the asynchronous acquisition races the following callbacks freely. split > 0:
// the first split callbacks are delivered back to back, then everything
// settles (the acquisition has completed), then the rest follows back to back.
func (h *harness) runRapid(seq []ev, split int, pre int) caseResult {
	_, di, hd, bad := h.newCase(pre, false)
	if bad != "" {
		return caseResult{inconclusive: bad}
	}
	live := map[int]bool{}
	disposed := false
	var calls []func()
	for i, e := range seq {
		if i < pre {
			live[e.link] = true
			calls = append(calls, func() {})
			continue
		}
		switch e.k {
		case evAdd:
			live[e.link] = true
			v := h.av(e.link)
			calls = append(calls, func() { hd.HandleValueAdded(di, v) })
		case evRemove:
			delete(live, e.link)
			v := h.av(e.link)
			calls = append(calls, func() { hd.HandleValueRemoved(di, v) })
		case evDispose:
			disposed = true
			calls = append(calls, func() { hd.HandleInstanceDisposed(di) })
		}
	}
	desc := seqString(seq)
	if pre > 0 {
		desc = "attach-with{" + seqString(seq[:pre]) + "} " + seqString(seq[pre:])
	}
	if split > 0 && split < len(calls) {
		desc += fmt.Sprintf(" (settled after %d)", split)
		head := calls[:split]
		calls = calls[split:]
		h.deliver(func() {
			for _, c := range head {
				c()
			}
		})
		if !h.settle(true, di) {
			return caseResult{inconclusive: "watchdog waiting for quiescence at the split", log: di.Log()}
		}
		di.Note("settled")
	}
	h.deliver(func() {
		for _, c := range calls {
			c()
		}
	})
	return h.finish(di, hd, live, disposed, desc, "rapid")
}

// runBurst delivers adds (and removes) of several links from concurrent
// goroutines; per link the order add -> remove is kept.
func (h *harness) runBurst(rng *rand.Rand) (caseResult, string) {
	_, di, hd, bad := h.newCase(0, false)
	if bad != "" {
		return caseResult{inconclusive: bad}, ""
	}
	n := 2 + rng.IntN(3)
	keep := make([]bool, n)
	var desc strings.Builder
	live := map[int]bool{}
	fmt.Fprintf(&desc, "uuids=%s ", h.layout)
	for i := range keep {
		keep[i] = rng.IntN(3) == 0
		if keep[i] {
			live[i+1] = true
			fmt.Fprintf(&desc, "g%d:A%d ", i, i+1)
		} else {
			fmt.Fprintf(&desc, "g%d:A%d,R%d ", i, i+1, i+1)
		}
	}
	start := make(chan struct{})
	var wg sync.WaitGroup
	for i := 0; i < n; i++ {
		wg.Add(1)
		go func(i int) {
			defer wg.Done()
			v := h.av(i + 1)
			<-start
			hd.HandleValueAdded(di, v)
			if !keep[i] {
				hd.HandleValueRemoved(di, v)
			}
		}(i)
	}
	close(start)
	wg.Wait()
	return h.finish(di, hd, live, false, desc.String(), "burst"), desc.String()
}

func TestCheck(t *testing.T) {
	r := vf.Start(t, "C33", vf.FaultEnumeration)
	defer r.Finish()
	r.SetRule("Real hold-open Controller.HandleDirective on a harness directive instance carrying EstablishLinkWithPeer. (1) scripted: ALL sequences of length <= 6 (thorough: <= 10 = every sequence possible with 3 links) over {add link i (i <= 3, fresh values), remove live link i, complete the parked strong acquisition, dispose (ends the callbacks)}; callbacks are delivered serially like the real instance does; the fake parks every AddReference(strong) until the script completes it, so the asynchronous acquisition is held across removals / disposal deterministically; after every event the harness waits until every new goroutine is parked in the gate or on a mutex (goroutine dump). Each sequence is also run with a GLUED group: every contiguous pair / triple of events containing a callback (and the whole sequence) is delivered back to back from the delivery goroutine with no settling inside the group, so goroutines spawned by one callback have not been given a quiescence point before the next callback arrives (link flap: last link withdrawn and a replacement reported at once, for every position). Link uuid layouts: the link VALUES are always distinct objects, but they report distinct uuids | all the same uuid | pairwise equal uuids | values 1 and 3 equal (two transports of one type, a re-built link reported before the old value is withdrawn); every sequence with >= 2 adds is run in each layout that differs for it. (2) rapid: the same callback sequences delivered back to back with the gate open (acquisition races the callbacks freely), also with one settle point after a prefix and with PRNG uuid layouts. (3) burst: 2-4 goroutines deliver add (and remove) of their own link concurrently, PRNG uuid layout. (4) links present at attach time: every scripted sequence is run again with its first 1..n adds (n <= 3) NOT delivered as callbacks: the directive instance already carries those link values when the controller's HandleDirective attaches its handler, and the fake replays them synchronously inside AddReference(handler) exactly like controllerbus' addReferenceLocked does (hold-open controller loaded after the link was established; includes the sequences where no further link is ever added); a third of the PRNG rapid cases do the same. (5) multi: 2-4 requests for different peers handled by ONE controller instance, disposed in EVERY order (all permutations), some requests only handled after the first disposal, PRNG link adds / removes on every live request before and after each disposal; a handler whose attaching (weak) reference was released receives no further callbacks, like on the real bus; the oracle is evaluated for every request at every quiescent point. Links are counted as attached VALUES (by identity), as the property says 'while at least one link to that peer exists'. Oracle only at quiescence (gates open, no goroutine of the controller / fake left, delivery idle): strong references outstanding on the fake >= 1 if live links > 0, = 0 if none, = 0 after dispose; then the remaining links are removed (= 0) and the instance disposed (= 0). Non-trivial = a case with at least one add and one remove or dispose; distinct = distinct (mode, sequence)")
	r.Assume("callbacks of one directive instance are delivered serially (controllerbus callCallbacksLocked queues them); the burst mode additionally delivers from several goroutines because the property names concurrent additions")
	h := newHarness(r)
	rng := r.Rand("c33")

	t0 := time.Now() // phase timing for the evidence only
	maxLen := r.N(6, 10)
	all := enumerate(maxLen, 3)
	r.Extra("scripted_sequences_total", len(all))
	r.Extra("scripted_max_len", maxLen)
	r.SetExhaustive(true) // the bounded space of scripted sequences is enumerated completely
	nontrivial := func(s []ev) bool {
		a, x := false, false
		for _, e := range s {
			switch e.k {
			case evAdd:
				a = true
			case evRemove, evDispose:
				x = true
			}
		}
		return a && x
	}
	adds := func(s []ev) (n int) {
		for _, e := range s {
			if e.k == evAdd {
				n++
			}
		}
		return
	}
	callbacks := func(s []ev) (n int) {
		for _, e := range s {
			if e.k != evAcq {
				n++
			}
		}
		return
	}
	// scripted cases = sequence x glue group x link uuid layout.
	//  - every sequence unglued, in every layout that differs from "distinct" for it
	//  - every contiguous group of 2 or 3 events containing at least one callback
	//    glued, plus the whole sequence (with and without its first event) glued,
	//    in layout distinct; every pair glued in layout same (thorough: glue
	//    only for sequences of length <= 7)
	type scase struct {
		seq    []ev
		g      glue
		layout string
		pre    int // the first pre adds are carried by the instance at attach time
	}
	leadingAdds := func(s []ev) (n int) {
		for _, e := range s {
			if e.k != evAdd {
				break
			}
			n++
		}
		return
	}
	var scripted []scase
	glueMaxLen := r.N(6, 7)
	for _, s := range all {
		lays := []string{"distinct"}
		if adds(s) >= 2 {
			lays = append(lays, "same", "pairs")
		}
		if adds(s) >= 3 {
			lays = append(lays, "first2")
		}
		for _, lay := range lays {
			scripted = append(scripted, scase{s, glue{}, lay, 0})
		}
		// attach-time links: every sequence again with its first 1..n adds turned
		// into values the instance carries when the handler attaches
		for pre := 1; pre <= leadingAdds(s); pre++ {
			scripted = append(scripted, scase{s, glue{}, "distinct", pre})
			if pre >= 2 {
				scripted = append(scripted, scase{s, glue{}, "same", pre})
			}
		}
		if len(s) > glueMaxLen {
			continue
		}
		for _, lay := range lays[:min(2, len(lays))] {
			seenG := map[glue]bool{}
			addG := func(g glue) {
				if g.from < 0 || g.to > len(s) || !g.has() || seenG[g] || callbacks(s[g.from:g.to]) == 0 {
					return
				}
				seenG[g] = true
				scripted = append(scripted, scase{s, g, lay, 0})
			}
			for from := 0; from+2 <= len(s); from++ {
				addG(glue{from, from + 2})
				if lay == "distinct" {
					addG(glue{from, from + 3})
				}
			}
			if lay == "distinct" {
				addG(glue{0, len(s)})
				addG(glue{1, len(s)})
			}
		}
	}
	r.Extra("scripted_cases_total", len(scripted))
	for i, sc := range scripted {
		name := "scripted|uuids=" + sc.layout + "|" + gluedString(sc.seq, sc.g)
		if sc.pre > 0 {
			name += fmt.Sprintf("|attached-with-%d", sc.pre)
		}
		if i%16 == 0 {
			r.Begin(name)
		}
		h.layout = sc.layout
		res := h.runScripted(sc.seq, sc.g, sc.pre)
		if res.inconclusive != "" {
			r.Inconclusive(res.inconclusive + " :: " + name)
			r.Case(name, false)
			// the harness goroutine state is unknown now; rebuild it
			h = newHarness(r)
			continue
		}
		r.Case(name, nontrivial(sc.seq))
		r.Count("cases_scripted", 1)
		if sc.pre > 0 {
			r.Count("cases_scripted_links_present_at_attach", 1)
			if leadingAdds(sc.seq) == sc.pre && adds(sc.seq) == sc.pre {
				r.Count("cases_scripted_links_present_at_attach_none_added_later", 1)
			}
		}
		if sc.g.has() {
			r.Count("cases_scripted_with_glued_group", 1)
		}
		r.Count("cases_scripted_uuids_"+sc.layout, 1)
		r.Distinct("reference_logs", strings.Join(res.log, " "))
		if i < 2 || i == len(scripted)/2 {
			r.Sample(map[string]any{"mode": "scripted", "link_uuid_layout": sc.layout, "events": gluedString(sc.seq, sc.g), "reference_log": res.log})
		}
	}

	r.Extra("phase_scripted_s", time.Since(t0).Seconds())
	// rapid: callback-only sequences, repeated (free-running schedules differ)
	var cbSeqs [][]ev
	seen := map[string]bool{}
	for _, s := range all {
		var c []ev
		for _, e := range s {
			if e.k != evAcq {
				c = append(c, e)
			}
		}
		if k := seqString(c); len(c) >= 2 && !seen[k] {
			seen[k] = true
			cbSeqs = append(cbSeqs, c)
		}
	}
	r.Extra("rapid_sequences_total", len(cbSeqs))
	nRapid := r.N(1200, 40000)
	for i := 0; i < nRapid; i++ {
		s := cbSeqs[i%len(cbSeqs)]
		if i >= len(cbSeqs) {
			s = cbSeqs[rng.IntN(len(cbSeqs))]
		}
		// link uuid layout and settle point: the first pass over the list is the
		// plain one; afterwards both are drawn
		h.layout = "distinct"
		split := 0
		pre := 0
		if i >= len(cbSeqs) {
			if la := leadingAdds(s); la > 0 && rng.IntN(3) == 0 {
				pre = 1 + rng.IntN(la)
			}
			if adds(s) >= 2 {
				h.layout = uuidLayouts[rng.IntN(len(uuidLayouts))]
			}
			if rng.IntN(2) == 0 {
				split = rng.IntN(len(s))
			}
		}
		name := fmt.Sprintf("rapid|uuids=%s|split%d|pre%d|%s", h.layout, split, pre, seqString(s))
		if i%32 == 0 {
			r.Begin(name)
		}
		res := h.runRapid(s, split, pre)
		if res.inconclusive != "" {
			r.Inconclusive(res.inconclusive + " :: " + name)
			r.Case(name, false)
			h = newHarness(r)
			continue
		}
		r.Case(name, nontrivial(s))
		r.Count("cases_rapid", 1)
		if pre > 0 {
			r.Count("cases_rapid_links_present_at_attach", 1)
		}
		r.Count("cases_rapid_uuids_"+h.layout, 1)
		if split > 0 {
			r.Count("cases_rapid_with_settle_point", 1)
		}
		r.Distinct("reference_logs", strings.Join(res.log, " "))
		if i == 0 {
			r.Sample(map[string]any{"mode": "rapid", "events": seqString(s), "reference_log": res.log})
		}
	}

	r.Extra("phase_rapid_s", time.Since(t0).Seconds())
	nBurst := r.N(400, 20000)
	for i := 0; i < nBurst; i++ {
		if i%32 == 0 {
			r.Begin(fmt.Sprintf("burst %d", i))
		}
		h.layout = uuidLayouts[rng.IntN(len(uuidLayouts))]
		r.Count("cases_burst_uuids_"+h.layout, 1)
		res, desc := h.runBurst(rng)
		if res.inconclusive != "" {
			r.Inconclusive(res.inconclusive + " :: burst " + desc)
			r.Case("burst|"+desc, false)
			h = newHarness(r)
			continue
		}
		r.Case("burst|"+desc, true)
		r.Count("cases_burst", 1)
		r.Distinct("reference_logs", strings.Join(res.log, " "))
		if i == 0 {
			r.Sample(map[string]any{"mode": "burst", "events": desc, "reference_log": res.log})
		}
	}
	r.Extra("phase_burst_s", time.Since(t0).Seconds())

	// multi: 2-4 requests (different peers) on ONE controller, disposed in every
	// order, with link adds / removes on the others before and after each disposal
	nVar := r.N(4, 60)
	mrng := r.Rand("c33-multi")
	h.layout = "distinct"
	for k := 2; k <= 4; k++ {
		for _, order := range permutations(k) {
			for v := 0; v < nVar; v++ {
				late := 0
				if k > 2 {
					late = v % (k - 1)
				}
				seq := genMulti(mrng, k, order, late)
				name := "multi|" + mevString(seq)
				r.Begin(name)
				res := h.runMulti(k, seq)
				if res.inconclusive != "" {
					r.Inconclusive(res.inconclusive + " :: " + name)
					r.Case(name, false)
					h = newHarness(r)
					continue
				}
				r.Case(name, true)
				r.Count("cases_multi", 1)
				r.Count(fmt.Sprintf("cases_multi_%d_requests", k), 1)
				r.Distinct("multi_disposal_orders", fmt.Sprint(k, order))
				r.Distinct("reference_logs", strings.Join(res.log, " "))
				if k == 3 && v == 0 && order[0] == 1 && order[1] == 0 {
					r.Sample(map[string]any{"mode": "multi", "events": mevString(seq), "reference_log": res.log})
				}
			}
		}
	}
	r.Extra("phase_multi_s", time.Since(t0).Seconds())
	r.Extra("goroutine_dumps_taken", h.stackSnap.Load())
}
