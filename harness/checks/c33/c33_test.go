// C33: the hold-open controller holds a strong reference on a peer's
// EstablishLinkWithPeer directive exactly while links to the peer exist.
//
// The real link_holdopen_controller.Controller is driven through
// HandleDirective with a harness directive.Instance (g10sol.FakeDI) that
// records AddReference / Release and can park the asynchronous strong
// acquisition; the harness delivers value-added / -removed / -disposed
// callbacks itself. The oracle is evaluated only at quiescence.
package c33

import (
	"context"
	"fmt"
	"io"
	"math/rand/v2"
	"runtime"
	"strings"
	"sync"
	"sync/atomic"
	"testing"
	"time"

	"github.com/aperturerobotics/bifrost/link"
	link_holdopen_controller "github.com/aperturerobotics/bifrost/link/hold-open"
	"github.com/aperturerobotics/controllerbus/directive"
	"github.com/sirupsen/logrus"
	"verifharness/g10sol"
	"verifharness/keys"
	"verifharness/vf"
)

// event kinds of a scripted case
const (
	evAdd     = 'A' // value-added for a fresh link
	evRemove  = 'R' // value-removed for live link i
	evAcq     = 'Q' // let the oldest parked strong acquisition complete
	evDispose = 'D' // instance disposed
)

type ev struct {
	k    byte
	link int // 1-based link number for A / R
}

func (e ev) String() string {
	switch e.k {
	case evAdd, evRemove:
		return fmt.Sprintf("%c%d", e.k, e.link)
	}
	return string(e.k)
}

func seqString(s []ev) string {
	var b strings.Builder
	for i, e := range s {
		if i > 0 {
			b.WriteByte(' ')
		}
		b.WriteString(e.String())
	}
	return b.String()
}

// enumerate returns every event sequence of length <= maxLen over <= maxLinks
// links: links are added in order (symmetry), a link is removed at most once
// and only after it was added, dispose happens at most once and ends the
// callbacks (only acquisition completions may follow), an acquisition
// completion is only scheduled after the first add.
func enumerate(maxLen, maxLinks int) [][]ev {
	var out [][]ev
	var rec func(cur []ev, added int, live []bool, disposed bool, nQ int)
	rec = func(cur []ev, added int, live []bool, disposed bool, nQ int) {
		if len(cur) > 0 {
			out = append(out, append([]ev(nil), cur...))
		}
		if len(cur) == maxLen {
			return
		}
		if !disposed {
			if added < maxLinks {
				l2 := append(append([]bool(nil), live...), true)
				rec(append(cur, ev{evAdd, added + 1}), added+1, l2, false, nQ)
			}
			for i, lv := range live {
				if lv {
					l2 := append([]bool(nil), live...)
					l2[i] = false
					rec(append(cur, ev{evRemove, i + 1}), added, l2, false, nQ)
				}
			}
			if added > 0 {
				rec(append(cur, ev{k: evDispose}), added, live, true, nQ)
			}
		}
		// at most as many completions as adds (each add starts at most one acquisition)
		if added > 0 && nQ < added {
			rec(append(cur, ev{k: evAcq}), added, live, disposed, nQ+1)
		}
	}
	rec(nil, 0, nil, false, 0)
	return out
}

type harness struct {
	r         *vf.Run
	le        *logrus.Entry
	baseline  g10sol.IDSet
	baseCount int
	work      chan func()
	delivID   int64
	issued    atomic.Int64
	done      atomic.Int64
	links     []*g10sol.FakeMountedLink
	src, dst  *keys.Identity
	stackSnap atomic.Int64
}

func newHarness(r *vf.Run) *harness {
	l := logrus.New()
	l.SetOutput(io.Discard)
	l.SetLevel(logrus.PanicLevel)
	h := &harness{r: r, le: logrus.NewEntry(l), work: make(chan func())}
	rng := r.Rand("c33-keys")
	h.src, h.dst = keys.New(rng), keys.New(rng)
	for i := 0; i < 8; i++ {
		h.links = append(h.links, &g10sol.FakeMountedLink{UUID: uint64(i + 1), TptUUID: 7, Local: h.src.ID, Remote: h.dst.ID})
	}
	idc := make(chan int64)
	go func() {
		idc <- g10sol.CurGoroutineID()
		for f := range h.work {
			f()
			h.done.Add(1)
		}
	}()
	h.delivID = <-idc
	h.baseline = g10sol.SnapshotIDs()
	h.baseCount = len(h.baseline)
	return h
}

// deliver hands one callback to the (single, serial) delivery goroutine: the
// real directive instance also delivers its callbacks one at a time.
func (h *harness) deliver(f func()) {
	h.issued.Add(1)
	h.work <- f
}

func (h *harness) delivIdle() bool { return h.issued.Load() == h.done.Load() }

func relevant(g g10sol.G) bool {
	return strings.Contains(g.Stack, "bifrost/link/hold-open") || strings.Contains(g.Stack, "verifharness/g10sol") || strings.Contains(g.Stack, "checks/c33")
}

func inGate(g g10sol.G) bool {
	return g.BaseState() == "chan receive" && strings.Contains(g.Stack, "g10sol.(*FakeDI).gateWait")
}

// settle waits until nothing can move without the harness: every goroutine
// created since the baseline is parked in the fake's gate or on a mutex, and
// the delivery goroutine has returned from its callback or is blocked on a
// mutex (the pinned code holds its mutex across AddReference). full = also no
// such goroutine is left at all and the delivery goroutine is idle.
//
// Fast path (no goroutine dump): the delivery goroutine is idle and the number
// of goroutines above the baseline equals the number of acquisitions parked in
// the fake's gate (full: zero). The dump is only needed when that does not
// become true quickly (goroutines blocked on a mutex).
func (h *harness) settle(full bool, di *g10sol.FakeDI) bool {
	iter := 0
	return g10sol.Poll(30*time.Second, func() bool {
		iter++
		idle := h.delivIdle()
		extras := runtime.NumGoroutine() - h.baseCount
		if idle {
			if full && extras == 0 {
				return true
			}
			if !full && extras == di.Pending() {
				return true
			}
		}
		if full && !idle {
			return false
		}
		if iter < 40 || iter%8 != 0 {
			return false
		}
		h.stackSnap.Add(1)
		for _, g := range g10sol.Goroutines() {
			if g.ID == h.delivID {
				if !idle && g.BaseState() != "sync.Mutex.Lock" {
					return false
				}
				continue
			}
			if _, ok := h.baseline[g.ID]; ok {
				continue
			}
			if !relevant(g) {
				continue
			}
			if full {
				return false
			}
			if !inGate(g) && g.BaseState() != "sync.Mutex.Lock" {
				return false
			}
		}
		return true
	})
}

type caseResult struct {
	inconclusive string
	log          []string
}

func (h *harness) newCase() (*link_holdopen_controller.Controller, *g10sol.FakeDI, directive.ReferenceHandler, string) {
	ctrl, err := link_holdopen_controller.NewController(nil, h.le)
	if err != nil {
		return nil, nil, nil, "NewController: " + err.Error()
	}
	di := g10sol.NewFakeDI(link.NewEstablishLinkWithPeer(h.src.ID, h.dst.ID))
	if _, err := ctrl.HandleDirective(context.Background(), di); err != nil {
		return nil, nil, nil, "HandleDirective: " + err.Error()
	}
	hs := di.Handlers()
	if len(hs) != 1 {
		return nil, nil, nil, fmt.Sprintf("expected one reference handler on the directive, found %d", len(hs))
	}
	return ctrl, di, hs[0], ""
}

func (h *harness) av(linkNo int) directive.AttachedValue {
	return directive.NewAttachedValue(uint32(linkNo), link.MountedLink(h.links[linkNo-1]))
}

// check evaluates the oracle at a quiescent point.
func (h *harness) check(di *g10sol.FakeDI, where string, live int, disposed bool, desc string, mode string) {
	out, total, dbl := di.StrongOutstanding()
	h.r.Count("oracle_evaluations", 1)
	if dbl > 0 {
		h.r.Count("references_released_more_than_once", dbl) // idempotent in controllerbus; not a violation
	}
	wit := func() map[string]any {
		return map[string]any{"mode": mode, "events": desc, "checked": where, "live_links": live, "disposed": disposed,
			"strong_refs_outstanding": out, "strong_refs_acquired_total": total, "max_parallel_acquisitions": di.MaxPending(), "reference_log": di.Log()}
	}
	// input class of a failure, from the fake's own log: were two strong
	// references ever held at the same time, or was one acquired late?
	cause := "late-acquire"
	held := 0
	for _, l := range di.Log() {
		switch {
		case strings.HasPrefix(l, "acquired#"):
			held++
			if held > 1 {
				cause = "double-acquire"
			}
		case strings.HasPrefix(l, "release#"):
			held--
		}
	}
	if total == 0 {
		cause = "never-acquired"
	}
	switch {
	case disposed && out != 0:
		h.r.Violation("holdopen/ref-held-after-dispose/"+cause, "the directive instance was disposed but a strong reference is still outstanding at quiescence", wit())
	case !disposed && live == 0 && out != 0:
		h.r.Violation("holdopen/ref-leaked-after-last-removal/"+cause, "all links to the peer are gone but a strong reference is still outstanding at quiescence (the request can never expire)", wit())
	case !disposed && live > 0 && out == 0:
		h.r.Violation("holdopen/no-ref-while-links-exist", "links to the peer exist but no strong reference is held at quiescence", wit())
	}
}

// runScripted runs one gate-controlled case.
func (h *harness) runScripted(seq []ev) caseResult {
	_, di, hd, bad := h.newCase()
	if bad != "" {
		return caseResult{inconclusive: bad}
	}
	di.SetGate(true)
	desc := seqString(seq)
	live := map[int]bool{}
	disposed := false
	forced := 0
	// unblock makes sure the previous callback has returned before the next one
	// is delivered (callbacks are serial); on code that holds its lock across the
	// acquisition this needs the parked acquisition to be completed first.
	unblock := func() bool {
		for !h.delivIdle() {
			if di.Pending() > 0 {
				di.Complete(0)
				di.Note("forced-complete")
				forced++
			}
			if !h.settle(false, di) {
				return false
			}
			if !h.delivIdle() && di.Pending() == 0 {
				// blocked on a lock nobody the harness controls holds: wait for it
				if !g10sol.Poll(30*time.Second, h.delivIdle) {
					return false
				}
			}
		}
		return true
	}
	for _, e := range seq {
		switch e.k {
		case evAdd:
			if !unblock() {
				return caseResult{inconclusive: "watchdog while unblocking", log: di.Log()}
			}
			live[e.link] = true
			v := h.av(e.link)
			di.Note("add" + fmt.Sprint(e.link))
			h.deliver(func() { hd.HandleValueAdded(di, v) })
		case evRemove:
			if !unblock() {
				return caseResult{inconclusive: "watchdog while unblocking", log: di.Log()}
			}
			delete(live, e.link)
			v := h.av(e.link)
			di.Note("remove" + fmt.Sprint(e.link))
			h.deliver(func() { hd.HandleValueRemoved(di, v) })
		case evDispose:
			if !unblock() {
				return caseResult{inconclusive: "watchdog while unblocking", log: di.Log()}
			}
			disposed = true
			di.Note("dispose")
			h.deliver(func() { hd.HandleInstanceDisposed(di) })
		case evAcq:
			if di.Complete(0) {
				di.Note("complete")
				h.r.Count("acquisitions_completed_by_script", 1)
			} else {
				h.r.Count("completion_events_with_nothing_parked", 1)
			}
		}
		if !h.settle(false, di) {
			return caseResult{inconclusive: "watchdog while settling after " + e.String(), log: di.Log()}
		}
	}
	h.r.Count("acquisitions_completed_by_force", forced)
	return h.finish(di, hd, live, disposed, desc, "scripted")
}

// finish opens all gates, evaluates the oracle, then drains (remove remaining
// links, dispose) with the oracle evaluated after each step.
func (h *harness) finish(di *g10sol.FakeDI, hd directive.ReferenceHandler, live map[int]bool, disposed bool, desc, mode string) caseResult {
	di.SetGate(false)
	di.Note("gates-open")
	if !h.settle(true, di) {
		return caseResult{inconclusive: "watchdog waiting for quiescence", log: di.Log()}
	}
	h.check(di, "end of script", len(live), disposed, desc, mode)
	if !disposed && len(live) > 0 {
		for l := 1; l <= len(h.links); l++ {
			if live[l] {
				v := h.av(l)
				di.Note("drain-remove" + fmt.Sprint(l))
				h.deliver(func() { hd.HandleValueRemoved(di, v) })
				delete(live, l)
			}
		}
		if !h.settle(true, di) {
			return caseResult{inconclusive: "watchdog waiting for quiescence (drain)", log: di.Log()}
		}
		h.check(di, "after removing the remaining links", 0, false, desc, mode)
	}
	if !disposed {
		di.Note("drain-dispose")
		h.deliver(func() { hd.HandleInstanceDisposed(di) })
		if !h.settle(true, di) {
			return caseResult{inconclusive: "watchdog waiting for quiescence (dispose)", log: di.Log()}
		}
		h.check(di, "after dispose", 0, true, desc, mode)
	}
	return caseResult{log: di.Log()}
}

// runRapid delivers the callbacks of seq back to back (no settling, no gate):
// the asynchronous acquisition races the following callbacks freely.
func (h *harness) runRapid(seq []ev) caseResult {
	_, di, hd, bad := h.newCase()
	if bad != "" {
		return caseResult{inconclusive: bad}
	}
	live := map[int]bool{}
	disposed := false
	var calls []func()
	for _, e := range seq {
		switch e.k {
		case evAdd:
			live[e.link] = true
			v := h.av(e.link)
			calls = append(calls, func() { hd.HandleValueAdded(di, v) })
		case evRemove:
			delete(live, e.link)
			v := h.av(e.link)
			calls = append(calls, func() { hd.HandleValueRemoved(di, v) })
		case evDispose:
			disposed = true
			calls = append(calls, func() { hd.HandleInstanceDisposed(di) })
		}
	}
	h.deliver(func() {
		for _, c := range calls {
			c()
		}
	})
	return h.finish(di, hd, live, disposed, seqString(seq), "rapid")
}

// runBurst delivers adds (and removes) of several links from concurrent
// goroutines; per link the order add -> remove is kept.
func (h *harness) runBurst(rng *rand.Rand) (caseResult, string) {
	_, di, hd, bad := h.newCase()
	if bad != "" {
		return caseResult{inconclusive: bad}, ""
	}
	n := 2 + rng.IntN(3)
	keep := make([]bool, n)
	var desc strings.Builder
	live := map[int]bool{}
	for i := range keep {
		keep[i] = rng.IntN(3) == 0
		if keep[i] {
			live[i+1] = true
			fmt.Fprintf(&desc, "g%d:A%d ", i, i+1)
		} else {
			fmt.Fprintf(&desc, "g%d:A%d,R%d ", i, i+1, i+1)
		}
	}
	start := make(chan struct{})
	var wg sync.WaitGroup
	for i := 0; i < n; i++ {
		wg.Add(1)
		go func(i int) {
			defer wg.Done()
			v := h.av(i + 1)
			<-start
			hd.HandleValueAdded(di, v)
			if !keep[i] {
				hd.HandleValueRemoved(di, v)
			}
		}(i)
	}
	close(start)
	wg.Wait()
	return h.finish(di, hd, live, false, desc.String(), "burst"), desc.String()
}

func TestCheck(t *testing.T) {
	r := vf.Start(t, "C33", vf.FaultEnumeration)
	defer r.Finish()
	r.SetRule("Real hold-open Controller.HandleDirective on a harness directive instance carrying EstablishLinkWithPeer. (1) scripted: ALL sequences of length <= 6 (thorough: <= 10 = every sequence possible with 3 links) over {add link i (i <= 3, fresh values), remove live link i, complete the parked strong acquisition, dispose (ends the callbacks)}; callbacks are delivered serially like the real instance does; the fake parks every AddReference(strong) until the script completes it, so the asynchronous acquisition is held across removals / disposal deterministically; after every event the harness waits until every new goroutine is parked in the gate or on a mutex (goroutine dump). (2) rapid: the same callback sequences delivered back to back with the gate open (acquisition races the callbacks freely). (3) burst: 2-4 goroutines deliver add (and remove) of their own link concurrently. Oracle only at quiescence (gates open, no goroutine of the controller / fake left, delivery idle): strong references outstanding on the fake >= 1 if live links > 0, = 0 if none, = 0 after dispose; then the remaining links are removed (= 0) and the instance disposed (= 0). Non-trivial = a case with at least one add and one remove or dispose; distinct = distinct (mode, sequence)")
	r.Assume("callbacks of one directive instance are delivered serially (controllerbus callCallbacksLocked queues them); the burst mode additionally delivers from several goroutines because the property names concurrent additions")
	h := newHarness(r)
	rng := r.Rand("c33")

	t0 := time.Now() // phase timing for the evidence only
	maxLen := r.N(6, 10)
	all := enumerate(maxLen, 3)
	r.Extra("scripted_sequences_total", len(all))
	r.Extra("scripted_max_len", maxLen)
	scripted := all
	r.SetExhaustive(true) // the bounded space of scripted sequences is enumerated completely
	nontrivial := func(s []ev) bool {
		a, x := false, false
		for _, e := range s {
			switch e.k {
			case evAdd:
				a = true
			case evRemove, evDispose:
				x = true
			}
		}
		return a && x
	}
	for i, s := range scripted {
		if i%16 == 0 {
			r.Begin("scripted: " + seqString(s))
		}
		res := h.runScripted(s)
		if res.inconclusive != "" {
			r.Inconclusive(res.inconclusive + " :: scripted " + seqString(s))
			r.Case("scripted|"+seqString(s), false)
			// the harness goroutine state is unknown now; rebuild it
			h = newHarness(r)
			continue
		}
		r.Case("scripted|"+seqString(s), nontrivial(s))
		r.Count("cases_scripted", 1)
		r.Distinct("reference_logs", strings.Join(res.log, " "))
		if i < 2 || i == len(scripted)/2 {
			r.Sample(map[string]any{"mode": "scripted", "events": seqString(s), "reference_log": res.log})
		}
	}

	r.Extra("phase_scripted_s", time.Since(t0).Seconds())
	// rapid: callback-only sequences, repeated (free-running schedules differ)
	var cbSeqs [][]ev
	seen := map[string]bool{}
	for _, s := range all {
		var c []ev
		for _, e := range s {
			if e.k != evAcq {
				c = append(c, e)
			}
		}
		if k := seqString(c); len(c) >= 2 && !seen[k] {
			seen[k] = true
			cbSeqs = append(cbSeqs, c)
		}
	}
	r.Extra("rapid_sequences_total", len(cbSeqs))
	nRapid := r.N(1200, 40000)
	for i := 0; i < nRapid; i++ {
		s := cbSeqs[i%len(cbSeqs)]
		if i >= len(cbSeqs) {
			s = cbSeqs[rng.IntN(len(cbSeqs))]
		}
		if i%32 == 0 {
			r.Begin("rapid: " + seqString(s))
		}
		res := h.runRapid(s)
		if res.inconclusive != "" {
			r.Inconclusive(res.inconclusive + " :: rapid " + seqString(s))
			r.Case("rapid|"+seqString(s), false)
			h = newHarness(r)
			continue
		}
		r.Case("rapid|"+seqString(s), nontrivial(s))
		r.Count("cases_rapid", 1)
		r.Distinct("reference_logs", strings.Join(res.log, " "))
		if i == 0 {
			r.Sample(map[string]any{"mode": "rapid", "events": seqString(s), "reference_log": res.log})
		}
	}

	r.Extra("phase_rapid_s", time.Since(t0).Seconds())
	nBurst := r.N(400, 20000)
	for i := 0; i < nBurst; i++ {
		if i%32 == 0 {
			r.Begin(fmt.Sprintf("burst %d", i))
		}
		res, desc := h.runBurst(rng)
		if res.inconclusive != "" {
			r.Inconclusive(res.inconclusive + " :: burst " + desc)
			r.Case("burst|"+desc, false)
			h = newHarness(r)
			continue
		}
		r.Case("burst|"+desc, true)
		r.Count("cases_burst", 1)
		r.Distinct("reference_logs", strings.Join(res.log, " "))
		if i == 0 {
			r.Sample(map[string]any{"mode": "burst", "events": desc, "reference_log": res.log})
		}
	}
	r.Extra("goroutine_dumps_taken", h.stackSnap.Load())
}
