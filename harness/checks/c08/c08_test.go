// C08: packet framing over byte streams preserves packets exactly.
//
// The real rwc.PacketConn and stream/packet.Session run over a chunkPipe (the
// harness is the byte stream: it chunks deliveries, injects corrupted length
// prefixes / truncations, accepts partial writes). Every packet has a known
// content; the oracle replays the receiver's results against the sent
// sequences (per-writer FIFO, exact content, nothing extra, nothing after a bad
// prefix).
package c08

import (
	"bytes"
	"context"
	"encoding/binary"
	"fmt"
	"io"
	"math/rand/v2"
	"net"
	"sync"
	"testing"
	"time"

	stream_packet "github.com/aperturerobotics/bifrost/stream/packet"
	"github.com/aperturerobotics/bifrost/util/rwc"
	"verifharness/g4pipe"
	"verifharness/vf"
)

const watchdog = 60 * time.Second

type strAddr string

func (a strAddr) Network() string { return "verif" }
func (a strAddr) String() string  { return string(a) }

func le32(v uint32) []byte {
	var b [4]byte
	binary.LittleEndian.PutUint32(b[:], v)
	return b[:]
}

// rawMsg is a protobuf_go_lite.Message whose encoding is exactly its bytes.
type rawMsg struct {
	data  []byte
	reset int
	unm   int
}

func (m *rawMsg) SizeVT() int { return len(m.data) }
func (m *rawMsg) MarshalToSizedBufferVT(b []byte) (int, error) {
	copy(b[len(b)-len(m.data):], m.data)
	return len(m.data), nil
}
func (m *rawMsg) MarshalVT() ([]byte, error) { return append([]byte(nil), m.data...), nil }
func (m *rawMsg) UnmarshalVT(b []byte) error {
	m.data = append([]byte(nil), b...)
	m.unm++
	return nil
}
func (m *rawMsg) Reset() { m.data = nil; m.reset++ }

// ---- case description

type inject struct {
	kind  string // zero | over | truncated
	after int    // injected after this many packets of writer 0
	raw   []byte
	eof   bool // close the stream right after the injected bytes (truncated)
}

type flowSpec struct {
	pkts     [][][]byte // per writer
	inj      *inject
	bufSizes []int // single writer: reader buffer size per packet index; nil = always max
	partial  bool  // underlying writer accepts only part of each write
}

type caseSpec struct {
	idx     int
	target  string // packetconn | session
	max     uint32
	bufN    int
	chunk   string
	capN    int
	duplex  bool
	flows   []*flowSpec // 1 or 2 (A->B, B->A)
	sizeCls string
}

func (c *caseSpec) sig() string {
	s := fmt.Sprintf("%s|max%d|buf%d|%s|cap%d|dup=%v", c.target, c.max, c.bufN, c.chunk, c.capN, c.duplex)
	for _, f := range c.flows {
		s += fmt.Sprintf("|w%d", len(f.pkts))
		for _, w := range f.pkts {
			s += fmt.Sprintf(":%d", len(w))
			for _, p := range w {
				s += fmt.Sprintf(",%d", len(p))
			}
		}
		if f.inj != nil {
			s += fmt.Sprintf("|inj=%s@%d:%x", f.inj.kind, f.inj.after, f.inj.raw[:min(len(f.inj.raw), 8)])
		}
		if f.bufSizes != nil {
			s += fmt.Sprint("|bufs", f.bufSizes)
		}
		if f.partial {
			s += "|partial"
		}
	}
	return s
}

func mkChunker(kind string, rng *rand.Rand) g4pipe.Chunker {
	switch kind {
	case "one":
		return g4pipe.OneByte
	case "rand":
		return g4pipe.Random(rng, 0)
	case "rand3":
		return g4pipe.Random(rng, 3)
	case "rand64":
		return g4pipe.Random(rng, 64)
	}
	return g4pipe.All
}

func genPacket(rng *rand.Rand, writer, size int) []byte {
	p := make([]byte, size)
	for i := range p {
		p[i] = byte(rng.UintN(256))
	}
	if size > 0 {
		p[0] = byte(writer)
	}
	return p
}

func pickSize(rng *rand.Rand, max int, minSize int) int {
	special := []int{1, 2, 3, 4, 5, 255, 256, 257, max - 1, max, max, max / 2}
	if rng.IntN(3) == 0 {
		s := special[rng.IntN(len(special))]
		if s >= minSize && s <= max && s >= 0 {
			return s
		}
	}
	if max <= minSize {
		return max
	}
	if rng.IntN(3) == 0 {
		m := min(max, 64)
		return minSize + rng.IntN(m-minSize+1)
	}
	return minSize + rng.IntN(max-minSize+1)
}

func genFlow(rng *rand.Rand, c *caseSpec, allowInject bool, minSize int) *flowSpec {
	f := &flowSpec{}
	max := int(c.max)
	writers := 1
	if rng.IntN(2) == 0 {
		writers = 1 + rng.IntN(4)
	}
	total := 1 + rng.IntN(200)
	if max > 20000 {
		total = 1 + rng.IntN(24)
	}
	if rng.IntN(4) == 0 {
		total = 1 + rng.IntN(6)
	}
	// byte budget: fresh memory and per-read overhead are expensive under the
	// race detector, so fine-grained chunkings get less volume.
	budget := 256 << 10
	if c.chunk == "one" || c.chunk == "rand3" {
		budget = 24 << 10
	}
	if budget < 2*max {
		budget = 2*max + 16
	}
	f.pkts = make([][][]byte, writers)
	for i := 0; i < total && budget > 0; i++ {
		w := rng.IntN(writers)
		ms := minSize
		if c.target == "packetconn" || writers > 1 {
			ms = max1(minSize, 1) // first byte carries the writer id
		}
		sz := pickSize(rng, max, ms)
		if sz > budget && i > 0 {
			sz = ms + rng.IntN(min(64, max-ms+1))
		}
		budget -= sz + 4
		f.pkts[w] = append(f.pkts[w], genPacket(rng, w, sz))
	}
	if len(f.pkts[0]) == 0 { // writer 0 always sends at least one packet
		f.pkts[0] = append(f.pkts[0], genPacket(rng, 0, pickSize(rng, max, max1(minSize, 1))))
	}
	if writers == 1 && allowInject {
		n := len(f.pkts[0])
		switch rng.IntN(8) {
		case 0, 1: // corrupted / hostile length prefix
			inj := &inject{after: rng.IntN(n + 1)}
			if rng.IntN(2) == 0 {
				inj.kind = "zero"
				inj.raw = le32(0)
				// followed by something that would parse as a packet if the reader went on
				if rng.IntN(2) == 0 {
					inj.raw = append(inj.raw, append(le32(1), 0x55)...)
				}
			} else {
				inj.kind = "over"
				L := []uint32{c.max + 1, c.max + 1, c.max + 2, 1<<31 - 1, 1 << 31, 1<<32 - 1}[rng.IntN(6)]
				inj.raw = le32(L)
				switch rng.IntN(3) {
				case 0:
					if L <= c.max+2 { // a well-formed packet that is just too long
						inj.raw = append(inj.raw, genPacket(rng, 0, int(L))...)
					}
				case 1:
					inj.raw = append(inj.raw, genPacket(rng, 0, rng.IntN(9))...)
				}
			}
			f.inj = inj
		case 2: // truncated packet then EOF
			sz := pickSize(rng, max, max1(minSize, 1))
			have := rng.IntN(sz + 4)
			raw := append(le32(uint32(sz)), genPacket(rng, 0, sz)...)
			f.inj = &inject{kind: "truncated", after: n, raw: raw[:have], eof: true}
			if have == 0 {
				f.inj = nil
			}
		case 3, 4: // reader buffers smaller than some packets
			if c.target == "packetconn" {
				f.bufSizes = make([]int, n)
				for i := range f.bufSizes {
					f.bufSizes[i] = max
					sz := len(f.pkts[0][i])
					if rng.IntN(3) == 0 {
						switch rng.IntN(4) {
						case 0:
							f.bufSizes[i] = sz - 1
						case 1:
							f.bufSizes[i] = sz
						case 2:
							f.bufSizes[i] = rng.IntN(sz)
						case 3:
							f.bufSizes[i] = sz + 1
						}
					}
				}
			}
		}
	}
	return f
}

func max1(a, b int) int {
	if a > b {
		return a
	}
	return b
}

func genCase(r *vf.Run, idx int) *caseSpec {
	rng := rand.New(rand.NewPCG(r.Seed(), uint64(idx)*2+1))
	c := &caseSpec{idx: idx}
	if idx%5 < 3 {
		c.target = "packetconn"
	} else {
		c.target = "session"
	}
	maxes := []uint32{1, 2, 5, 16, 255, 256, 1500, 4096, 65535}
	c.max = maxes[rng.IntN(len(maxes))]
	if rng.IntN(4) == 0 {
		c.max = uint32(1 + rng.IntN(3000))
	}
	if rng.IntN(16) == 0 {
		c.max = 200000
	}
	c.bufN = []int{1, 2, 10, 0}[rng.IntN(4)]
	c.chunk = []string{"one", "rand", "rand3", "rand64", "all"}[rng.IntN(5)]
	if c.max > 20000 && (c.chunk == "one" || c.chunk == "rand3") {
		c.chunk = "rand64"
	}
	if rng.IntN(3) == 0 {
		c.capN = []int{1, 7, 64, 4096}[rng.IntN(4)]
	}
	minSize := 1
	if c.target == "session" {
		minSize = 0
	}
	switch {
	case idx%40 == 7 && c.target == "packetconn":
		// partial underlying writes: WriteTo must report an error
		f := &flowSpec{partial: true, pkts: [][][]byte{{genPacket(rng, 0, 2+rng.IntN(int(min(c.max, 2000))+1))}}}
		if len(f.pkts[0][0]) > int(c.max) {
			f.pkts[0][0] = f.pkts[0][0][:c.max]
		}
		c.flows = []*flowSpec{f}
	default:
		c.duplex = rng.IntN(3) == 0
		c.flows = []*flowSpec{genFlow(rng, c, true, minSize)}
		if c.duplex {
			c.flows = append(c.flows, genFlow(rng, c, true, minSize))
		}
	}
	return c
}

// ---- running

type readRes struct {
	n      int
	err    error
	data   []byte
	bufLen int
	addr   string
}

type flowResult struct {
	reads     []readRes
	writeErrs []string
	partialOK bool // partial mode: WriteTo reported an error
	timedOut  bool
}

type packetEnd interface {
	send(p []byte) error
	recv(bufLen int) readRes
}

type pcEnd struct {
	pc   *rwc.PacketConn
	peer net.Addr
}

func (e *pcEnd) send(p []byte) error {
	n, err := e.pc.WriteTo(p, e.peer)
	if err == nil && n != len(p) {
		return errShortNil{n, len(p)}
	}
	return err
}

func (e *pcEnd) recv(bufLen int) readRes {
	buf := make([]byte, bufLen)
	n, addr, err := e.pc.ReadFrom(buf)
	rr := readRes{n: n, err: err, bufLen: bufLen}
	if n >= 0 && n <= len(buf) {
		rr.data = append([]byte(nil), buf[:n]...)
	}
	if addr != nil {
		rr.addr = addr.String()
	}
	return rr
}

// errShortNil: the sender returned n != len(p) together with a nil error (that
// is not "reporting an error").
type errShortNil struct{ n, want int }

func (e errShortNil) Error() string {
	return fmt.Sprintf("returned n=%d for a %d byte packet with a nil error", e.n, e.want)
}

type sessEnd struct{ s *stream_packet.Session }

func (e *sessEnd) send(p []byte) error { return e.s.SendMsg(&rawMsg{data: p}) }
func (e *sessEnd) recv(int) readRes {
	m := &rawMsg{data: []byte("stale-content-that-must-be-replaced")}
	err := e.s.RecvMsg(m)
	return readRes{n: len(m.data), err: err, data: m.data}
}

func runFlow(c *caseSpec, f *flowSpec, src, dst packetEnd, srcEnd *g4pipe.End, res *flowResult) {
	var mu sync.Mutex
	readerDone := make(chan struct{})
	go func() {
		defer close(readerDone)
		i := 0
		for {
			bl := int(c.max)
			if f.bufSizes != nil && i < len(f.bufSizes) {
				bl = f.bufSizes[i]
			}
			rr := dst.recv(bl)
			res.reads = append(res.reads, rr)
			i++
			if rr.err != nil && rr.err != io.ErrShortBuffer {
				if c.target == "packetconn" {
					// the connection has ended: every later read must fail too
					for k := 0; k < 2; k++ {
						res.reads = append(res.reads, dst.recv(int(c.max)))
					}
				}
				return
			}
			if i > 100000 {
				return
			}
		}
	}()

	if f.partial {
		srcEnd.Out.PartialWrites(func(n int) int { return n - 1 - (n-1)/3 })
	}
	var wg sync.WaitGroup
	for w := range f.pkts {
		wg.Add(1)
		go func(w int) {
			defer wg.Done()
			for i, p := range f.pkts[w] {
				if f.inj != nil && w == 0 && f.inj.after == i {
					srcEnd.Out.Inject(f.inj.raw)
				}
				if err := src.send(p); err != nil {
					mu.Lock()
					res.writeErrs = append(res.writeErrs, fmt.Sprintf("writer %d packet %d (%d bytes): %v", w, i, len(p), err))
					if _, shortNil := err.(errShortNil); f.partial && !shortNil {
						res.partialOK = true
					}
					mu.Unlock()
					if f.partial {
						return
					}
				}
			}
			if f.inj != nil && w == 0 && f.inj.after == len(f.pkts[w]) {
				srcEnd.Out.Inject(f.inj.raw)
			}
		}(w)
	}
	// once the reader has seen the end of the connection nobody drains a
	// bounded pipe any more: lift the bound so the writers can finish.
	go func() { <-readerDone; srcEnd.Out.SetCap(0) }()
	writersDone := make(chan struct{})
	go func() { wg.Wait(); close(writersDone) }()
	timer := time.NewTimer(watchdog)
	defer timer.Stop()
	select {
	case <-writersDone:
	case <-timer.C:
		res.timedOut = true
		return
	}
	srcEnd.Out.CloseWrite()
	select {
	case <-readerDone:
	case <-timer.C:
		res.timedOut = true
	}
}

func judgeFlow(r *vf.Run, c *caseSpec, fi int, f *flowSpec, res *flowResult, dstIn *g4pipe.Half) (ok bool) {
	T := c.target
	wit := func(extra map[string]any) map[string]any {
		m := map[string]any{"case": c.idx, "flow": fi, "sig": c.sig(), "writers": len(f.pkts), "max": c.max, "chunking": c.chunk, "cap": c.capN}
		if f.inj != nil {
			m["inject"] = map[string]any{"kind": f.inj.kind, "after_packet": f.inj.after, "raw": vf.Hex(f.inj.raw)}
		}
		var rs []string
		for i, x := range res.reads {
			if i > 40 {
				rs = append(rs, "...")
				break
			}
			rs = append(rs, fmt.Sprintf("n=%d err=%v buf=%d data=%s", x.n, x.err, x.bufLen, vf.Hex(x.data[:min(len(x.data), 12)])))
		}
		m["reads"] = rs
		m["write_errors"] = res.writeErrs
		for k, v := range extra {
			m[k] = v
		}
		return m
	}
	if res.timedOut {
		r.Inconclusive(fmt.Sprintf("case %d flow %d: reader did not finish within the watchdog", c.idx, fi))
		return false
	}
	if f.partial {
		// nothing is asserted on the byte stream; WriteTo must have reported the short write
		if !res.partialOK {
			r.Violation(T+"/partial-write-not-reported", "underlying writer accepted only part of the frame (n<len, nil) and WriteTo reported success", wit(nil))
			return false
		}
		r.Count("partial_write_reported", 1)
		return true
	}
	if len(res.writeErrs) > 0 {
		r.Inconclusive(fmt.Sprintf("case %d flow %d: send failed on a healthy stream: %s", c.idx, fi, res.writeErrs[0]))
		return false
	}
	if T == "session" && f.inj != nil && f.inj.kind == "zero" {
		// DESIGN 8: a zero prefix on a Session may be an empty message (then the
		// framing of everything after it must be intact) or an error.
		k := f.inj.after
		if len(res.reads) > k && res.reads[k].err == nil {
			np := append([][]byte(nil), f.pkts[0][:k]...)
			np = append(np, []byte{})
			if len(f.inj.raw) > 4 { // the crafted follow-up frame {len=1, 0x55} is then a message too
				np = append(np, []byte{0x55})
			}
			np = append(np, f.pkts[0][k:]...)
			f = &flowSpec{pkts: [][][]byte{np}}
			r.Count("session_zero_prefix_read_as_empty_message", 1)
		}
	}
	ok = true
	next := make([]int, len(f.pkts))
	limit0 := len(f.pkts[0]) // how many of writer 0's packets precede the injected bytes
	if f.inj != nil {
		limit0 = f.inj.after
	}
	ended := false
	delivered := 0
	for i, rr := range res.reads {
		if ended {
			if rr.err == nil || rr.err == io.ErrShortBuffer {
				ok = false
				r.Violation(T+"/delivered-after-end", "a read after the connection ended with an error returned a packet", wit(map[string]any{"read_index": i}))
			}
			continue
		}
		if rr.err != nil && rr.err != io.ErrShortBuffer {
			ended = true
			if rr.n != 0 && T == "packetconn" {
				ok = false
				r.Violation(T+"/data-with-terminal-error", "terminal error came with n>0", wit(map[string]any{"read_index": i}))
			}
			continue
		}
		// a packet (possibly cut by a short buffer)
		w := 0
		if len(f.pkts) > 1 || T == "packetconn" {
			if len(rr.data) == 0 && rr.bufLen == 0 && rr.err == io.ErrShortBuffer {
				w = 0 // zero-size reader buffer: single writer only
			} else if len(rr.data) == 0 || int(rr.data[0]) >= len(f.pkts) {
				ok = false
				r.Violation(T+"/garbage-packet", "received a packet no writer sent", wit(map[string]any{"read_index": i}))
				break
			} else {
				w = int(rr.data[0])
			}
		}
		lim := len(f.pkts[w])
		if w == 0 {
			lim = limit0
		}
		if next[w] >= lim {
			ok = false
			key := T + "/extra-packet"
			what := "received more packets than were sent (duplication / splitting)"
			if f.inj != nil && w == 0 && f.inj.after >= 0 {
				key = T + "/delivered-after-bad-prefix/" + f.inj.kind
				what = "a packet was delivered after a " + f.inj.kind + " length prefix: the stream was misframed instead of ended"
			}
			r.Violation(key, what, wit(map[string]any{"read_index": i}))
			break
		}
		exp := f.pkts[w][next[w]]
		next[w]++
		delivered++
		if rr.err == io.ErrShortBuffer {
			r.Count("short_buffer_reads", 1)
			if rr.bufLen >= len(exp) {
				ok = false
				r.Violation(T+"/short-buffer-spurious", "ErrShortBuffer although the buffer was large enough", wit(map[string]any{"read_index": i, "packet_len": len(exp)}))
			} else if rr.n != rr.bufLen || !bytes.Equal(rr.data, exp[:rr.bufLen]) {
				ok = false
				r.Violation(T+"/short-buffer-wrong-prefix", "short-buffer read did not return the first len(buf) bytes of the packet", wit(map[string]any{"read_index": i, "packet_len": len(exp)}))
			}
			continue
		}
		if T == "packetconn" && rr.bufLen < len(exp) {
			ok = false
			r.Violation(T+"/short-buffer-not-reported", "reader buffer smaller than the packet and no io.ErrShortBuffer", wit(map[string]any{"read_index": i, "packet_len": len(exp)}))
			continue
		}
		if !bytes.Equal(rr.data, exp) {
			ok = false
			r.Violation(T+"/content-mismatch", fmt.Sprintf("packet %d of writer %d differs from what was written (got %d bytes, want %d): loss, reordering, merging, splitting or corruption", next[w]-1, w, len(rr.data), len(exp)), wit(map[string]any{"read_index": i, "want": vf.Hex(exp)}))
			break
		}
	}
	if !ok {
		return false
	}
	if !ended {
		r.Inconclusive(fmt.Sprintf("case %d flow %d: reader stopped without a terminal error", c.idx, fi))
		return false
	}
	// everything written before the end of the healthy part must have arrived
	for w := range f.pkts {
		lim := len(f.pkts[w])
		if w == 0 {
			lim = limit0
		}
		if next[w] != lim {
			r.Violation(T+"/lost-packet", fmt.Sprintf("writer %d: %d of %d packets delivered before the connection ended", w, next[w], lim), wit(map[string]any{"underlying_delivered": dstIn.Delivered(), "underlying_written": dstIn.WrittenLen()}))
			return false
		}
	}
	if len(f.pkts) > 1 {
		// the interleaving of the concurrent writers as observed by the reader
		var order []byte
		for _, rr := range res.reads {
			if rr.err == nil && len(rr.data) > 0 {
				order = append(order, '0'+rr.data[0])
			}
		}
		r.Distinct("writer_interleavings", string(order))
		r.Count("multi_writer_flows", 1)
	}
	r.Count(T+"_packets_delivered_checked", delivered)
	if f.inj != nil && f.inj.after >= 0 {
		r.Count(T+"_ended_on_"+f.inj.kind, 1)
	}
	return true
}

func runCase(r *vf.Run, c *caseSpec) {
	rng := rand.New(rand.NewPCG(r.Seed(), uint64(c.idx)*2+2))
	ctx, cancel := context.WithCancel(context.Background())
	defer cancel()
	ea, eb := g4pipe.New()
	for _, h := range []*g4pipe.Half{ea.In, eb.In} {
		h.SetChunker(mkChunker(c.chunk, rand.New(rand.NewPCG(rng.Uint64(), 1))))
		h.KeepLog(false) // the oracle keeps its own copy of every packet
		if c.capN > 0 {
			h.SetCap(c.capN)
		}
	}
	var a, b packetEnd
	if c.target == "packetconn" {
		aa, ba := strAddr("addr-a"), strAddr("addr-b")
		a = &pcEnd{pc: rwc.NewPacketConn(ctx, ea, aa, ba, c.max, c.bufN), peer: ba}
		b = &pcEnd{pc: rwc.NewPacketConn(ctx, eb, ba, aa, c.max, c.bufN), peer: aa}
	} else {
		a = &sessEnd{s: stream_packet.NewSession(ea, c.max)}
		b = &sessEnd{s: stream_packet.NewSession(eb, c.max)}
	}
	results := make([]*flowResult, len(c.flows))
	var wg sync.WaitGroup
	for i, f := range c.flows {
		results[i] = &flowResult{}
		wg.Add(1)
		go func(i int, f *flowSpec) {
			defer wg.Done()
			if i == 0 {
				runFlow(c, f, a, b, ea, results[i])
			} else {
				runFlow(c, f, b, a, eb, results[i])
			}
		}(i, f)
	}
	wg.Wait()
	// unblock everything still parked (rx pumps, stuck readers)
	cancel()
	_ = ea.Close()
	_ = eb.Close()

	allOK := true
	for i, f := range c.flows {
		in := eb.In
		if i == 1 {
			in = ea.In
		}
		if !judgeFlow(r, c, i, f, results[i], in) {
			allOK = false
		}
		nrd, h := in.ReadStats()
		r.Distinct("delivery_schedules", fmt.Sprint(nrd, h))
		r.Count("underlying_reads", nrd)
	}
	if c.idx < 3 {
		f := c.flows[0]
		var sizes []int
		for _, w := range f.pkts {
			for _, p := range w {
				sizes = append(sizes, len(p))
			}
		}
		if len(sizes) > 16 {
			sizes = sizes[:16]
		}
		r.Sample(map[string]any{"target": c.target, "max": c.max, "writers": len(f.pkts), "first_sizes": sizes, "chunking": c.chunk, "reads": len(results[0].reads), "held": allOK})
	}
	r.Count("cases_"+c.target, 1)
	if c.duplex {
		r.Count("duplex_cases", 1)
	}
	r.Case(c.sig(), allOK)
}

func TestCheck(t *testing.T) {
	r := vf.Start(t, "C08", vf.Exploration)
	defer r.Finish()
	r.SetRule("case = (target: rwc.PacketConn | stream/packet.Session) x (max size from {1,2,5,16,255,256,1500,4096,65535,200000} or PRNG) x (1-4 concurrent writers, 1-200 packets of sizes {1,2,255,256,max-1,max} or PRNG, optionally both directions at once) x (delivery chunking of the byte stream {1 byte, PRNG, PRNG<=3, PRNG<=64, coalesced}, optional bounded pipe) x (optional fault on a single-writer flow: zero / over-limit (max+1, max+2, 2^31-1, 2^31, 2^32-1) length prefix injected at a PRNG packet boundary, truncated final packet, reader buffers smaller than the packet, underlying writer accepting only part of a write). " +
		"Oracle: first byte identifies the writer; each received packet must equal that writer's next unsent packet byte for byte; all packets written before the end must arrive; nothing may be delivered after a bad prefix or after the connection ended; short reader buffer => io.ErrShortBuffer with the first len(buf) bytes; partial underlying write => WriteTo error. Session: zero prefix may be an empty message with later framing intact (DESIGN 8). Non-trivial = the flow(s) completed and were judged; distinct = distinct case parameters and packet size sequences.")
	n := r.N(400, 4000)
	cases := make([]*caseSpec, n)
	for i := range cases {
		cases[i] = genCase(r, i)
	}
	var wg sync.WaitGroup
	ch := make(chan *caseSpec)
	for w := 0; w < 12; w++ {
		wg.Add(1)
		go func() {
			defer wg.Done()
			for c := range ch {
				runCase(r, c)
			}
		}()
	}
	for i, c := range cases {
		if i%16 == 0 {
			r.Begin(fmt.Sprintf("cases %d..%d; first: %s", i, i+15, c.sig()))
		}
		ch <- c
	}
	close(ch)
	wg.Wait()
}
