// C30: solicitations match only on identical protocol id and context.
//
// Part 1 (pure): ComputeProtocolHash separates (protocol id, context) pairs,
// including pairs whose concatenations coincide.
// Part 2 (two-node): real solicitation controllers on two buses joined by
// harness links: a SolicitProtocol value is produced exactly when both sides
// solicit the same (protocol id, context) and both constraints admit the link.
package c30

import (
	"fmt"
	"hash/fnv"
	"testing"

	link_solicit "github.com/aperturerobotics/bifrost/link/solicit"
	"github.com/aperturerobotics/bifrost/protocol"
	"verifharness/g10sol"
	"verifharness/keys"
	"verifharness/vf"
)

type pc struct {
	p string
	c string
}

func (x pc) String() string {
	if len(x.p)+len(x.c) > 200 {
		return fmt.Sprintf("(id %d bytes %q..., context %d bytes, fnv %x)", len(x.p), x.p[:min(16, len(x.p))], len(x.c), x.fnv())
	}
	return fmt.Sprintf("(%q,%q)", x.p, x.c)
}

func (x pc) fnv() uint64 {
	h := fnv.New64a()
	h.Write([]byte(x.p))
	h.Write([]byte{0xff, 0x00})
	h.Write([]byte(x.c))
	return h.Sum64()
}

// witness describes a pair in a violation report: full strings when short,
// lengths + hex prefix + the whole concatenation's shape when long.
func (x pc) witness() map[string]any {
	if len(x.p)+len(x.c) <= 2048 {
		return map[string]any{"protocol_id": x.p, "context": x.c, "protocol_id_len": len(x.p), "context_len": len(x.c)}
	}
	return map[string]any{"protocol_id_len": len(x.p), "context_len": len(x.c), "protocol_id_first_64": x.p[:min(64, len(x.p))], "context_first_64": x.c[:min(64, len(x.c))], "note": "protocol_id || context is one string split at protocol_id_len"}
}

func TestCheck(t *testing.T) {
	r := vf.Start(t, "C30", vf.Exploration)
	defer r.Finish()
	r.SetRule("Part 1: for several session ids, a table hash -> (protocol id, context) over generated pairs: every split of PRNG strings (p||c fixed, boundary moved: the boundary-shifted family), boundary-shifted families at every scale (one base string of 257..~70k bytes split at i and at i+k for k in {1,2,127..129,255..257,511..513,768,1024,4096,65535..65537}, and with the context length in {0,1,255,256,257,512}: what a too narrow or wrapped length prefix confuses), the design's universe, PRNG pairs, empty/nil contexts, contexts starting with the tail of the id, derivation families (a base pair and every pair derived from it by the derivation table, see the DERIVATION block); two different pairs with the same hash = violation; same pair twice must hash equally. Part 2: two real solicitation controllers on two controller buses joined by harness links (fake MountedLinks, in-memory streams, HandleMountedStream dispatch like the transport controller); scenario = per node a PRNG set of SolicitProtocol directives over a small universe (protocol ids / contexts incl. boundary-shifted ones, peer constraint in {none, right, wrong}, transport constraint in {0, right, other link's, wrong}), 1-2 links; static scenarios register all directives (idle) before the links appear, dynamic ones (one third) bring the links up first and then register the directives one by one in a PRNG order. one scenario in four is built around requests on one bus that differ only in the context (empty vs non-empty, prefix of each other) or only in the protocol id, in either registration order, the other node soliciting a PRNG subset of them. A further block of HISTORY scenarios (own batches) puts two or three families of two/three DIFFERENT requests on ONE node whose (id, context) coincide when joined with a separator-like string (a+sep+b, c) vs (a, b+sep+c), sep taken round-robin from {/ : | NUL space - . , ; _ # = @ + LF TAB // :: NULNUL and the empty string = plain concatenation}, middle part sometimes empty; the other node solicits exactly one member of every family (one time in four: two); histories: static (all before the links), staged (links first; first siblings + early remote requests; process-wide QUIESCENCE; second siblings; QUIESCENCE; third siblings + late remote requests - so the first sibling has been advertised / matched on the link before the second exists, in both sibling orders), together (links first, everything back to back); four fixed staged witnesses around (\"dex/x\",\"y\") / (\"dex\",\"x/y\"). A DERIVATION block (own batches, static / staged / together): a base request whose context has 33..4096 bytes (also 1..32) on one node while the other node (one time in three: the same node) solicits one to three pairs DERIVED from it by a rule of a 34-rule table - context replaced by its BLAKE3-256/512, SHA-1/256/512, MD5 or double digest, its hex / HEX / base58 / base64 form, its first 32/64/255/256/1024 or last 32 bytes, context with the id's digest appended / prepended, digest of id+context, length-prefixed context, id replaced by its hex digest / truncated / lower-cased, id absorbing the context digest - plus a shared long-context pair that must match; the same families are in the Part 1 table. A SET-CHANGE block (own batches; scripted histories on live, quiescent links): a node's solicitation set changes WITHOUT a quiescence in between - one request replaced by another (add-then-withdraw and withdraw-then-add, same set size), a subset or all of k requests replaced, the same pair withdrawn and solicited again, both nodes switching context - while the node's control stream is under back-pressure (harness streams with a write gate: the change is issued only after the node's control loop has been seen parked inside the send of its previous set) or back to back with no back-pressure; the changing node is the lower peer id (opens the streams) or the higher one; released requests are withdrawn through Instance.Close, Reference.Release+CloseIfUnreferenced, or - requests registered with the controller directly - by cancelling the resolver and waiting for Resolve to return; the other node solicits the new pairs before or after the change, plus near misses. For scripted histories the 'if' direction is demanded for a request that is still registered at the end whose counterpart on the other node is still registered, when both are the first request their node ever made for that pair and link (the controller matches a pair once per link); values of released requests are not judged in the 'if' direction. A MANY-SOLICITATIONS block (own batches of 4; 4 scenarios in the quick tier): one node - every third scenario both - holds 200..256 distinct requests admitted on the same link (256 = the controller's default limit of hashes per exchange, never exceeded, so no exchange is truncated; set sizes first 256, 249, 241, 255, 242, 240, 250, 248, ... then PRNG in 236..256 / 200..256), the other node a handful or 200..256 as well; all but 1-3 SHARED pairs are fillers without counterpart (same protocol id on both nodes, contexts differing in the node tag: near misses); histories: static (everything before the link: one exchange carries the whole set), staged (most fillers before the link, the last 0..40 per node on the live link, process-wide QUIESCENCE, then the shared pairs), together (the last 0..40 fillers per node and the shared pairs at PRNG positions back to back on the live link; beyond the quick tier every fourth history registers all requests on the live link); the shared pairs must be matched (missing-match oracle), no filler may be. Every harness-side request has its own reference and value handler and is judged by its own (p,c,constraints), also when the bus de-duplicates it onto an earlier request's directive (only exception: requests differing in nothing but the transport constraint on a tree that merges them, property C37 - not generated, inconclusive if seen). Oracle (harness ground truth, independent of any hash): directive d on node X receives a value for link L iff d admits L and the other node has a directive with the same (p,c) admitting L; checked at quiescence (all goroutines parked, stream byte counters stable); the 'only if' direction is checked for every directive, the 'if' direction for every directive of a static scenario and for the first registered one per (p,c) and node in a dynamic scenario. Non-trivial = a pure pair whose concatenation equals that of another pair, or a scenario in which at least one match is expected and at least one (p,c)-overlap is refused by a constraint or by differing (p,c); distinct = distinct pair / scenario")

	purePart(r)
	g10sol.RunTwoNodeC30(r)
}

func purePart(r *vf.Run) {
	rng := r.Rand("c30-pure")
	pool := keys.Pool(rng, 6)
	var sids [][]byte
	for i := 0; i+1 < len(pool); i += 2 {
		sids = append(sids, link_solicit.ComputeSessionID(pool[i].ID, pool[i+1].ID))
	}
	sids = append(sids, nil, []byte("s"))

	n := r.N(5000, 300000)
	var pairs []pc
	add := func(p, c string) {
		if p == "" {
			return
		}
		pairs = append(pairs, pc{p, c})
	}
	// the design's example and a structured universe
	for _, s := range []string{"abc", "ab", "a/b", "test/echo", "dex\x00bucket", "solicit:aa", "ключ", "aaaa"} {
		for i := 1; i <= len(s); i++ {
			add(s[:i], s[i:])
		}
	}
	alpha := []string{"a", "b", "ab", "ba", "abc", "c", "bc", "", "/", "a/", "/a", "\x00", "a\x00"}
	for _, p := range alpha {
		for _, c := range alpha {
			add(p, c)
		}
	}
	randStr := func(max int) string {
		b := make([]byte, rng.IntN(max+1))
		for i := range b {
			switch rng.IntN(3) {
			case 0:
				b[i] = byte('a' + rng.IntN(3))
			case 1:
				b[i] = byte(rng.IntN(4))
			default:
				b[i] = byte(rng.UintN(256))
			}
		}
		return string(b)
	}
	for len(pairs) < n {
		switch rng.IntN(3) {
		case 0: // all splits of one string
			s := randStr(12)
			for i := 1; i <= len(s); i++ {
				add(s[:i], s[i:])
			}
		case 1: // two splits of one string
			s := randStr(40)
			if len(s) < 2 {
				continue
			}
			i, j := 1+rng.IntN(len(s)), 1+rng.IntN(len(s))
			add(s[:i], s[i:])
			add(s[:j], s[j:])
		default:
			add(randStr(20), randStr(20))
		}
	}

	// boundary-shifted families at every scale: one base string s, split at i and
	// at i+k for shifts k around the powers of 256 (a length prefix that is too
	// narrow - 1, 2 bytes - or a length taken modulo something makes exactly such
	// pairs collide), ids / contexts of several hundred to ~70k bytes.
	shifts := []int{1, 2, 127, 128, 129, 255, 256, 257, 511, 512, 513, 768, 1024, 4096, 65535, 65536, 65537}
	bigStr := func(l int) string {
		b := make([]byte, l)
		if rng.IntN(2) == 0 {
			pat := make([]byte, 1+rng.IntN(13))
			for i := range pat {
				pat[i] = byte('a' + rng.IntN(26))
			}
			for i := range b {
				b[i] = pat[i%len(pat)]
			}
		} else {
			for i := 0; i < l; i += 8 {
				v := rng.Uint64()
				for k := 0; k < 8 && i+k < l; k++ {
					b[i+k] = byte(v >> (8 * k))
				}
			}
		}
		return string(b)
	}
	nBig := 0
	family := func(l, i int) {
		s := bigStr(l)
		add(s[:i], s[i:])
		nBig++
		for _, k := range shifts {
			if i+k <= l {
				add(s[:i+k], s[i+k:])
				nBig++
			}
		}
	}
	// the smallest witnesses of a one-byte / two-byte length: (1, 256) vs (257, 0)
	family(257, 1)
	family(258, 1)
	family(513, 1)
	family(65537, 1)
	family(65538, 2)
	for k := r.N(48, 600); k > 0; k-- {
		l := 258 + rng.IntN(3000)
		family(l, 1+rng.IntN(l/4))
	}
	for k := r.N(6, 60); k > 0; k-- {
		l := 65538 + rng.IntN(5000)
		family(l, 1+rng.IntN(2000))
	}
	// shifts taken from the END: the context keeps a fixed short length class
	for k := r.N(12, 200); k > 0; k-- {
		l := 600 + rng.IntN(2000)
		s := bigStr(l)
		for _, c := range []int{0, 1, 255, 256, 257, 512} {
			add(s[:l-c], s[l-c:])
			nBig++
		}
	}

	// derivation families: a base pair and the pairs derived from it (the context
	// replaced by a digest / an encoding / a truncation of itself, the id's digest
	// mixed in, the id replaced by its digest, ...; table in g10sol.Derivations),
	// contexts of 1..4096 bytes: what an implementation that pre-hashes, shortens
	// or normalises the hash input would confuse
	nDerived := 0
	derivLens := []int{33, 34, 64, 65, 100, 256, 257, 1000, 4096, 32, 31, 1}
	for k := r.N(24, 400); k > 0; k-- {
		id := []string{"dex/sync", "test/echo", "Bifrost/PubSub/v1", "bifrost/stream/echo/with/a/rather/long/protocol/identifier/v2-0123456789abcdef"}[k%4]
		l := derivLens[k%len(derivLens)]
		if k%5 == 0 {
			l = 33 + rng.IntN(4064)
		}
		c := bigStr(l)
		add(id, c)
		_, dps := g10sol.DerivedPairs(id, c)
		for _, dp := range dps {
			add(dp[0], dp[1])
			nDerived++
		}
	}

	concatCount := map[string]int{}
	distinctPairs := map[pc]struct{}{}
	for _, x := range pairs {
		if _, ok := distinctPairs[x]; !ok {
			distinctPairs[x] = struct{}{}
			concatCount[x.p+x.c]++
		}
	}
	shifted := 0
	for _, sid := range sids {
		seen := map[string]pc{}
		for i, x := range pairs {
			if i%1024 == 0 {
				r.Begin(fmt.Sprintf("pure batch at %d sid=%s pair=%s", i, vf.Hex(sid), x))
			}
			var h, h2 []byte
			if pk, pd := vf.Try(func() {
				h = link_solicit.ComputeProtocolHash(sid, protocol.ID(x.p), []byte(x.c))
				var c2 []byte
				if x.c != "" {
					c2 = []byte(x.c)
				}
				h2 = link_solicit.ComputeProtocolHash(sid, protocol.ID(x.p), c2)
			}); pk {
				r.Violation("ComputeProtocolHash/panic", "panicked: "+pd, map[string]any{"sid": vf.Hex(sid), "pair": x.witness()})
				continue
			}
			nt := concatCount[x.p+x.c] > 1
			if nt {
				shifted++
			}
			if len(x.p)+len(x.c) > 200 {
				r.Case(fmt.Sprintf("pure|%x|long|%d|%d|%x", sid, len(x.p), len(x.c), x.fnv()), nt)
				r.Count("hashes_computed_pairs_longer_than_200_bytes", 2)
				if len(x.p) >= 256 {
					r.Count("hashes_computed_ids_of_256_bytes_or_more", 2)
				}
				if len(x.p) >= 65536 {
					r.Count("hashes_computed_ids_of_65536_bytes_or_more", 2)
				}
			} else {
				r.Case(fmt.Sprintf("pure|%x|%q|%q", sid, x.p, x.c), nt)
			}
			r.Count("hashes_computed", 2)
			if string(h) != string(h2) {
				r.Violation("ComputeProtocolHash/nondeterministic", "same (sid, protocol id, context) hashed differently", map[string]any{"sid": vf.Hex(sid), "pair": x.witness()})
			}
			if prev, ok := seen[string(h)]; ok && prev != x {
				cls := "other"
				if prev.p+prev.c == x.p+x.c {
					cls = "boundary-shift"
					d := len(prev.p) - len(x.p)
					if d < 0 {
						d = -d
					}
					switch {
					case d%65536 == 0:
						cls = "boundary-shift-by-multiple-of-65536"
					case d%256 == 0:
						cls = "boundary-shift-by-multiple-of-256"
					}
				}
				r.Violation("ComputeProtocolHash/collision/"+cls, "two different (protocol id, context) pairs have the same solicitation hash, so they would be matched with each other",
					map[string]any{"sid": vf.Hex(sid), "pair1": prev.witness(), "pair2": x.witness(), "hash": vf.Hex(h)})
			}
			seen[string(h)] = x
		}
	}
	r.Count("pure_cases_with_boundary_shifted_sibling", shifted)
	r.Extra("pure_distinct_pairs", len(distinctPairs))
	r.Extra("pure_large_scale_shifted_pairs", nBig)
	r.Extra("pure_pairs_derived_from_a_base_pair", nDerived)
	r.Extra("pure_derivation_rules", len(g10sol.Derivations))
	r.Extra("pure_shifts", fmt.Sprint(shifts))
	r.Extra("pure_session_ids", len(sids))
	r.Sample(map[string]any{"kind": "pure", "pair1": `("ab","c")`, "pair2": `("a","bc")`, "note": "boundary-shifted pairs are part of the table"})
}
