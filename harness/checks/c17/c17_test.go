// C17: an accepted envelope configuration can be opened by its recipients.
package c17

import (
	"bytes"
	"fmt"
	"sync"
	"testing"

	"verifharness/g3env"
	"verifharness/vf"
)

func TestC17(t *testing.T) {
	r := vf.Start(t, "C17", vf.Exploration)
	defer r.Finish()
	r.SetRule("configurations = EVERY configuration with <= 2 grants in the property's bound (1-3 distinct recipients, share_count 0-2, every subset of the recipients as index list, threshold 0-3, total_shares 0-5: 19152 configurations, both tiers) + a PRNG sample with 1-4 grants, repeated / unordered indexes, the same key listed as several recipients and occasionally an index naming no recipient; PRNG payload and context. Each is sealed with the real BuildEnvelope; an accepted one is unsealed with the private keys of all recipients. One evaluation = one configuration; non-trivial = well-formed configuration (every index names a recipient), i.e. one for which the oracle has a verdict either way; distinct = distinct configurations. Oracle = refEnvelope (harness/g3env/model.go): accepted => UnlockEnvelope with all recipients' keys succeeds and returns the payload; the recipients together reach fewer than threshold+1 distinct shares (then no subset can) => BuildEnvelope must have returned an error. A rejected configuration that the model can open is only counted (seal_rejected_although_openable), not flagged: the property does not demand acceptance")
	r.Assume("shares are dealt to the grants in configuration order, each grant taking share_count (0 => 1) while the total_shares pool lasts (DESIGN.md C16)")
	pool := g3env.NewPool(r)

	cfgs := g3env.Exhaustive(2)
	nEx := len(cfgs)
	rng := r.Rand("c17/sample")
	for i, n := 0, r.N(1500, 60000); i < n; i++ {
		cfgs = append(cfgs, g3env.Random(rng))
	}
	r.Extra("exhaustive_part", fmt.Sprintf("all %d configurations with <= 2 grants", nEx))
	r.Extra("sampled_configurations", len(cfgs)-nEx)

	var mu sync.Mutex
	var overRejected []string
	samples := 0
	g3env.Batches(r, len(cfgs), 1024, func(i int) string { return cfgs[i].Sig() }, func(i int) {
		c := cfgs[i]
		crng := r.Rand(fmt.Sprintf("c17/case/%d", i))
		ctx := g3env.RandContext(crng)
		payload := g3env.RandBytes(crng, 1+crng.IntN(64))
		ref := g3env.NewRef(c)
		s := g3env.Seal(pool, c, ctx, payload, crng)
		r.Case(c.Sig(), ref.WellFormed)
		if s.Panic != "" {
			r.Violation("seal/panic", "BuildEnvelope panicked: "+s.Panic, g3env.Witness(s, nil, nil, nil))
			return
		}
		openable := ref.Openable()
		if s.Err != nil {
			r.Count("seal_rejected", 1)
			switch {
			case !ref.WellFormed:
				r.Count("seal_rejected_malformed_index", 1)
			case !openable:
				r.Count("seal_rejected_unopenable", 1)
				r.Distinct("rejected_unopenable_classes", ref.UnopenableClass())
			default:
				r.Count("seal_rejected_although_openable", 1)
				mu.Lock()
				if len(overRejected) < 10 {
					overRejected = append(overRejected, c.Sig()+" => "+s.Err.Error())
				}
				mu.Unlock()
			}
			return
		}
		r.Count("seal_accepted", 1)
		if !ref.WellFormed {
			r.Count("seal_accepted_malformed_index", 1)
		}
		all := g3env.DistinctKeys(c)
		ex := g3env.Predict(ref, all)
		o := g3env.Unlock(pool, ctx, s.Env, all)
		opened := o.Panic == "" && o.Err == nil && o.Res.GetSuccess() && bytes.Equal(o.Payload, payload)
		if opened {
			r.Count("opened_by_all_recipients", 1)
			mu.Lock()
			if samples < 3 && len(c.Grants) > 1 && c.Thr > 0 {
				samples++
				r.Sample(g3env.Witness(s, all, &ex, &o))
			}
			mu.Unlock()
		}
		if !openable {
			// clause 2: must have been rejected at seal time
			r.Violation("accepted-unopenable/"+ref.UnopenableClass(),
				fmt.Sprintf("BuildEnvelope accepted a configuration under which all recipients together reach only %d of the %d shares needed", ex.Available, ex.Needed),
				g3env.Witness(s, all, &ex, &o))
			if opened {
				r.Violation("model/unopenable-but-opened", "the model calls the configuration unopenable but the real envelope opened (model or C16 defect)", g3env.Witness(s, all, &ex, &o))
			}
			return
		}
		if !opened {
			// clause 1
			r.Violation("accepted-but-all-recipients-cannot-open", "BuildEnvelope accepted the configuration, the recipients reach enough shares, but unsealing with all their keys did not return the payload", g3env.Witness(s, all, &ex, &o))
		}
	})
	if len(overRejected) > 0 {
		r.Extra("seal_rejected_although_openable_examples", overRejected)
	}
}
