// C10: peer IDs faithfully encode public keys.
//
// Ground truth: the harness generates every key from a seed with
// crypto/ed25519 and keeps the raw 32 public bytes. Reference parsers for
// base58, the multihash framing and the key protobuf are in g1util and do not
// call the code under test.
package c10

import (
	"bytes"
	"crypto/ed25519"
	"fmt"
	"strings"
	"sync"
	"testing"

	"github.com/aperturerobotics/bifrost/crypto"
	"github.com/aperturerobotics/bifrost/peer"
	"github.com/aperturerobotics/bifrost/util/confparse"

	g "verifharness/g1util"
	"verifharness/vf"
)

func TestCheck(t *testing.T) {
	r := vf.Start(t, "C10", vf.Exploration)
	defer r.Finish()
	r.SetRule("keys: a seeded pool of Ed25519 keys (ground truth = raw 32 bytes from crypto/ed25519) plus arbitrary 32-byte strings and single-bit neighbours wrapped as public keys; for each: ID derivation, key extraction, text round trip (String/IDB58Encode -> IDB58Decode, confparse.ParsePeerID / ParsePeerIDs / ValidatePeerID), injectivity over the whole pool (map insertion), MatchesPublicKey/MatchesPrivateKey against own key, other keys, bit-neighbours and hostile IDs. Hostile byte strings (truncated / 10-byte / overflowing varints, declared length +-1, 2^63, empty, non-identity codes, foreign key types, non-canonical encodings) and base58 strings (illegal characters, leading '1's, whitespace) plus seeded byte/character mutations of valid IDs through IDFromBytes, IDB58Decode, confparse parsers, ExtractPublicKey, MatchesPublicKey. Oracle: extract(ID(k)) == k; decode(encode(id)) == id; ID(k) == ID(k') => k == k'; id.Matches(k) <=> id == ID(k); accepted by a parser => the reference calls the bytes (for text: the base58 decoding, surrounding whitespace tolerated) a well-formed multihash (uvarint code, uvarint n, exactly n bytes) and the returned ID is exactly those bytes; ExtractPublicKey succeeds => identity code and the digest is a valid marshalled Ed25519 key equal to the returned one; never panics. A parse case is non-trivial when the input is not empty and differs from every valid ID of the pool; distinct = distinct inputs")
	r.Assume("a well-formed multihash with a non-identity code accepted at parse time is NOT flagged (DESIGN 8); identity code is demanded wherever a key is extracted or matched")
	r.Assume("non-minimal varints are not flagged: the property does not speak about them")
	rng := r.Rand("c10")
	nk := r.N(4000, 60000)
	workers := 12

	// ---------- keys ----------
	type kent struct {
		pub  []byte
		pk   crypto.PubKey
		priv crypto.PrivKey // nil for arbitrary byte strings
		id   peer.ID
		ok   bool
	}
	ents := make([]*kent, nk)
	seeds := make([][]byte, nk)
	for i := range seeds {
		seeds[i] = g.RandBytes(rng, 32)
	}
	r.Begin(fmt.Sprintf("key round trips over %d keys", nk))
	var mu sync.Mutex
	g.Parallel(workers, func(w int) {
		for i := w; i < nk; i += workers {
			e := &kent{}
			ents[i] = e
			switch {
			case i%8 == 7:
				// single-bit neighbour of the previous key's public bytes, used as a key
				prev := ed25519.NewKeyFromSeed(seeds[i-1])
				e.pub = append([]byte(nil), prev[32:]...)
				e.pub[int(seeds[i][0])%32] ^= 1 << (seeds[i][1] % 8)
			case i%8 == 6:
				e.pub = append([]byte(nil), seeds[i]...) // arbitrary 32 bytes offered as a public key
			default:
				k := g.KeyFromSeed(seeds[i], i)
				e.pub, e.pk, e.priv = k.Pub, k.PubK, k.Priv
			}
			if e.pk == nil {
				pk, err := crypto.UnmarshalEd25519PublicKey(e.pub)
				if err != nil {
					r.Violation("UnmarshalEd25519PublicKey/rejects-32-bytes", err.Error(), vf.Hex(e.pub))
					continue
				}
				e.pk = pk
			}
			sig := "key|" + string(e.pub)
			var id peer.ID
			var err error
			if pn, pd := vf.Try(func() { id, err = peer.IDFromPublicKey(e.pk) }); pn || err != nil {
				r.Violation("IDFromPublicKey/failed", fmt.Sprintf("panic=%v %s err=%v", pn, pd, err), vf.Hex(e.pub))
				r.Case(sig, false)
				continue
			}
			e.id = id
			wit := func() map[string]any {
				return map[string]any{"pub": vf.Hex(e.pub), "id": vf.Hex([]byte(id)), "id_text": id.String()}
			}
			good := true
			bad := func(key, what string) {
				good = false
				r.Violation(key, what, wit())
			}
			// documented layout (counted, the property itself only demands the round trips)
			if bytes.Equal([]byte(id), g.RefPeerIDBytes(e.pub)) {
				r.Count("id_equals_documented_layout", 1)
			} else {
				r.Count("id_differs_from_documented_layout", 1)
			}
			// extract(ID(k)) == k
			var pk2 crypto.PubKey
			if pn, pd := vf.Try(func() { pk2, err = id.ExtractPublicKey() }); pn || err != nil || pk2 == nil {
				bad("ExtractPublicKey/own-id-failed", fmt.Sprintf("cannot extract the key from its own ID: panic=%v %s err=%v", pn, pd, err))
			} else {
				raw, _ := pk2.Raw()
				if !bytes.Equal(raw, e.pub) || !pk2.Equals(e.pk) || !e.pk.Equals(pk2) {
					bad("ExtractPublicKey/wrong-key", "extracted key differs from the key the ID was derived from")
				}
			}
			// text round trip
			s1, s2 := id.String(), peer.IDB58Encode(id)
			if s1 != s2 {
				bad("IDB58Encode/differs-from-String", "two text forms of one ID differ")
			}
			if s1 == g.B58Encode([]byte(id)) {
				r.Count("text_equals_reference_base58", 1)
			}
			for name, f := range map[string]func(string) (peer.ID, error){
				"IDB58Decode":  peer.IDB58Decode,
				"ParsePeerID":  confparse.ParsePeerID,
				"ParsePeerIDs": func(s string) (peer.ID, error) { return one(confparse.ParsePeerIDs([]string{s}, false)) },
				"ParsePeerIDsUnique": func(s string) (peer.ID, error) {
					return one(confparse.ParsePeerIDsUnique([]string{s, " " + s + " ", s}, false))
				},
			} {
				var id2 peer.ID
				if pn, pd := vf.Try(func() { id2, err = f(s1) }); pn || err != nil || id2 != id {
					bad(name+"/text-roundtrip", fmt.Sprintf("text form does not decode to the same ID: panic=%v %s err=%v got=%x", pn, pd, err, []byte(id2)))
				}
			}
			if err := confparse.ValidatePeerID(s1); err != nil {
				bad("ValidatePeerID/rejects-valid", err.Error())
			}
			if id3, err := peer.IDFromBytes([]byte(id)); err != nil || id3 != id {
				bad("IDFromBytes/own-id", fmt.Sprintf("raw bytes of a derived ID not accepted unchanged: %v", err))
			}
			if err := id.Validate(); err != nil {
				bad("ID.Validate/rejects-derived", err.Error())
			}
			// matches own key
			if !id.MatchesPublicKey(e.pk) {
				bad("MatchesPublicKey/own-key-false", "ID does not match the key it was derived from")
			}
			if e.priv != nil {
				if !id.MatchesPrivateKey(e.priv) {
					bad("MatchesPrivateKey/own-key-false", "ID does not match the private key it was derived from")
				}
				if id4, err := peer.IDFromPrivateKey(e.priv); err != nil || id4 != id {
					bad("IDFromPrivateKey/differs", "ID from the private key differs from the ID of its public key")
				}
			}
			// deterministic
			if id5, _ := peer.IDFromPublicKey(e.pk); id5 != id {
				bad("IDFromPublicKey/nondeterministic", "same key, two IDs")
			}
			e.ok = good
			r.Case(sig, good)
			r.Count("keys_roundtripped", 1)
			if i < 2 {
				mu.Lock()
				r.Sample(wit())
				mu.Unlock()
			}
		}
	})

	// ---------- injectivity over the whole pool ----------
	byID := map[peer.ID]int{}
	byText := map[string]int{}
	byPub := map[string]int{}
	for i, e := range ents {
		if e == nil || e.id == "" {
			continue
		}
		if j, dup := byPub[string(e.pub)]; dup {
			_ = j
			continue // the same 32 bytes drawn twice: not two different keys
		}
		byPub[string(e.pub)] = i
		if j, ok := byID[e.id]; ok {
			r.Violation("IDFromPublicKey/collision", "two different keys have the same ID", map[string]any{"a": vf.Hex(ents[j].pub), "b": vf.Hex(e.pub), "id": vf.Hex([]byte(e.id))})
		}
		byID[e.id] = i
		txt := e.id.String()
		if j, ok := byText[txt]; ok {
			r.Violation("ID.String/collision", "two different keys have the same text ID", map[string]any{"a": vf.Hex(ents[j].pub), "b": vf.Hex(e.pub), "text": txt})
		}
		byText[txt] = i
	}
	r.Extra("distinct_keys", len(byPub))
	r.Extra("distinct_ids", len(byID))

	// ---------- matches <=> derived ----------
	nm := r.N(20000, 300000)
	r.Begin(fmt.Sprintf("match matrix: %d pairs", nm))
	g.Parallel(workers, func(w int) {
		rng := r.Rand(fmt.Sprintf("c10-match-%d", w))
		for c := 0; c < nm/workers; c++ {
			i := rng.IntN(nk)
			a := ents[i]
			if a == nil || a.id == "" {
				continue
			}
			var other []byte
			var opk crypto.PubKey
			kind := ""
			switch rng.IntN(3) {
			case 0: // another key of the pool
				b := ents[rng.IntN(nk)]
				if b == nil || b.pk == nil {
					continue
				}
				other, opk, kind = b.pub, b.pk, "pool"
			case 1: // single-bit neighbour
				other = append([]byte(nil), a.pub...)
				other[rng.IntN(32)] ^= 1 << rng.UintN(8)
				opk, _ = crypto.UnmarshalEd25519PublicKey(other)
				kind = "bit-neighbour"
			default: // same bytes, fresh key object
				other = append([]byte(nil), a.pub...)
				opk, _ = crypto.UnmarshalEd25519PublicKey(other)
				kind = "same-bytes-new-object"
			}
			if opk == nil {
				continue
			}
			want := bytes.Equal(other, a.pub)
			var got bool
			if pn, pd := vf.Try(func() { got = a.id.MatchesPublicKey(opk) }); pn {
				r.Violation("MatchesPublicKey/panic", pd, map[string]any{"id": vf.Hex([]byte(a.id)), "key": vf.Hex(other)})
				continue
			}
			r.Case("match|"+string(a.pub)+"|"+string(other), a.ok)
			r.Count("match_"+kind, 1)
			if got != want {
				r.Violation(fmt.Sprintf("MatchesPublicKey/%v-want-%v/%s", got, want, kind), "ID matches a key exactly when it was derived from it: violated", map[string]any{"id_of": vf.Hex(a.pub), "key": vf.Hex(other), "got": got})
			}
		}
	})

	// ---------- hostile bytes and strings ----------
	var valid []*kent
	for _, e := range ents {
		if e != nil && e.ok && len(valid) < 64 {
			valid = append(valid, e)
		}
	}
	if len(valid) == 0 {
		r.Inconclusive("no valid ID to derive hostile inputs from")
		return
	}
	isPoolID := func(b []byte) bool { _, ok := byID[peer.ID(b)]; return ok }

	// judgeBytes: everything demanded of one byte string offered as an ID
	var judgeBytes func(b []byte, class string, rel *kent)
	judgeBytes = func(b []byte, class string, rel *kent) {
		var id peer.ID
		var err error
		w := func() map[string]any {
			return map[string]any{"bytes": fmt.Sprintf("%x", b), "class": class, "text": g.B58Encode(b)}
		}
		nontrivial := len(b) > 0 && !isPoolID(b)
		r.Case("bytes|"+string(b), nontrivial)
		if pn, pd := vf.Try(func() { id, err = peer.IDFromBytes(b) }); pn {
			r.Violation("IDFromBytes/panic/"+class, pd, w())
			return
		}
		code, digest, wf := g.ParseMultihash(b)
		if err == nil {
			r.Count("bytes_accepted", 1)
			if !wf {
				r.Violation("IDFromBytes/accepts-malformed/"+class, "accepted bytes that are not uvarint code || uvarint n || exactly n bytes", w())
			}
			if !bytes.Equal([]byte(id), b) {
				r.Violation("IDFromBytes/returns-other-bytes/"+class, "accepted, but the returned ID is not the input", w())
			}
			if wf && code != 0 {
				r.Count("bytes_accepted_non_identity_code", 1)
			}
		} else {
			r.Count("bytes_rejected", 1)
			if wf {
				r.Count("bytes_rejected_although_wellformed", 1) // completeness is not demanded
			}
			if id != "" {
				r.Violation("IDFromBytes/value-and-error/"+class, "returned a non-empty ID together with an error", w())
			}
		}
		// key extraction on the raw cast (ID is a string type; callers can hold any bytes)
		raw := peer.ID(b)
		var pk crypto.PubKey
		var xerr error
		if pn, pd := vf.Try(func() { pk, xerr = raw.ExtractPublicKey() }); pn {
			r.Violation("ExtractPublicKey/panic/"+class, pd, w())
			return
		}
		if xerr == nil {
			r.Count("extract_succeeded", 1)
			refPub, st := g.ParseEd25519PubProto(digest)
			switch {
			case !wf || code != 0:
				r.Violation("ExtractPublicKey/from-non-identity-or-malformed/"+class, "a key was extracted from bytes that are not a well-formed identity multihash", w())
			case st == g.Invalid:
				r.Violation("ExtractPublicKey/from-invalid-key-encoding/"+class, "a key was extracted although the digest is not a valid marshalled Ed25519 key", w())
			case st == g.Valid:
				var got []byte
				if pk != nil {
					got, _ = pk.Raw()
				}
				if !bytes.Equal(got, refPub) {
					ww := w()
					ww["returned"] = vf.Hex(got)
					r.Violation("ExtractPublicKey/wrong-key/"+class, "extracted key is not the one embedded in the ID", ww)
				}
			default:
				r.Count("extract_reference_ambiguous", 1)
			}
			if pk == nil {
				r.Violation("ExtractPublicKey/nil-nil/"+class, "nil key with nil error", w())
				return
			}
			// matches <=> derived, for the extracted key as well
			canon, cerr := peer.IDFromPublicKey(pk)
			if cerr == nil {
				if m := raw.MatchesPublicKey(pk); m != (canon == raw) {
					r.Violation("MatchesPublicKey/extracted-key/"+class, "Matches disagrees with 'was derived from it' for the key extracted from this ID", w())
				}
				if canon != raw {
					r.Count("extract_from_noncanonical_alias", 1)
				}
			}
		} else {
			r.Count("extract_failed", 1)
			if pk != nil {
				r.Violation("ExtractPublicKey/value-and-error/"+class, "returned a key together with an error", w())
			}
		}
		// a hostile ID never matches a pool key unless it IS that key's ID: checked against
		// the key the input was derived from (rel) and against an unrelated pool key
		others := []*kent{valid[len(b)%len(valid)]}
		if rel != nil {
			others = append(others, rel)
		}
		for _, e := range others {
			var m, mp bool
			if pn, pd := vf.Try(func() {
				m = raw.MatchesPublicKey(e.pk)
				if e.priv != nil {
					mp = raw.MatchesPrivateKey(e.priv)
				} else {
					mp = m
				}
			}); pn {
				r.Violation("MatchesPublicKey/panic/"+class, pd, w())
			} else if m != (raw == e.id) || mp != m {
				ww := w()
				ww["key"] = vf.Hex(e.pub)
				ww["matches_public"], ww["matches_private"] = m, mp
				r.Violation("MatchesPublicKey/hostile-id/"+class, "an ID that was not derived from the key matches it (or the derived one does not)", ww)
			}
			r.Count("hostile_match_checks", 1)
		}
		// validation helpers never panic
		if pn, pd := vf.Try(func() { _ = raw.Validate(); _ = raw.String(); _ = raw.ShortString() }); pn {
			r.Violation("ID.helpers/panic/"+class, pd, w())
		}
	}

	judgeText := func(s string, class string, rel *kent) {
		w := func() map[string]any { return map[string]any{"text": s, "class": class} }
		refB, refOK := g.B58Decode(s)
		trimmed := false
		if !refOK {
			// a parser that tolerates surrounding whitespace (confparse.ParsePeerIDsUnique
			// documents it) still only accepts a well-formed ID: judge the trimmed text
			if tb, ok := g.B58Decode(strings.TrimSpace(s)); ok {
				refB, refOK, trimmed = tb, true, true
			}
		}
		_, _, wf := g.ParseMultihash(refB)
		nontrivial := s != "" && !(refOK && isPoolID(refB))
		r.Case("text|"+s, nontrivial)
		type parser struct {
			name string
			f    func(string) (peer.ID, error)
		}
		for _, p := range []parser{
			{"IDB58Decode", peer.IDB58Decode},
			{"ParsePeerID", confparse.ParsePeerID},
			{"ParsePeerIDs", func(s string) (peer.ID, error) { return one(confparse.ParsePeerIDs([]string{s}, false)) }},
			{"ValidatePeerID", func(s string) (peer.ID, error) {
				if err := confparse.ValidatePeerID(s); err != nil {
					return "", err
				}
				return peer.ID(refB), nil
			}},
		} {
			var id peer.ID
			var err error
			if pn, pd := vf.Try(func() { id, err = p.f(s) }); pn {
				r.Violation(p.name+"/panic/"+class, pd, w())
				continue
			}
			if err != nil {
				r.Count("text_rejected", 1)
				if id != "" {
					r.Violation(p.name+"/value-and-error/"+class, "non-empty ID together with an error", w())
				}
				continue
			}
			if id == "" && s == "" && p.name == "ParsePeerID" {
				r.Count("text_empty_means_unset", 1) // documented: empty string = no ID configured
				continue
			}
			r.Count("text_accepted", 1)
			if trimmed {
				r.Count("text_accepted_with_surrounding_whitespace", 1)
			}
			if !refOK || !wf {
				r.Violation(p.name+"/accepts-malformed/"+class, "accepted text that is not the base58 form of a well-formed multihash", w())
				continue
			}
			if !bytes.Equal([]byte(id), refB) {
				ww := w()
				ww["returned"] = fmt.Sprintf("%x", []byte(id))
				ww["reference"] = fmt.Sprintf("%x", refB)
				r.Violation(p.name+"/decodes-to-other-bytes/"+class, "accepted, but decoded to other bytes than base58 says", ww)
				continue
			}
			// text round trip of whatever was accepted
			if id.String() != strings.TrimSpace(s) {
				if id2, err := peer.IDB58Decode(id.String()); err != nil || id2 != id {
					r.Violation(p.name+"/accepted-id-does-not-roundtrip/"+class, "decode(encode(id)) != id for an accepted ID", w())
				}
				r.Count("text_accepted_noncanonical_text", 1)
			}
		}
		if refOK && !trimmed {
			judgeBytes(refB, "text:"+class, rel)
		}
	}

	// structured hostile bytes
	type hb struct {
		class string
		b     []byte
		rel   *kent
	}
	var hostile []hb
	var cur *kent
	addB := func(class string, b []byte) { hostile = append(hostile, hb{class, b, cur}) }
	addB("empty", nil)
	addB("one-zero", []byte{0})
	addB("two-zero", []byte{0, 0})
	addB("code-only", []byte{0x12})
	addB("truncated-code-varint", []byte{0x80})
	addB("truncated-code-varint-9", bytes.Repeat([]byte{0x80}, 9))
	addB("truncated-len-varint", []byte{0x00, 0x80})
	addB("code-10-byte-varint", append(append(bytes.Repeat([]byte{0xff}, 9), 0x01), 0x00))
	addB("code-overflow-varint", append(append(bytes.Repeat([]byte{0xff}, 9), 0x02), 0x00))
	addB("code-11-byte-varint", append(append(bytes.Repeat([]byte{0xff}, 10), 0x01), 0x00))
	addB("len-10-byte-varint", append([]byte{0x00}, append(bytes.Repeat([]byte{0xff}, 9), 0x01)...))
	addB("len-2^63", append([]byte{0x00}, append(bytes.Repeat([]byte{0x80}, 9), 0x01)...))
	addB("len-2^63-with-data", append(append([]byte{0x00}, append(bytes.Repeat([]byte{0x80}, 9), 0x01)...), g.RandBytes(rng, 36)...))
	addB("len-2^32", []byte{0x00, 0x80, 0x80, 0x80, 0x80, 0x10, 1, 2, 3})
	addB("len-overflow", append([]byte{0x00}, append(bytes.Repeat([]byte{0xff}, 9), 0x7f)...))
	for i := 0; i < 6 && i < len(valid); i++ {
		e := valid[i]
		cur = e
		id := []byte(e.id)
		kp := g.MarshalKeyProto(1, e.pub)
		addB("valid", id)
		addB("len-plus-1", append([]byte{0, byte(len(kp) + 1)}, kp...))
		addB("len-minus-1", append([]byte{0, byte(len(kp) - 1)}, kp...))
		addB("trailing-byte", append(append([]byte(nil), id...), 0))
		addB("truncated-1", id[:len(id)-1])
		addB("truncated-half", id[:len(id)/2])
		addB("header-only", id[:2])
		addB("missing-code", id[1:])
		addB("len-zero-with-data", append([]byte{0, 0}, kp...))
		addB("len-zero", []byte{0, 0})
		addB("nonidentity-0x12-keyproto", g.Multihash(0x12, kp))
		addB("nonidentity-0x12-sha256", g.Multihash(0x12, sum256(kp)))
		addB("nonidentity-0x01", g.Multihash(0x01, kp))
		addB("nonidentity-large-code", g.Multihash(1<<40, kp))
		addB("code-nonminimal-zero", append([]byte{0x80, 0x00, byte(len(kp))}, kp...))
		addB("len-nonminimal", append([]byte{0x00, byte(len(kp)) | 0x80, 0x00}, kp...))
		addB("keytype-rsa", g.Multihash(0, g.MarshalKeyProto(0, e.pub)))
		addB("keytype-2", g.Multihash(0, g.MarshalKeyProto(2, e.pub)))
		addB("keytype-3", g.Multihash(0, g.MarshalKeyProto(3, e.pub)))
		// rare / out-of-range enum values: large, negative as int32 (bit 31 set, 5-byte
		// varint), negative as int64 (10-byte varint), wider than 32 bits
		for _, kt := range []uint64{4, 100, 0x7fffffff, 0x80000000, 0x80000001, 0xffffffff, 0xfffffffe, 1 << 32, 1<<32 + 2, 1 << 62, 1 << 63, 1<<63 + 1, ^uint64(0), ^uint64(0) - 1} {
			addB(fmt.Sprintf("keytype-%#x", kt), g.Multihash(0, g.MarshalKeyProto(kt, e.pub)))
		}
		addB("key-31", g.Multihash(0, g.MarshalKeyProto(1, e.pub[:31])))
		addB("key-33", g.Multihash(0, g.MarshalKeyProto(1, append(append([]byte(nil), e.pub...), 7))))
		addB("key-0", g.Multihash(0, g.MarshalKeyProto(1, nil)))
		addB("key-64", g.Multihash(0, g.MarshalKeyProto(1, append(append([]byte(nil), e.pub...), e.pub...))))
		addB("digest-raw-pub", g.Multihash(0, e.pub))
		addB("digest-empty", g.Multihash(0, nil))
		addB("digest-garbage", g.Multihash(0, g.RandBytes(rng, 36)))
		addB("digest-only-type", g.Multihash(0, []byte{0x08, 0x01}))
		addB("digest-only-data", g.Multihash(0, append([]byte{0x12, 0x20}, e.pub...)))
		addB("digest-fields-reordered", g.Multihash(0, append(append([]byte{0x12, 0x20}, e.pub...), 0x08, 0x01)))
		addB("digest-unknown-field", g.Multihash(0, append(append([]byte(nil), kp...), 0x18, 0x01)))
		addB("digest-duplicate-data", g.Multihash(0, append(append([]byte(nil), kp...), append([]byte{0x12, 0x20}, valid[(i+1)%len(valid)].pub...)...)))
		addB("digest-inner-len-overrun", g.Multihash(0, append([]byte{0x08, 0x01, 0x12, 0x21}, e.pub...)))
		addB("digest-type-wrong-wiretype", g.Multihash(0, append([]byte{0x0a, 0x01, 0x01, 0x12, 0x20}, e.pub...)))
		addB("digest-trailing-tag", g.Multihash(0, append(append([]byte(nil), kp...), 0x08)))
		addB("keyproto-only", kp)
		addB("raw-pub", e.pub)
	}
	r.Begin(fmt.Sprintf("%d structured hostile byte strings", len(hostile)))
	for _, h := range hostile {
		judgeBytes(h.b, h.class, h.rel)
		r.Distinct("hostile_byte_classes", h.class)
	}

	// structured hostile text
	type ht struct {
		class, s string
		rel      *kent
	}
	var texts []ht
	cur = nil
	addT := func(class, s string) { texts = append(texts, ht{class, s, cur}) }
	addT("empty", "")
	addT("one-1", "1")
	addT("many-1", strings.Repeat("1", 40))
	addT("space", " ")
	addT("illegal-0", "0")
	addT("illegal-only", "0OIl")
	addT("non-ascii", "é日本")
	addT("invalid-utf8", "\xff\xfe")
	for i := 0; i < 6 && i < len(valid); i++ {
		cur = valid[i]
		s := valid[i].id.String()
		addT("valid", s)
		addT("leading-1", "1"+s)
		addT("leading-11", "11"+s)
		addT("trailing-1", s+"1")
		addT("leading-space", " "+s)
		addT("trailing-space", s+" ")
		addT("trailing-newline", s+"\n")
		addT("inner-space", s[:10]+" "+s[10:])
		addT("illegal-0", s[:5]+"0"+s[6:])
		addT("illegal-O", s[:5]+"O"+s[6:])
		addT("illegal-I", s[:5]+"I"+s[6:])
		addT("illegal-l", s[:5]+"l"+s[6:])
		addT("illegal-plus", s[:5]+"+"+s[6:])
		addT("nul", s[:5]+"\x00"+s[6:])
		addT("high-bit", s[:5]+"\xc3\xa9"+s[6:])
		addT("invalid-utf8", s[:5]+"\xff"+s[6:])
		addT("truncated-1", s[:len(s)-1])
		addT("truncated-half", s[:len(s)/2])
		addT("drop-first", s[1:])
		addT("doubled", s+s)
		addT("lowercase", strings.ToLower(s))
		addT("base64ish", "CAESI"+s[5:]+"==")
		addT("hex", fmt.Sprintf("%x", []byte(valid[i].id)))
		addT("multibase-z", "z"+s)
	}
	for _, h := range hostile {
		if len(h.b) > 0 {
			cur = h.rel
			addT("b58:"+h.class, g.B58Encode(h.b))
		}
	}
	r.Begin(fmt.Sprintf("%d structured hostile texts", len(texts)))
	for _, x := range texts {
		judgeText(x.s, x.class, x.rel)
		r.Distinct("hostile_text_classes", x.class)
	}

	// seeded mutation of valid IDs (bytes and text)
	nf := r.N(120000, 1500000)
	alpha := g.B58Alphabet()
	r.Begin(fmt.Sprintf("mutation: %d workers x %d cases, streams c10-mut-<w>", workers, nf/workers))
	g.Parallel(workers, func(w int) {
		rng := r.Rand(fmt.Sprintf("c10-mut-%d", w))
		for c := 0; c < nf/workers; c++ {
			e := valid[rng.IntN(len(valid))]
			switch rng.IntN(4) {
			case 0, 1:
				b := g.Mutate(rng, []byte(e.id), []byte(valid[rng.IntN(len(valid))].id))
				judgeBytes(b, "mutated", e)
			case 2:
				// character-level mutation inside the alphabet (stays base58)
				s := []byte(e.id.String())
				for k := 1 + rng.IntN(3); k > 0; k-- {
					switch rng.IntN(3) {
					case 0:
						s[rng.IntN(len(s))] = alpha[rng.IntN(len(alpha))]
					case 1:
						i := rng.IntN(len(s) + 1)
						s = append(s[:i], append([]byte{alpha[rng.IntN(len(alpha))]}, s[i:]...)...)
					case 2:
						if len(s) > 1 {
							i := rng.IntN(len(s))
							s = append(s[:i], s[i+1:]...)
						}
					}
				}
				judgeText(string(s), "mutated-b58", e)
			default:
				s := g.Mutate(rng, []byte(e.id.String()), []byte(" 0OIl\n\x00\xff+/="))
				judgeText(string(s), "mutated-text", e)
			}
		}
	})
}

func one(ids []peer.ID, err error) (peer.ID, error) {
	if err != nil {
		return "", err
	}
	if len(ids) != 1 {
		return "", fmt.Errorf("harness: expected exactly one id, got %d", len(ids))
	}
	return ids[0], nil
}

func sum256(b []byte) []byte {
	d, _ := g.Sum(g.HashSHA256, b)
	return d
}
