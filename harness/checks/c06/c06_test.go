// C06: link tables stay consistent with the history of link events.
//
// Real transport_controller.Controller on a real controller bus; the
// constructor callback captures the real transport.TransportHandler and the
// harness delivers HandleLinkEstablished / HandleLinkLost for fake links
// (shared uuids, several remote peers). Oracle: the reference table
// g6link.RefTable replayed in the order of the tc.established / tc.lost hook
// events (emitted under the controller lock = linearisation order), compared
// with a copy of Controller.links / linksByPeerID taken under the same lock
// after every event, with GetPeerLinks, with the values of
// EstablishLinkWithPeer directives at settled points, and with the Close
// counters of the fake links (removed => closed, never present => open).
package c06

import (
	"context"
	"fmt"
	"os"
	"runtime"
	"strings"
	"sync"
	"sync/atomic"
	"testing"

	"github.com/aperturerobotics/bifrost/peer"

	"verifharness/g6link"
	"verifharness/keys"
	"verifharness/vf"
)

// linkSpec: uuid index and remote index (0..2 = remote identities A, B, C; -1 = the local identity itself).
type linkSpec struct{ uuid, remote int }

type pattern struct {
	name  string
	links []linkSpec
}

var patterns = []pattern{
	{"distinct", []linkSpec{{1, 0}, {2, 1}, {3, 2}}},
	{"same-peer", []linkSpec{{1, 0}, {2, 0}, {3, 0}}},
	{"replace-same-peer", []linkSpec{{1, 0}, {1, 0}, {2, 0}}},
	{"replace-other-peer", []linkSpec{{1, 0}, {1, 1}, {2, 0}}},
	{"triple-uuid", []linkSpec{{1, 0}, {1, 0}, {1, 1}}},
	{"self-link", []linkSpec{{1, 0}, {1, -1}, {2, 0}}},
}

// 4-link patterns for the concurrent part
var patterns4 = []pattern{
	{"4-two-pairs", []linkSpec{{1, 0}, {1, 0}, {2, 1}, {2, 1}}},
	{"4-mixed", []linkSpec{{1, 0}, {1, 1}, {1, 2}, {2, 0}}},
	{"4-distinct", []linkSpec{{1, 0}, {2, 0}, {3, 1}, {4, 2}}},
}

type evSpec struct {
	lost bool
	li   int
}

func (e evSpec) String() string {
	if e.lost {
		return fmt.Sprintf("L%d", e.li+1)
	}
	return fmt.Sprintf("E%d", e.li+1)
}

func histString(h []evSpec) string {
	var sb strings.Builder
	for i, e := range h {
		if i > 0 {
			sb.WriteByte(' ')
		}
		sb.WriteString(e.String())
	}
	return sb.String()
}

type runner struct {
	r       *vf.Run
	pool    []*keys.Identity // 0 = local identity, 1..3 = remote identities
	w       *g6link.World
	n       *g6link.Node
	watches []*g6link.Watch
	used    int
	dirty   bool
}

const worldBatch = 150

func (ru *runner) peers() []peer.ID {
	return []peer.ID{ru.pool[1].ID, ru.pool[2].ID, ru.pool[3].ID, ru.pool[0].ID}
}

func (ru *runner) ensureWorld() bool {
	if ru.w != nil && !ru.dirty && ru.used < worldBatch {
		ru.used++
		return true
	}
	ru.closeWorld()
	w, err := g6link.NewWorld(context.Background(), ru.pool[:1])
	if err != nil {
		ru.r.Inconclusive("cannot build world: " + err.Error())
		return false
	}
	ru.w, ru.n, ru.used, ru.dirty = w, w.Nodes[0], 1, false
	local := ru.pool[0].ID
	// one directive per remote peer, with and without the source constraint
	for i, src := range []peer.ID{local, "", local} {
		wa, err := w.NewWatch(src, ru.pool[1+i].ID)
		if err != nil {
			ru.r.Inconclusive("cannot add directive: " + err.Error())
			ru.closeWorld()
			return false
		}
		ru.watches = append(ru.watches, wa)
	}
	ru.r.Count("worlds", 1)
	return true
}

func (ru *runner) closeWorld() {
	if ru.w == nil {
		return
	}
	for _, wa := range ru.watches {
		wa.Release()
	}
	ru.watches = nil
	ru.w.Close()
	ru.w, ru.n = nil, nil
}

func (ru *runner) instantiate(p pattern) []*g6link.Link {
	base := uint64(ru.used) * 100
	ls := make([]*g6link.Link, len(p.links))
	for i, s := range p.links {
		rem := ru.pool[0].ID
		if s.remote >= 0 {
			rem = ru.pool[1+s.remote].ID
		}
		ls[i] = ru.n.NewLink(fmt.Sprintf("l%d", i+1), base+uint64(s.uuid), rem)
	}
	return ls
}

func (ru *runner) progress() int64 {
	p := int64(ru.n.Seq())
	for _, wa := range ru.watches {
		p += wa.Callbacks()
	}
	return p
}

type caseCtx struct {
	ru     *runner
	p      pattern
	desc   string
	links  []*g6link.Link
	model  *g6link.RefTable
	base   int
	failed bool
	// table changes / replacements / stale losses of the history proper (before the cleanup losses)
	changes, repl, stale int
}

func (c *caseCtx) describeLinks() []string {
	var out []string
	for _, l := range c.links {
		out = append(out, l.String())
	}
	return out
}

func (c *caseCtx) hookOrder() string {
	var sb strings.Builder
	for i, e := range c.ru.n.Events(c.base) {
		if i > 0 {
			sb.WriteByte(' ')
		}
		if e.Link == nil {
			sb.WriteString("?")
			continue
		}
		if e.Kind == g6link.KindLost {
			sb.WriteString("L" + e.Link.Name[1:])
		} else {
			sb.WriteString("E" + e.Link.Name[1:])
		}
	}
	return sb.String()
}

func (c *caseCtx) violation(key, what string, extra map[string]any) {
	c.failed = true
	c.ru.dirty = true
	w := map[string]any{
		"case": c.desc, "pattern": c.p.name, "links": c.describeLinks(),
		"hook_order_applied": c.hookOrder(), "reference_table": g6link.Names(c.model.Links()),
	}
	for k, v := range extra {
		w[k] = v
	}
	c.ru.r.Violation(key, what, w)
}

func (c *caseCtx) inconclusive(what string) {
	c.failed = true
	c.ru.dirty = true
	c.ru.r.Inconclusive(c.desc + ": " + what)
}

// replay feeds one applied hook event to the model and checks the snapshot.
func (c *caseCtx) replay(ev g6link.Event) bool {
	if ev.Foreign || ev.Link == nil {
		c.inconclusive("hook event for a link the harness did not create")
		return false
	}
	c.model.Apply(ev.Kind, ev.Link)
	c.ru.r.Count("hook_events_"+ev.Kind, 1)
	if mm := g6link.CompareSnapshot(c.model, ev, ev.Snap); mm != nil {
		c.violation("table:"+mm.Class, "controller link tables differ from the reference table: "+mm.Text, map[string]any{"event_index": ev.Seq - c.base})
		return false
	}
	c.ru.r.Count("snapshots_compared", 1)
	return true
}

// reportsExact compares GetPeerLinks with the model while nothing is in flight.
func (c *caseCtx) reportsExact(when string) bool {
	for _, p := range c.ru.peers() {
		got, foreign := c.ru.n.PeerLinks(p)
		want := c.model.PeerLinks(p)
		c.ru.r.Count("GetPeerLinks_calls", 1)
		if foreign != 0 || !g6link.SameSet(got, want) {
			cls := "differs"
			for _, l := range got {
				if _, removed := c.model.MustClose[l]; removed && !c.model.Has(l) {
					cls = "lost-link-reported"
				}
			}
			c.violation("GetPeerLinks:"+cls, fmt.Sprintf("%s: GetPeerLinks(%s) = %s, established and not lost = %s", when, g6link.Short(p), g6link.Names(got), g6link.Names(want)), nil)
			return false
		}
	}
	return true
}

// applySeq delivers events one at a time, waiting for each to be applied.
func (c *caseCtx) applySeq(evs []struct {
	lost bool
	l    *g6link.Link
}) bool {
	n := c.ru.n
	for _, e := range evs {
		at := n.Seq()
		if e.lost {
			n.Lost(e.l)
		} else {
			n.Est(e.l)
		}
		res, _ := g6link.Settle(func() bool { return n.Seq() > at }, c.ru.progress)
		if res != g6link.Reached {
			c.inconclusive("handler call never reached its hook")
			return false
		}
		ev := n.Events(at)[0]
		if ev.Link != e.l || (ev.Kind == g6link.KindLost) != e.lost {
			c.inconclusive("hook event does not match the call made")
			return false
		}
		if !c.replay(ev) {
			return false
		}
		if !c.reportsExact("after " + ev.Kind + "(" + ev.Link.Name + ")") {
			return false
		}
	}
	return true
}

// settled checks, at a point where nothing can change any more, the directive
// values and the removed => closed obligations.
func (c *caseCtx) settled(when string) bool {
	ru := c.ru
	valuesOK := func() (bool, string, string) {
		for _, wa := range ru.watches {
			got, unknown := wa.Current()
			var want []*g6link.Link
			if wa.Src == "" || wa.Src == ru.n.Local() {
				want = c.model.PeerLinks(wa.Dst)
			}
			if unknown != 0 {
				return false, "unknown-value", fmt.Sprintf("%s holds a value that is not a link delivered by the harness", wa)
			}
			if !g6link.SameSet(got, want) {
				cls := "differs"
				for _, l := range got {
					if !c.model.Has(l) {
						cls = "stale-link-reported"
						if why, ok := c.model.MustClose[l]; ok && why == "lost" {
							cls = "lost-link-still-reported"
						}
					}
				}
				if cls == "differs" {
					cls = "established-link-not-reported"
				}
				return false, cls, fmt.Sprintf("values of EstablishLinkWithPeer(%s -> %s) = %s, established and not lost = %s", g6link.Short(wa.Src), g6link.Short(wa.Dst), g6link.Names(got), g6link.Names(want))
			}
		}
		return true, "", ""
	}
	closesOK := func() (bool, string, string) {
		for l, why := range c.model.MustClose {
			if l.Closes() < 1 {
				cls := "lost-link-not-closed"
				if strings.HasPrefix(why, "replaced") {
					cls = "replaced-link-not-closed"
				} else if strings.HasPrefix(why, "self") {
					cls = "self-link-not-closed"
				}
				return false, cls, fmt.Sprintf("%s (%s) was never closed", l, why)
			}
		}
		return true, "", ""
	}
	res, dump := g6link.Settle(func() bool {
		a, _, _ := valuesOK()
		b, _, _ := closesOK()
		return a && b
	}, ru.progress)
	switch res {
	case g6link.Reached:
		ru.r.Count("settled_points", 1)
		return true
	case g6link.Undecided:
		c.inconclusive(when + ": watchdog expired before the system settled")
		return false
	}
	if ok, cls, txt := closesOK(); !ok {
		c.violation("close:"+cls, when+": settled (all controller goroutines parked) but "+txt, map[string]any{"goroutines": g6link.TrimDump(dump)})
		return false
	}
	if ok, cls, txt := valuesOK(); !ok {
		c.violation("values:"+cls, when+": settled (all controller goroutines parked) but "+txt, map[string]any{"goroutines": g6link.TrimDump(dump)})
		return false
	}
	return true
}

// cleanup loses every link still in the model so that the world can be reused.
func (c *caseCtx) cleanup() bool {
	c.changes, c.repl, c.stale = c.model.Changes, c.model.Replacements, c.model.StaleLosses
	var evs []struct {
		lost bool
		l    *g6link.Link
	}
	for _, l := range c.model.Links() {
		evs = append(evs, struct {
			lost bool
			l    *g6link.Link
		}{true, l})
	}
	if !c.applySeq(evs) {
		return false
	}
	if !c.settled("after losing all remaining links") {
		return false
	}
	if len(c.model.Links()) != 0 {
		c.inconclusive("model not empty after cleanup")
		return false
	}
	// never-removed links must still be... nothing is demanded (see notes): only forget them.
	for _, l := range c.links {
		l.Forget()
	}
	return true
}

func (ru *runner) newCase(p pattern, desc string) *caseCtx {
	if !ru.ensureWorld() {
		return nil
	}
	c := &caseCtx{ru: ru, p: p, desc: desc}
	c.links = ru.instantiate(p)
	c.model = g6link.NewRefTable(ru.n.Local())
	c.base = ru.n.Seq()
	return c
}

func (c *caseCtx) account(sig string) {
	r := c.ru.r
	r.Case(sig, c.changes >= 2 && !c.failed)
	r.Count("model_replacements", c.repl)
	r.Count("model_stale_losses_of_replaced_links", c.stale)
	r.Count("model_table_changes", c.changes)
}

// runSeq: one history delivered sequentially.
func (ru *runner) runSeq(p pattern, hist []evSpec) {
	g6link.RunCase(func() {
		desc := "sequential " + p.name + ": " + histString(hist)
		c := ru.newCase(p, desc)
		if c == nil {
			return
		}
		var evs []struct {
			lost bool
			l    *g6link.Link
		}
		for _, e := range hist {
			evs = append(evs, struct {
				lost bool
				l    *g6link.Link
			}{e.lost, c.links[e.li]})
		}
		ok := c.applySeq(evs) && c.settled("after the history") && c.cleanup()
		_ = ok
		c.account("seq|" + p.name + "|" + histString(hist))
		if !c.failed && c.stale > 0 && c.repl > 0 && seqSamples.Add(1) <= 3 {
			ru.r.Sample(map[string]any{"kind": "sequential", "pattern": p.name, "links": c.describeLinks(), "history": histString(hist), "table_changes": c.changes, "replacements": c.repl, "late_losses_of_replaced_links": c.stale})
		}
	})
}

type readerObs struct {
	p      peer.ID
	s0, s1 int
	got    []*g6link.Link
	fgn    int
}

// runConc: scripts delivered from concurrent goroutines, with a concurrent reader.
func (ru *runner) runConc(p pattern, scripts [][]evSpec, yields []bool) {
	g6link.RunCase(func() {
		var parts []string
		for _, s := range scripts {
			parts = append(parts, histString(s))
		}
		in := p.name + "|" + strings.Join(parts, " || ")
		c := ru.newCase(p, "concurrent "+in)
		if c == nil {
			return
		}
		n := ru.n
		total := 0
		for _, s := range scripts {
			total += len(s)
		}
		start := make(chan struct{})
		var wg sync.WaitGroup
		for gi, s := range scripts {
			wg.Add(1)
			go func(s []evSpec, y bool) {
				defer wg.Done()
				<-start
				for _, e := range s {
					if e.lost {
						n.Lost(c.links[e.li])
					} else {
						n.Est(c.links[e.li])
					}
					if y {
						runtime.Gosched()
					}
				}
			}(s, yields[gi])
		}
		var stop atomic.Bool
		var obs []readerObs
		var rwg sync.WaitGroup
		rwg.Add(1)
		go func() {
			defer rwg.Done()
			<-start
			ps := ru.peers()
			for k := 0; k < 64 && !stop.Load(); k++ {
				pp := ps[k%3]
				s0 := n.Seq()
				got, fgn := n.PeerLinks(pp)
				s1 := n.Seq()
				obs = append(obs, readerObs{pp, s0 - c.base, s1 - c.base, got, fgn})
			}
		}()
		close(start)
		wg.Wait()
		res, _ := g6link.Settle(func() bool { return n.Seq() >= c.base+total }, ru.progress)
		stop.Store(true)
		rwg.Wait()
		if res != g6link.Reached {
			c.inconclusive("handler calls never reached their hooks")
			return
		}
		evs := n.Events(c.base)
		if len(evs) != total {
			c.inconclusive(fmt.Sprintf("%d hook events for %d calls", len(evs), total))
			return
		}
		ok := true
		for _, ev := range evs {
			if ok = c.replay(ev); !ok {
				break
			}
		}
		order := c.hookOrder()
		if ok {
			// concurrent reads: each result must be the model's answer in some state inside the call's interval
			for _, o := range obs {
				ru.r.Count("GetPeerLinks_concurrent_calls", 1)
				match := false
				lo, hi := o.s0, o.s1
				if lo < 0 {
					lo = 0
				}
				if hi > total {
					hi = total
				}
				for k := lo; k <= hi && o.fgn == 0; k++ {
					if g6link.SameSet(o.got, c.model.PeerLinksAt(k, o.p)) {
						match = true
						break
					}
				}
				if !match {
					c.violation("GetPeerLinks:not-linearizable", fmt.Sprintf("GetPeerLinks(%s) returned %s while between %d and %d events were applied; no reference state in that interval has this set", g6link.Short(o.p), g6link.Names(o.got), o.s0, o.s1), nil)
					ok = false
					break
				}
			}
		}
		ok = ok && c.reportsExact("after all concurrent events were applied") && c.settled("after the concurrent history") && c.cleanup()
		// program order inversions (only measurable if every event is submitted exactly once)
		cnt := map[string]int{}
		for _, s := range scripts {
			for _, e := range s {
				cnt[e.String()]++
			}
		}
		uniq := true
		for _, v := range cnt {
			if v > 1 {
				uniq = false
			}
		}
		if uniq {
			pos := map[string]int{}
			for i, tok := range strings.Fields(order) {
				pos[tok] = i
			}
			for _, s := range scripts {
				for i := 1; i < len(s); i++ {
					if pos[s[i].String()] < pos[s[i-1].String()] {
						ru.r.Count("program_order_inversions_observed", 1)
					}
					// the harmful sub-case: one goroutine reported Est(l) and later Lost(l),
					// the controller applied Lost(l) first: l then stays reported
					for j := 0; j < i; j++ {
						if s[i].lost && !s[j].lost && s[i].li == s[j].li && pos[s[i].String()] < pos[s[j].String()] {
							ru.r.Count("program_order_inversions_est_then_lost_applied_lost_first", 1)
						}
					}
				}
			}
		}
		ru.r.Distinct("hook_orders", in+"=>"+order)
		ru.r.Distinct("concurrent_inputs", in)
		c.account("conc|" + in + "=>" + order)
		if !c.failed && c.repl > 0 && concSamples.Add(1) <= 3 {
			ru.r.Sample(map[string]any{"kind": "concurrent", "pattern": p.name, "links": c.describeLinks(), "scripts": parts, "hook_order": order, "table_changes": c.changes, "replacements": c.repl})
		}
	})
}

var seqSamples, concSamples atomic.Int64

type job struct {
	p       pattern
	hist    []evSpec
	scripts [][]evSpec
	yields  []bool
	wins    []window  // gated part (c06_gate_test.go)
	mut     []mutStep // uuid-change part (c06_mut_test.go)
}

func TestC06(t *testing.T) {
	r := vf.Start(t, "C06", vf.FaultEnumeration)
	defer r.Finish()
	r.SetRule("Histories over the alphabet {Est(l), Lost(l)} on 3 links (4 in part of the concurrent runs) in 6 (+3) uuid/peer sharing patterns (distinct; same peer; same uuid + same peer; same uuid + other peer; three links on one uuid; a self link on a shared uuid). Sequential part: every history of length L (quick 4, thorough 5; shorter ones are their prefixes) for every pattern, each event awaited, plus PRNG histories of length 6-8. Concurrent part: PRNG scripts from 2-4 goroutines plus a concurrent GetPeerLinks reader; the applied order is taken from the hook events. A case is non-trivial when the reference table changed at least twice during the history (the clean-up losses afterwards not counted); distinct = distinct (pattern, history[, observed hook order]). Oracle: reference table replayed in hook order; after EVERY event the copy of links/linksByPeerID taken under the controller lock must equal it (keys, partition by remote peer, same entry objects, no nil/duplicate entries); GetPeerLinks equals it (exactly when nothing is in flight, in some state of the call interval when concurrent); at settled points the values of EstablishLinkWithPeer directives equal it and every link the reference removed (lost / replaced / self) has had Close called. 'present => not closed' is never demanded. Gated part (quick 500 / thorough 10000 PRNG histories of 1-3 windows over the same patterns): a window is 0-2 awaited events, then a trigger event (Est, 1 in 6 Lost, of a non-self link) with a harness gate armed on the directive of that link's peer, so that the next value-added callback (1 in 3 and for Lost triggers: the next callback of any kind) parks inside the resolver's emit call (no lock of the controller is held there); when the reference table of that peer changed, the harness waits for the callback to arrive (condition, not time), then delivers 1-3 further events, 7 in 10 on links sharing the peer or uuid of the trigger link, 1 in 4 the loss of the very link being reported, each awaited at its hook and judged like a sequential event, WHILE the callback is held, then opens the gate and delivers nothing more: the system must settle with the directive values equal to the reference table (a resolver that does not notice an event applied while it was emitting stays wrong for good: values:lost-link-still-reported / established-link-not-reported). uuid-change part (quick 400 / thorough 8000 PRNG histories, sequential, same oracle): one or two non-self links of the pattern change the value GetUUID() reports to a fresh one (never held by another link) at a PRNG point of the history (3 in 4 right after being established, else in whatever state the prefix left them), 0-2 events on other links follow, then the changed link is reported lost (the loss must find it although it is filed under the uuid it was established with), then 0-4 more events: 1 in 2 first a link re-using the OLD uuid, late duplicate loss reports of the changed link; never delivered: Est of a changed link, Est of another link with the old uuid between the change and the loss (the property does not say which identifier such a link holds for the replacement clause). quic part: 14 scripted scenarios with real pconn/quic transports on an in-memory switch (close, reconnect with the same key from the same address once / twice / on a second address / beside another peer / followed by close and connect / racing another peer's close, another key from the same address (usurp), two addresses, usurp and back, close racing a reconnect, silent kill), each run without and with the harness holding EstablishLinkWithPeer(L, peer) references (only with them a replacement link survives the late loss of the link it replaced: unreferenced, the controller closes all links of a peer when one is lost); after every step GetPeerLinks must report exactly the sessions that are alive as seen by the harness and the remote ends; a closed link still reported after the transport finished processing its loss with no handler call pending is a violation. The quic transport's own table is judged in every polling iteration after every step, without settling: for every address, the local end l of the newest session the script connected from it, if not closed (context alive before and after the lookups), must be what Transport.LookupLinkWithAddr returns and LookupLinkWithPeer must return a link of l's peer; a link whose loss the transport finished processing (hook) must not be returned by either lookup.")
	r.Assume("a fake link never reports its own loss; its local peer is the transport's peer; uuids are stable except in the uuid-change part, where the reference table keeps a link under the uuid it was established with and identifies it by object identity")
	r.Assume("linearisation order = order of the tc.established / tc.lost hook events (emitted as the last action under Controller.bcast); a handler call that HoldLockMaybeAsync applies later than a subsequent call of the same goroutine is judged in applied order (counted as program_order_inversions_observed, not flagged)")
	r.Assume("stuck-state verdicts (value/close obligations) are taken only when every goroutine with bifrost/controllerbus frames is parked and no other case is running; timers of >= 10 s (directive hold-open) are outside every case's lifetime")

	pool := keys.Pool(r.Rand("c06-keys"), 4)
	rng := r.Rand("c06-cases")

	var jobs []job
	// sequential, exhaustive up to L
	L := r.N(4, 5)
	for _, p := range patterns {
		nl := len(p.links)
		alpha := 2 * nl
		total := 1
		for i := 0; i < L; i++ {
			total *= alpha
		}
		for code := 0; code < total; code++ {
			h := make([]evSpec, L)
			x := code
			for i := 0; i < L; i++ {
				a := x % alpha
				x /= alpha
				h[i] = evSpec{lost: a >= nl, li: a % nl}
			}
			jobs = append(jobs, job{p: p, hist: h})
		}
	}
	nExh := len(jobs)
	// sequential, sampled longer histories
	for i, m := 0, r.N(600, 20000); i < m; i++ {
		p := patterns[rng.IntN(len(patterns))]
		if rng.IntN(4) == 0 {
			p = patterns4[rng.IntN(len(patterns4))]
		}
		h := make([]evSpec, 6+rng.IntN(3))
		for j := range h {
			h[j] = evSpec{lost: rng.IntN(5) < 2, li: rng.IntN(len(p.links))}
		}
		jobs = append(jobs, job{p: p, hist: h})
	}
	nSeq := len(jobs)
	// concurrent
	for i, m := 0, r.N(500, 20000); i < m; i++ {
		p := patterns[rng.IntN(len(patterns))]
		if rng.IntN(3) == 0 {
			p = patterns4[rng.IntN(len(patterns4))]
		}
		g := 2 + rng.IntN(3)
		sc := make([][]evSpec, g)
		ys := make([]bool, g)
		for k := range sc {
			sc[k] = make([]evSpec, 1+rng.IntN(3))
			for j := range sc[k] {
				sc[k][j] = evSpec{lost: rng.IntN(5) < 2, li: rng.IntN(len(p.links))}
			}
			ys[k] = rng.IntN(2) == 0
		}
		reps := 1 + rng.IntN(3)
		for q := 0; q < reps; q++ {
			jobs = append(jobs, job{p: p, scripts: sc, yields: ys})
		}
	}
	nConc := len(jobs)
	// gated: link events applied while a value callback is held (c06_gate_test.go)
	grng := r.Rand("c06-gated")
	for i, m := 0, r.N(500, 10000); i < m; i++ {
		p, ws := genGated(grng)
		jobs = append(jobs, job{p: p, wins: ws})
	}
	r.Extra("gated_runs", len(jobs)-nConc)
	nGated := len(jobs)
	// uuid-change: links whose GetUUID() changes while established (c06_mut_test.go)
	mrng := r.Rand("c06-uuid-change")
	for i, m := 0, r.N(400, 8000); i < m; i++ {
		p, h := genMut(mrng)
		jobs = append(jobs, job{p: p, mut: h})
	}
	r.Extra("uuid_change_runs", len(jobs)-nGated)
	switch os.Getenv("VERIF_C06_ONLY") { // debugging aid only
	case "gated":
		jobs = jobs[nConc:nGated]
	case "mut":
		jobs = jobs[nGated:]
	}
	r.Extra("sequential_exhaustive_histories", nExh)
	r.Extra("sequential_exhaustive_length", L)
	r.Extra("sequential_sampled_histories", nSeq-nExh)
	r.Extra("concurrent_runs", nConc-nSeq)
	r.SetExhaustive(true)
	r.Extra("exhaustive_scope", fmt.Sprintf("sequential histories of length <= %d over 3 links x 6 sharing patterns; longer and concurrent histories are sampled", L))

	workers := runtime.GOMAXPROCS(0) / 2
	if workers < 2 {
		workers = 2
	}
	if workers > 8 {
		workers = 8
	}
	ch := make(chan job, 64)
	var wg sync.WaitGroup
	var done atomic.Int64
	for wi := 0; wi < workers; wi++ {
		wg.Add(1)
		go func() {
			defer wg.Done()
			ru := &runner{r: r, pool: pool}
			defer ru.closeWorld()
			for j := range ch {
				if r.Violations() > 40 {
					continue
				}
				if j.mut != nil {
					ru.runMut(j.p, j.mut)
				} else if j.wins != nil {
					ru.runGated(j.p, j.wins)
				} else if j.scripts != nil {
					ru.runConc(j.p, j.scripts, j.yields)
				} else {
					ru.runSeq(j.p, j.hist)
				}
				done.Add(1)
			}
		}()
	}
	for i, j := range jobs {
		if i%500 == 0 {
			r.Begin(fmt.Sprintf("jobs %d.. of %d (pattern %s)", i, len(jobs), j.p.name))
		}
		ch <- j
	}
	close(ch)
	wg.Wait()
	r.Extra("jobs_run", done.Load())
	r.Extra("gated_part_worker_seconds_summed(informational)", float64(gatedNanos.Load())/1e9)

	// quic layer: real pconn transports (after the fake-link parts so that the
	// stuck-state detector never has to look at quic goroutines)
	r.Begin("quic-layer scenarios")
	runQuicPart(r, pool)
}
