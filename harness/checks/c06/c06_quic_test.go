package c06

import (
	"fmt"
	"strings"
	"sync"
	"time"

	"github.com/aperturerobotics/bifrost/peer"

	"verifharness/g6link"
	"verifharness/keys"
	"verifharness/vf"
)

// quic layer (second half of the C06 anchor): a real transport controller
// with a real pconn/quic transport on an in-memory datagram switch; remote
// real transports connect from chosen source addresses. The harness owns the
// ground truth: which remote instance currently holds which source address and
// which instances were closed, killed or usurped (another instance connected
// from the same address).

type qstep struct {
	op   byte   // 'c' connect, 'x' orderly close of the identity's latest instance, 'k' kill it silently
	who  int    // identity index 0 = X, 1 = Y
	addr string // for 'c'
	// with: a second action executed concurrently with this one
	with *qstep
}

func (s qstep) String() string {
	n := string("XY"[s.who])
	var out string
	switch s.op {
	case 'c':
		out = "connect(" + n + " from " + s.addr + ")"
	case 'x':
		out = "close(" + n + ")"
	default:
		out = "kill(" + n + ")"
	}
	if s.with != nil {
		out += " || " + s.with.String()
	}
	return out
}

type qscenario struct {
	name  string
	steps []qstep
}

func (s qscenario) String() string {
	var p []string
	for _, st := range s.steps {
		p = append(p, st.String())
	}
	return s.name + ": " + strings.Join(p, "; ")
}

var qscenarios = []qscenario{
	{"close-by-remote", []qstep{{op: 'c', who: 0, addr: "A"}, {op: 'x', who: 0}}},
	{"reconnect-same-key-same-address", []qstep{{op: 'c', who: 0, addr: "A"}, {op: 'c', who: 0, addr: "A"}}},
	{"usurp-other-key-same-address", []qstep{{op: 'c', who: 0, addr: "A"}, {op: 'c', who: 1, addr: "A"}}},
	{"two-addresses-then-close", []qstep{{op: 'c', who: 0, addr: "A"}, {op: 'c', who: 1, addr: "B"}, {op: 'x', who: 0}}},
	{"usurp-then-close", []qstep{{op: 'c', who: 0, addr: "A"}, {op: 'c', who: 1, addr: "A"}, {op: 'x', who: 1}}},
	{"usurp-and-back", []qstep{{op: 'c', who: 0, addr: "A"}, {op: 'c', who: 1, addr: "A"}, {op: 'c', who: 0, addr: "A"}}},
	{"close-racing-reconnect", []qstep{{op: 'c', who: 0, addr: "A"}, {op: 'x', who: 0, with: &qstep{op: 'c', who: 0, addr: "A"}}}},
	{"same-key-two-addresses", []qstep{{op: 'c', who: 0, addr: "A"}, {op: 'c', who: 0, addr: "B"}, {op: 'x', who: 0}}},
	{"killed-then-reconnect", []qstep{{op: 'c', who: 0, addr: "A"}, {op: 'k', who: 0}, {op: 'c', who: 0, addr: "A"}}},
}

type qinst struct {
	who   int
	addr  string
	r     *g6link.QuicRemote
	alive bool
}

const quicWatchdog = 40 * time.Second

func runQuicScenario(r *vf.Run, pool []*keys.Identity, sc qscenario, rep int) {
	desc := fmt.Sprintf("quic %s (run %d)", sc.String(), rep)
	q, err := g6link.NewQuicCase(pool[0])
	if err != nil {
		r.Inconclusive(desc + ": cannot build the local side: " + err.Error())
		return
	}
	defer q.Close()
	ids := []*keys.Identity{pool[1], pool[2]}
	var mu sync.Mutex
	var insts []*qinst
	owner := map[string]*qinst{}
	failed := false
	trivial := true

	latest := func(who int) *qinst {
		for i := len(insts) - 1; i >= 0; i-- {
			if insts[i].who == who {
				return insts[i]
			}
		}
		return nil
	}
	do := func(s qstep) bool {
		switch s.op {
		case 'c':
			qr, err := q.Connect(string("XY"[s.who]), ids[s.who], s.addr)
			if err != nil {
				r.Inconclusive(desc + ": remote could not connect: " + err.Error())
				return false
			}
			mu.Lock()
			if prev := owner[s.addr]; prev != nil {
				prev.alive = false // its source address now belongs to the new instance
			}
			in := &qinst{who: s.who, addr: s.addr, r: qr, alive: true}
			owner[s.addr] = in
			insts = append(insts, in)
			mu.Unlock()
			r.Count("quic_connects", 1)
		case 'x', 'k':
			mu.Lock()
			in := latest(s.who)
			mu.Unlock()
			if in == nil {
				return true
			}
			if s.op == 'x' {
				in.r.CloseLink()
				r.Count("quic_orderly_closes", 1)
			} else {
				in.r.Kill()
				r.Count("quic_kills", 1)
			}
			mu.Lock()
			in.alive = false
			mu.Unlock()
		}
		return true
	}

	for si, st := range sc.steps {
		// pick the target of a concurrent close before the concurrent connect can register a newer instance
		ok := true
		if st.with != nil {
			var wg sync.WaitGroup
			var ok2 bool
			// the close targets the instance that exists now
			mu.Lock()
			target := latest(st.who)
			mu.Unlock()
			wg.Add(1)
			go func() { defer wg.Done(); ok2 = do(*st.with) }()
			if target != nil && (st.op == 'x' || st.op == 'k') {
				if st.op == 'x' {
					target.r.CloseLink()
				} else {
					target.r.Kill()
				}
				mu.Lock()
				target.alive = false
				mu.Unlock()
			} else {
				ok = do(qstep{op: st.op, who: st.who, addr: st.addr})
			}
			wg.Wait()
			ok = ok && ok2
		} else {
			ok = do(st)
		}
		if !ok {
			failed = true
			break
		}
		// expectation from the harness's ground truth: instances the script
		// left alive (not closed, killed or usurped) whose session is still
		// alive as seen from the REMOTE end (the local side closes sibling
		// links of a peer on purpose when the shared directive is released;
		// the remote end then sees its session die).
		want := map[peer.ID]int{}
		liveSessions := func() {
			want[ids[0].ID], want[ids[1].ID] = 0, 0
			mu.Lock()
			for _, in := range insts {
				if in.alive && in.r.RemoteSideAlive() {
					want[ids[in.who].ID]++
				}
			}
			mu.Unlock()
		}
		when := fmt.Sprintf("after step %d (%s)", si+1, st.String())
		deadline := time.Now().Add(quicWatchdog)
		for {
			good := true
			liveSessions()
			var offending string
			var key string
			for _, id := range ids {
				rp := q.Report(id.ID)
				if rp.Other != 0 || len(rp.Closed) != 0 || len(rp.Alive) != want[id.ID] {
					good = false
				}
				for _, l := range rp.Alive {
					if cur, ok := q.QT.LookupLinkWithAddr(l.RemoteAddr().String()); !ok || cur != l {
						good = false
					}
				}
			}
			if good {
				r.Count("quic_settled_points", 1)
				break
			}
			// permanence by causality, never by elapsed time: the script is
			// idle, the transport delivered one HandleLinkEstablished per
			// session and the controller applied every handler call made so
			// far; a closed link whose loss the transport has finished
			// processing can then never be removed any more.
			if q.AllToldAndApplied() {
				for _, id := range ids {
					for _, l := range q.Report(id.ID).Closed {
						done, current := g6link.LossProcessed(l)
						if !done || !q.AllToldAndApplied() {
							continue
						}
						still := false
						for _, l2 := range q.Report(id.ID).Closed {
							still = still || l2 == l
						}
						if !still {
							continue
						}
						key = "quic:closed-link-still-reported/usurped-link-no-longer-current-for-its-address"
						if current {
							key = "quic:closed-link-still-reported/link-was-current-for-its-address"
						}
						offending = g6link.DescribeLink(l)
					}
				}
			}
			if key != "" {
				var reported []string
				for _, id := range ids {
					rp := q.Report(id.ID)
					for _, l := range append(rp.Alive, rp.Closed...) {
						reported = append(reported, g6link.DescribeLink(l))
					}
				}
				r.Violation(key, fmt.Sprintf("%s: GetPeerLinks still reports %s although the link is closed, the transport finished processing its loss and no handler call is pending", when, offending),
					map[string]any{"scenario": sc.String(), "reported_links": reported, "expected_alive_X": want[ids[0].ID], "expected_alive_Y": want[ids[1].ID]})
				failed = true
				break
			}
			if time.Now().After(deadline) {
				r.Inconclusive(desc + ": " + when + ": watchdog expired before the reported links matched the live sessions")
				failed = true
				break
			}
			time.Sleep(time.Millisecond)
		}
		if failed {
			break
		}
		if si > 0 {
			trivial = false
		}
	}
	r.Case("quic|"+sc.String(), !failed && !trivial)
	r.Count("quic_scenarios", 1)
}

func runQuicPart(r *vf.Run, pool []*keys.Identity) {
	reps := r.N(2, 12)
	t0 := time.Now()
	defer func() { r.Extra("quic_part_wall_s(informational)", time.Since(t0).Seconds()) }()
	var wg sync.WaitGroup
	sem := make(chan struct{}, 6)
	for rep := 0; rep < reps; rep++ {
		for _, sc := range qscenarios {
			wg.Add(1)
			sem <- struct{}{}
			go func(sc qscenario, rep int) {
				defer wg.Done()
				defer func() { <-sem }()
				runQuicScenario(r, pool, sc, rep)
			}(sc, rep)
		}
	}
	wg.Wait()
}
