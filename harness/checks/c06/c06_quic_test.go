package c06

import (
	"fmt"
	"strings"
	"sync"
	"time"

	"github.com/aperturerobotics/bifrost/peer"

	"verifharness/g6link"
	"verifharness/keys"
	"verifharness/vf"
)

// quic layer (second half of the C06 anchor): a real transport controller
// with a real pconn/quic transport on an in-memory datagram switch; remote
// real transports connect from chosen source addresses. The harness owns the
// ground truth: which remote instance currently holds which source address and
// which instances were closed, killed or usurped (another instance connected
// from the same address).

type qstep struct {
	op   byte   // 'c' connect, 'x' orderly close of the identity's latest instance, 'k' kill it silently
	who  int    // identity index 0 = X, 1 = Y
	addr string // for 'c'
	// with: a second action executed concurrently with this one
	with *qstep
}

func (s qstep) String() string {
	n := string("XY"[s.who])
	var out string
	switch s.op {
	case 'c':
		out = "connect(" + n + " from " + s.addr + ")"
	case 'x':
		out = "close(" + n + ")"
	default:
		out = "kill(" + n + ")"
	}
	if s.with != nil {
		out += " || " + s.with.String()
	}
	return out
}

type qscenario struct {
	name  string
	steps []qstep
	// keep: the harness holds EstablishLinkWithPeer(L, X) and (L, Y) for the
	// whole scenario (an application that wants these links). Without it the
	// controller closes all links with a peer when one of them is lost, so a
	// link that replaced another one never survives the late loss of the link
	// it replaced.
	keep bool
}

func (s qscenario) String() string {
	var p []string
	for _, st := range s.steps {
		p = append(p, st.String())
	}
	k := ""
	if s.keep {
		k = " [links wanted]"
	}
	return s.name + k + ": " + strings.Join(p, "; ")
}

var qscenarios = []qscenario{
	{name: "close-by-remote", steps: []qstep{{op: 'c', who: 0, addr: "A"}, {op: 'x', who: 0}}},
	{name: "reconnect-same-key-same-address", steps: []qstep{{op: 'c', who: 0, addr: "A"}, {op: 'c', who: 0, addr: "A"}}},
	{name: "usurp-other-key-same-address", steps: []qstep{{op: 'c', who: 0, addr: "A"}, {op: 'c', who: 1, addr: "A"}}},
	{name: "two-addresses-then-close", steps: []qstep{{op: 'c', who: 0, addr: "A"}, {op: 'c', who: 1, addr: "B"}, {op: 'x', who: 0}}},
	{name: "usurp-then-close", steps: []qstep{{op: 'c', who: 0, addr: "A"}, {op: 'c', who: 1, addr: "A"}, {op: 'x', who: 1}}},
	{name: "usurp-and-back", steps: []qstep{{op: 'c', who: 0, addr: "A"}, {op: 'c', who: 1, addr: "A"}, {op: 'c', who: 0, addr: "A"}}},
	{name: "close-racing-reconnect", steps: []qstep{{op: 'c', who: 0, addr: "A"}, {op: 'x', who: 0, with: &qstep{op: 'c', who: 0, addr: "A"}}}},
	{name: "same-key-two-addresses", steps: []qstep{{op: 'c', who: 0, addr: "A"}, {op: 'c', who: 0, addr: "B"}, {op: 'x', who: 0}}},
	{name: "killed-then-reconnect", steps: []qstep{{op: 'c', who: 0, addr: "A"}, {op: 'k', who: 0}, {op: 'c', who: 0, addr: "A"}}},
	// replacement by a newer session from the same address, the loss of the
	// replaced link arriving after the newer one registered, in more contexts
	{name: "reconnect-twice-same-key-same-address", steps: []qstep{{op: 'c', who: 0, addr: "A"}, {op: 'c', who: 0, addr: "A"}, {op: 'c', who: 0, addr: "A"}}},
	{name: "reconnect-beside-other-peer", steps: []qstep{{op: 'c', who: 1, addr: "B"}, {op: 'c', who: 0, addr: "A"}, {op: 'c', who: 0, addr: "A"}, {op: 'x', who: 1}}},
	{name: "reconnect-same-key-second-address", steps: []qstep{{op: 'c', who: 0, addr: "A"}, {op: 'c', who: 0, addr: "B"}, {op: 'c', who: 0, addr: "B"}}},
	{name: "reconnect-then-close-then-connect", steps: []qstep{{op: 'c', who: 0, addr: "A"}, {op: 'c', who: 0, addr: "A"}, {op: 'x', who: 0}, {op: 'c', who: 0, addr: "A"}}},
	{name: "reconnect-racing-other-peer-close", steps: []qstep{{op: 'c', who: 0, addr: "A"}, {op: 'c', who: 1, addr: "B"}, {op: 'x', who: 1, with: &qstep{op: 'c', who: 0, addr: "A"}}}},
}

// qscenariosAll: every scenario without and with the links being wanted.
func qscenariosAll() []qscenario {
	var out []qscenario
	for _, keep := range []bool{false, true} {
		for _, sc := range qscenarios {
			sc.keep = keep
			out = append(out, sc)
		}
	}
	return out
}

type qinst struct {
	who   int
	addr  string
	r     *g6link.QuicRemote
	alive bool
}

const quicWatchdog = 40 * time.Second

func runQuicScenario(r *vf.Run, pool []*keys.Identity, sc qscenario, rep int) {
	desc := fmt.Sprintf("quic %s (run %d)", sc.String(), rep)
	q, err := g6link.NewQuicCase(pool[0])
	if err != nil {
		r.Inconclusive(desc + ": cannot build the local side: " + err.Error())
		return
	}
	defer q.Close()
	ids := []*keys.Identity{pool[1], pool[2]}
	if sc.keep {
		for _, id := range ids {
			if err := q.Keep(id.ID); err != nil {
				r.Inconclusive(desc + ": cannot add the EstablishLinkWithPeer reference: " + err.Error())
				return
			}
		}
	}
	var mu sync.Mutex
	var insts []*qinst
	owner := map[string]*qinst{}
	failed := false
	trivial := true

	latest := func(who int) *qinst {
		for i := len(insts) - 1; i >= 0; i-- {
			if insts[i].who == who {
				return insts[i]
			}
		}
		return nil
	}
	do := func(s qstep) bool {
		switch s.op {
		case 'c':
			qr, err := q.Connect(string("XY"[s.who]), ids[s.who], s.addr)
			if err != nil {
				r.Inconclusive(desc + ": remote could not connect: " + err.Error())
				return false
			}
			mu.Lock()
			if prev := owner[s.addr]; prev != nil {
				prev.alive = false // its source address now belongs to the new instance
			}
			in := &qinst{who: s.who, addr: s.addr, r: qr, alive: true}
			owner[s.addr] = in
			insts = append(insts, in)
			mu.Unlock()
			r.Count("quic_connects", 1)
		case 'x', 'k':
			mu.Lock()
			in := latest(s.who)
			mu.Unlock()
			if in == nil {
				return true
			}
			if s.op == 'x' {
				in.r.CloseLink()
				r.Count("quic_orderly_closes", 1)
			} else {
				in.r.Kill()
				r.Count("quic_kills", 1)
			}
			mu.Lock()
			in.alive = false
			mu.Unlock()
		}
		return true
	}

	for si, st := range sc.steps {
		// pick the target of a concurrent close before the concurrent connect can register a newer instance
		ok := true
		if st.with != nil {
			var wg sync.WaitGroup
			var ok2 bool
			// the close targets the instance that exists now
			mu.Lock()
			target := latest(st.who)
			mu.Unlock()
			wg.Add(1)
			go func() { defer wg.Done(); ok2 = do(*st.with) }()
			if target != nil && (st.op == 'x' || st.op == 'k') {
				if st.op == 'x' {
					target.r.CloseLink()
				} else {
					target.r.Kill()
				}
				mu.Lock()
				target.alive = false
				mu.Unlock()
			} else {
				ok = do(qstep{op: st.op, who: st.who, addr: st.addr})
			}
			wg.Wait()
			ok = ok && ok2
		} else {
			ok = do(st)
		}
		if !ok {
			failed = true
			break
		}
		// expectation from the harness's ground truth: instances the script
		// left alive (not closed, killed or usurped) whose session is still
		// alive as seen from the REMOTE end (the local side closes sibling
		// links of a peer on purpose when the shared directive is released;
		// the remote end then sees its session die).
		want := map[peer.ID]int{}
		liveSessions := func() {
			want[ids[0].ID], want[ids[1].ID] = 0, 0
			mu.Lock()
			for _, in := range insts {
				if in.alive && in.r.RemoteSideAlive() {
					want[ids[in.who].ID]++
				}
			}
			mu.Unlock()
		}
		when := fmt.Sprintf("after step %d (%s)", si+1, st.String())
		deadline := time.Now().Add(quicWatchdog)
		for {
			good := true
			liveSessions()
			var offending string
			var key string
			for _, id := range ids {
				rp := q.Report(id.ID)
				if rp.Other != 0 || len(rp.Closed) != 0 || len(rp.Alive) != want[id.ID] {
					good = false
				}
				for _, l := range rp.Alive {
					if cur, ok := q.QT.LookupLinkWithAddr(l.RemoteAddr().String()); !ok || cur != l {
						good = false
					}
				}
			}
			// the quic transport's own table (independent of the settling of
			// the controller tables, see checkTransportTable)
			mu.Lock()
			own := map[string]*qinst{}
			for a, in := range owner {
				own[a] = in
			}
			mu.Unlock()
			tv := checkTransportTable(q, ids, own)
			if tv.key != "" {
				var reported []string
				for _, l := range q.LocalLinks() {
					reported = append(reported, g6link.DescribeLink(l))
				}
				r.Violation(tv.key, when+": "+tv.what, map[string]any{"scenario": sc.String(), "links_reported_established_by_the_transport": reported})
				failed = true
				break
			}
			for _, id := range ids {
				pl, pok := q.QT.LookupLinkWithPeer(id.ID)
				if pok != (want[id.ID] > 0) || (pok && pl.GetContext().Err() != nil) {
					good = false
				}
			}
			if !tv.complete {
				good = false
			}
			// a point is settled only once the transport has processed the loss
			// of every closed link (so the late loss of a replaced link has
			// happened before its successor is confirmed)
			for _, l := range q.LocalLinks() {
				if l != nil && l.GetContext().Err() != nil {
					if done, _ := g6link.LossProcessed(l); !done {
						good = false
					}
				}
			}
			if good {
				r.Count("quic_settled_points", 1)
				r.Count("quic_transport_table_live_links_confirmed_at_settled_points", tv.live)
				r.Count("quic_transport_table_processed_losses_confirmed_at_settled_points", tv.lost)
				r.Count("quic_late_losses_of_replaced_links_with_live_successor_at_settled_points", tv.lateLoss)
				break
			}
			// permanence by causality, never by elapsed time: the script is
			// idle, the transport delivered one HandleLinkEstablished per
			// session and the controller applied every handler call made so
			// far; a closed link whose loss the transport has finished
			// processing can then never be removed any more.
			if q.AllToldAndApplied() {
				for _, id := range ids {
					for _, l := range q.Report(id.ID).Closed {
						done, current := g6link.LossProcessed(l)
						if !done || !q.AllToldAndApplied() {
							continue
						}
						still := false
						for _, l2 := range q.Report(id.ID).Closed {
							still = still || l2 == l
						}
						if !still {
							continue
						}
						key = "quic:closed-link-still-reported/usurped-link-no-longer-current-for-its-address"
						if current {
							key = "quic:closed-link-still-reported/link-was-current-for-its-address"
						}
						offending = g6link.DescribeLink(l)
					}
				}
			}
			if key != "" {
				var reported []string
				for _, id := range ids {
					rp := q.Report(id.ID)
					for _, l := range append(rp.Alive, rp.Closed...) {
						reported = append(reported, g6link.DescribeLink(l))
					}
				}
				r.Violation(key, fmt.Sprintf("%s: GetPeerLinks still reports %s although the link is closed, the transport finished processing its loss and no handler call is pending", when, offending),
					map[string]any{"scenario": sc.String(), "reported_links": reported, "expected_alive_X": want[ids[0].ID], "expected_alive_Y": want[ids[1].ID]})
				failed = true
				break
			}
			if time.Now().After(deadline) {
				r.Inconclusive(desc + ": " + when + ": watchdog expired before the reported links matched the live sessions")
				failed = true
				break
			}
			time.Sleep(time.Millisecond)
		}
		if failed {
			break
		}
		if si > 0 {
			trivial = false
		}
	}
	r.Case("quic|"+sc.String(), !failed && !trivial)
	r.Count("quic_scenarios", 1)
}

// tableVerdict is the outcome of one look at the quic transport's own link
// table (Transport.LookupLinkWithAddr / LookupLinkWithPeer).
type tableVerdict struct {
	key, what string // non-empty: violation
	complete  bool   // every session of the script has been reported by the transport, so every address could be judged
	live      int    // live links confirmed to be reported for their address and peer
	lost      int    // links with processed loss confirmed not to be reported
	lateLoss  int    // of live: links that replaced a link with the same uuid whose loss was processed after they registered
}

// checkTransportTable judges what the quic transport itself reports against
// the harness's ground truth. Must be called while the script is idle (no
// Connect in flight). No settling and no time is involved; both clauses hold
// at every moment on a correct transport:
//
//  1. Let in be the LAST instance the script connected from address a and l
//     the local end of its session (known once the transport reported it).
//     The transport registers l for a before it reports l, only a newer
//     session from a (there is none) or l's own loss (which follows l's
//     Close, i.e. the cancellation of l's context) may take the slot away.
//     So if l's context is alive before AND after the lookups,
//     LookupLinkWithAddr(a) must return l and LookupLinkWithPeer(peer of l)
//     must return a link with that peer: a link established and not lost is
//     reported, and the loss of an older link never removes it.
//  2. A link whose loss the transport finished processing (hook
//     quic.linklost.done) is never reported again, neither for its address
//     nor for its peer.
func checkTransportTable(q *g6link.QuicCase, ids []*keys.Identity, owner map[string]*qinst) (v tableVerdict) {
	if !q.AllTold() {
		return
	}
	v.complete = true
	all := q.LocalLinks()
	for addr, in := range owner {
		l := q.LocalLink(in.r.Index)
		if l == nil || l.RemoteAddr().String() != addr || l.GetRemotePeer() != ids[in.who].ID {
			// the harness cannot tell which local link belongs to the instance: do not judge
			v.complete = false
			continue
		}
		p := l.GetRemotePeer()
		before := l.GetContext().Err() == nil
		cur, ok := q.QT.LookupLinkWithAddr(addr)
		pl, pok := q.QT.LookupLinkWithPeer(p)
		after := l.GetContext().Err() == nil
		if !before || !after {
			continue
		}
		switch {
		case !ok || cur == nil:
			v.key = "quic:transport-table/live-link-not-reported-for-its-address/no-link"
			v.what = fmt.Sprintf("Transport.LookupLinkWithAddr(%s) reports no link although %s is the newest session from that address, is established and was not lost (not closed)", addr, g6link.DescribeLink(l))
			return
		case cur != l:
			v.key = "quic:transport-table/live-link-not-reported-for-its-address/other-link"
			v.what = fmt.Sprintf("Transport.LookupLinkWithAddr(%s) reports %s although %s is the newest session from that address, is established and was not lost (not closed)", addr, g6link.DescribeLink(cur), g6link.DescribeLink(l))
			return
		case !pok || pl == nil:
			v.key = "quic:transport-table/live-link-not-reported-for-its-peer/no-link"
			v.what = fmt.Sprintf("Transport.LookupLinkWithPeer(%s) reports no link although %s is established and was not lost (not closed)", g6link.Short(p), g6link.DescribeLink(l))
			return
		case pl.GetRemotePeer() != p:
			v.key = "quic:transport-table/lookup-with-peer-returns-link-of-other-peer"
			v.what = fmt.Sprintf("Transport.LookupLinkWithPeer(%s) reports %s", g6link.Short(p), g6link.DescribeLink(pl))
			return
		}
		v.live++
		for _, o := range all {
			if o == l {
				break
			}
			// current == false: o was no longer the current link of its address
			// when its loss was processed, i.e. the loss came after it was replaced
			if done, current := g6link.LossProcessed(o); done && !current && o != nil && o.GetUUID() == l.GetUUID() {
				v.lateLoss++
				break
			}
		}
	}
	for _, l := range all {
		if l == nil {
			continue
		}
		if done, _ := g6link.LossProcessed(l); !done {
			continue
		}
		addr, p := l.RemoteAddr().String(), l.GetRemotePeer()
		if cur, ok := q.QT.LookupLinkWithAddr(addr); ok && cur == l {
			v.key = "quic:transport-table/lost-link-still-reported-for-its-address"
			v.what = fmt.Sprintf("Transport.LookupLinkWithAddr(%s) still reports %s after the transport finished processing its loss", addr, g6link.DescribeLink(l))
			return
		}
		if pl, ok := q.QT.LookupLinkWithPeer(p); ok && pl == l {
			v.key = "quic:transport-table/lost-link-still-reported-for-its-peer"
			v.what = fmt.Sprintf("Transport.LookupLinkWithPeer(%s) still reports %s after the transport finished processing its loss", g6link.Short(p), g6link.DescribeLink(l))
			return
		}
		v.lost++
	}
	return
}

func runQuicPart(r *vf.Run, pool []*keys.Identity) {
	reps := r.N(2, 12)
	t0 := time.Now()
	defer func() { r.Extra("quic_part_wall_s(informational)", time.Since(t0).Seconds()) }()
	var wg sync.WaitGroup
	sem := make(chan struct{}, 6)
	for rep := 0; rep < reps; rep++ {
		for _, sc := range qscenariosAll() {
			wg.Add(1)
			sem <- struct{}{}
			go func(sc qscenario, rep int) {
				defer wg.Done()
				defer func() { <-sem }()
				runQuicScenario(r, pool, sc, rep)
			}(sc, rep)
		}
	}
	wg.Wait()
}
