// C06, gated part: link events delivered WHILE a resolver is emitting values.
//
// The EstablishLinkWithPeer resolver reads the link table, emits the values to
// the directive (the value callbacks of the references run inside that call,
// with no controller lock held) and then waits for the next change. Here the
// harness parks one value callback of the watch of a peer at a gate
// (g6link.Gate), delivers further link events for that peer (lost / another
// link established / replaced by a link with the same uuid) and awaits their
// hooks while the resolver is still inside its emit call, then opens the gate
// and delivers NOTHING more: whatever the resolver does next, at the settled
// point the directive values must equal the reference table (the same oracle
// as everywhere else in this check). No duration is involved: the gate is
// opened when the hook events of the held events were applied.
package c06

import (
	"fmt"
	"strings"
	"sync/atomic"
	"time"

	"verifharness/g6link"
)

// window: pre events (sequential, awaited), then the trigger event with a gate
// armed on the watch of the trigger link's peer, then the events delivered
// while the callback is held.
type window struct {
	pre    []evSpec
	trig   evSpec
	during []evSpec
	anyCb  bool // hold the next callback of any kind (else the next value-added callback)
}

func (w window) String() string {
	k := "add"
	if w.anyCb {
		k = "any"
	}
	return fmt.Sprintf("%s ; hold[%s] %s { %s }", histString(w.pre), k, w.trig, histString(w.during))
}

func winsString(ws []window) string {
	var parts []string
	for _, w := range ws {
		parts = append(parts, w.String())
	}
	return strings.Join(parts, " ;; ")
}

func genGated(rng interface{ IntN(int) int }) (pattern, []window) {
	p := patterns[rng.IntN(len(patterns))]
	if rng.IntN(3) == 0 {
		p = patterns4[rng.IntN(len(patterns4))]
	}
	nl := len(p.links)
	var nonSelf []int
	for i, l := range p.links {
		if l.remote >= 0 {
			nonSelf = append(nonSelf, i)
		}
	}
	ws := make([]window, 1+rng.IntN(3))
	for wi := range ws {
		w := &ws[wi]
		for k := rng.IntN(3); k > 0; k-- {
			w.pre = append(w.pre, evSpec{lost: rng.IntN(5) < 2, li: rng.IntN(nl)})
		}
		w.trig = evSpec{lost: rng.IntN(6) == 0, li: nonSelf[rng.IntN(len(nonSelf))]}
		w.anyCb = w.trig.lost || rng.IntN(3) == 0
		// links that share the peer or the uuid of the trigger link
		var near []int
		for i, l := range p.links {
			if l.remote == p.links[w.trig.li].remote || l.uuid == p.links[w.trig.li].uuid {
				near = append(near, i)
			}
		}
		for k := 1 + rng.IntN(3); k > 0; k-- {
			e := evSpec{lost: rng.IntN(2) == 0, li: rng.IntN(nl)}
			if rng.IntN(10) < 7 {
				e.li = near[rng.IntN(len(near))]
			}
			if rng.IntN(4) == 0 {
				e = evSpec{lost: true, li: w.trig.li}
			}
			w.during = append(w.during, e)
		}
	}
	return p, ws
}

var gatedSamples atomic.Int64

// gatedNanos: time spent in gated cases summed over the workers (informational only).
var gatedNanos atomic.Int64

func (c *caseCtx) evs(h []evSpec) []struct {
	lost bool
	l    *g6link.Link
} {
	var out []struct {
		lost bool
		l    *g6link.Link
	}
	for _, e := range h {
		out = append(out, struct {
			lost bool
			l    *g6link.Link
		}{e.lost, c.links[e.li]})
	}
	return out
}

func gains(before, after []*g6link.Link) (gain, loss bool) {
	in := func(ls []*g6link.Link, l *g6link.Link) bool {
		for _, x := range ls {
			if x == l {
				return true
			}
		}
		return false
	}
	for _, l := range after {
		if !in(before, l) {
			gain = true
		}
	}
	for _, l := range before {
		if !in(after, l) {
			loss = true
		}
	}
	return
}

// runGated: histories with link events delivered while a value callback is held.
func (ru *runner) runGated(p pattern, ws []window) {
	g6link.RunCase(func() {
		t0 := time.Now()
		defer func() { gatedNanos.Add(int64(time.Since(t0))) }()
		in := p.name + "|" + winsString(ws)
		c := ru.newCase(p, "gated "+in)
		if c == nil {
			return
		}
		r := ru.r
		var open []*g6link.Gate
		defer func() {
			for _, g := range open {
				g.Open()
			}
		}()
		heldWindows := 0
		ok := true
		for wi, w := range ws {
			if ok = c.applySeq(c.evs(w.pre)) && c.settled(fmt.Sprintf("before window %d", wi+1)); !ok {
				break
			}
			tl := c.links[w.trig.li]
			wa := ru.watches[p.links[w.trig.li].remote]
			before := c.model.PeerLinks(wa.Dst)
			g := wa.Arm(!w.anyCb)
			open = append(open, g)
			if ok = c.applySeq(c.evs([]evSpec{w.trig})); !ok {
				break
			}
			gain, loss := gains(before, c.model.PeerLinks(wa.Dst))
			if gain || (w.anyCb && loss) {
				// the reference table of the watched peer changed: the resolver must call back
				switch res, _ := g6link.Settle(g.Entered, ru.progress); res {
				case g6link.Reached:
				case g6link.Stuck:
					// nothing is running and the callback never came: the values
					// differ from the reference; judged by settled() below
					r.Count("gated_expected_callback_never_came", 1)
				default:
					c.inconclusive("watchdog expired waiting for the value callback")
					ok = false
				}
				if !ok {
					break
				}
			}
			held := g.Entered()
			// link events while the resolver is inside its emit call
			if ok = c.applySeq(c.evs(w.during)); !ok {
				break
			}
			if held {
				heldWindows++
				r.Count("gated_windows_with_a_value_callback_held", 1)
				if g.Event().Added {
					r.Count("gated_held_callback_value_added", 1)
				} else {
					r.Count("gated_held_callback_value_removed", 1)
				}
				for _, e := range w.during {
					l := c.links[e.li]
					k := "est"
					if e.lost {
						k = "lost"
					}
					switch {
					case l == tl:
						k += "_of_the_link_being_reported"
					case l.Remote == tl.Remote && l.UUID == tl.UUID:
						k += "_of_a_link_with_its_uuid_and_peer"
					case l.Remote == tl.Remote:
						k += "_of_another_link_of_its_peer"
					default:
						k += "_of_a_link_of_another_peer"
					}
					r.Count("gated_events_applied_while_held_"+k, 1)
				}
			} else {
				r.Count("gated_windows_without_callback(no change expected)", 1)
			}
			g.Open()
			// no further event: the directive values must converge to the reference table
			if ok = c.settled(fmt.Sprintf("after window %d (%s; the events in braces were applied while a value callback of the watch for %s was held, none after it was let go)", wi+1, w, g6link.Short(wa.Dst))); !ok {
				break
			}
		}
		if ok {
			c.cleanup()
		} else {
			c.changes, c.repl, c.stale = c.model.Changes, c.model.Replacements, c.model.StaleLosses
		}
		r.Distinct("gated_inputs", in)
		r.Case("gated|"+in, c.changes >= 2 && heldWindows >= 1 && !c.failed)
		r.Count("model_replacements", c.repl)
		r.Count("model_stale_losses_of_replaced_links", c.stale)
		r.Count("model_table_changes", c.changes)
		if !c.failed && heldWindows >= 1 && gatedSamples.Add(1) <= 3 {
			r.Sample(map[string]any{"kind": "gated", "pattern": p.name, "links": c.describeLinks(), "windows(pre ; hold[kind] trigger { events applied while the callback was held })": winsString(ws), "windows_with_callback_held": heldWindows, "table_changes": c.changes})
		}
	})
}
