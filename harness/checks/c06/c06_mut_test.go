// C06, uuid-change part: links whose GetUUID() value changes while they are
// established.
//
// Scope decision: the property's clauses "a lost link is closed and never
// reported again" and "the set of links reported equals the set established
// and not yet lost" are universal over links, and the anchored mechanism
// names HandleLinkLost's "equality slow path" ("only taken if the uuid somehow
// changed on the link") explicitly: the loss of a link that now reports
// another uuid than the one it was established under is inside the property.
// What the property does NOT decide is which "identifier" such a link holds
// for the replacement clause (the old or the new uuid). The histories below
// therefore keep the changed link clear of that question: the new uuid is
// fresh (no other link of the case ever has it), the link is never reported
// established again after the change, and no other link with the OLD uuid is
// established between the change and the first loss report of the changed
// link. Everything else is free: what happened before the change (the link
// may be established, replaced, lost, never established), unrelated events in
// between, and after the loss the OLD uuid being re-used by other links,
// duplicate / late loss reports of the changed link, further changes.
//
// The reference table needs no change: it is keyed by the uuid a link was
// established under (Link.UUID, which never changes) and compares entries by
// link identity. Oracle as in the sequential part (snapshot after every event,
// GetPeerLinks, settled directive values, removed => closed).
package c06

import (
	"fmt"
	"strings"
	"sync/atomic"

	"verifharness/g6link"
)

// mutStep: an ordinary event, or (mut) a change of the uuid link li reports.
type mutStep struct {
	ev  evSpec
	mut bool
}

func mutString(h []mutStep) string {
	var parts []string
	for _, s := range h {
		if s.mut {
			parts = append(parts, fmt.Sprintf("U%d", s.ev.li+1))
		} else {
			parts = append(parts, s.ev.String())
		}
	}
	return strings.Join(parts, " ")
}

// genMut: prefix ; U(l) ; unrelated events ; L(l) ; suffix, possibly twice
// (a second link of the case changes its uuid later on).
func genMut(rng interface{ IntN(int) int }) (pattern, []mutStep) {
	p := patterns[rng.IntN(len(patterns))]
	if rng.IntN(3) == 0 {
		p = patterns4[rng.IntN(len(patterns4))]
	}
	nl := len(p.links)
	var nonSelf []int
	for i, l := range p.links {
		if l.remote >= 0 {
			nonSelf = append(nonSelf, i)
		}
	}
	changed := map[int]bool{}
	var h []mutStep
	rounds := 1 + rng.IntN(2)
	for ro := 0; ro < rounds; ro++ {
		var cand []int
		for _, i := range nonSelf {
			if !changed[i] {
				cand = append(cand, i)
			}
		}
		if len(cand) == 0 {
			break
		}
		m := cand[rng.IntN(len(cand))]
		// may this event be delivered (never Est of a changed link)
		free := func(e evSpec) bool { return e.lost || !changed[e.li] }
		// prefix: 3 in 4 the link is established right before (else whatever the prefix left)
		for k := rng.IntN(4); k > 0; k-- {
			if e := (evSpec{lost: rng.IntN(5) < 2, li: rng.IntN(nl)}); free(e) {
				h = append(h, mutStep{ev: e})
			}
		}
		if rng.IntN(4) != 0 {
			h = append(h, mutStep{ev: evSpec{li: m}})
		}
		h = append(h, mutStep{ev: evSpec{li: m}, mut: true})
		changed[m] = true
		// between change and loss: no Est of a link with the old uuid
		for k := rng.IntN(3); k > 0; k-- {
			e := evSpec{lost: rng.IntN(5) < 2, li: rng.IntN(nl)}
			if free(e) && (e.lost || p.links[e.li].uuid != p.links[m].uuid) {
				h = append(h, mutStep{ev: e})
			}
		}
		h = append(h, mutStep{ev: evSpec{lost: true, li: m}})
		// suffix: 1 in 2 starts with a link re-using the old uuid (if the pattern has one), late duplicate losses
		var same []int
		for i, l := range p.links {
			if i != m && l.uuid == p.links[m].uuid && !changed[i] {
				same = append(same, i)
			}
		}
		if len(same) > 0 && rng.IntN(2) == 0 {
			h = append(h, mutStep{ev: evSpec{li: same[rng.IntN(len(same))]}})
		}
		for k := rng.IntN(4); k > 0; k-- {
			e := evSpec{lost: rng.IntN(5) < 2, li: rng.IntN(nl)}
			if rng.IntN(4) == 0 {
				e = evSpec{lost: true, li: m}
			}
			if free(e) {
				h = append(h, mutStep{ev: e})
			}
		}
	}
	return p, h
}

var mutSamples atomic.Int64

// runMut: one history with uuid changes, delivered sequentially.
func (ru *runner) runMut(p pattern, hist []mutStep) {
	g6link.RunCase(func() {
		hs := mutString(hist)
		c := ru.newCase(p, "sequential uuid-change "+p.name+": "+hs)
		if c == nil {
			return
		}
		// restore the original uuids at the end: the clean-up losses and the
		// next case of the world must not depend on them (all links of the
		// case are lost by then anyway)
		lostWhileChanged, reused := 0, 0
		changedIn := map[*g6link.Link]bool{} // changed while in the reference table
		ok := true
		for i, s := range hist {
			l := c.links[s.ev.li]
			if s.mut {
				fresh := l.UUID + 50 + uint64(s.ev.li) // uuids of a case: base+1..4; base advances by 100 per case
				if c.model.Has(l) {
					changedIn[l] = true
				}
				l.SetReportedUUID(fresh)
				ru.r.Count("uuid_changes", 1)
				continue
			}
			if s.ev.lost && changedIn[l] && c.model.Has(l) {
				lostWhileChanged++
			}
			if !s.ev.lost {
				for o := range changedIn {
					if o != l && o.UUID == l.UUID && !c.model.Has(o) {
						reused++
					}
				}
			}
			if ok = c.applySeq(c.evs([]evSpec{s.ev})); !ok {
				break
			}
			_ = i
		}
		ok = ok && c.settled("after the history") && c.cleanup()
		ru.r.Count("uuid_changed_link_lost_while_in_table", lostWhileChanged)
		ru.r.Count("uuid_old_value_reused_after_loss", reused)
		c.account("mut|" + p.name + "|" + hs)
		if !c.failed && lostWhileChanged > 0 && mutSamples.Add(1) <= 3 {
			ru.r.Sample(map[string]any{"kind": "sequential uuid-change", "pattern": p.name, "links": c.describeLinks(), "history": hs, "table_changes": c.changes, "losses_of_links_reporting_another_uuid_than_established_under": lostWhileChanged, "old_uuid_reused_afterwards": reused})
		}
	})
}
