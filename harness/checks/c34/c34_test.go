// C34: stream handlers only take streams they are configured for.
//
// Bounded-exhaustive enumeration: every configuration over a small universe of
// protocol ids / peer ids that the handler's own Validate + constructor accept,
// against every incoming (protocol, local peer, remote peer) over the same
// universe (including empty values). The real HandleDirective is called with a
// harness-made directive.Instance carrying a link.HandleMountedStream
// directive; "offers" = returned at least one resolver without error. The
// oracle is a reference predicate per handler written from the handler's
// config documentation (proto comments), evaluated on the harness' own copy of
// the configuration values.
package c34

import (
	"context"
	"fmt"
	"strings"
	"testing"

	"github.com/aperturerobotics/bifrost/link"
	link_solicit_controller "github.com/aperturerobotics/bifrost/link/solicit/controller"
	"github.com/aperturerobotics/bifrost/peer"
	"github.com/aperturerobotics/bifrost/protocol"
	pubsub_controller "github.com/aperturerobotics/bifrost/pubsub/controller"
	stream_api_accept "github.com/aperturerobotics/bifrost/stream/api/accept"
	stream_echo "github.com/aperturerobotics/bifrost/stream/echo"
	stream_forwarding "github.com/aperturerobotics/bifrost/stream/forwarding"
	stream_relay "github.com/aperturerobotics/bifrost/stream/relay"
	stream_srpc_server "github.com/aperturerobotics/bifrost/stream/srpc/server"
	"github.com/aperturerobotics/controllerbus/controller"
	"github.com/aperturerobotics/controllerbus/directive"
	"github.com/blang/semver/v4"

	"verifharness/g11dir"
	"verifharness/keys"
	"verifharness/vf"
)

// in is one incoming stream description. Peers are indexes into the harness'
// peer table, -1 = empty peer id.
type in struct {
	proto         string
	local, remote int
}

// handleFn is a handler's HandleDirective.
type handleFn func(ctx context.Context, di directive.Instance) ([]directive.Resolver, error)

// conf is one configuration of one handler.
type conf struct {
	handler string
	desc    string
	// build validates and constructs the real handler; err => the configuration
	// is outside the universe (rejected by the handler itself).
	build func() (handleFn, error)
	// want is the reference predicate; reasons lists the filters that reject.
	want func(s in) (ok bool, reasons []string)
}

type universe struct {
	ids  []peer.ID // A, B, C
	b58  []string
	name []string
}

func (u *universe) id(i int) peer.ID {
	if i < 0 {
		return peer.ID("")
	}
	return u.ids[i]
}

func (u *universe) str(i int) string {
	if i < 0 {
		return ""
	}
	return u.b58[i]
}

func (u *universe) nm(i int) string {
	if i < 0 {
		return "-"
	}
	return u.name[i]
}

func (u *universe) list(ix []int) []string {
	out := make([]string, len(ix))
	for k, i := range ix {
		out[k] = u.str(i)
	}
	return out
}

func (u *universe) names(ix []int) string {
	out := make([]string, len(ix))
	for k, i := range ix {
		out[k] = u.nm(i)
	}
	return "[" + strings.Join(out, ",") + "]"
}

// lists returns all lists of length <= maxLen over vals (order and
// duplicates matter: they are distinct configurations).
func lists[T any](vals []T, maxLen int) [][]T {
	out := [][]T{nil}
	prev := [][]T{nil}
	for l := 1; l <= maxLen; l++ {
		var next [][]T
		for _, p := range prev {
			for _, v := range vals {
				n := append(append([]T(nil), p...), v)
				next = append(next, n)
			}
		}
		out = append(out, next...)
		prev = next
	}
	return out
}

func containsInt(l []int, v int) bool {
	for _, x := range l {
		if x == v {
			return true
		}
	}
	return false
}

func containsStr(l []string, v string) bool {
	for _, x := range l {
		if x == v {
			return true
		}
	}
	return false
}

func TestCheck(t *testing.T) {
	r := vf.Start(t, "C34", vf.Exploration)
	defer r.Finish()
	r.SetExhaustive(true)
	r.SetRule("bounded-exhaustive: for each of the 7 handlers (echo, forwarding, relay, api/accept, srpc server, pubsub controller, solicit controller) every configuration over protocol ids {p1,p2,p1/x,handler default,\"\"} x peers {A,B,C,\"\"} (lists up to length 2 where the config takes lists) that passes the handler's own Validate and constructor, against every incoming stream protocol (same universe + solicit look-alikes) x local {A,B,\"\"} x remote {A,B,C,\"\"}. The real HandleDirective is called with a harness-made directive.Instance; offered = >=1 resolver and nil error. Oracle: reference predicate written from each handler's config documentation, evaluated on the harness' copy of the config values: offered <=> predicate. A case is non-trivial when the handler accepted the configuration (HandleDirective was really called); distinct = distinct (handler, config, stream).")
	r.Assume("controllerbus delivers a HandleMountedStream directive to HandleDirective unchanged; the harness-made directive.Instance stands in for the bus' instance (the handlers under test only read GetDirective on this path)")
	r.Assume("api/accept transport_id is not part of the property statement (protocol, local peer, remote peer) and is not observable on the HandleMountedStream directive; it is enumerated in the configs but the reference predicate ignores it")

	pool := keys.Pool(r.Rand("c34-peers"), 3)
	u := &universe{name: []string{"A", "B", "C"}}
	for _, p := range pool {
		u.ids = append(u.ids, p.ID)
		u.b58 = append(u.b58, p.ID.String())
	}

	le := g11dir.QuietLogger()
	ctx := context.Background()

	confProtos := []string{"", "p1", "p2", "p1/x"}
	streamProtos := []string{"", "p1", "p2", "p1/x", "p", "P1",
		"bifrost/echo", "bifrost/floodsub", "bifrost/solicit", "bifrost/solici", "bifrost/solicit/x",
		"solicit:aa", "solicit:", "solicit", "xsolicit:aa", "Solicit:aa"}
	locals := []int{-1, 0, 1}
	remotes := []int{-1, 0, 1, 2}
	var streams []in
	for _, p := range streamProtos {
		for _, l := range locals {
			for _, rm := range remotes {
				streams = append(streams, in{p, l, rm})
			}
		}
	}

	var confs []conf

	protoReason := func(ok bool) []string {
		if ok {
			return nil
		}
		return []string{"protocol"}
	}

	// ---- echo: "PeerId is the peer ID to echo for. Can be empty." "ProtocolId is
	// the protocol ID to echo on." empty protocol => default "bifrost/echo".
	for _, cp := range append([]string{"bifrost/echo"}, confProtos...) {
		for _, pe := range locals {
			cp, pe := cp, pe
			confs = append(confs, conf{
				handler: "echo", desc: fmt.Sprintf("peer=%s proto=%q", u.nm(pe), cp),
				build: func() (handleFn, error) {
					c := &stream_echo.Config{PeerId: u.str(pe), ProtocolId: cp}
					if err := c.Validate(); err != nil {
						return nil, err
					}
					ct, err := stream_echo.NewController(le, nil, c)
					if err != nil {
						return nil, err
					}
					return ct.HandleDirective, nil
				},
				want: func(s in) (bool, []string) {
					eff := cp
					if eff == "" {
						eff = "bifrost/echo"
					}
					var why []string
					if s.proto != eff {
						why = append(why, "protocol")
					}
					if pe >= 0 && s.local != pe {
						why = append(why, "local")
					}
					return len(why) == 0, why
				},
			})
		}
	}

	// ---- forwarding: "PeerId is the peer ID to listen for incoming streams. Can
	// be empty to accept any." "ProtocolId ... Cannot be empty."
	for _, cp := range confProtos {
		for _, pe := range locals {
			cp, pe := cp, pe
			confs = append(confs, conf{
				handler: "forwarding", desc: fmt.Sprintf("peer=%s proto=%q", u.nm(pe), cp),
				build: func() (handleFn, error) {
					c := &stream_forwarding.Config{PeerId: u.str(pe), ProtocolId: cp, TargetMultiaddr: "/ip4/127.0.0.1/tcp/9"}
					if err := c.Validate(); err != nil {
						return nil, err
					}
					ct, err := stream_forwarding.NewController(le, nil, c)
					if err != nil {
						return nil, err
					}
					return ct.HandleDirective, nil
				},
				want: func(s in) (bool, []string) {
					var why []string
					if s.proto != cp {
						why = append(why, "protocol")
					}
					if pe >= 0 && s.local != pe {
						why = append(why, "local")
					}
					return len(why) == 0, why
				},
			})
		}
	}

	// ---- relay: "PeerId is the peer ID to listen for incoming streams."
	// "ProtocolId ... Cannot be empty." The constructor rejects an empty peer
	// id, so only configured-peer configs are in the universe.
	for _, cp := range confProtos {
		for _, pe := range locals {
			for _, tp := range []string{"", "p2"} {
				for _, tgt := range []int{-1, 2} {
					cp, pe, tp, tgt := cp, pe, tp, tgt
					confs = append(confs, conf{
						handler: "relay", desc: fmt.Sprintf("peer=%s proto=%q target=%s tproto=%q", u.nm(pe), cp, u.nm(tgt), tp),
						build: func() (handleFn, error) {
							c := &stream_relay.Config{PeerId: u.str(pe), ProtocolId: cp, TargetPeerId: u.str(tgt), TargetProtocolId: tp}
							if err := c.Validate(); err != nil {
								return nil, err
							}
							ct, err := stream_relay.NewController(le, nil, c)
							if err != nil {
								return nil, err
							}
							return ct.HandleDirective, nil
						},
						want: func(s in) (bool, []string) {
							var why []string
							if s.proto != cp {
								why = append(why, "protocol")
							}
							if pe >= 0 && s.local != pe {
								why = append(why, "local")
							}
							return len(why) == 0, why
						},
					})
				}
			}
		}
	}

	// ---- api/accept: "LocalPeerId ... Can be empty to accept any peer."
	// "RemotePeerIds ... Can be empty to accept any remote peer IDs."
	// "ProtocolId is the protocol ID to accept."
	for _, cp := range confProtos {
		for _, pe := range locals {
			for _, rl := range lists([]int{-1, 0, 1, 2}, 2) {
				for _, tid := range []uint64{0, 7} {
					cp, pe, rl, tid := cp, pe, rl, tid
					confs = append(confs, conf{
						handler: "api/accept", desc: fmt.Sprintf("local=%s remotes=%s proto=%q tpt=%d", u.nm(pe), u.names(rl), cp, tid),
						build: func() (handleFn, error) {
							c := &stream_api_accept.Config{LocalPeerId: u.str(pe), RemotePeerIds: u.list(rl), ProtocolId: cp, TransportId: tid}
							if err := c.Validate(); err != nil {
								return nil, err
							}
							ct, err := stream_api_accept.NewController(le, c, nil)
							if err != nil {
								return nil, err
							}
							return ct.HandleDirective, nil
						},
						want: func(s in) (bool, []string) {
							var why []string
							if s.proto != cp {
								why = append(why, "protocol")
							}
							if pe >= 0 && s.local != pe {
								why = append(why, "local")
							}
							if len(rl) != 0 && !containsInt(rl, s.remote) {
								why = append(why, "remote")
							}
							return len(why) == 0, why
						},
					})
				}
			}
		}
	}

	// ---- srpc server: "PeerIds are the list of peer IDs to listen on. If empty,
	// allows any incoming peer id w/ the protocol id(s)." "ProtocolIds is the
	// list of protocol ids to listen on. If empty, no incoming streams will be
	// accepted."
	info := controller.NewInfo("verif/c34", semver.MustParse("0.0.1"), "c34")
	for _, pl := range lists([]string{"", "p1", "p2"}, 2) {
		for _, il := range lists([]int{-1, 0, 1}, 2) {
			for _, del := range []bool{false, true} {
				pl, il, del := pl, il, del
				confs = append(confs, conf{
					handler: "srpc/server", desc: fmt.Sprintf("peers=%s protos=%q disableEstablish=%v", u.names(il), pl, del),
					build: func() (handleFn, error) {
						c := &stream_srpc_server.Config{PeerIds: u.list(il), ProtocolIds: append([]string(nil), pl...), DisableEstablishLink: del}
						if err := c.Validate(); err != nil {
							return nil, err
						}
						srv, err := c.BuildServer(nil, le, info, nil)
						if err != nil {
							return nil, err
						}
						return srv.HandleDirective, nil
					},
					want: func(s in) (bool, []string) {
						var why []string
						if !containsStr(pl, s.proto) {
							why = append(why, "protocol")
						}
						if len(il) != 0 && !containsInt(il, s.local) {
							why = append(why, "local")
						}
						return len(why) == 0, why
					},
				})
			}
		}
	}

	// ---- pubsub controller: handles streams of its pubsub protocol id (the
	// floodsub factory passes "bifrost/floodsub" and no peer restriction).
	for _, cp := range append([]string{"bifrost/floodsub"}, confProtos...) {
		for _, pe := range []int{-1, 0} {
			cp, pe := cp, pe
			confs = append(confs, conf{
				handler: "pubsub", desc: fmt.Sprintf("peer=%s proto=%q", u.nm(pe), cp),
				build: func() (handleFn, error) {
					ct := pubsub_controller.NewController(le, nil, info, u.id(pe), protocol.ID(cp), nil)
					return ct.HandleDirective, nil
				},
				want: func(s in) (bool, []string) {
					ok := s.proto == cp
					return ok, protoReason(ok)
				},
			})
		}
	}

	// ---- solicit controller: "returns a resolver for HandleMountedStream
	// directives matching bifrost/solicit or solicit:{hash} protocol IDs"
	// (ControlProtocolID; SolicitStreamPrefix "is the protocol ID prefix for
	// solicited streams").
	for _, mh := range []uint32{0, 4} {
		mh := mh
		confs = append(confs, conf{
			handler: "solicit", desc: fmt.Sprintf("max_hashes=%d", mh),
			build: func() (handleFn, error) {
				c := &link_solicit_controller.Config{MaxHashes: mh}
				if err := c.Validate(); err != nil {
					return nil, err
				}
				ct, err := link_solicit_controller.NewController(le, c)
				if err != nil {
					return nil, err
				}
				return ct.HandleDirective, nil
			},
			want: func(s in) (bool, []string) {
				ok := s.proto == "bifrost/solicit" || strings.HasPrefix(s.proto, "solicit:")
				return ok, protoReason(ok)
			},
		})
	}

	perHandler := map[string]int{}
	rejectedConfs := 0
	for _, c := range confs {
		r.Begin(fmt.Sprintf("handler=%s config{%s} x %d streams", c.handler, c.desc, len(streams)))
		var hd handleFn
		var berr error
		if p, d := vf.Try(func() { hd, berr = c.build() }); p {
			r.Violation("c34/"+c.handler+"/constructor-panic", "constructor panicked: "+d, map[string]any{"handler": c.handler, "config": c.desc})
			continue
		}
		if berr != nil {
			rejectedConfs++
			r.Count("configs_rejected_by_handler/"+c.handler, 1)
			continue
		}
		perHandler[c.handler]++
		r.Count("configs/"+c.handler, 1)
		for _, s := range streams {
			dir := link.NewHandleMountedStream(protocol.ID(s.proto), u.id(s.local), u.id(s.remote))
			di := g11dir.NewFakeInstance(ctx, dir)
			var res []directive.Resolver
			var err error
			if p, d := vf.Try(func() { res, err = hd(ctx, di) }); p {
				r.Violation("c34/"+c.handler+"/panic", "HandleDirective panicked: "+d,
					map[string]any{"handler": c.handler, "config": c.desc, "stream": fmt.Sprintf("%q local=%s remote=%s", s.proto, u.nm(s.local), u.nm(s.remote))})
				continue
			}
			nres := 0
			for _, x := range res {
				if x != nil {
					nres++
				}
			}
			offered := err == nil && nres > 0
			want, why := c.want(s)
			sig := fmt.Sprintf("%s|%s|%q|%d|%d", c.handler, c.desc, s.proto, s.local, s.remote)
			r.Case(sig, true)
			if err != nil {
				r.Count("handle_errors/"+c.handler, 1)
			}
			if want {
				r.Count("expected_offer/"+c.handler, 1)
			} else {
				r.Count("expected_refuse/"+c.handler, 1)
				r.Distinct("refuse_reasons", c.handler+":"+strings.Join(why, "+"))
			}
			wit := map[string]any{
				"handler": c.handler, "config": c.desc,
				"stream_protocol": s.proto, "stream_local": u.nm(s.local), "stream_remote": u.nm(s.remote),
				"resolvers": nres, "error": fmt.Sprint(err), "reference_says": want, "failing_filters": why,
				"peers": map[string]string{"A": u.b58[0], "B": u.b58[1], "C": u.b58[2]},
			}
			if offered && !want {
				r.Violation("c34/"+c.handler+"/took-unconfigured/"+strings.Join(why, "+"),
					fmt.Sprintf("%s{%s} offered to handle stream (%q, local=%s, remote=%s) although its %s filter does not match",
						c.handler, c.desc, s.proto, u.nm(s.local), u.nm(s.remote), strings.Join(why, "+")), wit)
			}
			if !offered && want {
				r.Violation("c34/"+c.handler+"/refused-configured",
					fmt.Sprintf("%s{%s} did not offer to handle stream (%q, local=%s, remote=%s) which matches its configuration",
						c.handler, c.desc, s.proto, u.nm(s.local), u.nm(s.remote)), wit)
			}
		}
		if len(perHandler) <= 6 && perHandler[c.handler] == 1 {
			r.Sample(map[string]any{"handler": c.handler, "config": c.desc, "streams": len(streams)})
		}
	}
	r.Extra("handlers", perHandler)
	r.Extra("streams_per_config", len(streams))
	r.Extra("configs_total", len(confs))
	r.Extra("configs_rejected_by_handler", rejectedConfs)
	for _, h := range []string{"echo", "forwarding", "relay", "api/accept", "srpc/server", "pubsub", "solicit"} {
		if perHandler[h] == 0 {
			r.Inconclusive("no accepted configuration for handler " + h)
		}
	}
}
