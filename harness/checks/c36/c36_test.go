// C36: remote RPC lookups report service availability faithfully.
//
// Harness: a real in-memory controllerbus bus; 0-3 harness provider
// controllers whose LookupRpcService resolvers add / remove values and toggle
// idle on harness command (sequentially and in concurrent bursts); the real
// AccessRpcServiceServer.LookupRpcService(req, harnessStream) running in its
// own goroutine (1-2 streams per history). The harness stream records every
// response. The oracle judges the response sequence against the harness' own
// count of live provider values, at points that the goroutine-state based
// quiescence detector (DESIGN 3.6) declares quiescent. Second part: component
// id round trip.
package c36

import (
	"context"
	"errors"
	"fmt"
	"math/rand/v2"
	"strings"
	"sync"
	"sync/atomic"
	"testing"
	"time"
	"unicode/utf8"

	bifrost_rpc "github.com/aperturerobotics/bifrost/rpc"
	bifrost_rpc_access "github.com/aperturerobotics/bifrost/rpc/access"
	"github.com/aperturerobotics/controllerbus/bus"
	"github.com/aperturerobotics/controllerbus/controller"
	"github.com/aperturerobotics/controllerbus/core"
	"github.com/aperturerobotics/controllerbus/directive"
	"github.com/aperturerobotics/starpc/srpc"
	"github.com/blang/semver/v4"

	"verifharness/g11dir"
	"verifharness/vf"
)

const watchdog = 60 * time.Second

const (
	svcID = "svc.Target"
	srvID = "server-1"
)

// ---------------- harness stream ----------------

type fakeStream struct {
	ctx    context.Context
	cancel context.CancelFunc
	name   string

	mu    sync.Mutex
	msgs  []string // "E" exists, "R" removed, "I" idle=true, "B" idle=false (busy), "?..." anything else
	gate  chan struct{}
	total *atomic.Int64
}

func newFakeStream(parent context.Context, name string, total *atomic.Int64) *fakeStream {
	ctx, cancel := context.WithCancel(parent)
	return &fakeStream{ctx: ctx, cancel: cancel, name: name, total: total}
}

func classify(m *bifrost_rpc_access.LookupRpcServiceResponse) string {
	e, rm, i := m.GetExists(), m.GetRemoved(), m.GetIdle()
	switch {
	case e && !rm && !i:
		return "E"
	case rm && !e && !i:
		return "R"
	case i && !e && !rm:
		return "I"
	case !i && !e && !rm:
		return "B"
	}
	return fmt.Sprintf("?(exists=%v,removed=%v,idle=%v)", e, rm, i)
}

func (s *fakeStream) Context() context.Context { return s.ctx }

func (s *fakeStream) Send(m *bifrost_rpc_access.LookupRpcServiceResponse) error {
	s.mu.Lock()
	g := s.gate
	s.mu.Unlock()
	if g != nil {
		select {
		case <-g:
		case <-s.ctx.Done():
			return s.ctx.Err()
		}
	}
	if err := s.ctx.Err(); err != nil {
		return err
	}
	k := classify(m)
	s.mu.Lock()
	s.msgs = append(s.msgs, k)
	s.mu.Unlock()
	s.total.Add(1)
	return nil
}

func (s *fakeStream) SendAndClose(m *bifrost_rpc_access.LookupRpcServiceResponse) error {
	return s.Send(m)
}

func (s *fakeStream) MsgSend(msg srpc.Message) error {
	if m, ok := msg.(*bifrost_rpc_access.LookupRpcServiceResponse); ok {
		return s.Send(m)
	}
	return nil
}

func (s *fakeStream) MsgRecv(msg srpc.Message) error {
	<-s.ctx.Done()
	return s.ctx.Err()
}
func (s *fakeStream) CloseSend() error { return nil }
func (s *fakeStream) Close() error     { s.cancel(); return nil }

func (s *fakeStream) closeGate() {
	s.mu.Lock()
	if s.gate == nil {
		s.gate = make(chan struct{})
	}
	s.mu.Unlock()
}

func (s *fakeStream) openGate() {
	s.mu.Lock()
	if s.gate != nil {
		close(s.gate)
		s.gate = nil
	}
	s.mu.Unlock()
}

func (s *fakeStream) log() []string {
	s.mu.Lock()
	defer s.mu.Unlock()
	return append([]string(nil), s.msgs...)
}

var _ bifrost_rpc_access.SRPCAccessRpcService_LookupRpcServiceStream = (*fakeStream)(nil)

// ---------------- provider ----------------

type dummyInvoker struct{ n int }

func (d *dummyInvoker) InvokeMethod(serviceID, methodID string, strm srpc.Stream) (bool, error) {
	return false, nil
}

// provHandler is one running resolver of a provider.
type provHandler struct {
	h    directive.ResolverHandler
	live []uint32 // ids of live INVOKER values (the providers the property speaks of)
	dead bool
	// foreign: ids of live values that are NOT srpc.Invoker (a resolver may
	// attach anything to the directive); they are no providers.
	foreign []uint32
	// gone: ids that were live once and have been removed (for repeated removal)
	gone []uint32
	// lastInv: the invoker object added last (re-added by "add-same")
	lastInv *dummyInvoker
	// exit: the harness tells the resolver function to RETURN with this error
	// (nil, context.Canceled, another error); the directive and the values the
	// resolver attached stay
	exit   chan error
	exited bool
}

// errResolverFailed is the "other error" a provider resolver may exit with.
var errResolverFailed = errors.New("c36: provider resolver failed")

// notAnInvoker is a value type that does not implement srpc.Invoker.
type notAnInvoker struct{ n int }

// foreignValue returns a value that is not an srpc.Invoker. k selects the kind.
func foreignValue(k int) (directive.Value, string) {
	switch k % 6 {
	case 0:
		return "not an rpc service", "string"
	case 1:
		return struct{}{}, "empty-struct"
	case 2:
		return &notAnInvoker{k}, "pointer"
	case 3:
		return k, "int"
	case 4:
		return nil, "nil"
	}
	return func() {}, "func"
}

type provider struct {
	name      string
	eagerVals int
	eagerIdle bool
	total     *atomic.Int64

	mu       sync.Mutex
	up       bool
	rel      func()
	handlers []*provHandler
	nextVal  int
	started  chan struct{} // pinged when a resolver has registered
	// expectResolver: the lookup directive exists, so adding the controller
	// starts a resolver
	expectResolver bool
}

func (p *provider) GetControllerInfo() *controller.Info {
	return controller.NewInfo("verif/c36/"+p.name, semver.MustParse("0.0.1"), "c36 provider")
}
func (p *provider) Execute(ctx context.Context) error { return nil }
func (p *provider) Close() error                      { return nil }

func (p *provider) HandleDirective(ctx context.Context, di directive.Instance) ([]directive.Resolver, error) {
	d, ok := di.GetDirective().(bifrost_rpc.LookupRpcService)
	if !ok || d.LookupRpcServiceID() != svcID {
		return nil, nil
	}
	return directive.Resolvers(directive.NewFuncResolver(p.resolve)), nil
}

// resolve is the provider's resolver: it registers its handler with the
// harness, performs the eager start-up actions and parks until cancelled.
func (p *provider) resolve(ctx context.Context, h directive.ResolverHandler) error {
	if ctx.Err() != nil {
		return nil // cancelled before it started (provider already removed)
	}
	ph := &provHandler{h: h, exit: make(chan error, 1)}
	p.mu.Lock()
	if !p.up {
		p.mu.Unlock()
		<-ctx.Done()
		return nil
	}
	p.handlers = append(p.handlers, ph)
	for i := 0; i < p.eagerVals; i++ {
		p.nextVal++
		if id, ok := h.AddValue(bifrost_rpc.LookupRpcServiceValue(&dummyInvoker{p.nextVal})); ok {
			ph.live = append(ph.live, id)
		}
	}
	if p.eagerIdle {
		h.MarkIdle(true)
	}
	p.mu.Unlock()
	p.total.Add(1)
	select {
	case p.started <- struct{}{}:
	default:
	}
	select {
	case <-ctx.Done():
		return nil
	case err := <-ph.exit:
		return err
	}
}

// cur returns the current live handler (nil when down / not started).
func (p *provider) cur() *provHandler {
	for i := len(p.handlers) - 1; i >= 0; i-- {
		if !p.handlers[i].dead {
			return p.handlers[i]
		}
	}
	return nil
}

func (p *provider) liveCount() int {
	p.mu.Lock()
	defer p.mu.Unlock()
	n := 0
	for _, h := range p.handlers {
		if !h.dead {
			n += len(h.live)
		}
	}
	return n
}

func (p *provider) foreignCount() int {
	p.mu.Lock()
	defer p.mu.Unlock()
	n := 0
	for _, h := range p.handlers {
		if !h.dead {
			n += len(h.foreign)
		}
	}
	return n
}

func (p *provider) activeHandlers() int {
	p.mu.Lock()
	defer p.mu.Unlock()
	n := 0
	for _, h := range p.handlers {
		if !h.dead {
			n++
		}
	}
	return n
}

// do performs one op; it returns what was actually done.
func (p *provider) do(ctx context.Context, b bus.Bus, op string, pick int) string {
	defer p.total.Add(1)
	if op == "up" {
		p.mu.Lock()
		if p.up {
			p.mu.Unlock()
			return "noop"
		}
		for len(p.started) > 0 {
			<-p.started
		}
		rel, err := b.AddController(ctx, p, nil)
		if err != nil {
			p.mu.Unlock()
			return "up-err"
		}
		p.up, p.rel = true, rel
		wait := p.expectResolver
		p.mu.Unlock()
		if wait {
			// the lookup directive exists: the bus starts this provider's
			// resolver; wait for it (condition) so that later ops reach it
			t := time.NewTimer(watchdog)
			defer t.Stop()
			select {
			case <-p.started:
			case <-t.C:
				return "up-nostart"
			}
		}
		return "up"
	}
	p.mu.Lock()
	defer p.mu.Unlock()
	switch op {
	case "down":
		if !p.up {
			return "noop"
		}
		p.rel()
		p.up, p.rel = false, nil
		for _, h := range p.handlers {
			h.dead = true
			h.live, h.foreign = nil, nil
		}
		return "down"
	}
	h := p.cur()
	if !p.up || h == nil {
		return "noop"
	}
	switch op {
	case "exit-nil", "exit-canceled", "exit-err":
		// the resolver function returns (the provider gives up / finishes /
		// fails); the controller stays, the directive stays, its values stay
		if h.exited {
			return "noop"
		}
		h.exited = true
		switch op {
		case "exit-nil":
			h.exit <- nil
		case "exit-canceled":
			h.exit <- context.Canceled
		default:
			h.exit <- errResolverFailed
		}
		return op
	case "add":
		p.nextVal++
		inv := &dummyInvoker{p.nextVal}
		if id, ok := h.h.AddValue(bifrost_rpc.LookupRpcServiceValue(inv)); ok {
			h.live = append(h.live, id)
			h.lastInv = inv
			return "add"
		}
		return "add-rejected"
	case "add-same": // the same invoker object once more: a second live provider value
		if h.lastInv == nil {
			return "noop"
		}
		if id, ok := h.h.AddValue(bifrost_rpc.LookupRpcServiceValue(h.lastInv)); ok {
			h.live = append(h.live, id)
			return "add-same"
		}
		return "add-rejected"
	case "fadd": // a value that is no provider
		p.nextVal++
		v, kind := foreignValue(p.nextVal + pick)
		if id, ok := h.h.AddValue(v); ok {
			h.foreign = append(h.foreign, id)
			return "fadd-" + kind
		}
		return "fadd-rejected"
	case "fremove":
		if len(h.foreign) == 0 {
			return "noop"
		}
		k := pick % len(h.foreign)
		id := h.foreign[k]
		if _, found := h.h.RemoveValue(id); found {
			h.foreign = append(h.foreign[:k], h.foreign[k+1:]...)
			h.gone = append(h.gone, id)
			return "fremove"
		}
		return "fremove-notfound"
	case "rm-again": // remove an id that has been removed before
		if len(h.gone) == 0 {
			return "noop"
		}
		if _, found := h.h.RemoveValue(h.gone[pick%len(h.gone)]); found {
			return "rm-again-FOUND" // the bus handed out an id twice: harness assumption broken
		}
		return "rm-again"
	case "rm-bogus": // remove an id that was never handed out
		if _, found := h.h.RemoveValue(uint32(1<<30 + pick)); found {
			return "rm-bogus-FOUND"
		}
		return "rm-bogus"
	case "clear": // the resolver withdraws everything it attached
		h.h.ClearValues()
		h.gone = append(append(h.gone, h.live...), h.foreign...)
		h.live, h.foreign = nil, nil
		return "clear"
	case "remove":
		if len(h.live) == 0 {
			return "noop"
		}
		k := pick % len(h.live)
		id := h.live[k]
		if _, found := h.h.RemoveValue(id); found {
			h.live = append(h.live[:k], h.live[k+1:]...)
			h.gone = append(h.gone, id)
			return "remove"
		}
		return "remove-notfound"
	case "idle":
		h.h.MarkIdle(true)
		return "idle"
	case "busy":
		h.h.MarkIdle(false)
		return "busy"
	}
	return "noop"
}

// ---------------- one history ----------------

type step struct {
	kind string     // "op", "burst", "gate-close", "gate-open", "checkpoint", "stream2"
	ops  [][]string // per provider op lists (op: provider index implied by slot)
	prov int
	op   string
	pick int
}

type history struct {
	nProv         int
	up            []bool
	eagerVals     []int
	eagerIdle     []bool
	observerFirst bool
	steps         []step
}

func (h *history) String() string {
	var sb strings.Builder
	fmt.Fprintf(&sb, "prov=%d up=%v eager=%v eagerIdle=%v observerFirst=%v :", h.nProv, h.up, h.eagerVals, h.eagerIdle, h.observerFirst)
	for _, s := range h.steps {
		switch s.kind {
		case "op":
			fmt.Fprintf(&sb, " p%d.%s", s.prov, s.op)
		case "flood":
			fmt.Fprintf(&sb, " flood{p%d:%s}", s.prov, strings.Join(s.ops[0], ","))
		case "burst":
			sb.WriteString(" burst{")
			for i, l := range s.ops {
				if len(l) > 0 {
					fmt.Fprintf(&sb, "p%d:%s;", i, strings.Join(l, ","))
				}
			}
			sb.WriteString("}")
		default:
			sb.WriteString(" " + s.kind)
		}
	}
	return sb.String()
}

// simProv is the generator's own model of a provider (to pick ops that do
// something).
type simProv struct {
	up      bool
	live    int
	foreign int
	// foreignOps: this provider's resolver also attaches / withdraws values that
	// are not providers and performs odd removals
	foreignOps bool
}

func pickOp(rng *rand.Rand, sp *simProv, eager int) string {
	if !sp.up {
		if rng.IntN(10) < 8 {
			sp.up, sp.live, sp.foreign = true, eager, 0
			return "up"
		}
		return "add" // addressed to a removed provider: must change nothing
	}
	if sp.foreignOps && rng.IntN(100) < 45 {
		y := rng.IntN(100)
		switch {
		case y < 35:
			sp.foreign++
			return "fadd"
		case y < 70 && sp.foreign > 0:
			sp.foreign--
			return "fremove"
		case y < 78:
			return "rm-again"
		case y < 84:
			return "rm-bogus"
		case y < 92 && sp.live > 0:
			sp.live++
			return "add-same"
		case y < 96:
			sp.live, sp.foreign = 0, 0
			return "clear"
		}
		sp.foreign++
		return "fadd"
	}
	x := rng.IntN(100)
	switch {
	case x < 35:
		sp.live++
		return "add"
	case x < 65 && sp.live > 0:
		sp.live--
		return "remove"
	case x < 75:
		return "idle"
	case x < 85:
		return "busy"
	case x < 97:
		sp.up, sp.live, sp.foreign = false, 0, 0
		return "down"
	}
	return "remove"
}

func genHistory(rng *rand.Rand) *history {
	h := &history{nProv: rng.IntN(4)}
	sim := make([]*simProv, h.nProv)
	for i := 0; i < h.nProv; i++ {
		h.up = append(h.up, rng.IntN(10) < 7)
		h.eagerVals = append(h.eagerVals, []int{0, 0, 1, 1, 2}[rng.IntN(5)])
		h.eagerIdle = append(h.eagerIdle, rng.IntN(2) == 0)
		sim[i] = &simProv{up: h.up[i], foreignOps: rng.IntN(2) == 0}
		if h.up[i] {
			sim[i].live = h.eagerVals[i]
		}
	}
	h.observerFirst = rng.IntN(10) < 3
	n := 4 + rng.IntN(13)
	stream2 := rng.IntN(3) == 0
	for i := 0; i < n; i++ {
		x := rng.IntN(100)
		switch {
		case h.nProv > 0 && x < 40:
			p := rng.IntN(h.nProv)
			h.steps = append(h.steps, step{kind: "op", prov: p, op: pickOp(rng, sim[p], h.eagerVals[p]), pick: rng.IntN(8)})
		case h.nProv > 0 && x < 75:
			s := step{kind: "burst", pick: rng.IntN(8)}
			for p := 0; p < h.nProv; p++ {
				var l []string
				for k := rng.IntN(6); k > 0; k-- {
					l = append(l, pickOp(rng, sim[p], h.eagerVals[p]))
				}
				s.ops = append(s.ops, l)
			}
			h.steps = append(h.steps, s)
		case x < 80:
			h.steps = append(h.steps, step{kind: "gate-close"})
		case x < 87:
			h.steps = append(h.steps, step{kind: "gate-open"})
		case x < 92 && stream2:
			stream2 = false
			h.steps = append(h.steps, step{kind: "stream2"})
		default:
			h.steps = append(h.steps, step{kind: "checkpoint"})
		}
	}
	h.steps = append(h.steps, step{kind: "gate-open"}, step{kind: "checkpoint"})
	return h
}

// decorate adds, from a PRNG stream of its own, the two history classes that
// the base generator does not produce:
//
//   - resolver exits: a provider's resolver function RETURNS (nil /
//     context.Canceled / another error) while the lookup stream is open; the
//     provider keeps its values and may later be removed and added again (a
//     fresh resolver replaces the exited one);
//   - floods: the stream's Send gate is held while 40-100 effective provider
//     changes (availability and idle toggles) happen, then released.
func decorate(rng *rand.Rand, h *history) {
	if h.nProv == 0 {
		return
	}
	if rng.IntN(100) < 45 {
		for k := 1 + rng.IntN(3); k > 0; k-- {
			op := []string{"exit-canceled", "exit-canceled", "exit-nil", "exit-err"}[rng.IntN(4)]
			p := rng.IntN(h.nProv)
			// position: anywhere before the final (gate-open, checkpoint) pair
			pos := rng.IntN(len(h.steps) - 1)
			if s := &h.steps[pos]; s.kind == "burst" && rng.IntN(2) == 0 {
				l := s.ops[p]
				at := rng.IntN(len(l) + 1)
				l = append(l[:at:at], append([]string{op}, l[at:]...)...)
				s.ops[p] = l
				continue
			}
			ns := step{kind: "op", prov: p, op: op}
			h.steps = append(h.steps[:pos:pos], append([]step{ns}, h.steps[pos:]...)...)
		}
	}
	if rng.IntN(100) < 20 {
		p := rng.IntN(h.nProv)
		n := 40 + rng.IntN(61)
		var l []string
		for len(l) < n {
			switch rng.IntN(4) {
			case 0:
				l = append(l, "add", "remove")
			case 1:
				l = append(l, "busy", "idle")
			case 2:
				l = append(l, "add", "busy", "remove", "idle")
			default:
				l = append(l, "busy", "add", "idle", "remove")
			}
		}
		blk := []step{{kind: "gate-close"}, {kind: "flood", prov: p, ops: [][]string{l}, pick: rng.IntN(8)},
			{kind: "checkpoint"}, {kind: "gate-open"}, {kind: "checkpoint"}}
		pos := rng.IntN(len(h.steps) - 1)
		h.steps = append(h.steps[:pos:pos], append(blk, h.steps[pos:]...)...)
	}
}

var selGoroutines = []string{"bifrost/rpc/access", "controllerbus", "verifharness/checks/c36.(*provider)", "verifharness/checks/c36.(*runningStream)"}

type idleObs struct {
	mu   sync.Mutex
	seen bool
	idle bool
	n    int
}

type runningStream struct {
	s    *fakeStream
	done chan error
	// returned: the LookupRpcService call has returned
	returned atomic.Bool
}

// run runs the real call. A method, so that the goroutine is selected by the
// quiescence detector until the returned flag is set.
func (rs *runningStream) run(srv *bifrost_rpc_access.AccessRpcServiceServer, req *bifrost_rpc_access.LookupRpcServiceRequest, total *atomic.Int64) {
	err := srv.LookupRpcService(req, rs.s)
	rs.returned.Store(true)
	total.Add(1)
	rs.done <- err
}

// runHistory executes one history and judges it. Returns whether any report
// was observed (non-trivial) and a signature of the observed response logs.
func runHistory(r *vf.Run, h *history, idx int) (nontrivial bool, obsSig string) {
	ctx, cancel := context.WithCancel(context.Background())
	defer cancel()
	le := g11dir.QuietLogger()
	b, _, err := core.NewCoreBus(ctx, le)
	if err != nil {
		r.Inconclusive("NewCoreBus: " + err.Error())
		return false, ""
	}
	var total atomic.Int64
	provs := make([]*provider, h.nProv)
	for i := range provs {
		provs[i] = &provider{name: fmt.Sprintf("p%d", i), eagerVals: h.eagerVals[i], eagerIdle: h.eagerIdle[i], total: &total, started: make(chan struct{}, 16)}
	}
	for i, p := range provs {
		if h.up[i] {
			p.do(ctx, b, "up", 0)
		}
	}
	srv := bifrost_rpc_access.NewAccessRpcServiceServer(b, false, nil)
	req := bifrost_rpc_access.NewLookupRpcServiceRequest(svcID, srvID)
	var streams []*runningStream
	startStream := func() *runningStream {
		rs := &runningStream{s: newFakeStream(ctx, fmt.Sprintf("s%d", len(streams)+1), &total), done: make(chan error, 1)}
		streams = append(streams, rs)
		go rs.run(srv, req, &total)
		return rs
	}

	obs := &idleObs{}
	var obsRef directive.Reference
	addObserver := func() bool {
		di, ref, err := b.AddDirective(bifrost_rpc.NewLookupRpcService(svcID, srvID), nil)
		if err != nil {
			r.Inconclusive("observer AddDirective: " + err.Error())
			return false
		}
		obsRef = ref
		di.AddIdleCallback(func(isIdle bool, errs []error) {
			obs.mu.Lock()
			obs.seen, obs.idle = true, isIdle
			obs.n++
			obs.mu.Unlock()
			total.Add(1)
		})
		return true
	}
	defer func() {
		if obsRef != nil {
			obsRef.Release()
		}
	}()

	counters := func() string {
		return fmt.Sprint(total.Load())
	}
	quiesce := func(where string) bool {
		ok, snap := g11dir.Quiesce(selGoroutines, counters, watchdog)
		if !ok {
			r.Inconclusive(fmt.Sprintf("history %d: no quiescence at %s (busy: %v)", idx, where, snap.Busy))
		}
		return ok
	}

	if h.observerFirst {
		if !addObserver() {
			return false, ""
		}
		if !quiesce("observer-first") {
			return false, ""
		}
	}
	startStream()
	if !h.observerFirst {
		// wait (condition) until the server's directive exists, then join it
		t := time.NewTimer(watchdog)
		for {
			found := false
			for _, di := range b.GetDirectives() {
				if d, ok := di.GetDirective().(bifrost_rpc.LookupRpcService); ok && d.LookupRpcServiceID() == svcID {
					found = true
				}
			}
			if found {
				break
			}
			select {
			case <-t.C:
				r.Inconclusive(fmt.Sprintf("history %d: server never added its directive", idx))
				return false, ""
			default:
				time.Sleep(100 * time.Microsecond)
			}
		}
		t.Stop()
		if !addObserver() {
			return false, ""
		}
	}

	for _, p := range provs {
		p.mu.Lock()
		p.expectResolver = true
		p.mu.Unlock()
	}

	gateClosed := false
	// fatalExit: a resolver has been told to exit with an error other than
	// context.Canceled. The server ends the stream with that error once the
	// directive is idle; a stream that has returned owes no further reports.
	var fatalExit atomic.Bool
	witness := func() map[string]any {
		w := map[string]any{"history": h.String(), "index": idx}
		for _, rs := range streams {
			w["responses_"+rs.s.name] = strings.Join(rs.s.log(), "")
		}
		live := 0
		for _, p := range provs {
			live += p.liveCount()
		}
		w["live_provider_values"] = live
		nf := 0
		for _, p := range provs {
			nf += p.foreignCount()
		}
		w["live_values_that_are_no_providers"] = nf
		obs.mu.Lock()
		w["directive_idle_observed"] = obs.idle
		obs.mu.Unlock()
		return w
	}

	// safety part of the oracle: can be evaluated on any prefix.
	checkSeq := func() {
		for _, rs := range streams {
			lastEx, lastIdle := "", ""
			for k, m := range rs.s.log() {
				switch m {
				case "E", "R":
					if lastEx == "" && m == "R" {
						r.Violation("c36/removed-before-exists", fmt.Sprintf("stream %s: Removed reported before any Exists (message %d)", rs.s.name, k), witness())
					} else if lastEx == m {
						key := "c36/exists-twice"
						if m == "R" {
							key = "c36/removed-twice"
						}
						r.Violation(key, fmt.Sprintf("stream %s: %s reported twice in a row (message %d)", rs.s.name, m, k), witness())
					}
					lastEx = m
				case "I", "B":
					if lastIdle == m {
						r.Violation("c36/idle-report-repeated", fmt.Sprintf("stream %s: idle=%v reported twice in a row (message %d)", rs.s.name, m == "I", k), witness())
					}
					lastIdle = m
				default:
					r.Violation("c36/malformed-response", fmt.Sprintf("stream %s: response %s mixes report kinds", rs.s.name, m), witness())
				}
			}
		}
	}

	// quiescent part of the oracle.
	checkQuiescent := func(where string) {
		live := 0
		for _, p := range provs {
			live += p.liveCount()
		}
		obs.mu.Lock()
		idleTruth, idleKnown := obs.idle, obs.seen
		obs.mu.Unlock()
		for _, rs := range streams {
			lastEx, lastIdle := "", ""
			for _, m := range rs.s.log() {
				switch m {
				case "E", "R":
					lastEx = m
				case "I", "B":
					lastIdle = m
				}
			}
			if fatalExit.Load() && rs.returned.Load() {
				r.Count("quiescent_checks_skipped_stream_ended_by_resolver_error", 1)
				continue
			}
			r.Count("quiescent_checks", 1)
			if live > 0 && lastEx != "E" {
				r.Violation("c36/quiescent-not-reported-exists", fmt.Sprintf("stream %s at %s: %d provider value(s) live but the last availability report is %q", rs.s.name, where, live, lastEx), witness())
			}
			if live == 0 && lastEx == "E" {
				r.Violation("c36/quiescent-stale-exists", fmt.Sprintf("stream %s at %s: no provider value live but the last availability report is Exists", rs.s.name, where), witness())
			}
			if idleKnown {
				reported := lastIdle == "I"
				if reported != idleTruth {
					r.Violation("c36/quiescent-idle-mismatch", fmt.Sprintf("stream %s at %s: directive idle=%v but last idle report says %v (%q)", rs.s.name, where, idleTruth, reported, lastIdle), witness())
				}
			}
		}
	}

	waitHandlers := func() bool {
		// every up provider must have its resolver registered before ops are
		// addressed to it (condition wait)
		t := time.NewTimer(watchdog)
		defer t.Stop()
		for {
			ok := true
			for _, p := range provs {
				p.mu.Lock()
				up := p.up
				p.mu.Unlock()
				if up && p.activeHandlers() == 0 {
					ok = false
				}
			}
			if ok {
				return true
			}
			select {
			case <-t.C:
				r.Inconclusive(fmt.Sprintf("history %d: provider resolver never started", idx))
				return false
			default:
				time.Sleep(100 * time.Microsecond)
			}
		}
	}

	for si, s := range h.steps {
		switch s.kind {
		case "op":
			if !waitHandlers() {
				return false, ""
			}
			if s.op == "exit-err" {
				// set before the op: the stream may end as soon as it is done
				p := provs[s.prov]
				p.mu.Lock()
				if h := p.cur(); p.up && h != nil && !h.exited {
					fatalExit.Store(true)
				}
				p.mu.Unlock()
			}
			res := provs[s.prov].do(ctx, b, s.op, s.pick)
			r.Count("ops_"+res, 1)
			if res == "up-nostart" {
				r.Inconclusive(fmt.Sprintf("history %d: provider resolver never started after up", idx))
				return false, ""
			}
		case "burst":
			if !waitHandlers() {
				return false, ""
			}
			var wg sync.WaitGroup
			for pi, l := range s.ops {
				if len(l) == 0 {
					continue
				}
				for _, op := range l {
					if op == "exit-err" {
						// inside a burst the provider may go up / down before the
						// op: whether it takes effect is known only afterwards
						fatalExit.Store(true)
					}
				}
				wg.Add(1)
				go func(p *provider, l []string) {
					defer wg.Done()
					for k, op := range l {
						res := p.do(ctx, b, op, s.pick+k)
						r.Count("ops_"+res, 1)
					}
				}(provs[pi], l)
			}
			wg.Wait()
			r.Count("bursts", 1)
		case "flood":
			// the streams' Send is held (preceding gate-close): everything the
			// server wants to report piles up behind the one Send in flight.
			// First bring the directive to "no provider value, every resolver
			// idle" so that each add/remove and busy/idle pair is a change.
			if !waitHandlers() {
				return false, ""
			}
			for _, p := range provs {
				r.Count("ops_"+p.do(ctx, b, "clear", 0), 1)
				r.Count("ops_"+p.do(ctx, b, "idle", 0), 1)
			}
			if res := provs[s.prov].do(ctx, b, "up", 0); res == "up-nostart" {
				r.Inconclusive(fmt.Sprintf("history %d: provider resolver never started after up", idx))
				return false, ""
			}
			if !waitHandlers() {
				return false, ""
			}
			provs[s.prov].do(ctx, b, "clear", 0)
			provs[s.prov].do(ctx, b, "idle", 0)
			for k, op := range s.ops[0] {
				r.Count("ops_"+provs[s.prov].do(ctx, b, op, s.pick+k), 1)
			}
			r.Count("floods", 1)
			r.Count("flood_ops", len(s.ops[0]))
		case "gate-close":
			for _, rs := range streams {
				rs.s.closeGate()
			}
			gateClosed = true
		case "gate-open":
			for _, rs := range streams {
				rs.s.openGate()
			}
			gateClosed = false
		case "stream2":
			rs := startStream()
			if gateClosed {
				rs.s.closeGate()
			}
			r.Count("second_streams", 1)
		case "checkpoint":
			if !waitHandlers() {
				return false, ""
			}
			if !quiesce(fmt.Sprintf("step %d", si)) {
				return false, ""
			}
			checkSeq()
			if !gateClosed {
				checkQuiescent(fmt.Sprintf("step %d", si))
			}
			r.Count("checkpoints", 1)
		}
	}

	// end: cancel the streams; the calls must return.
	for _, rs := range streams {
		before := len(rs.s.log())
		rs.s.cancel()
		t := time.NewTimer(watchdog)
		select {
		case <-rs.done:
			r.Count("streams_returned_after_cancel", 1)
		case <-t.C:
			r.Inconclusive(fmt.Sprintf("history %d: LookupRpcService did not return after stream cancel", idx))
		}
		t.Stop()
		_ = before
	}
	checkSeq()
	var sigs []string
	for _, rs := range streams {
		l := strings.Join(rs.s.log(), "")
		if l != "" {
			nontrivial = true
		}
		sigs = append(sigs, l)
		r.Distinct("response_sequences", l)
		for _, m := range rs.s.log() {
			r.Count("responses_"+m, 1)
		}
	}
	return nontrivial, strings.Join(sigs, "|")
}

func TestCheck(t *testing.T) {
	r := vf.Start(t, "C36", vf.Exploration)
	defer r.Finish()
	r.SetRule("histories from a PRNG: 0-3 harness provider controllers on a real in-memory bus (initially up or down, eager start-up values 0-2, eager idle), 3-12 steps drawn from {single op, concurrent burst of 0-4 ops per provider, close/open the stream's Send gate, start a second lookup stream, checkpoint}; ops = add value, remove value, mark idle, mark busy, remove the provider controller, add it again; from a second PRNG stream 45% of the histories get 1-3 RESOLVER EXITS (the provider's resolver function returns nil / context.Canceled / another error while the lookup stream is open; its values stay, a later remove+add of the provider replaces it by a fresh resolver) placed as single ops or inside bursts, and 20% get a FLOOD (Send gate closed, directive brought to no value / all idle, then 40-100 add/remove and busy/idle toggles of one provider, checkpoint, gate opened, checkpoint); a stream that has returned after a resolver was told to exit with an error other than context.Canceled owes no further reports (the server ends the stream with that error), every other stream does; half of the providers additionally perform FOREIGN operations on the same directive: attach a value that is not an srpc.Invoker (string, struct, pointer, int, nil, func), withdraw such a value, remove an id that was removed before, remove an id that was never handed out, attach the same invoker object a second time, ClearValues. Ground truth = the harness' own count of live INVOKER values only. The real AccessRpcServiceServer.LookupRpcService runs against a recording harness stream. Oracle per stream: Exists/Removed strictly alternate starting with Exists; idle reports never repeat a value; at every checkpoint (all harness goroutines joined, every bus/server goroutine parked in two+ consecutive stack snapshots with unchanged counters, gate open) last availability report = Exists <=> the harness' own count of live provider values > 0, and last idle report = the directive's idle state seen by an independent idle callback; after cancelling the stream the call returns. A history is non-trivial when at least one report was sent; distinct = distinct history script. Plus: MarshalComponentID/UnmarshalComponentID round trip of many requests in one process: PRNG (service, server) strings and structured families of confusable requests - boundary-shifted pairs over every ASCII character (NUL included) and some multi-byte strings as separator (service+sep+server resp. server+sep+service coincide, separator at the boundary, doubled separator, empty server id), swapped pairs, pairs sharing one field, pairs sharing a long prefix; all interleaved in a PRNG order, then every request once more from 8 goroutines in another order; each decoded result must equal its own request and one component id must never be issued for two different requests; no panic on arbitrary component ids.")
	r.Assume("controllerbus delivers value added/removed and idle callbacks of one directive instance in order (its per-instance callback queue); the provider controllers and the idle observer are harness code")
	r.Assume("quiescence = every goroutine whose stack mentions rpc/access, controllerbus or a harness provider is parked (select / chan receive / chan send / cond wait) in 3 consecutive dumps with no harness counter change; watchdog expiry is inconclusive, never a verdict")

	rng := r.Rand("c36-histories")
	drng := r.Rand("c36-exits-floods")
	n := r.N(400, 6000)
	for i := 0; i < n; i++ {
		h := genHistory(rng)
		decorate(drng, h)
		r.Begin(fmt.Sprintf("history %d: %s", i, h))
		nt, obs := runHistory(r, h, i)
		r.Case(h.String(), nt)
		r.Distinct("histories", h.String())
		if i < 4 {
			r.Sample(map[string]any{"history": h.String(), "responses": obs})
		}
	}

	// ---- component id round trip ----
	crng := r.Rand("c36-component-id")
	m := r.N(3000, 200000)
	alph := []rune("ab/._-:|{}\"\\ \x00é日本🙂AZ09")
	randStr := func() string {
		l := crng.IntN(24)
		if crng.IntN(20) == 0 {
			l = crng.IntN(600)
		}
		var sb strings.Builder
		for k := 0; k < l; k++ {
			sb.WriteRune(alph[crng.IntN(len(alph))])
		}
		return sb.String()
	}
	// The request list: PRNG requests plus structured families of requests that
	// are easy to confuse with each other: boundary-shifted pairs (the bytes of
	// service id and server id joined by a separator-like string coincide although
	// the requests differ), swapped pairs, pairs sharing one field, pairs sharing
	// a long prefix, repeated requests. All of them are encoded in ONE process,
	// each decoded result is compared with its own request.
	type cidReq struct{ svc, srv, how string }
	var reqs []cidReq
	for i := 0; i < m; i++ {
		reqs = append(reqs, cidReq{randStr(), randStr(), "prng"})
	}
	var seps []string
	for c := 0; c < 128; c++ { // every ASCII character as a separator, NUL included
		seps = append(seps, string(rune(c)))
	}
	seps = append(seps, "", "::", "//", "->", ", ", "\r\n", "é", "日", "\u2028", "%2F", "\x00\x00")
	segAlph := []rune("abz09AZ.-_é")
	seg := func(min int) string {
		l := min + crng.IntN(6)
		var sb strings.Builder
		for k := 0; k < l; k++ {
			sb.WriteRune(segAlph[crng.IntN(len(segAlph))])
		}
		return sb.String()
	}
	reqs = append(reqs, cidReq{"plugin/echo.Echoer", "host", "shift"}, cidReq{"plugin", "echo.Echoer/host", "shift"})
	nShift := 0
	for rep := 0; rep < r.N(3, 40); rep++ {
		for _, sep := range seps {
			x, y, z := seg(1), seg(0), seg(1)
			if rep%3 == 2 {
				y = "" // the separator sits directly at the boundary: (x+sep, z) vs (x, sep+z)
			}
			// service+sep+server coincide
			reqs = append(reqs, cidReq{x + sep + y, z, "shift"}, cidReq{x, y + sep + z, "shift"})
			// server+sep+service coincide
			reqs = append(reqs, cidReq{y + sep + z, x, "shift-reversed"}, cidReq{z, x + sep + y, "shift-reversed"})
			// the separator doubled / escaped-looking variants
			reqs = append(reqs, cidReq{x + sep, sep + z, "shift"}, cidReq{x + sep + sep, z, "shift"}, cidReq{x, sep + sep + z, "shift"})
			// the empty server id next to a service id ending in the separator
			reqs = append(reqs, cidReq{x + sep, "", "shift-empty"}, cidReq{x, sep, "shift-empty"})
			nShift += 9
		}
	}
	for rep := 0; rep < r.N(200, 5000); rep++ {
		x, y, z := seg(1), seg(1), seg(1)
		reqs = append(reqs, cidReq{x, y, "swapped"}, cidReq{y, x, "swapped"})
		reqs = append(reqs, cidReq{x, y, "same-service"}, cidReq{x, z, "same-service"}, cidReq{x, "", "same-service"})
		reqs = append(reqs, cidReq{y, x, "same-server"}, cidReq{z, x, "same-server"})
		reqs = append(reqs, cidReq{x + y, x + y, "service-equals-server"}, cidReq{x + y, "", "service-equals-server"})
		if rep%10 == 0 {
			long := strings.Repeat(seg(1), 20+crng.IntN(200))
			reqs = append(reqs, cidReq{long + "a", y, "long-prefix"}, cidReq{long + "b", y, "long-prefix"}, cidReq{long, "a" + y, "long-prefix"},
				cidReq{y, long + "a", "long-prefix"}, cidReq{y, long + "b", "long-prefix"})
		}
	}
	// order: the structured families are interleaved with the PRNG requests
	crng.Shuffle(len(reqs), func(i, j int) { reqs[i], reqs[j] = reqs[j], reqs[i] })
	type cidKey struct{ svc, srv string }
	var cidMu sync.Mutex
	idOwner := map[string]cidKey{} // component id -> the request it was issued for
	checkOne := func(q cidReq, pass string) {
		svc, srv := q.svc, q.srv
		req := bifrost_rpc_access.NewLookupRpcServiceRequest(svc, srv)
		var id string
		var err error
		if p, d := vf.Try(func() { id, err = req.MarshalComponentID() }); p {
			r.Violation("c36/component-id/marshal-panic", "MarshalComponentID panicked: "+d, map[string]any{"service": svc, "server": srv})
			return
		}
		valid := svc != "" && req.Validate() == nil // a lookup request needs a service id ("Cannot be empty")
		r.Case(fmt.Sprintf("cid|%q|%q", svc, srv), valid && utf8.ValidString(svc) && utf8.ValidString(srv))
		if !valid {
			// (service "", server "") encodes to the empty component id, which the
			// decoder rejects; not a lookup request, nothing demanded.
			r.Count("component_id_invalid_requests_skipped", 1)
			return
		}
		if err != nil {
			r.Count("component_id_marshal_errors", 1)
			return
		}
		out := &bifrost_rpc_access.LookupRpcServiceRequest{}
		var uerr error
		if p, d := vf.Try(func() { uerr = out.UnmarshalComponentID(id) }); p {
			r.Violation("c36/component-id/unmarshal-panic", "UnmarshalComponentID panicked: "+d, map[string]any{"service": svc, "server": srv, "component_id": id})
			return
		}
		r.Count("component_id_round_trips", 1)
		r.Count("component_id_round_trips_"+q.how, 1)
		if uerr != nil || out.GetServiceId() != svc || out.GetServerId() != srv {
			r.Violation("c36/component-id/round-trip", fmt.Sprintf("request (service %q, server %q) -> component id %q -> (service %q, server %q, err %v)", svc, srv, id, out.GetServiceId(), out.GetServerId(), uerr),
				map[string]any{"service": svc, "server": srv, "component_id": id, "decoded_service": out.GetServiceId(), "decoded_server": out.GetServerId(), "error": fmt.Sprint(uerr), "family": q.how, "pass": pass})
		}
		cidMu.Lock()
		prev, seen := idOwner[id]
		if !seen {
			idOwner[id] = cidKey{svc, srv}
		}
		cidMu.Unlock()
		if seen && prev != (cidKey{svc, srv}) {
			r.Violation("c36/component-id/shared-by-different-requests", fmt.Sprintf("requests (service %q, server %q) and (service %q, server %q) were both encoded to component id %q, so at most one of them can decode back to itself", prev.svc, prev.srv, svc, srv, id),
				map[string]any{"service": svc, "server": srv, "other_service": prev.svc, "other_server": prev.srv, "component_id": id, "family": q.how, "pass": pass})
		}
	}
	for i, q := range reqs {
		if i%50 == 0 {
			r.Begin(fmt.Sprintf("component id round trip service=%q server=%q", q.svc, q.srv))
		}
		checkOne(q, "sequential")
	}
	// second pass: every request is encoded again, in another order and from
	// several goroutines at once (an encoder with memory must still give every
	// request an id of its own)
	perm := crng.Perm(len(reqs))
	r.Begin(fmt.Sprintf("component id round trip, concurrent second pass over %d requests", len(reqs)))
	{
		var wg sync.WaitGroup
		var next atomic.Int64
		for g := 0; g < 8; g++ {
			wg.Add(1)
			go func() {
				defer wg.Done()
				for {
					k := int(next.Add(1)) - 1
					if k >= len(perm) {
						return
					}
					checkOne(reqs[perm[k]], "concurrent-second-pass")
				}
			}()
		}
		wg.Wait()
	}
	r.Extra("component_id_requests", len(reqs))
	r.Extra("component_id_boundary_shifted_requests", nShift+2)
	r.Extra("component_id_separators", len(seps))
	r.Extra("component_id_distinct_ids", len(idOwner))
	// arbitrary component ids: decoder is total
	b58 := []rune("123456789ABCDEFGHJKLMNPQRSTUVWXYZabcdefghijkmnopqrstuvwxyz")
	junk := []rune("0OIl+/= \x00é")
	for i := 0; i < r.N(3000, 100000); i++ {
		l := crng.IntN(40)
		var sb strings.Builder
		for k := 0; k < l; k++ {
			if crng.IntN(12) == 0 {
				sb.WriteRune(junk[crng.IntN(len(junk))])
			} else {
				sb.WriteRune(b58[crng.IntN(len(b58))])
			}
		}
		id := sb.String()
		out := &bifrost_rpc_access.LookupRpcServiceRequest{}
		if p, d := vf.Try(func() { _ = out.UnmarshalComponentID(id) }); p {
			r.Violation("c36/component-id/unmarshal-panic", "UnmarshalComponentID panicked on arbitrary input: "+d, map[string]any{"component_id": id})
		}
		r.Count("component_id_arbitrary_decodes", 1)
	}
}
